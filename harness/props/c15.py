"""
C15 — models are isolated: queries are pure, fit depends only on settings and data.

Theorems: lean/PyGam/Props/C15.lean about `PyGam.Heap.step` / `run` (Model/Heap.lean, the object graph of
GAM.__init__ / fit / gridsearch / sample / set_params / deepcopy / pickle: which calls copy, which share, which
write in place): separation invariant after every history, frame rules of queries / sample / gridsearch,
`fit` history-free (binding of coef_/statistics_ determined by current settings + data; all data-dependent term
state overwritten), models isolated, expressions untouched, keep_best copies the winner by value.

Correspondence (every run): random call histories (<= 8 ops quick, <= 20 thorough) over 2-3 models built from
shared term expressions and 3 (+3 query) data sets are executed on the real objects and — with the iteration
counts and grid-search winners observed there — on the Lean `World`; after every op the observable summary of
every live model is compared (fitted?, tol/max_iter, n_coefs, per term: lam, spline_order, n_splines, edge knots;
log length; scale set?), the outcome class of queries on unfitted models, and the model's own fresh-fit check.

Forced histories (every run, histories k = 5 mod 25; `forced_variant`): one caller-held expression with data-derived knots /
categories is assigned to two constructed models (`gam.terms = e` / `set_params(terms=e)`, all four orders; one model possibly
fitted before; lam of one possibly changed before its fit), the two are fitted on data sets with different ranges and numbers
of categories, a third model is constructed from the same expression and fitted on a third data set, with queries in between.
Which models, which data and which term mix is fixed by (seed, k) arithmetic: detection of shared term state does not depend
on the draw.  Judged by the same oracles as the random histories (stream `history.assigned-expression` counts them).

Oracles on the real code (NumPy only):
  * isolation: a digest of everything reachable from every live model (and of every caller-held expression)
    before / after every call: calls on model a leave every b != a bit-identical, query calls (predict, intervals,
    partial dependence, likelihood, residuals, summary, sample, gridsearch(keep_best=False) on a fitted model)
    leave every model bit-identical;
  * fresh fit: after every fit (and for every grid-search candidate) a brand-new model with the intended settings
    (tracked by the harness with plain value semantics) fitted on the same data predicts the same
    (1e-10 for normal/identity; tolerance tied to `tol` where PIRLS iterates from a warm start);
  * harness-only (outside the model): caller arrays X / y / weights / exposure bit-identical before / after every
    public call, for float64 C/F order, float32, int, non-contiguous views, read-only arrays and lists;
    predictions are row-wise (subset / permutation / repetition of rows).
"""
import contextlib
import copy
import hashlib
import io
import json
import multiprocessing
import os
import pickle
import random

import numpy as np

from harness import common

LAMS = [0.6, 0.01, 0.1, 1.0, 10.0, 100.0, 1000.0, 3.3]
MSETS = [(1e-4, 100), (1e-6, 200), (1e-8, 400), (1e-5, 150)]
USER_KNOTS = {1001: [-3.0, 4.0], 1002: [-2.25, 3.5]}
NF = 3
N_TRAIN = 3          # data ids 0..2 training sets; 3..5 their restrictions to categories {0, 1} (query sets)
CLASS_NAMES = ['linear', 'gamma', 'invgauss', 'expectile', 'logistic', 'poisson', 'generic']
YKEY = dict(linear='real', gamma='pos', invgauss='pos', expectile='real', logistic='bin', poisson='count',
            generic='real')
QUERIES = ['predict', 'intervals', 'pdep', 'loglik', 'devres', 'summary']
FAIL_MARGIN = 10.0


def hit_max_iter(m, iters):
    """the last fit of m (which took `iters` iterations) stopped at max_iter with its last recorded diff not below tol"""
    try:
        d = m.logs_.get('diffs', [])
        return iters >= int(m.max_iter) and not (d[-1] < m.tol)
    except Exception:  # noqa
        return False


def silence_progress():
    """the progress bar of the grid searches inside `sample` writes to the real stderr: replace it by the identity"""
    import pygam.pygam as pp
    pp.ProgressBar = lambda *a, **k: (lambda x: x)


@contextlib.contextmanager
def quiet():
    with contextlib.redirect_stdout(io.StringIO()), contextlib.redirect_stderr(io.StringIO()):
        yield


# --------------------------------------------------------------------------------------------
# data sets
# --------------------------------------------------------------------------------------------
def make_data(seed):
    """3 training sets with different ranges / numbers of categories + their restrictions to categories {0,1}"""
    sets = []
    spans = [(0.0, 1.0), (-2.0, 3.0), (0.5, 2.5)]
    for d in range(N_TRAIN):
        r = np.random.RandomState(1000 * (seed % 1000) + d)
        n = 56 + 4 * d
        lo, hi = spans[d]
        x0 = r.uniform(lo, hi, n)
        x1 = r.uniform(-1 - d, 2 + 0.5 * d, n)
        x2 = r.randint(0, 2 + d, n).astype(float)
        x2[:2 + d] = np.arange(2 + d)          # every category present
        X = np.c_[x0, x1, x2]
        eta = np.sin(2.0 * x0) + 0.4 * x1 + 0.3 * (x2 == 1) - 0.2 * (x2 == 2)
        y = dict(real=eta + 0.3 * r.randn(n),
                 bin=(r.uniform(size=n) < 1 / (1 + np.exp(-eta))).astype(float),
                 count=r.poisson(np.exp(0.7 * eta)).astype(float),
                 pos=np.exp(0.5 * eta + 0.2 * r.randn(n)))
        y['bin'][:2] = [0.0, 1.0]
        w = r.uniform(0.5, 2.0, n) if d % 2 == 1 else None
        expo = r.uniform(0.5, 3.0, n) if d == 2 else None
        sets.append(dict(X=X, y=y, w=w, expo=expo))
    for d in range(N_TRAIN):
        s = sets[d]
        keep = s['X'][:, 2] <= 1
        sets.append(dict(X=s['X'][keep].copy(), y={k: v[keep].copy() for k, v in s['y'].items()},
                         w=None if s['w'] is None else s['w'][keep].copy(),
                         expo=None if s['expo'] is None else s['expo'][keep].copy()))
    return sets


def knots_tables(sets):
    """codes of the data-derived edge knots (NumPy recomputation of gen_edge_knots) and numbers of categories"""
    code = {}
    for k, v in USER_KNOTS.items():
        code[tuple(v)] = k
    rows = []
    for s in sets:
        for f in range(NF):
            col = s['X'][:, f]
            num = (float(col.min()), float(col.max()))
            cat = (float(col.min()) - 0.5, float(col.max()) + 0.5)
            for t in (num, cat):
                if t not in code:
                    code[t] = 1 + len([c for c in code.values() if c < 1000])
            rows.append((code[num], code[cat], len(np.unique(col))))
    return code, rows


XREF = np.c_[np.linspace(-2.5, 3.5, 11), np.linspace(-3.2, 3.1, 11), np.arange(11) % 2].astype(float)


# --------------------------------------------------------------------------------------------
# digests of real state
# --------------------------------------------------------------------------------------------
def _dig(h, o, depth=0):
    if depth > 12:
        h.update(b'<deep>')
        return
    if o is None or isinstance(o, (bool, int, str)):
        h.update(repr(o).encode())
    elif isinstance(o, float):
        h.update(float(o).hex().encode())
    elif isinstance(o, np.generic):
        h.update(str(o.dtype).encode()); h.update(o.tobytes())
    elif isinstance(o, np.ndarray):
        h.update(str(o.dtype).encode()); h.update(repr(o.shape).encode())
        if o.dtype == object:
            for x in o.ravel():
                _dig(h, x, depth + 1)
        else:
            h.update(np.ascontiguousarray(o).tobytes())
    elif hasattr(o, 'tocsc') and hasattr(o, 'shape'):
        _dig(h, np.asarray(o.todense()), depth + 1)
    elif isinstance(o, dict):
        h.update(b'{')
        for k in sorted(o.keys(), key=repr):
            h.update(repr(k).encode()); h.update(b':')
            _dig(h, o[k], depth + 1)
        h.update(b'}')
    elif isinstance(o, (list, tuple)):
        h.update(b'[')
        for x in o:
            _dig(h, x, depth + 1); h.update(b',')
        h.update(b']')
    elif hasattr(o, '__dict__'):
        h.update(type(o).__name__.encode())
        _dig(h, dict(vars(o)), depth + 1)
    else:
        h.update(repr(o).encode())


def digest(o):
    h = hashlib.sha1()
    _dig(h, o)
    return h.hexdigest()


def pred_digest(m):
    if not hasattr(m, 'coef_'):
        return None
    try:
        return digest(m.predict_mu(XREF))
    except Exception as e:  # noqa
        return 'exc:' + type(e).__name__


def stats_digest(m):
    return digest(getattr(m, 'statistics_', None))


# --------------------------------------------------------------------------------------------
# the real world
# --------------------------------------------------------------------------------------------
class Real:
    """real pyGAM objects + the harness's own value-semantic record of every model's intended settings"""

    def __init__(self, pygam, sets, kcode):
        self.pg = pygam
        self.sets = sets
        self.kcode = kcode
        self.exprs = []         # real Term / TermList objects
        self.especs = []        # list of spec dicts per expression
        self.models = []        # real model objects
        self.intent = []        # dict(cls, gvar, mset, sk, terms=[spec dict])
        self.stale = set()      # fitted models whose terms were assigned (gam.terms = e) since their last fit

    # ---- construction helpers
    def term(self, sp):
        pg = self.pg
        lam = LAMS[sp['lam']]
        if sp['kind'] == 'S':
            ek = USER_KNOTS.get(sp['uk'])
            return pg.s(sp['feature'], n_splines=sp['n'], spline_order=sp['order'], lam=lam, edge_knots=ek)
        if sp['kind'] == 'L':
            return pg.l(sp['feature'], lam=lam)
        return pg.f(sp['feature'], lam=lam)

    def build_model(self, it, terms):
        pg = self.pg
        tol, mi = MSETS[it['mset']]
        kw = dict(terms=terms, tol=tol, max_iter=mi)
        cls = it['cls']
        if cls == 'linear':
            return pg.LinearGAM(scale=0.5 if it['sk'] else None, **kw)
        if cls == 'gamma':
            return pg.GammaGAM(scale=0.5 if it['sk'] else None, **kw)
        if cls == 'invgauss':
            return pg.InvGaussGAM(scale=0.5 if it['sk'] else None, **kw)
        if cls == 'expectile':
            return pg.ExpectileGAM(scale=0.5 if it['sk'] else None, expectile=0.7, **kw)
        if cls == 'logistic':
            return pg.LogisticGAM(**kw)
        if cls == 'poisson':
            return pg.PoissonGAM(**kw)
        from pygam.distributions import NormalDist
        return pg.GAM(distribution=NormalDist(scale=0.5) if it['sk'] else 'normal', link='identity', **kw)

    def fresh_terms(self, specs):
        ts = [self.term(sp) for sp in specs]
        e = ts[0]
        for t in ts[1:]:
            e = e + t
        return e

    def fit_args(self, it, d):
        s = self.sets[d]
        y = s['y'][YKEY[it['cls']]]
        kw = {}
        if s['w'] is not None:
            kw['weights'] = s['w']
        if it['cls'] == 'poisson' and s['expo'] is not None:
            kw['exposure'] = s['expo']
        return s['X'], y, kw

    def loglen(self, m):
        return len(m.logs_.get('deviance', [])) if hasattr(m, 'logs_') else -1

    # ---- observation
    def observe(self, j):
        m = self.models[j]
        terms = []
        tl = m.terms
        ncoef = 0
        for t in tl:
            if t.isintercept:
                continue
            kind = {'spline_term': 'S', 'linear_term': 'L', 'factor_term': 'F'}.get(t._name, '?')
            lamv = [float(v) for v in np.ravel(t.lam)]
            lam = LAMS.index(lamv[0]) if len(lamv) == 1 and lamv[0] in LAMS else -2
            order = int(getattr(t, 'spline_order', 0) or 0) if kind != 'L' else 0
            nspl = int(t.n_splines) if kind != 'L' and t.n_splines is not None else 0
            ek = getattr(t, 'edge_knots_', None)
            kn = -1 if ek is None else self.kcode.get(tuple(float(v) for v in ek), -2)
            terms.append((kind, lam, order, nspl, kn))
            ncoef += int(t.n_coefs)
        ms = (float(m.tol), int(m.max_iter))
        return dict(fitted=hasattr(m, 'coef_'), mset=MSETS.index(ms) if ms in MSETS else -2, ncoef=ncoef,
                    loglen=self.loglen(m), scale_set=m.distribution.scale is not None if hasattr(m.distribution, 'scale') else None,
                    terms=terms,
                    coef_len=(len(m.coef_) - (1 if m.fit_intercept else 0)) if hasattr(m, 'coef_') else None)

    def digests(self):
        return [dict(full=digest(m), pred=pred_digest(m), stats=stats_digest(m),
                     scale=repr(getattr(m.distribution, 'scale', None)) if not isinstance(m.distribution, str) else 'str')
                for m in self.models]

    def expr_digests(self):
        return [digest(e) for e in self.exprs]


def run_query(real, q, m, it, d):
    """one query call with data set d; returns exception class name or None"""
    s = real.sets[d]
    X = s['X']
    y = s['y'][YKEY[it['cls']]]
    try:
        with quiet():
            if q == 'predict':
                m.predict(X)
                m.predict_mu(X)
            elif q == 'intervals':
                m.confidence_intervals(X, width=0.9)
                if it['cls'] == 'linear':
                    m.prediction_intervals(X, quantiles=[0.1, 0.9])
            elif q == 'pdep':
                m.partial_dependence(term=0, X=X, width=0.9)
                XX = m.generate_X_grid(term=0, n=15)
                m.partial_dependence(term=0, X=XX)
            elif q == 'loglik':
                if it['cls'] == 'poisson' and s['expo'] is not None:
                    m.loglikelihood(X, y, exposure=s['expo'])
                else:
                    m.loglikelihood(X, y, weights=s['w'])
                m.score(X, y) if it['cls'] == 'logistic' else m.score(X, y, weights=s['w'])
            elif q == 'devres':
                m.deviance_residuals(X, y, weights=s['w'], scaled=True)
            elif q == 'summary':
                m.summary()
        return None
    except Exception as e:  # noqa
        return type(e).__name__


# --------------------------------------------------------------------------------------------
# history generation + execution on the real objects
# --------------------------------------------------------------------------------------------
def gen_spec(rng, feature, kind=None):
    kind = kind or ('F' if feature == 2 else rng.choice(['S', 'S', 'L']))
    if kind == 'S':
        return dict(kind='S', feature=feature, n=rng.choice([5, 6, 7, 8]), order=rng.choice([2, 3, 3]),
                    lam=rng.randrange(len(LAMS)), uk=rng.choice([-1, -1, -1, 1001, 1002]) if feature == 0 else -1)
    if kind == 'L':
        return dict(kind='L', feature=feature, n=0, order=0, lam=rng.randrange(len(LAMS)), uk=-1)
    return dict(kind='F', feature=feature, n=20, order=0, lam=rng.randrange(len(LAMS)), uk=-1)


def spec_tokens(sp):
    return '%s %d %d %d %d %d' % (sp['kind'], sp['feature'], sp['n'], sp['order'], sp['lam'], sp['uk'])


def oracle_close(a, b, tol):
    a = np.asarray(a, float); b = np.asarray(b, float)
    if a.shape != b.shape:
        return False, float('inf')
    with np.errstate(all='ignore'):
        d = float(np.max(np.abs(a - b) / np.maximum(1.0, np.abs(b)))) if a.size else 0.0
    if d != d:
        d = float('inf')
    return d <= tol, d


def fresh_tolerance(it):
    if it['cls'] in ('linear', 'expectile', 'generic'):
        return 1e-10
    return max(1e-9, 20.0 * MSETS[it['mset']][0])


# ---- forced histories: one expression assigned to two constructed models, fitted on different data -------------
FORCED_EVERY, FORCED_OFFSET = 25, 5       # histories k = 5, 30, 55, ... of every run (8 quick, 80 thorough)
FORCED_HOWS = [('attr', 'set_params'), ('set_params', 'attr'), ('attr', 'attr'), ('set_params', 'set_params')]
FORCED_DATA = [(0, 1, 2), (1, 2, 0), (2, 0, 1), (1, 0, 2), (2, 1, 0), (0, 2, 1)]
FORCED_MIXES = [('S0', 'F2'), ('S0', 'S1', 'F2'), ('F2',), ('S0',), ('L1', 'F2'), ('S0', 'L1'), ('S1', 'F2'), ('S0', 'F2')]


def forced_variant(seed, k):
    """settings of the forced history number k (None for the random histories): everything that decides whether shared
    term state becomes visible is fixed by (seed, k) arithmetic, not drawn - the term mix has data-derived knots /
    categories, the two models get the SAME expression object, and they are fitted on data sets with different ranges
    and different numbers of categories"""
    if k % FORCED_EVERY != FORCED_OFFSET:
        return None
    v = k // FORCED_EVERY
    r = random.Random('C15-forced-%d-%d' % (seed, v))
    specs = []
    for name in FORCED_MIXES[v % len(FORCED_MIXES)]:
        kind, feat = name[0], int(name[1])
        lam = r.randrange(len(LAMS))
        if kind == 'S':       # uk=-1: knots derived from the data of the fit
            specs.append(dict(kind='S', feature=feat, n=r.choice([5, 6, 7, 8]), order=r.choice([2, 3]), lam=lam, uk=-1))
        elif kind == 'L':
            specs.append(dict(kind='L', feature=feat, n=0, order=0, lam=lam, uk=-1))
        else:
            specs.append(dict(kind='F', feature=feat, n=20, order=0, lam=lam, uk=-1))
    lam2 = (specs[0]['lam'] + 1 + r.randrange(len(LAMS) - 1)) % len(LAMS)        # != the expression's first lam
    return dict(v=v, cls=CLASS_NAMES[(v + seed) % len(CLASS_NAMES)], hows=FORCED_HOWS[v % len(FORCED_HOWS)],
                data=FORCED_DATA[v % len(FORCED_DATA)], specs=specs, prefit=v % 2 == 1, setlam=v % 4 >= 2, lam2=lam2,
                lam_how=['attr', 'set_params'][(v // 4) % 2])


def run_history(args):
    """execute one random history on the real objects; returns the model line, the observations and oracle findings"""
    seed, tier, k, mutate_hint = args
    pygam = common.import_pygam()
    silence_progress()
    rng = random.Random('C15-%d-hist-%d' % (seed, k))
    np.random.seed((seed * 7919 + k) % (2 ** 31))
    sets = make_data(seed + 17 * (k % 5))
    kcode, krows = knots_tables(sets)
    real = Real(pygam, sets, kcode)
    maxops = 8 if tier == 'quick' else rng.choice([8, 12, 16, 20])
    nops = rng.randint(6, maxops)
    ops = []          # model tokens
    steps = []        # per op: dict(op=..., target, kind, obs=[...], out=..., findings)
    fails = []
    notes = []
    counts = {}
    cur = dict(desc='')
    MAXMODELS = 7

    def cnt(b, key):
        counts.setdefault(b, {}).setdefault(str(key), 0)
        counts[b][str(key)] += 1

    def snapshot():
        return real.digests(), real.expr_digests()

    def probe(obj, it, opdesc, what):
        """a disagreement that is not (yet) visible in predictions: does it change the outcome of the next fit?
        fit a deep copy of the affected model (resp. a new model built from the affected expression) and compare
        with a brand-new model with the intended settings"""
        for d in (0, 1):
            try:
                with quiet():
                    c = copy.deepcopy(obj)
                    X, y, kw = real.fit_args(it, d)
                    c.fit(X, y, **kw)
                    fm = real.build_model(it, real.fresh_terms(it['terms']))
                    fm.fit(X, y, **kw)
                    ok, dd = oracle_close(c.predict_mu(X), fm.predict_mu(X), fresh_tolerance(it) * FAIL_MARGIN)
            except Exception as e:  # noqa
                notes.append('probe raised %s' % type(e).__name__)
                continue
            if not ok:
                return dict(kind='fresh-fit', op='%s; then fit(%s, data %d)' % (opdesc, what, d), step=len(steps), data=d,
                            maxdiff=dd, tol=fresh_tolerance(it), cls=it['cls'], warm=False, property_level=True,
                            probe='the next fit of %s differs from a brand-new model with its settings' % what)
        return None

    def check_frame(label, before, after, target, is_query, opdesc):
        """isolation oracle: models other than the target (all models for query calls) bit-identical"""
        (mb, eb), (ma, ea) = before, after
        for j in range(len(mb)):
            if j == target and not is_query:
                continue
            if mb[j]['full'] != ma[j]['full']:
                what = [key for key in ('pred', 'stats', 'scale') if mb[j][key] != ma[j][key]]
                fails.append(dict(kind='isolation' if j != target else 'query-not-pure', op=opdesc, step=len(steps),
                                  model=j, target=target, changed=what or ['other state (terms / logs / settings)'],
                                  property_level=bool(what)))
                if not what:
                    pf = probe(real.models[j], real.intent[j], opdesc, 'model %d' % j)
                    if pf:
                        fails.append(pf)
        for e in range(len(eb)):
            if eb[e] != ea[e]:
                fails.append(dict(kind='expression-mutated', op=opdesc, step=len(steps), expr=e, property_level=False))
                it = dict(cls='linear', mset=0, sk=False, terms=copy.deepcopy(real.especs[e]))
                try:
                    with quiet():
                        pf = probe(real.build_model(it, real.exprs[e]), it, opdesc, 'a new model built from expression %d' % e)
                except Exception as ex:  # noqa
                    pf = None
                if pf:
                    fails.append(pf)

    def fresh_check(j, d, opdesc, warm, iters, explicit_ones=False):
        """fresh-fit oracle for model j just fitted on data d"""
        it = real.intent[j]
        m = real.models[j]
        try:
            with quiet():
                fm = real.build_model(it, real.fresh_terms(it['terms']))
                X, y, kw = real.fit_args(it, d)
                if explicit_ones and 'weights' not in kw:
                    # gridsearch hands its candidates an explicit array of ones, which fit casts to float32:
                    # give the brand-new model the same arguments
                    kw = dict(kw, weights=np.ones(len(y)))
                fm.fit(X, y, **kw)
        except Exception as e:  # noqa
            if explicit_ones and type(e).__name__ == 'OptimizationError':
                # a grid-search candidate is deliberately warm-started from the previous model (same data): it may converge
                # where the cold start of a brand-new model diverges.  Recorded, not a failing input (the property compares
                # warm-started candidates only up to the optimiser's tolerance); user-level fits are never warm-started.
                cnt('warm-started candidate converged where a brand-new model diverges (not reported)', it['cls'])
                return
            fails.append(dict(kind='fresh-fit-raised', op=opdesc, step=len(steps), model=j, exc=type(e).__name__,
                              msg=str(e)[:200], property_level=True))
            return
        tol = fresh_tolerance(it)
        Xq = sets[d]['X']
        try:
            p1 = m.predict_mu(Xq); p2 = fm.predict_mu(Xq)
            r1 = m.predict_mu(XREF); r2 = fm.predict_mu(XREF)
        except Exception as e:  # noqa
            fails.append(dict(kind='predict-after-fit-raised', op=opdesc, step=len(steps), model=j, exc=type(e).__name__,
                              msg=str(e)[:200], property_level=True))
            return
        ok1, d1 = oracle_close(p1, p2, tol)
        ok2, d2 = oracle_close(r1, r2, tol)
        dm = max(d1, d2)
        cnt('fresh-fit maxdiff decade', 'exact' if dm == 0 else (int(np.floor(np.log10(dm))) if np.isfinite(dm) else 'inf/nan'))
        if not (ok1 and ok2):
            okf1, _ = oracle_close(p1, p2, tol * FAIL_MARGIN)
            okf2, _ = oracle_close(r1, r2, tol * FAIL_MARGIN)
            # the last `max_iter` log entries belong to this fit iff it did not converge
            blown = not bool(np.isfinite(p1).all() and np.isfinite(r1).all() and np.isfinite(m.statistics_.get('deviance', np.nan)))
            fails.append(dict(kind='fresh-fit', op=opdesc, step=len(steps), model=j, data=d, maxdiff=repr(dm), tol=tol,
                              warm=warm, cls=it['cls'], property_level=not (okf1 and okf2),
                              not_finite=blown, hit_max_iter=hit_max_iter(m, iters)))
        # statistics and the estimated scale must be those of the fresh model too
        # (sample weights are cast to float32 by fit: a grid-search candidate is handed an explicit array of ones where a
        #  user-level fit without weights works in float64, so likelihood-type statistics agree to float32 accuracy only)
        # measured: statistics of a warm-started candidate of an iterative family differ from the cold fit by up to ~50*tol
        stol = max(2e-6, 300.0 * MSETS[it['mset']][0]) if it['cls'] not in ('linear', 'expectile', 'generic') else 2e-6
        worst, wkey = 0.0, None
        for key in ('edof', 'scale', 'deviance', 'AIC', 'loglikelihood', 'se', 'GCV', 'UBRE'):
            a_, b_ = m.statistics_.get(key), fm.statistics_.get(key)
            if a_ is None and b_ is None:
                continue
            _, dd = oracle_close(a_, b_, stol) if (a_ is not None and b_ is not None) else (False, float('inf'))
            if dd > worst:
                worst, wkey = dd, 'statistics_[%r]' % key
        _, dd = oracle_close(m.distribution.scale, fm.distribution.scale, stol)
        if dd > worst:
            worst, wkey = dd, 'distribution.scale'
        if warm and it['cls'] not in ('linear', 'expectile', 'generic') and worst > 0:
            cnt('warm candidate statistics: log10(maxdiff / tol)', int(np.floor(np.log10(worst / MSETS[it['mset']][0]))) if np.isfinite(worst) else 'inf')
        if worst > stol:
            fails.append(dict(kind='fresh-fit-statistics', op=opdesc, step=len(steps), model=j, data=d, what=wkey, maxdiff=repr(worst),
                              tol=stol, warm=warm, cls=it['cls'], property_level=worst > stol * FAIL_MARGIN))
        # the term state must be that of the fresh model (edge knots, categories)
        o1 = [(t.edge_knots_.tolist() if hasattr(t.edge_knots_, 'tolist') else list(t.edge_knots_), t.n_coefs)
              for t in m.terms if not t.isintercept]
        o2 = [(t.edge_knots_.tolist() if hasattr(t.edge_knots_, 'tolist') else list(t.edge_knots_), t.n_coefs)
              for t in fm.terms if not t.isintercept]
        if o1 != o2:
            fails.append(dict(kind='fresh-fit-termstate', op=opdesc, step=len(steps), model=j, data=d, got=o1, fresh=o2,
                              property_level=True))

    # ---- always start with one expression and one model
    def do_mkexpr(specs=None):
        if specs is not None:
            specs = copy.deepcopy(specs)
        else:
            feats = rng.sample(range(NF), rng.choice([1, 1, 2, 2, 3]))
            feats.sort()
            if mutate_hint == 'splines-only' or rng.random() < 0.35:
                feats = [f for f in feats if f != 2] or [0]
                specs = [gen_spec(rng, f, 'S') for f in feats]
            else:
                specs = [gen_spec(rng, f) for f in feats]
        before = snapshot()
        with quiet():
            real.exprs.append(real.fresh_terms(specs))
        real.especs.append(copy.deepcopy(specs))
        after = (real.digests(), real.expr_digests()[:len(before[1])])
        check_frame('E', before, after, None, False, 'mkExpr')
        return 'E %d %s' % (len(specs), ' '.join(spec_tokens(sp) for sp in specs)), None, 'alloc'

    def do_join():
        cands = [(a, b) for a in range(len(real.exprs)) for b in range(len(real.exprs))
                 if a == b or not ({sp['feature'] for sp in real.especs[a]} & {sp['feature'] for sp in real.especs[b]})]
        if not cands:
            return None
        a, b = rng.choice(cands)
        before = snapshot()
        real.exprs.append(real.exprs[a] + real.exprs[b])
        real.especs.append(copy.deepcopy(real.especs[a]) + ([] if a == b else copy.deepcopy(real.especs[b])))
        after = (real.digests(), real.expr_digests()[:len(before[1])])
        check_frame('J', before, after, None, False, 'joinExpr')
        return 'J %d %d' % (a, b), None, 'alloc'

    def do_construct(e=None, cls=None):
        if len(real.models) >= MAXMODELS:
            return None
        forced = cls is not None
        if e is None:
            e = rng.randrange(len(real.exprs))
        if cls is None:
            cls = rng.choice(CLASS_NAMES)
        sk = (not forced) and rng.random() < 0.3 and cls in ('linear', 'gamma', 'invgauss', 'expectile', 'generic')
        it = dict(cls=cls, mset=rng.randrange(len(MSETS)), sk=bool(sk), terms=copy.deepcopy(real.especs[e]))
        before = snapshot()
        with quiet():
            real.models.append(real.build_model(it, real.exprs[e]))
        real.intent.append(it)
        after = (real.digests()[:len(before[0])], real.expr_digests())
        check_frame('C', before, after, None, False, 'construct')
        cnt('class', cls)
        return 'C %s %d %d %d' % (cls, it['mset'], 1 if sk else 0, e), None, 'alloc'

    def pick_model(pred=lambda j: True):
        c = [j for j in range(len(real.models)) if pred(j)]
        return rng.choice(c) if c else None

    def do_fit(j=None, d=None):
        if j is None:
            j = pick_model(lambda j: not hasattr(real.models[j], 'coef_')) if rng.random() < 0.4 else None
            if j is None:
                j = pick_model()
        if j is None:
            return None
        it = real.intent[j]
        if d is None:
            d = rng.randrange(N_TRAIN if rng.random() < 0.8 else 2 * N_TRAIN)
        m = real.models[j]
        X, y, kw = real.fit_args(it, d)
        before = snapshot()
        l0 = max(real.loglen(m), 0)
        warm = hasattr(m, 'coef_')
        cur['desc'] = 'fit(model %d, data %d)' % (j, d)
        try:
            with quiet():
                m.fit(X, y, **kw)
        except Exception as e:  # noqa
            # the outcome must be that of a brand-new model with the same settings: it has to raise as well
            try:
                with quiet():
                    real.build_model(it, real.fresh_terms(it['terms'])).fit(X, y, **kw)
                fresh_exc = None
            except Exception as e2:  # noqa
                fresh_exc = type(e2).__name__
            if fresh_exc != type(e).__name__:
                fails.append(dict(kind='fresh-fit-raised', op=cur['desc'], step=len(steps), model=j, exc=type(e).__name__,
                                  msg=str(e)[:200], fresh=fresh_exc, warm=warm, cls=it['cls'], property_level=True))
            else:
                notes.append('fit raised %s for the model and for a brand-new model alike - history truncated' % type(e).__name__)
            return 'ABORT', None, None
        iters = real.loglen(m) - l0
        after = snapshot()
        it['last'] = d
        real.stale.discard(j)
        check_frame('F', before, after, j, False, 'fit(%d, data %d)' % (j, d))
        fresh_check(j, d, 'fit(%d, data %d)' % (j, d), warm, iters)
        cnt('fit', 'refit' if warm else 'first')
        return 'F %d %d %d' % (j, d, iters), j, 'fit'

    def do_query(j=None, q=None, d=None):
        if j is None:
            j = pick_model(lambda j: hasattr(real.models[j], 'coef_')) if rng.random() < 0.85 else None
            if j is None:
                j = pick_model()
        if j is None:
            return None
        it = real.intent[j]
        m = real.models[j]
        if q is None:
            q = rng.choice(QUERIES)
        # query data: categories of the query set must be known to the model -> use the {0,1} restriction
        if d is None:
            d = N_TRAIN + rng.randrange(N_TRAIN)
        before = snapshot()
        exc = run_query(real, q, m, it, d)
        after = snapshot()
        check_frame('Q', before, after, j, True, '%s(%d, data %d)' % (q, j, d))
        fitted = hasattr(m, 'coef_')
        cnt('query', q + ('' if fitted else ' (unfitted)'))
        return 'Q %s %d %d' % (q, j, d), j, ('query', exc, fitted, j in real.stale)

    def do_sample():
        j = pick_model(lambda j: hasattr(real.models[j], 'coef_')) if rng.random() < 0.85 else pick_model()
        if j is None:
            return None
        it = real.intent[j]
        m = real.models[j]
        # `sample` is documented for the empirical (training) data: use the data of the model's last fit
        d = it.get('last', N_TRAIN + rng.randrange(N_TRAIN))
        s = sets[d]
        nb = rng.choice([0, 1, 1]) if tier == 'quick' else rng.choice([0, 1, 1, 2])
        before = snapshot()
        exc = None
        try:
            with quiet():
                m.sample(s['X'], s['y'][YKEY[it['cls']]], quantity=rng.choice(['y', 'mu', 'coef']), n_draws=4,
                         n_bootstraps=nb + 1, weights=s['w'])
        except Exception as e:  # noqa
            exc = type(e).__name__
        after = snapshot()
        check_frame('S', before, after, j, True, 'sample(%d, data %d, n_bootstraps=%d)' % (j, d, nb + 1))
        cnt('sample bootstraps', nb + 1)
        inner = ' '.join(['11 ' + ' '.join(['9 1'] * 11) + ' 0'] * nb)
        return ('S %d %d %d %s' % (j, d, nb, inner)).strip(), j, ('query', exc, hasattr(m, 'coef_'), j in real.stale)

    def do_grid():
        j = pick_model()
        if j is None or len(real.models) + 3 > MAXMODELS + 3:
            return None
        it = real.intent[j]
        m = real.models[j]
        d = rng.randrange(N_TRAIN)
        keep = rng.random() < 0.6
        codes = rng.sample(range(len(LAMS)), rng.choice([2, 2, 3]))
        X, y, kw = real.fit_args(it, d)
        fitted = hasattr(m, 'coef_')
        before = snapshot()
        l0 = max(real.loglen(m), 0)
        cur['desc'] = 'gridsearch(model %d, data %d, lam codes %s, keep_best=%s)' % (j, d, codes, keep)
        with quiet():
            res = m.gridsearch(X, y, lam=[LAMS[c] for c in codes], keep_best=keep, return_scores=True, progress=False, **kw)
        mods = list(res.keys())
        scores = list(res.values())
        expected = len(codes) + (1 if fitted else 0)
        if not fitted:
            it.pop('last', None)
        if len(mods) != expected:
            notes.append('gridsearch skipped candidates (%d of %d fitted) - history truncated' % (len(mods), expected))
            return 'ABORT', None, None
        best, bi = np.inf, 0
        for i_, sc in enumerate(scores):
            if sc < best:
                best, bi = sc, i_
        cands = mods[1:] if fitted else mods
        if fitted and mods[0] is not m:
            fails.append(dict(kind='gridsearch-self-not-first', op='gridsearch', step=len(steps), property_level=False))
        iters = [real.loglen(c) - l0 for c in cands]
        first = len(real.models)
        for c, code in zip(cands, codes):
            real.models.append(c)
            ci = copy.deepcopy(it)
            ci['last'] = d
            for sp in ci['terms']:
                sp['lam'] = code
            real.intent.append(ci)
        if keep:
            widx = j if (fitted and bi == 0) else first + (bi - 1 if fitted else bi)
            real.intent[j] = copy.deepcopy(real.intent[widx])
            if widx != j:
                real.stale.discard(j)
        after_all = snapshot()
        after = (after_all[0][:len(before[0])], after_all[1])
        is_query = fitted and not keep
        check_frame('G', before, after, j, is_query, 'gridsearch(%d, data %d, keep_best=%s)' % (j, d, keep))
        for ci_, c in enumerate(cands):
            fresh_check(first + ci_, d, 'gridsearch candidate %d of model %d' % (ci_, j), True, iters[ci_], explicit_ones=True)
        if keep:
            # self is by value the winner
            w = real.models[widx]
            if pred_digest(m) != pred_digest(w) or stats_digest(m) != stats_digest(w):
                fails.append(dict(kind='keep_best-not-winner', op='gridsearch', step=len(steps), model=j, winner=widx,
                                  property_level=True))
        cnt('gridsearch', 'keep=%s fitted=%s' % (keep, fitted))
        toks = 'G %d %d %d %d %s %d' % (j, d, 1 if keep else 0, len(codes),
                                        ' '.join('%d %d' % (c, it_) for c, it_ in zip(codes, iters)), bi)
        return toks, j, 'grid'

    def do_setlam(j=None, c=None, how=None):
        if j is None:
            j = pick_model()
        if j is None:
            return None
        if c is None:
            c = rng.randrange(len(LAMS))
        m = real.models[j]
        before = snapshot()
        if (rng.random() < 0.5) if how is None else (how == 'set_params'):
            m.set_params(lam=LAMS[c])
        else:
            m.lam = LAMS[c]
        for sp in real.intent[j]['terms']:
            sp['lam'] = c
        after = snapshot()
        check_frame('SL', before, after, j, False, 'set_params(%d, lam=%g)' % (j, LAMS[c]))
        cnt('set_params', 'lam ' + ('fitted' if hasattr(m, 'coef_') else 'unfitted'))
        return 'SL %d %d' % (j, c), j, 'set'

    def do_setorder():
        j = pick_model(lambda j: all(sp['kind'] == 'S' for sp in real.intent[j]['terms']))
        if j is None:
            return None
        c = rng.choice([1, 2, 3])
        m = real.models[j]
        before = snapshot()
        m.set_params(spline_order=c)
        for sp in real.intent[j]['terms']:
            sp['order'] = c
        after = snapshot()
        check_frame('SO', before, after, j, False, 'set_params(%d, spline_order=%d)' % (j, c))
        cnt('set_params', 'spline_order ' + ('fitted' if hasattr(m, 'coef_') else 'unfitted'))
        return 'SO %d %d' % (j, c), j, 'set'

    def do_assign(j=None, e=None, how=None):
        """gam.terms = expr / gam.set_params(terms=expr): the same caller-held expression object may go to several models"""
        if j is None:
            j = pick_model()
        if j is None:
            return None
        if e is None:
            e = rng.randrange(len(real.exprs))
        m = real.models[j]
        expr = real.exprs[e]
        if not isinstance(expr, pygam.terms.TermList):
            # (a bare Term is only wrapped by the constructor; assigning one makes fit raise TypeError - outside C15)
            expr = pygam.terms.TermList(expr)
        before = snapshot()
        if how is None:
            how = rng.choice(['attr', 'set_params'])
        cur['desc'] = 'assign terms of model %d := expression %d (%s)' % (j, e, how)
        if how == 'attr':
            m.terms = expr
        else:
            m.set_params(terms=expr)
        real.intent[j]['terms'] = copy.deepcopy(real.especs[e])
        if hasattr(m, 'coef_'):
            real.stale.add(j)
        after = snapshot()
        check_frame('AT', before, after, j, False, cur['desc'])
        cnt('assign terms', how + (' fitted' if hasattr(m, 'coef_') else ' unfitted'))
        return 'AT %d %d' % (j, e), j, 'set'

    def do_setmodel():
        j = pick_model()
        if j is None:
            return None
        c = rng.randrange(len(MSETS))
        m = real.models[j]
        before = snapshot()
        m.set_params(tol=MSETS[c][0], max_iter=MSETS[c][1])
        real.intent[j]['mset'] = c
        after = snapshot()
        check_frame('SM', before, after, j, False, 'set_params(%d, tol, max_iter)' % j)
        cnt('set_params', 'tol/max_iter')
        return 'SM %d %d' % (j, c), j, 'set'

    def do_copy():
        if len(real.models) >= MAXMODELS + 2:
            return None
        j = pick_model()
        if j is None:
            return None
        m = real.models[j]
        before = snapshot()
        how = rng.choice(['deepcopy', 'pickle'])
        c = copy.deepcopy(m) if how == 'deepcopy' else pickle.loads(pickle.dumps(m))
        real.models.append(c)
        real.intent.append(copy.deepcopy(real.intent[j]))
        if j in real.stale:
            real.stale.add(len(real.models) - 1)
        aa = snapshot()
        after = (aa[0][:len(before[0])], aa[1])
        check_frame('CP', before, after, None, False, '%s(%d)' % (how, j))
        if aa[0][-1]['pred'] != before[0][j]['pred'] or aa[0][-1]['stats'] != before[0][j]['stats']:
            fails.append(dict(kind='copy-differs', op=how, step=len(steps), model=j, property_level=True))
        cnt('copy', how)
        return 'CP %d' % j, None, 'alloc'

    menu = [(do_fit, 8), (do_query, 4), (do_grid, 3), (do_setlam, 3), (do_setorder, 2), (do_setmodel, 1), (do_copy, 2),
            (do_sample, 1.5), (do_construct, 1.5), (do_mkexpr, 0.7), (do_join, 0.7), (do_assign, 2.5)]
    script = [do_mkexpr, do_construct, do_construct, do_fit]
    if k % 3 == 1:
        # one expression handed to two already constructed models, which are then fitted on different data
        script = [do_mkexpr, do_construct, do_construct, do_mkexpr,
                  lambda: do_assign(0, len(real.exprs) - 1), lambda: do_assign(1, len(real.exprs) - 1)]
        if rng.random() < 0.5:
            script.append(do_setlam)
        script += [do_fit, do_fit, do_query]
        nops = max(nops, len(script))
    fv = forced_variant(seed, k)
    if fv is not None:
        # every run, nothing left to the draw: the caller's expression e1 goes to two constructed models (one of them
        # possibly fitted before) by `gam.terms = e1` / `set_params(terms=e1)`; optionally the smoothing parameter of
        # model 0 is changed before its fit; model 0 is fitted on data A, model 1 on data B (other range, other number
        # of categories); a query on model 0; a third model is constructed from e1 and fitted on data C; a query on
        # model 1.  The isolation oracle (models other than the target bit-identical, caller's expression untouched)
        # and the fresh-fit oracle (predictions, statistics, compiled term state == brand-new model) judge every step.
        dA, dB, dC = fv['data']
        cls = fv['cls']
        script = [do_mkexpr, lambda: do_construct(0, cls), lambda: do_construct(0, cls), lambda: do_mkexpr(fv['specs'])]
        if fv['prefit']:
            script.append(lambda: do_fit(0, dC))
        script += [lambda: do_assign(0, 1, fv['hows'][0]), lambda: do_assign(1, 1, fv['hows'][1])]
        if fv['setlam']:
            script.append(lambda: do_setlam(0, fv['lam2'], fv['lam_how']))
        script += [lambda: do_fit(0, dA), lambda: do_fit(1, dB), lambda: do_query(0, 'predict', N_TRAIN + dA),
                   lambda: do_construct(1, cls), lambda: do_fit(2, dC), lambda: do_query(1, 'pdep', N_TRAIN + dB)]
        nops = len(script)
    aborted = False
    while len(ops) < nops and not aborted:
        fn = script.pop(0) if script else rng.choices([f for f, _ in menu], [w for _, w in menu])[0]
        try:
            r = fn()
        except Exception as e:  # an exception of a valid public call is reported, the history stops there
            import traceback
            fails.append(dict(kind='call-raised', op=getattr(fn, '__name__', 'op') + ' ' + cur['desc'], step=len(steps), exc=type(e).__name__, msg=str(e)[:300],
                              tb=traceback.format_exc()[-600:], property_level=True))
            break
        if r is None:
            continue
        toks, target, kind = r
        if toks == 'ABORT':
            aborted = True
            break
        ops.append(toks)
        steps.append(dict(op=toks, target=target, kind=kind,
                          obs=[dict(real.observe(j), stale=(j in real.stale)) for j in range(len(real.models))]))
    env = '%d %d %s' % (len(sets), NF, ' '.join('%d %d %d' % r for r in krows))
    line = 'C15 hist %s | %s' % (env, ' ; '.join(ops))
    forced = None
    if fv is not None:
        forced = dict(v=fv['v'], cls=fv['cls'], hows=list(fv['hows']), data=list(fv['data']), prefit=fv['prefit'], setlam=fv['setlam'],
                      mix='+'.join(sp['kind'] + str(sp['feature']) for sp in fv['specs']),
                      completed=(not aborted) and not script and len(ops) == nops and not any(f['kind'] == 'call-raised' for f in fails))
    return dict(k=k, line=line, ops=ops, steps=steps, fails=fails, notes=notes, counts=counts, forced=forced,
                nmodels=len(real.models), classes=sorted({it['cls'] for it in real.intent}))


# --------------------------------------------------------------------------------------------
# comparison with the Lean model
# --------------------------------------------------------------------------------------------
def parse_block(block):
    parts = [p.strip() for p in block.split('|')]
    out = parts[0]
    models = []
    for p in parts[1:]:
        t = p.split()
        assert t[0] == 'm', p
        fitted, mset, ncoef, loglen, known, sid, fid, pid, k = t[1] == '1', int(t[2]), int(t[3]), int(t[4]), t[5] == '1', int(t[6]), int(t[7]), int(t[8]), int(t[9])
        terms = []
        for i in range(k):
            a = t[10 + 5 * i: 15 + 5 * i]
            terms.append((a[0], int(a[1]), int(a[2]), int(a[3]), int(a[4])))
        models.append(dict(fitted=fitted, mset=mset, ncoef=ncoef, loglen=loglen, known=known, sid=sid, fid=fid, pid=pid, terms=terms))
    return out, models


def compare_history(ctx, st_state, st_out, rec, modelline):
    """returns list of disagreement descriptions"""
    dis = []
    if modelline == 'bad-op':
        return ['model rejected the history encoding']
    blocks = modelline.split(' ; ')
    if len(blocks) != len(rec['steps']):
        return ['model produced %d blocks for %d ops' % (len(blocks), len(rec['steps']))]
    for si, (blk, step) in enumerate(zip(blocks, rec['steps'])):
        out, models = parse_block(blk)
        obs = step['obs']
        if len(models) != len(obs):
            dis.append('step %d (%s): %d models in the model, %d real' % (si, step['op'], len(models), len(obs)))
            break
        for j, (mm, ro) in enumerate(zip(models, obs)):
            rterms = [(a, b, c if a != 'L' else 0, d if a != 'L' else 0, e) for (a, b, c, d, e) in ro['terms']]
            mterms = [(a, b, c if a != 'L' else 0, d if a != 'L' else 0, e) for (a, b, c, d, e) in mm['terms']]
            # n_splines of a factor term is only meaningful once compiled
            rterms = [(a, b, c, (d if (a != 'F' or e != -1) else 0), e) for (a, b, c, d, e) in rterms]
            mterms = [(a, b, c, (d if (a != 'F' or e != -1) else 0), e) for (a, b, c, d, e) in mterms]
            if mm['fitted'] != ro['fitted']:
                dis.append('step %d (%s) model %d: fitted %s vs real %s' % (si, step['op'], j, mm['fitted'], ro['fitted']))
            if mm['mset'] != ro['mset']:
                dis.append('step %d (%s) model %d: tol/max_iter code %s vs real %s' % (si, step['op'], j, mm['mset'], ro['mset']))
            if mterms != rterms:
                dis.append('step %d (%s) model %d: terms %s vs real %s' % (si, step['op'], j, mterms, rterms))
            if mm['loglen'] != ro['loglen']:
                dis.append('step %d (%s) model %d: log length %s vs real %s' % (si, step['op'], j, mm['loglen'], ro['loglen']))
            if ro['scale_set'] is not None and (mm['known'] or mm['sid'] >= 0) != ro['scale_set']:
                dis.append('step %d (%s) model %d: scale set %s vs real %s' % (si, step['op'], j, mm['known'] or mm['sid'] >= 0, ro['scale_set']))
            if ro['fitted'] and ro['coef_len'] is not None and mm['fitted'] and not ro.get('stale'):
                mc = sum((1 if a == 'L' else d) for (a, b, c, d, e) in mm['terms'])
                if mc != ro['coef_len'] or mm['ncoef'] != mc:
                    dis.append('step %d (%s) model %d: n_coefs %s vs len(coef_) %s' % (si, step['op'], j, mc, ro['coef_len']))
        kind = step['kind']
        if isinstance(kind, tuple) and kind[0] == 'query':
            _, exc, fitted, stale = kind
            m_err = out.startswith('error')
            ctx.case(st_out, dict(op=step['op'].split()[0], fitted=fitted, stale=stale), nontrivial=(not fitted) or stale)
            if stale and fitted:
                # a fitted model between `gam.terms = e` and its next fit reads un-compiled term objects: the model says
                # `error` when some term has no knots (what is raised is accidental); otherwise the outcome is not mirrored
                # (and e.g. summary() of linear-only terms succeeds): the outcome is recorded, not compared; purity is checked
                ctx.count('query on a fitted model between assignment and refit: model %s / real' % ('error' if m_err else 'result'), exc)
            elif m_err != (exc is not None):
                dis.append('step %d (%s): model outcome %s vs real exception %s' % (si, step['op'], out, exc))
            elif exc is not None and exc != 'AttributeError':
                dis.append('step %d (%s): unfitted query raised %s, expected AttributeError' % (si, step['op'], exc))
        elif kind == 'fit':
            if not out.endswith('fresh 1'):
                dis.append('step %d (%s): the model\'s own fresh-fit check failed: %s' % (si, step['op'], out))
        elif out.startswith('error'):
            dis.append('step %d (%s): model outcome error on a call that succeeded' % (si, step['op']))
    return dis


def report_history(ctx, st, rec, hist_case):
    """oracle findings of one executed history -> ctx.fail (property level) / ctx.disagree"""
    bad = False
    for f in rec['fails']:
        sig = dict(kind=f['kind'])
        case = dict(hist_case, ops=rec['ops'][:f.get('step', 0) + 1], finding={k: v for k, v in f.items() if k != 'tb'})
        if not f.get('property_level', True) and f['kind'] in ('fresh-fit', 'fresh-fit-statistics'):
            # beyond the tolerance but within the x10 safety margin: recorded, not reported
            ctx.count('fresh-fit difference within the x10 safety margin (not reported)', '%s %s' % (f['kind'], f.get('cls')))
            continue
        if f.get('property_level', True):
            bad = True
            ctx.fail(st[f['kind']], sig, case, observed=f, expected='see oracle', oracle=ORACLE_TEXT.get(f['kind'], f['kind']))
        else:
            bad = True
            ctx.disagree(st[f['kind']], case, f, 'model: unchanged', 'state outside predictions/statistics changed')
    return bad


ORACLE_TEXT = {
    'isolation': 'a call on model a leaves every other live model bit-identical (predict_mu(X_ref), statistics_, scale, terms, logs)',
    'query-not-pure': 'predict / intervals / partial dependence / likelihood / residuals / summary / sample / gridsearch(keep_best=False) leave the model bit-identical',
    'fresh-fit': 'fit(X, y) of a model with a history == fit of a brand-new model with the same settings on the same data',
    'fresh-fit-termstate': 'edge knots / numbers of categories after fit == those of a brand-new model fitted on the same data',
    'fresh-fit-statistics': 'statistics_ (edof, scale, deviance, AIC, loglikelihood, se, GCV/UBRE) and distribution.scale after fit == those of a brand-new model fitted on the same data',
    'fresh-fit-raised': 'a brand-new model with the same settings fits the same data',
    'predict-after-fit-raised': 'predict after a successful fit does not raise',
    'keep_best-not-winner': 'after gridsearch(keep_best=True) self predicts / reports exactly what the winner does',
    'copy-differs': 'deepcopy / pickle round trip predicts / reports exactly what the original does',
    'call-raised': 'a valid public call does not raise',
    'expression-mutated': 'no call on a model changes a term expression held by the caller',
    'gridsearch-self-not-first': 'gridsearch lists the fitted self first',
}


def run_histories(ctx, pygam, pool, only=None):
    st_state = 'history.state'
    st_out = 'history.outcomes'
    st_iso = 'history.isolation'
    st_fresh = 'history.freshfit'
    st_pure = 'history.queries-pure'
    ctx.stream(st_state, 'observable summary of every live model after every op: real objects vs Lean World (exact)')
    ctx.stream(st_out, 'queries / sample on unfitted models raise AttributeError <-> model outcome error; model-side fresh-fit check')
    ctx.stream(st_iso, ORACLE_TEXT['isolation'])
    ctx.stream(st_fresh, ORACLE_TEXT['fresh-fit'] + ' (1e-10 normal/identity, 20*tol otherwise; x10 before a failing input is declared)')
    ctx.stream(st_pure, ORACLE_TEXT['query-not-pure'])
    st_forced = 'history.assigned-expression'
    ctx.stream(st_forced, 'every run (histories k = %d mod %d, nothing drawn that decides visibility): ONE term expression with data-derived '
               'knots / categories assigned to two constructed models (gam.terms = e / set_params(terms=e), one possibly fitted before, '
               'lam of one possibly changed before its fit), the models fitted on data with different ranges / numbers of categories, a '
               'third model constructed from the same expression and fitted on a third data set: after every step every other model '
               'and the caller\'s expression bit-identical, every fit == fit of a brand-new model (predictions, statistics, edge knots, '
               'numbers of coefficients); failures are reported in the isolation / fresh-fit streams' % (FORCED_OFFSET, FORCED_EVERY))
    stmap = {'isolation': st_iso, 'query-not-pure': st_pure, 'fresh-fit': st_fresh, 'fresh-fit-termstate': st_fresh, 'fresh-fit-statistics': st_fresh,
             'fresh-fit-raised': st_fresh, 'predict-after-fit-raised': st_fresh, 'keep_best-not-winner': st_iso,
             'copy-differs': st_iso, 'call-raised': st_state, 'expression-mutated': st_iso, 'gridsearch-self-not-first': st_state}
    nh = 200 if ctx.tier == 'quick' else 2000
    ks = list(range(nh)) if only is None else list(only)
    jobs = [(ctx.seed, ctx.tier, k, 'splines-only' if k % 4 == 3 else None) for k in ks]
    recs = pool.map(run_history, jobs, chunksize=1) if pool is not None else [run_history(j) for j in jobs]
    outs = ctx.driver.run([r['line'] for r in recs])
    for rec, out in zip(recs, outs):
        hist_case = dict(kind='history', k=rec['k'], seed=ctx.seed, tier=ctx.tier)
        sig = dict(ops=' ; '.join(rec['ops']))
        kinds = [s_['op'].split()[0] for s_ in rec['steps']]
        nfit = kinds.count('F')
        nontriv = rec['nmodels'] >= 2 and nfit + kinds.count('G') >= 1
        ctx.case(st_state, sig, nontrivial=nontriv, sample=dict(ops=rec['ops'][:6]))
        for kname in kinds:
            ctx.count('op', kname)
        ctx.count('history length', len(kinds))
        ctx.count('live models at end', rec['nmodels'])
        for b, dct in rec['counts'].items():
            for kk, v in dct.items():
                ctx.count(b, kk, v)
        for n_ in rec['notes']:
            ctx.count('note', n_)
        if rec.get('forced'):
            fo = rec['forced']
            ctx.case(st_forced, {k_: fo[k_] for k_ in ('cls', 'hows', 'data', 'prefit', 'setlam', 'mix')}, nontrivial=fo['completed'],
                     sample=dict(ops=rec['ops']))
            ctx.count('forced assigned-expression history', 'completed' if fo['completed'] else 'truncated (%s)' % fo['cls'])
            ctx.count('forced assigned-expression history: assignment order', ' / '.join(fo['hows']))
        # oracle streams: one case per relevant op
        for s_ in rec['steps']:
            kd = s_['kind']
            o0 = s_['op'].split()[0]
            if o0 in ('F', 'G'):
                ctx.case(st_fresh, dict(k=rec['k'], op=s_['op']), nontrivial=True)
            if isinstance(kd, tuple) or (o0 == 'G' and s_['op'].split()[3] == '0'):
                ctx.case(st_pure, dict(k=rec['k'], op=s_['op']), nontrivial=True)
            ctx.case(st_iso, dict(k=rec['k'], op=s_['op']), nontrivial=len(s_['obs']) >= 2)
        had_fail = False
        if rec['fails']:
            # confirm once more from scratch before reporting
            rec2 = run_history((ctx.seed, ctx.tier, rec['k'], 'splines-only' if rec['k'] % 4 == 3 else None))
            kinds2 = {(f['kind'], f.get('step')) for f in rec2['fails']}
            rec['fails'] = [f for f in rec['fails'] if (f['kind'], f.get('step')) in kinds2]
            had_fail = report_history(ctx, stmap, rec, hist_case)
        dis = compare_history(ctx, st_state, st_out, rec, out)
        if dis and not had_fail:
            ctx.disagree(st_state, dict(hist_case, ops=rec['ops']), 'real objects', out[:400], '; '.join(dis[:5]))
        elif dis:
            ctx.count('disagreement next to a confirmed failing input', dis[0][:80])
    return recs


# --------------------------------------------------------------------------------------------
# harness-only: caller arrays are never modified
# --------------------------------------------------------------------------------------------
LAYOUTS = ['c64', 'f64', 'view', 'f32', 'int', 'list', 'readonly']
ARR_CLASSES = ['linear', 'logistic', 'poisson', 'gamma', 'invgauss', 'expectile', 'generic']


def layout_arrays(layout, X, y, w, e):
    """returns (args dict of objects to pass, snapshot function -> comparable state)"""
    holders = {}
    if layout == 'list':
        objs = dict(X=X.tolist(), y=y.tolist(), w=None if w is None else w.tolist(), e=None if e is None else e.tolist())
        snap = lambda: json.dumps(objs, sort_keys=True)   # noqa
        return objs, snap
    def conv(a, twod):
        if a is None:
            return None
        if layout == 'c64':
            return np.ascontiguousarray(a, dtype=np.float64).copy()
        if layout == 'f64':
            return np.asfortranarray(a, dtype=np.float64).copy(order='F')
        if layout == 'f32':
            return np.ascontiguousarray(a, dtype=np.float32).copy()
        if layout == 'int':
            return np.ascontiguousarray(a).astype(np.int64)
        if layout == 'readonly':
            b = np.ascontiguousarray(a, dtype=np.float64).copy()
            b.setflags(write=False)
            return b
        if layout == 'view':
            big = np.zeros((2 * a.shape[0],) + a.shape[1:], dtype=np.float64) - 7.0
            big[::2] = a
            holders[id(big)] = big
            return big[::2]
        raise ValueError(layout)
    objs = dict(X=conv(X, True), y=conv(y, False), w=conv(w, False), e=conv(e, False))

    def snap():
        out = []
        for k in ('X', 'y', 'w', 'e'):
            a = objs[k]
            if a is None:
                out.append(None)
                continue
            base = a.base if (layout == 'view' and a.base is not None) else a
            out.append((str(a.dtype), a.shape, a.strides, a.flags['WRITEABLE'], hashlib.sha1(np.ascontiguousarray(base).tobytes()).hexdigest()))
        return out
    return objs, snap


def array_case(args):
    seed, k, cls, layout = args
    pygam = common.import_pygam()
    silence_progress()
    rng = random.Random('C15-%d-arr-%d' % (seed, k))
    np.random.seed((seed * 104729 + k) % (2 ** 31))
    n = 48
    r = np.random.RandomState(seed * 31 + k)
    intlike = layout == 'int'
    x0 = r.randint(0, 9, n).astype(float) if intlike else r.uniform(0, 4, n)
    x1 = r.randint(-3, 4, n).astype(float) if intlike else r.uniform(-1, 1, n)
    x2 = r.randint(0, 3, n).astype(float)
    x2[:3] = [0, 1, 2]
    X = np.c_[x0, x1, x2]
    eta = 0.3 * np.sin(x0) + 0.2 * x1 + 0.2 * (x2 == 1)
    ykey = YKEY[cls]
    if ykey == 'real':
        y = eta + 0.3 * r.randn(n)
        if intlike:
            y = np.round(3 * y)
    elif ykey == 'bin':
        y = (r.uniform(size=n) < 1 / (1 + np.exp(-eta))).astype(float); y[:2] = [0, 1]
    elif ykey == 'count':
        y = r.poisson(np.exp(eta) * 2).astype(float)
    else:
        y = np.exp(eta + 0.2 * r.randn(n))
        if intlike:
            y = np.ceil(3 * y)
    w = r.randint(1, 4, n).astype(float) if intlike else r.uniform(0.5, 2, n)
    e = (r.randint(1, 4, n).astype(float) if intlike else r.uniform(0.5, 3, n)) if cls == 'poisson' else None
    terms = ['sby+s', 's+l+f', 'te+f', 's+s', 'te+f', 'sby+s', 's+l+f'][k % 7]      # cycles with the case index: every run meets every mix under several layouts
    def mk():
        s, l, f, te = pygam.s, pygam.l, pygam.f, pygam.te
        t = {'s+l+f': lambda: s(0, n_splines=6) + l(1) + f(2), 'te+f': lambda: te(0, 1, n_splines=4) + f(2),
             'sby+s': lambda: s(0, n_splines=6, by=1) + s(1, n_splines=5), 's+s': lambda: s(0, n_splines=6) + s(1, n_splines=5)}[terms]()
        kw = dict(terms=t, max_iter=40)
        if cls == 'linear':
            return pygam.LinearGAM(**kw)
        if cls == 'logistic':
            return pygam.LogisticGAM(**kw)
        if cls == 'poisson':
            return pygam.PoissonGAM(**kw)
        if cls == 'gamma':
            return pygam.GammaGAM(**kw)
        if cls == 'invgauss':
            return pygam.InvGaussGAM(**kw)
        if cls == 'expectile':
            return pygam.ExpectileGAM(expectile=0.6, **kw)
        return pygam.GAM(distribution='normal', link='identity', **kw)
    objs, snap = layout_arrays(layout, X, y, w, e)
    A = objs
    findings = []
    ncalls = 0
    m = mk()

    def call(name, fn, allow=()):
        nonlocal ncalls
        before = snap()
        exc = None
        try:
            with quiet():
                fn()
        except Exception as ex:  # noqa
            exc = ex
        after = snap()
        ncalls += 1
        if before != after:
            findings.append(dict(kind='array-modified', call=name, cls=cls, layout=layout, terms=terms,
                                 which=[k_ for k_, (b_, a_) in zip('Xywe', zip(before, after)) if b_ != a_] if isinstance(before, list) else 'list'))
        if exc is not None and type(exc).__name__ not in allow:
            findings.append(dict(kind='call-raised', call=name, cls=cls, layout=layout, terms=terms, exc=type(exc).__name__, msg=str(exc)[:200]))

    fitkw = dict(weights=A['w'])
    if cls == 'poisson':
        fitkw['exposure'] = A['e']
    call('fit', lambda: m.fit(A['X'], A['y'], **fitkw))
    if not hasattr(m, 'coef_'):
        return dict(k=k, cls=cls, layout=layout, terms=terms, findings=findings, ncalls=ncalls)
    call('fit (refit)', lambda: m.fit(A['X'], A['y'], **fitkw))
    if cls == 'poisson':
        call('predict', lambda: m.predict(A['X'], exposure=A['e']))
        call('loglikelihood', lambda: m.loglikelihood(A['X'], A['y'], exposure=A['e'], weights=A['w']))
    else:
        call('predict', lambda: m.predict(A['X']))
        call('loglikelihood', lambda: m.loglikelihood(A['X'], A['y'], weights=A['w']))
    call('predict_mu', lambda: m.predict_mu(A['X']))
    if cls == 'logistic':
        call('predict_proba', lambda: m.predict_proba(A['X']))
        call('accuracy', lambda: m.accuracy(A['X'], A['y']))
        call('score', lambda: m.score(A['X'], A['y']))
    else:
        call('score', lambda: m.score(A['X'], A['y'], weights=A['w']))
    call('confidence_intervals', lambda: m.confidence_intervals(A['X'], width=0.9))
    if cls == 'linear':
        call('prediction_intervals', lambda: m.prediction_intervals(A['X'], width=0.9))
    call('partial_dependence', lambda: m.partial_dependence(term=0, X=A['X'], width=0.9))
    call('deviance_residuals', lambda: m.deviance_residuals(A['X'], A['y'], weights=A['w'], scaled=True))
    call('summary', lambda: m.summary())
    gkw = dict(fitkw)
    call('gridsearch keep_best=False', lambda: m.gridsearch(A['X'], A['y'], lam=[0.1, 10.0], keep_best=False, progress=False, **gkw))
    call('gridsearch keep_best=True', lambda: m.gridsearch(A['X'], A['y'], lam=[0.3, 30.0], keep_best=True, progress=False, **gkw))
    call('gridsearch (unfitted)', lambda: mk().gridsearch(A['X'], A['y'], lam=[0.1, 10.0], progress=False, **gkw))
    call('sample n_bootstraps=1', lambda: m.sample(A['X'], A['y'], quantity='y', n_draws=3, n_bootstraps=1, weights=A['w']))
    if k % 3 == 0:
        call('sample n_bootstraps=2', lambda: m.sample(A['X'], A['y'], quantity='mu', sample_at_X=A['X'], n_draws=3, n_bootstraps=2, weights=A['w']))
    if cls == 'expectile':
        call('fit_quantile', lambda: mk().fit_quantile(A['X'], A['y'], quantile=0.6, max_iter=4, weights=A['w']))
    return dict(k=k, cls=cls, layout=layout, terms=terms, findings=findings, ncalls=ncalls)


# ---- periodic terms, query points outside the knot range, column-contiguous layouts ---------------------
CP_MIXES = ['cp1', 'cp1-uk', 'cp+s', 'cpuk+l', 'te-cp', 'te-cpuk+s']
CP_LAYOUTS = ['c64', 'f64', 'tview', 'colview', 'rowview', '1d', 'readonly-f']
CP_CLASSES = ['linear', 'poisson', 'logistic', 'gamma']


def cp_layout(layout, a):
    """one array in the given memory layout; returns (array to pass, buffer whose bytes are compared)"""
    a = np.asarray(a, dtype=np.float64)
    if a.ndim == 1:
        if layout in ('colview', 'rowview'):
            big = np.full((a.shape[0], 2), -7.0)
            big[:, 0] = a
            return big[:, 0], big
        b = a.copy()
        if layout == 'readonly-f':
            b.setflags(write=False)
        return b, b
    if layout == 'c64':
        b = np.array(a, order='C'); return b, b
    if layout == 'f64':
        b = np.array(a, order='F'); return b, b
    if layout == 'readonly-f':
        b = np.array(a, order='F'); b.setflags(write=False); return b, b
    if layout == 'tview':        # what DataFrame.values / X.T of a C array look like: every column contiguous
        base = np.ascontiguousarray(a.T).copy()
        return base.T, base
    if layout == 'colview':      # columns 1..m of a wider C-ordered table
        big = np.full((a.shape[0], a.shape[1] + 2), -7.0)
        big[:, 1:1 + a.shape[1]] = a
        return big[:, 1:1 + a.shape[1]], big
    if layout == 'rowview':
        big = np.full((2 * a.shape[0], a.shape[1]), -7.0)
        big[::2] = a
        return big[::2], big
    if layout == '1d':           # single feature handed over as a vector (make_2d expands it)
        b = a[:, 0].copy(); return b, b
    raise ValueError(layout)


def array_cp_case(args):
    """periodic spline terms (also as tensor marginals, also with user knots narrower than the data): the caller's
    arrays, in column-contiguous and other layouts, with query values far outside the knot range, must be bit-identical
    after every public call; the arrays are rebuilt from saved masters before every call"""
    seed, k, cls, mix, layout = args
    pygam = common.import_pygam()
    silence_progress()
    r = np.random.RandomState(seed * 977 + k)
    np.random.seed((seed * 31337 + k) % (2 ** 31))
    n, nq = 70, 41
    single = mix in ('cp1', 'cp1-uk')
    m_feats = 1 if single else 2
    if layout == '1d' and not single:
        layout = 'f64'
    lo, hi = 0.0, 6.0
    x0 = r.uniform(lo, hi, n); x0[:2] = [lo, hi]
    x1 = r.uniform(-1.0, 1.0, n)
    Xtr = x0[:, None] if single else np.c_[x0, x1]
    eta = 0.5 * np.sin(2 * np.pi * x0 / (hi - lo)) + (0 if single else 0.3 * x1)
    ykey = YKEY[cls]
    gen = dict(real=lambda e_: e_ + 0.2 * r.randn(len(e_)),
               bin=lambda e_: (r.uniform(size=len(e_)) < 1 / (1 + np.exp(-e_))).astype(float),
               count=lambda e_: r.poisson(np.exp(e_) * 2).astype(float),
               pos=lambda e_: np.exp(e_ + 0.2 * r.randn(len(e_))))[ykey]
    ytr = gen(eta)
    if ykey == 'bin':
        ytr[:2] = [0, 1]
    wtr = r.uniform(0.5, 2.0, n)
    etr = r.uniform(0.5, 3.0, n) if cls == 'poisson' else None
    # query points: several periods to the left and to the right of the knot range
    q0 = np.r_[np.linspace(lo - 3.3 * (hi - lo), hi + 4.1 * (hi - lo), nq - 4), [lo, hi, lo - 1e-9, hi + 1e-9]]
    q1 = r.uniform(-1.0, 1.0, nq)
    Xq = q0[:, None] if single else np.c_[q0, q1]
    yq = gen(0.5 * np.sin(2 * np.pi * q0 / (hi - lo)))
    if ykey == 'bin':
        yq[:2] = [0, 1]
    wq = r.uniform(0.5, 2.0, nq)
    eq = r.uniform(0.5, 3.0, nq) if cls == 'poisson' else None
    narrow = [1.5, 4.0]       # user knots narrower than the training data: fit itself has to wrap
    s, l, te = pygam.s, pygam.l, pygam.te

    def terms():
        return {'cp1': lambda: s(0, basis='cp', n_splines=8),
                'cp1-uk': lambda: s(0, basis='cp', n_splines=7, edge_knots=narrow),
                'cp+s': lambda: s(0, basis='cp', n_splines=8) + s(1, n_splines=5),
                'cpuk+l': lambda: l(1) + s(0, basis='cp', n_splines=7, edge_knots=narrow),
                'te-cp': lambda: te(0, 1, basis=['cp', 'ps'], n_splines=[5, 4]),
                'te-cpuk+s': lambda: te(s(0, basis='cp', n_splines=5, edge_knots=narrow), s(1, n_splines=4)) + s(1, n_splines=5)}[mix]()

    def mk():
        kw = dict(terms=terms(), max_iter=40)
        return {'linear': pygam.LinearGAM, 'poisson': pygam.PoissonGAM, 'logistic': pygam.LogisticGAM, 'gamma': pygam.GammaGAM}[cls](**kw)

    masters = dict(Xtr=Xtr, ytr=ytr, wtr=wtr, etr=etr, Xq=Xq, yq=yq, wq=wq, eq=eq)
    findings = []
    ncalls = 0

    def call(name, fn):
        """fn(A) with A = freshly laid out copies of the masters; compares every buffer byte for byte afterwards"""
        nonlocal ncalls
        A, bufs = {}, {}
        for key, v in masters.items():
            if v is None:
                A[key] = None
                continue
            A[key], bufs[key] = cp_layout(layout, v)
        saved = {key: b.tobytes() for key, b in bufs.items()}
        exc = None
        try:
            with quiet():
                res = fn(A)
        except Exception as ex:  # noqa
            exc, res = ex, None
        ncalls += 1
        changed = [key for key, b in bufs.items() if b.tobytes() != saved[key]]
        changed += [key + ' (values)' for key, v in masters.items() if v is not None and key not in changed
                    and not np.array_equal(np.asarray(A[key]).reshape(np.asarray(v).shape) if layout != '1d' or key not in ('Xtr', 'Xq') else np.asarray(A[key])[:, None], v)]
        if changed:
            findings.append(dict(kind='array-modified', call=name, which=changed, cls=cls, mix=mix, layout=layout))
        if exc is not None:
            findings.append(dict(kind='call-raised', call=name, exc=type(exc).__name__, msg=str(exc)[:200], cls=cls, mix=mix, layout=layout))
        return res

    fitkw = (lambda A: dict(weights=A['wtr'], exposure=A['etr'])) if cls == 'poisson' else (lambda A: dict(weights=A['wtr']))
    state = {}

    def do_fit(A):
        state['m'] = mk().fit(A['Xtr'], A['ytr'], **fitkw(A))
    call('fit', do_fit)
    m = state.get('m')
    if m is None or not hasattr(m, 'coef_'):
        return dict(k=k, cls=cls, mix=mix, layout=layout, findings=findings, ncalls=ncalls)
    call('fit (refit)', lambda A: m.fit(A['Xtr'], A['ytr'], **fitkw(A)))
    if cls == 'poisson':
        call('predict', lambda A: m.predict(A['Xq'], exposure=A['eq']))
        call('loglikelihood', lambda A: m.loglikelihood(A['Xq'], A['yq'], exposure=A['eq'], weights=A['wq']))
    else:
        call('predict', lambda A: m.predict(A['Xq']))
        call('loglikelihood', lambda A: m.loglikelihood(A['Xq'], A['yq'], weights=A['wq']))
    call('predict_mu', lambda A: m.predict_mu(A['Xq']))
    if cls == 'logistic':
        call('predict_proba', lambda A: m.predict_proba(A['Xq']))
        call('accuracy', lambda A: m.accuracy(A['Xq'], A['yq']))
        call('score', lambda A: m.score(A['Xq'], A['yq']))
    else:
        call('score', lambda A: m.score(A['Xq'], A['yq'], weights=A['wq']))
    call('confidence_intervals', lambda A: m.confidence_intervals(A['Xq'], width=0.9))
    if cls == 'linear':
        call('prediction_intervals', lambda A: m.prediction_intervals(A['Xq'], width=0.9))
    for ti in range(len([t for t in m.terms if not t.isintercept])):
        call('partial_dependence term %d' % ti, lambda A, ti=ti: m.partial_dependence(term=ti, X=A['Xq'], width=0.9))
    call('deviance_residuals', lambda A: m.deviance_residuals(A['Xq'], A['yq'], weights=A['wq'], scaled=True))
    call('gridsearch keep_best=False', lambda A: m.gridsearch(A['Xtr'], A['ytr'], lam=[0.1, 10.0], keep_best=False, progress=False, **fitkw(A)))
    call('gridsearch (unfitted)', lambda A: mk().gridsearch(A['Xtr'], A['ytr'], lam=[0.1, 10.0], progress=False, **fitkw(A)))
    call('sample', lambda A: m.sample(A['Xtr'], A['ytr'], quantity='mu', sample_at_X=A['Xq'], n_draws=3, n_bootstraps=1, weights=A['wtr']))
    # fit on the query-like data themselves (values far outside user knots)
    if 'uk' in mix:
        call('fit (data far outside the user knots)', lambda A: mk().fit(A['Xq'], A['yq'], weights=A['wq']))
    return dict(k=k, cls=cls, mix=mix, layout=layout, findings=findings, ncalls=ncalls)


def run_arrays(ctx, pool):
    st = 'arrays.immutable'
    ctx.stream(st, 'harness-only (NumPy aliasing is outside the model): X / y / weights / exposure bit-identical (bytes, dtype, shape, strides, flags) before / after every public call')
    combos = [(c, l_) for c in ARR_CLASSES for l_ in LAYOUTS]
    rng = ctx.subrng('arrays')
    if ctx.tier == 'quick':
        rng.shuffle(combos)
        chosen = combos[:28]
        # every layout and every class at least once
        for l_ in LAYOUTS:
            if not any(c[1] == l_ for c in chosen):
                chosen.append((rng.choice(ARR_CLASSES), l_))
        for c_ in ARR_CLASSES:
            if not any(c[0] == c_ for c in chosen):
                chosen.append((c_, rng.choice(LAYOUTS)))
    else:
        chosen = combos * 6
    jobs = [(ctx.seed, k, c, l_) for k, (c, l_) in enumerate(chosen)]
    recs = pool.map(array_case, jobs, chunksize=1) if pool is not None else [array_case(j) for j in jobs]
    for rec in recs:
        ctx.case(st, dict(cls=rec['cls'], layout=rec['layout'], terms=rec['terms'], k=rec['k'] if ctx.tier != 'quick' else 0),
                 nontrivial=rec['layout'] != 'c64', sample=dict(cls=rec['cls'], layout=rec['layout'], terms=rec['terms']))
        ctx.count('array layout', rec['layout'])
        ctx.count('array calls', 'n', rec['ncalls'])
        for f in rec['findings']:
            case = dict(kind='arrays', k=rec['k'], seed=ctx.seed, cls=rec['cls'], layout=rec['layout'], terms=rec['terms'], call=f['call'])
            if f['kind'] == 'array-modified':
                rec2 = array_case((ctx.seed, rec['k'], rec['cls'], rec['layout']))
                if any(g['kind'] == 'array-modified' and g['call'] == f['call'] for g in rec2['findings']):
                    ctx.fail(st, dict(kind='array-modified', call=f['call']), case, observed=f,
                             expected='caller arrays unchanged', oracle='bytes / dtype / shape / strides / flags of X, y, weights, exposure before == after')
            else:
                # a read-only or oddly laid out but valid input that makes a public call raise: the call must behave as for float64 C arrays
                ref = array_case((ctx.seed, rec['k'], rec['cls'], 'c64'))
                if not any(g['kind'] == 'call-raised' and g['call'] == f['call'] for g in ref['findings']):
                    if rec['layout'] == 'readonly' and f.get('exc') == 'ValueError' and 'read-only' in f.get('msg', ''):
                        ctx.fail(st, dict(kind='write-to-readonly-input', call=f['call']), case, observed=f,
                                 expected='no write into caller arrays', oracle='a call that succeeds on a writable array must not attempt to write a read-only one')
                    else:
                        ctx.count('layout-dependent exception (not an aliasing finding)', '%s %s %s: %s' % (rec['cls'], rec['layout'], f['call'], f.get('exc')))
                else:
                    ctx.count('call raises also for float64 C arrays', '%s %s: %s' % (rec['cls'], f['call'], f.get('exc')))


# --------------------------------------------------------------------------------------------
# harness-only: predictions are row-wise
# --------------------------------------------------------------------------------------------
def rowwise_case(args):
    seed, k, cls = args
    pygam = common.import_pygam()
    rng = random.Random('C15-%d-row-%d' % (seed, k))
    r = np.random.RandomState(seed * 53 + k)
    n = 60
    X = np.c_[r.uniform(0, 4, n), r.uniform(-1, 1, n), r.randint(0, 3, n)].astype(float)
    X[:3, 2] = [0, 1, 2]
    eta = 0.4 * np.sin(X[:, 0]) + 0.3 * X[:, 1] + 0.2 * (X[:, 2] == 1)
    ykey = 'pos' if cls == 'generic' else YKEY[cls]
    y = dict(real=eta + 0.3 * r.randn(n), bin=(r.uniform(size=n) < 1 / (1 + np.exp(-eta))).astype(float),
             count=r.poisson(np.exp(eta) * 2).astype(float), pos=np.exp(eta + 0.2 * r.randn(n)))[ykey]
    if ykey == 'bin':
        y[:2] = [0, 1]
    s, l, f, te = pygam.s, pygam.l, pygam.f, pygam.te
    terms_name = rng.choice(['s+l+f', 'te+f', 'sby+s', 'cp+f'])
    t = {'s+l+f': lambda: s(0, n_splines=6) + l(1) + f(2), 'te+f': lambda: te(0, 1, n_splines=4) + f(2),
         'sby+s': lambda: s(0, n_splines=6, by=1) + s(1, n_splines=5, spline_order=2),
         'cp+f': lambda: s(0, n_splines=6, basis='cp') + f(2, coding='dummy')}[terms_name]()
    kw = dict(terms=t, max_iter=50)
    m = {'linear': lambda: pygam.LinearGAM(**kw), 'logistic': lambda: pygam.LogisticGAM(**kw), 'poisson': lambda: pygam.PoissonGAM(**kw),
         'gamma': lambda: pygam.GammaGAM(**kw), 'invgauss': lambda: pygam.InvGaussGAM(**kw),
         'expectile': lambda: pygam.ExpectileGAM(expectile=0.3, **kw),
         'generic': lambda: pygam.GAM(distribution='gamma', link='log', **kw)}[cls]()
    w = r.uniform(0.5, 2, n)
    with quiet():
        m.fit(X, y, weights=w)
    # query matrix: new points (beyond the training range too), categories known
    nq = 30
    Xq = np.c_[r.uniform(-1, 5, nq), r.uniform(-1.5, 1.5, nq), r.randint(0, 3, nq)].astype(float)
    yq = dict(real=r.randn(nq), bin=(r.uniform(size=nq) < 0.5).astype(float), count=r.poisson(2.0, nq).astype(float), pos=np.exp(0.3 * r.randn(nq)))[ykey]
    eq = r.uniform(0.5, 3, nq)
    wq = r.uniform(0.5, 2, nq)
    fns = {'predict_mu': lambda I: m.predict_mu(Xq[I]), 'predict': lambda I: (m.predict(Xq[I], exposure=eq[I]) if cls == 'poisson' else m.predict(Xq[I])),
           'confidence_intervals': lambda I: m.confidence_intervals(Xq[I], width=0.9),
           'partial_dependence term 0': lambda I: m.partial_dependence(term=0, X=Xq[I]),
           'partial_dependence term 1 + intervals': lambda I: np.c_[m.partial_dependence(term=1, X=Xq[I], width=0.8)[0], m.partial_dependence(term=1, X=Xq[I], width=0.8)[1]],
           'deviance_residuals': lambda I: m.deviance_residuals(Xq[I], yq[I], weights=wq[I])}
    if cls == 'logistic':
        fns['predict_proba'] = lambda I: m.predict_proba(Xq[I])
    if cls == 'linear':
        fns['prediction_intervals'] = lambda I: m.prediction_intervals(Xq[I], width=0.9)
    idxs = {'sorted subset': np.sort(r.choice(nq, 11, replace=False)), 'permutation': r.permutation(nq),
            'with repetition': r.choice(nq, 17, replace=True), 'single row': np.array([int(r.randint(nq))]),
            'reversed': np.arange(nq)[::-1]}
    full = np.arange(nq)
    findings = []
    nchecks = 0
    exact = 0
    for name, fn in fns.items():
        try:
            with quiet():
                ref = np.asarray(fn(full), float)
        except Exception as ex:  # noqa
            findings.append(dict(kind='call-raised', call=name, exc=type(ex).__name__, msg=str(ex)[:200]))
            continue
        for iname, I in idxs.items():
            with quiet():
                try:
                    got = np.asarray(fn(I), float)
                except Exception as ex:  # noqa
                    findings.append(dict(kind='call-raised', call=name, rows=iname, exc=type(ex).__name__, msg=str(ex)[:200]))
                    continue
            nchecks += 1
            exp = ref[I]
            if got.shape != exp.shape:
                findings.append(dict(kind='rowwise', call=name, rows=iname, maxdiff='shape %s vs %s' % (got.shape, exp.shape)))
                continue
            if np.array_equal(got, exp, equal_nan=True):
                exact += 1
                continue
            dmax = float(np.nanmax(np.abs(got - exp) / np.maximum(1.0, np.abs(exp))))
            if not dmax <= 1e-12:
                findings.append(dict(kind='rowwise', call=name, rows=iname, maxdiff=dmax, I=[int(v) for v in I[:20]]))
    return dict(k=k, cls=cls, terms=terms_name, findings=findings, nchecks=nchecks, exact=exact)


def run_arrays_cp(ctx, pool):
    st = 'arrays.immutable'
    combos = [(mix, lay) for mix in CP_MIXES for lay in CP_LAYOUTS if not (lay == '1d' and mix not in ('cp1', 'cp1-uk'))]
    rng = ctx.subrng('arrays-cp')
    reps = 1 if ctx.tier == 'quick' else 4
    jobs = []
    for rep in range(reps):
        for i, (mix, lay) in enumerate(combos):
            # quick: the full product mix x layout, classes rotating (linear and poisson-with-exposure most often)
            cls = (['linear', 'poisson', 'linear', 'logistic', 'poisson', 'gamma'])[(i + rep + ctx.seed) % 6] if ctx.tier == 'quick' else rng.choice(CP_CLASSES)
            jobs.append((ctx.seed, 1000 * rep + i, cls, mix, lay))
    recs = pool.map(array_cp_case, jobs, chunksize=1) if pool is not None else [array_cp_case(j) for j in jobs]
    for rec in recs:
        ctx.case(st, dict(cls=rec['cls'], mix=rec['mix'], layout=rec['layout'], k=rec['k'] if ctx.tier != 'quick' else 0), nontrivial=True,
                 sample=dict(cls=rec['cls'], mix=rec['mix'], layout=rec['layout']))
        ctx.count('array layout (periodic cases)', rec['layout'])
        ctx.count('array term mix (periodic cases)', rec['mix'])
        ctx.count('array calls', 'n', rec['ncalls'])
        for f in rec['findings']:
            case = dict(kind='arrays-cp', k=rec['k'], seed=ctx.seed, cls=rec['cls'], mix=rec['mix'], layout=rec['layout'], call=f['call'])
            if f['kind'] == 'array-modified':
                rec2 = array_cp_case((ctx.seed, rec['k'], rec['cls'], rec['mix'], rec['layout']))
                if any(g['kind'] == 'array-modified' and g['call'] == f['call'] for g in rec2['findings']):
                    ctx.fail(st, dict(kind='array-modified', call=f['call'].split(' term')[0]), case, observed=f,
                             expected='caller arrays unchanged', oracle='every buffer handed to the call is byte-for-byte what it was (arrays rebuilt from saved masters before each call)')
            else:
                ref = array_cp_case((ctx.seed, rec['k'], rec['cls'], rec['mix'], 'c64'))
                if not any(g['kind'] == 'call-raised' and g['call'] == f['call'] for g in ref['findings']):
                    if rec['layout'] == 'readonly-f' and 'read-only' in f.get('msg', ''):
                        ctx.fail(st, dict(kind='write-to-readonly-input', call=f['call'].split(' term')[0]), case, observed=f,
                                 expected='no write into caller arrays', oracle='a call that succeeds on a writable array must not attempt to write a read-only one')
                    else:
                        ctx.count('layout-dependent exception (not an aliasing finding)', '%s %s %s %s: %s' % (rec['cls'], rec['mix'], rec['layout'], f['call'], f.get('exc')))
                else:
                    ctx.count('call raises also for float64 C arrays', '%s %s %s: %s' % (rec['cls'], rec['mix'], f['call'], f.get('exc')))


def run_rowwise(ctx, pool):
    st = 'predict.rowwise'
    ctx.stream(st, 'harness-only: f(X[I]) == f(X)[I] (exact or 1e-12) for predict / predict_mu / predict_proba / intervals / partial dependence / residuals, I = subset, permutation, repetition, single row')
    ncase = 28 if ctx.tier == 'quick' else 280
    jobs = [(ctx.seed, k, ARR_CLASSES[k % len(ARR_CLASSES)]) for k in range(ncase)]
    recs = pool.map(rowwise_case, jobs, chunksize=1) if pool is not None else [rowwise_case(j) for j in jobs]
    for rec in recs:
        ctx.case(st, dict(cls=rec['cls'], terms=rec['terms'], k=rec['k']), nontrivial=True, sample=dict(cls=rec['cls'], terms=rec['terms']))
        ctx.count('rowwise checks', 'n', rec['nchecks'])
        ctx.count('rowwise checks', 'bit-exact', rec['exact'])
        for f in rec['findings']:
            case = dict(kind='rowwise', k=rec['k'], seed=ctx.seed, cls=rec['cls'], terms=rec['terms'], call=f['call'], rows=f.get('rows'))
            if f['kind'] == 'rowwise':
                big = isinstance(f['maxdiff'], str) or not f['maxdiff'] <= 1e-12 * FAIL_MARGIN
                if big:
                    ctx.fail(st, dict(kind='rowwise', call=f['call']), case, observed=f, expected='f(X[I]) == f(X)[I]',
                             oracle='each output row depends only on the corresponding input row')
                else:
                    ctx.count('rowwise difference between 1e-12 and 1e-11 (not reported)', f['call'])
            else:
                ctx.fail(st, dict(kind='rowwise-call-raised', call=f['call']), case, observed=f, expected='no exception on valid query rows',
                         oracle='a query on a subset of valid rows does not raise')


# --------------------------------------------------------------------------------------------
def make_pool(ctx):
    nproc = int(os.environ.get('VERIF_PROCS', '16' if ctx.tier == 'thorough' else '8'))
    nproc = max(1, min(nproc, os.cpu_count() or 1))
    if nproc == 1:
        return None
    return multiprocessing.get_context('fork').Pool(nproc)


def run(ctx):
    pygam = common.import_pygam()
    ctx.extra['rule'] = ('random call histories (ops: new expression, e1+e2, construct from a shared expression, fit on one of 6 data sets, '
                         'six kinds of query, sample, gridsearch(keep_best T/F), set_params(lam / spline_order / tol,max_iter), deepcopy / pickle, '
                         'gam.terms = expr / set_params(terms=expr) with one expression handed to several models; plus, every run, forced histories: one expression '
                         'assigned to two models fitted on data with other ranges / numbers of categories, a third model built from it) '
                         'over the 7 model classes; distinct = distinct op sequences; non-trivial = at least two live models and at least one fit; '
                         'array stream: class x memory layout; row-wise stream: class x term mix x index set')
    ctx.assumptions.append('PIRLS reaches the optimum determined by (settings, compiled terms, data) from any start: measured on every refit / '
                           'warm-started candidate against a brand-new model (1e-10 for normal/identity, 20*tol otherwise)')
    ctx.partial.append('known limitation (outside the quantifier of the property: no call of the property hands one object to two models): a '
                       'Distribution INSTANCE passed to two generic GAMs is kept by reference (GAM._validate_params does not copy), so '
                       'fitting one rewrites the other\'s distribution.scale (loglikelihood / sample / prediction intervals, not predictions); '
                       'the Heap model gives every constructed model a distribution object of its own')
    ctx.assumptions.append('queries on a fitted model between `gam.terms = e` and its next fit read un-compiled term objects: modelled as an '
                           'error when some term has no knots; what the code raises or returns there is accidental (AttributeError / AssertionError / IndexError / a number), so the outcome is recorded but not compared, only purity is checked')
    ctx.assumptions.append('NumPy aliasing of caller arrays and row-wise evaluation of the numerical code are outside the Lean model: checked on the real code only')
    pool = make_pool(ctx)
    try:
        run_histories(ctx, pygam, pool)
        run_arrays(ctx, pool)
        run_arrays_cp(ctx, pool)
        run_rowwise(ctx, pool)
    finally:
        if pool is not None:
            pool.close()
            pool.join()


def replay(ctx, rp):
    """re-execute the failing case of a replay file (one history / array case / row-wise case), else everything"""
    case = rp.get('case') or {}
    common.import_pygam()
    if case.get('kind') == 'history' and 'k' in case:
        ctx.tier = case.get('tier', ctx.tier)
        run_histories(ctx, None, None, only=[case['k']])
        return
    run(ctx)
