"""
C07 — link functions are monotone bijections with the stated inverse and derivative; targets outside the
domain of the model's link are rejected with a ValueError before any fitting happens.

Theorems: lean/PyGam/Props/C07.lean (over R: mu(link m) = m, link(mu lp) = lp, BijOn, HasDerivAt link = gradient,
StrictMonoOn / StrictAntiOn for all five links and every `levels`; over the IEEE special-value algebra XR:
check_y rejects exactly the targets outside the closed domain, get_link_domain's report).

Correspondence (model = the very definitions the theorems are about, executed by the Lean driver):
  links.values   Float model  vs  Link.link / Link.mu / Link.gradient      (5 links x levels {1,2,5,17})
  links.special  XR Rat model vs  NumPy's IEEE class (nan / +-inf / finite) of the same functions on special
                 and boundary arguments (+ exact value where no transcendental function is involved)
  links.check_y  checkY / getLinkDomain model vs utils.check_y / utils.get_link_domain
  links.fit      checkY model vs the exception raised by GAM(distribution, link).fit and the six model classes,
                 and whether anything was fitted
  dtype axis (the model is a function of the VALUES; the same exact values are handed over in float64/32/16, int8..64,
  uint8..64, bool, object arrays of Python ints, lists — integer dtypes have wrap-around arithmetic of their own):
  links.dtype_values   Float model vs link / mu / gradient evaluated on every other carrier of the same values (1e-11)
  links.check_y_dtype  checkY model on the exact values vs utils.check_y on every dtype that carries them (1-D and column)
  links.entry          checkY model vs fit / gridsearch (fresh and already fitted model), score, loglikelihood,
                       deviance_residuals, accuracy: ValueError before the optimiser is entered and with the model
                       untouched iff rejected; accepted targets give the result of the float64 array of the same values
Oracle (real code only, NumPy only):
  links.oracle   round trips both ways, central-difference derivative vs gradient, strict monotonicity on
                 sorted grids; closed-domain rejection rule written from the property text.
"""
import ast
import contextlib
import inspect
import io
import math
import textwrap

import numpy as np

from harness import common

TOL = 1e-11          # DESIGN 3.4: closed-form scalars, Float model vs implementation (measured: <= 5e-16)
LINK_NAMES = ['identity', 'log', 'logit', 'inverse', 'inv_squared']
LEVELS = [1, 2, 5, 17]
INCREASING = {'identity': True, 'log': True, 'logit': True, 'inverse': False, 'inv_squared': False}
FNS = ['link', 'mu', 'grad']
CALL_ERRORS = []
# (function, link) pairs whose model value is an exact rational (no exp/log/sqrt)
RATIONAL = {('grad', k) for k in LINK_NAMES} | {('link', 'identity'), ('link', 'inverse'), ('link', 'inv_squared'),
                                                 ('mu', 'identity'), ('mu', 'inverse')}


# ---------------------------------------------------------------------------------------------
# helpers
# ---------------------------------------------------------------------------------------------
def _impl(link, fn):
    return {'link': link.link, 'mu': link.mu, 'grad': link.gradient}[fn]


def _call(link, fn, xs, dist):
    """evaluate the real code on a float array, silencing IEEE warnings; returns float64 array"""
    a = np.array(xs, dtype=float)
    try:
        with np.errstate(all='ignore'):
            out = _impl(link, fn)(a, dist)
        out = np.asarray(out, dtype=float) * np.ones_like(a) if np.ndim(out) == 0 else np.asarray(out, dtype=float)
        if out.shape != a.shape:
            raise ValueError('shape %r' % (out.shape,))
        return out
    except Exception as e:  # noqa  (a broken library must give a verdict, not a harness crash: NaN never equals the model)
        CALL_ERRORS.append('%s.%s: %s' % (type(link).__name__, fn, type(e).__name__))
        return np.full(a.shape, math.nan)


def _cls(v):
    v = float(v)
    if v != v:
        return 'nan'
    if v == math.inf:
        return 'inf'
    if v == -math.inf:
        return '-inf'
    return 'fin'


def _xr(v):
    """float -> xr token of the driver (exact rational for finite values; -0.0 -> 0)"""
    c = _cls(v)
    return c if c != 'fin' else common.q2s(common.f2q(v))


def _same(impl, model, scale=0.0, tol=TOL):
    """bit-equal, or both NaN, or within tol relative to |model| + cancellation scale"""
    impl = float(impl); model = float(model)
    if impl != impl or model != model:
        return (impl != impl) and (model != model)
    if impl == model:
        return True
    if math.isinf(impl) or math.isinf(model):
        return False
    return abs(impl - model) <= tol * (abs(model) + scale) + 1e-300


def harvest_literals(objs):
    """numeric literals in the source of the functions under test (literal-seeded sampling)"""
    vals = set()
    for o in objs:
        try:
            src = textwrap.dedent(inspect.getsource(o))
            tree = ast.parse(src)
        except Exception:
            continue
        for node in ast.walk(tree):
            if isinstance(node, ast.Constant) and isinstance(node.value, (int, float)) and not isinstance(node.value, bool):
                v = float(node.value)
                if math.isfinite(v):
                    vals.add(v)
    return sorted(vals)


def neighbours(v):
    out = {v, -v, np.nextafter(v, math.inf), np.nextafter(v, -math.inf), v * (1 + 1e-6), v * (1 - 1e-6)}
    out |= {-w for w in list(out)}
    return [float(w) for w in out]


def _logu(rng, lo, hi):
    return 10.0 ** rng.uniform(lo, hi)


def mean_points(rng, name, L, n, lits):
    """means in the open domain of the link: many orders of magnitude, dyadic grid, boundaries, literals"""
    pts = set()
    if name == 'identity':
        for _ in range(n):
            pts.add(_logu(rng, -12, 12) * rng.choice([-1, 1]))
        pts |= {k / 64.0 for k in range(-128, 129, 8)}
        pts |= {w for v in lits for w in neighbours(v)}
        pts.add(0.0)
    elif name == 'logit':
        Lf = float(L)
        for _ in range(n // 2):
            pts.add(Lf * rng.random())
        for _ in range(n // 4):
            pts.add(Lf * _logu(rng, -12, 0))
            pts.add(Lf * (1.0 - _logu(rng, -12, 0)))
        pts |= {Lf * k / 64.0 for k in range(1, 64, 3)}
        half = Lf / 2
        pts |= {half, np.nextafter(half, 0), np.nextafter(half, Lf), np.nextafter(Lf, 0),
                1e-300, 1e-100, Lf * (1 - 2.0 ** -40)}
        pts |= {w for v in lits for w in neighbours(v)}
        pts = {p for p in pts if 0.0 < p < Lf}
    else:
        for _ in range(n):
            pts.add(_logu(rng, -12, 12))
        for _ in range(max(4, n // 10)):
            pts.add(_logu(rng, -100, 100))
        pts |= {k / 64.0 for k in range(1, 257, 5)}
        pts |= {w for v in lits for w in neighbours(v)}
        pts = {p for p in pts if p > 0.0}
    return sorted(float(p) for p in pts)


def lp_points(rng, name, L, n, lits):
    """linear predictors in the range of the link"""
    if name in ('identity', 'inverse', 'inv_squared'):
        pts = set(mean_points(rng, 'identity' if name == 'identity' else 'log', L, n, lits))
        if name == 'inverse':
            pts |= {-p for p in list(pts)[::7]}      # the negative branch of 1/x is evaluated too
        return sorted(pts)
    pts = set()
    for _ in range(n // 2):
        pts.add(rng.uniform(-30, 30))
    for _ in range(n // 2):
        pts.add(rng.uniform(-740, 705))
    pts |= {k / 64.0 for k in range(-256, 257, 16)}
    pts |= {0.0, 709.0, 709.78, 710.0, 745.0, -745.0, -746.0, 36.0, 37.0, 40.0}
    pts |= {w for v in lits for w in neighbours(v)}
    return sorted(float(p) for p in pts)


SPECIAL_S1 = [0.0, math.inf, -math.inf, math.nan, -1.0, -2.5]


def _unmodelled(name, fn, x):
    """arguments at which the model deliberately does not mirror NumPy (documented in Model/Links.lean, Model/XR.lean):
    * `(-inf) ** -0.5` is +0 for C `pow`, while the model's `1 / sqrt(-inf)` is NaN (inv_squared.mu, far outside its range);
    * overflow of `exp` is not part of the XR algebra (finite results are exact there)."""
    if fn != 'link' and math.isinf(x):
        # mu / gradient at +-inf: not a behaviour the property constrains (it speaks about finite predictors and means
        # of the open domain); left out so that e.g. a numerically stable sigmoid is not reported.  `link` is compared
        # at every special value: its NaN class is the check_y decision.
        return True
    return name == 'inv_squared' and fn == 'mu' and x == -math.inf


# ---------------------------------------------------------------------------------------------
# property oracle on the real code (NumPy only; independent of the model)
# ---------------------------------------------------------------------------------------------
def oracle_point(link, dist, name, L, m=None, lp=None):
    """round trip and derivative at one mean / one predictor.  Returns None if the property holds there."""
    EPS = 2.220446049250313e-16
    Lf = float(L)
    if m is not None:
        m = float(m)
        ok_range = (1e-100 <= abs(m) <= 1e100) or (name == 'identity')
        if name == 'logit':
            ok_range = 0.0 < m < Lf and m >= 1e-300
        elif name != 'identity':
            ok_range = ok_range and m > 0
        if ok_range:
            lpv = float(_call(link, 'link', [m], dist)[0])
            if not math.isfinite(lpv):
                if not (name == 'logit'):
                    return dict(kind='link not finite inside the open domain', mean=m, link=lpv)
            else:
                back = float(_call(link, 'mu', [lpv], dist)[0])
                tol = 1e-9 * (1 + abs(lpv)) * max(abs(m), 1e-300)
                if name == 'logit' and lpv > 0:
                    tol += 8 * EPS * Lf          # L - m is only known to ~eps*L when m is close to L
                if not (abs(back - m) <= tol):
                    return dict(kind='mu(link(m)) != m', mean=m, link=lpv, back=back, tol=tol)
            # derivative: central difference with a step relative to the distance to the boundary
            scale = max(1.0, abs(m)) if name == 'identity' else (min(m, Lf - m) if name == 'logit' else m)
            h = 1e-5 * scale
            lo, hi = m - h, m + h
            # (the difference quotient is centred at (lo+hi)/2, within 1 ulp of m: needs scale >> ulp(m))
            if hi > lo and scale >= 1e-8 * abs(m) and (name != 'logit' or (0.0 < lo and hi < Lf and scale > 1e-290)):
                f = _call(link, 'link', [lo, hi], dist)
                g = float(_call(link, 'grad', [m], dist)[0])
                fd = (float(f[1]) - float(f[0])) / (hi - lo)
                if math.isfinite(fd):
                    if not (math.isfinite(g) and abs(fd - g) <= 1e-6 * abs(fd) + 1e-300):
                        return dict(kind='gradient != d link / d mu (central difference)', mean=m, gradient=g,
                                    central_difference=fd)
    if lp is not None:
        lp = float(lp)
        if name == 'identity':
            ok_range = True
        elif name == 'log':
            ok_range = -700 <= lp <= 700
        elif name == 'logit':
            ok_range = -700 <= lp <= 30
        elif name == 'inverse':
            ok_range = 1e-100 <= abs(lp) <= 1e100
        else:
            ok_range = 1e-100 <= lp <= 1e100
        if ok_range:
            mv = float(_call(link, 'mu', [lp], dist)[0])
            if not math.isfinite(mv):
                return dict(kind='mu not finite inside the range', lp=lp, mu=mv)
            back = float(_call(link, 'link', [mv], dist)[0])
            tol = 1e-9 * (1 + abs(lp))
            if name == 'logit' and lp > 0:
                tol += 8 * EPS * math.exp(lp)
            if name in ('inverse', 'inv_squared'):
                tol = 1e-9 * abs(lp)
            if not (abs(back - lp) <= tol):
                return dict(kind='link(mu(lp)) != lp', lp=lp, mu=mv, back=back, tol=tol)
    return None


def oracle_monotone(link, dist, name, L, means):
    """strict monotonicity of the link on a sorted, well separated grid of the open domain"""
    Lf = float(L)
    grid = []
    for m in sorted(set(means)):
        if name != 'identity' and not (m > 0):
            continue
        if name == 'logit' and not (m < Lf):
            continue
        if name != 'identity' and not (1e-100 <= m <= 1e100) and name != 'logit':
            continue
        if grid:
            p = grid[-1]
            gap = m - p
            ref = max(abs(m), abs(p), 1e-300) if name != 'logit' else min(m, Lf - p, Lf - m, p)
            if name == 'identity':
                ref = max(abs(m), abs(p), 1.0)
            if not (gap >= 1e-6 * ref):
                continue
        grid.append(m)
    if len(grid) < 2:
        return None
    v = _call(link, 'link', grid, dist)
    d = np.diff(v)
    if np.all(d > 0) or np.all(d < 0):
        # direction must agree with the sign of the reported gradient
        g = _call(link, 'grad', grid, dist)
        sgn = 1.0 if d[0] > 0 else -1.0
        if not np.all(sgn * g > 0):
            i = int(np.argmax(~(sgn * g > 0)))
            return dict(kind='sign of gradient disagrees with the direction of the link', mean=grid[i], gradient=float(g[i]))
        return None
    inc = d > 0
    i = int(np.argmax(inc != inc[0])) if (inc != inc[0]).any() else int(np.argmax(d == 0))
    return dict(kind='link not strictly monotone', m0=grid[i], m1=grid[i + 1], link0=float(v[i]), link1=float(v[i + 1]))


def _levels_of(dist):
    """number of trials the logit link works with: `levels` of a binomial, one for every other distribution"""
    lv = getattr(dist, 'levels', 1)
    return lv if isinstance(lv, int) and not isinstance(lv, bool) and lv >= 1 else 1


def oracle_reject(name, L, ys):
    """the rejection rule read off the property text: reject iff empty, or a non-finite target, or a target
    outside the closed domain of the link (identity, inverse, inv_squared: every finite number — their value at 0
    is +inf, not NaN; log: [0, inf); logit: [0, levels])"""
    ys = [float(v) for v in ys]
    if len(ys) == 0 or any(not math.isfinite(v) for v in ys):
        return True
    if name == 'log':
        return any(v < 0 for v in ys)
    if name == 'logit':
        return any(v < 0 or v > L for v in ys)
    return False


# ---------------------------------------------------------------------------------------------
# stream 1 + oracle: values
# ---------------------------------------------------------------------------------------------
def run_values(ctx, pg):
    from pygam.links import LINKS
    from pygam.distributions import BinomialDist
    st = 'links.values'
    so = 'links.oracle'
    ctx.stream(st, 'Link.link / mu / gradient vs Float model (bit-equal or 1e-11 relative), 5 links x levels {1,2,5,17}')
    ctx.stream(so, 'real code only: mu(link m)=m, link(mu lp)=lp, central-difference derivative = gradient, strict monotonicity')
    n = 150 if ctx.tier == 'quick' else 4000
    lits = harvest_literals([LINKS[k] for k in LINK_NAMES])
    ctx.extra['harvested_literals'] = lits
    jobs, ops = [], []
    for name in LINK_NAMES:
        for L in LEVELS:
            rng = ctx.subrng('values', name, L)
            means = mean_points(rng, name, L, n, lits)
            lps = lp_points(rng, name, L, n, lits)
            for fn in FNS:
                pts = (lps if fn == 'mu' else means) + [v for v in SPECIAL_S1 if not _unmodelled(name, fn, v)]
                jobs.append((name, L, fn, pts, means, lps))
                ops.append('C07 val %s %s %s %s' % (fn, name, common.f2bits(float(L)), ' '.join(common.f2bits(x) for x in pts)))
    outs = ctx.driver.run(ops)
    for (name, L, fn, pts, means, lps), out in zip(jobs, outs):
        link = LINKS[name]()
        dist = BinomialDist(levels=L)
        impl = _call(link, fn, pts, dist)
        if out == 'bad-op' or len(out.split()) != len(pts):
            ctx.disagree(st, dict(link=name, levels=L, fn=fn), None, out, 'driver did not answer')
            continue
        model = [common.bits2f(t) for t in out.split()]
        nontriv = (name != 'identity') and (name == 'logit' or L == 1)
        exact = 0
        for x, iv, mv in zip(pts, impl, model):
            sig = dict(link=name, levels=L, fn=fn, x=common.f2bits(x))
            ctx.case(st, sig, nontrivial=nontriv, sample=dict(link=name, levels=L, fn=fn, x=x, impl=float(iv), model=mv))
            scale = 0.0
            if name == 'logit' and fn == 'link' and 0 < x < L:
                scale = abs(math.log(x)) + abs(math.log(L - x))
            if common.f2bits(iv) == common.f2bits(mv):
                exact += 1
            if _same(iv, mv, scale):
                continue
            if fn == 'mu' and name in ('log', 'logit') and math.isfinite(x) and abs(x) > 700:
                # exp over/underflows here (the coded logit mean is NaN beyond lp = 709.78): not a region the property
                # speaks about; any value inside the closed mean space is tolerated so that a numerically stable
                # rewrite is not reported
                fv = float(iv)
                if fv == fv and fv >= 0 and (name == 'log' or fv <= L):
                    ctx.count('values: overflow region, differs from model but inside mean space', name)
                    continue
            # disagreement: does the property itself fail here (real code only)?  re-executed, x10 margin
            iv2 = float(_call(link, fn, [x], dist)[0])
            if _same(iv2, mv, scale, tol=10 * TOL):
                continue
            bad = None
            if math.isfinite(x):
                bad = oracle_point(link, dist, name, L, m=x if fn != 'mu' else None, lp=x if fn == 'mu' else None)
                if bad is None and fn == 'mu' and math.isfinite(iv2):
                    bad = oracle_point(link, dist, name, L, m=iv2)
            case = dict(call='pygam.links.LINKS[%r]().%s(np.array([%r]), BinomialDist(levels=%d))' % (
                name, {'link': 'link', 'mu': 'mu', 'grad': 'gradient'}[fn], x, L), link=name, levels=L, fn=fn, x=x,
                x_bits=common.f2bits(x))
            if bad is not None:
                ctx.fail(st, dict(link=name, levels=L, fn=fn), case, observed=dict(value=iv2, oracle=bad),
                         expected=dict(model=mv), oracle='round trip / central difference on the real code')
            else:
                ctx.disagree(st, case, iv2, mv, 'value differs from the Float model by more than 1e-11; oracle holds at this input')
        ctx.count('values bit-equal', '%s/%s' % (name, fn), exact)
        ctx.count('values total', '%s/%s' % (name, fn), len(pts))
        # ---- oracle sweep on the real code over the same points (once per link x levels)
        if fn == 'link':
            for m in means:
                ctx.case(so, dict(link=name, levels=L, m=common.f2bits(m)), nontrivial=nontriv)
                bad = oracle_point(link, dist, name, L, m=m)
                if bad is not None:
                    bad2 = oracle_point(link, dist, name, L, m=m)
                    if bad2 is not None:
                        ctx.fail(so, dict(link=name, levels=L, kind=bad['kind']),
                                 dict(link=name, levels=L, mean=m, mean_bits=common.f2bits(m)), observed=bad,
                                 expected='mu(link(m)) = m and gradient(m) = d link/d mu', oracle='round trip + central difference')
            for lp in lps:
                ctx.case(so, dict(link=name, levels=L, lp=common.f2bits(lp)), nontrivial=nontriv)
                bad = oracle_point(link, dist, name, L, lp=lp)
                if bad is not None and oracle_point(link, dist, name, L, lp=lp) is not None:
                    ctx.fail(so, dict(link=name, levels=L, kind=bad['kind']),
                             dict(link=name, levels=L, lp=lp, lp_bits=common.f2bits(lp)), observed=bad,
                             expected='link(mu(lp)) = lp', oracle='round trip')
            ctx.case(so, dict(link=name, levels=L, monotone=len(means)), nontrivial=nontriv)
            bad = oracle_monotone(link, dist, name, L, means)
            if bad is not None:
                ctx.fail(so, dict(link=name, levels=L, kind=bad['kind']), dict(link=name, levels=L, grid=len(means)),
                         observed=bad, expected='strictly monotone link with gradient of the same sign',
                         oracle='sorted grid of the open domain')


# ---------------------------------------------------------------------------------------------
# stream 2: IEEE classes on special / boundary arguments
# ---------------------------------------------------------------------------------------------
def special_points(L):
    Lf = float(L)
    base = [-math.inf, -1e100, -3.0, -1.0, -0.5, -1e-100, 0.0, 1e-100, 0.25, 0.5, 1.0, 1.5, 2.0, 3.0,
            Lf, Lf / 2, Lf - 0.5, Lf + 0.5, 2 * Lf, 1e100, math.inf, math.nan]
    for b in (0.0, 1.0, Lf, -1.0):
        base += [float(np.nextafter(b, math.inf)), float(np.nextafter(b, -math.inf))]
    seen, out = set(), []
    for v in base:
        k = common.f2bits(v)
        if k not in seen and not (v == 0 and math.copysign(1, v) < 0):
            seen.add(k); out.append(v)
    return out


def run_special(ctx, pg):
    from pygam.links import LINKS
    from pygam.distributions import BinomialDist
    st = 'links.special'
    ctx.stream(st, 'IEEE class (nan/inf/-inf/finite) of link/mu/gradient on special & boundary arguments vs XR Rat model')
    jobs, ops = [], []
    for name in LINK_NAMES:
        for L in LEVELS:
            for fn in FNS:
                pts = [x for x in special_points(L) if not _unmodelled(name, fn, x)
                       and not (fn == 'mu' and name in ('log', 'logit') and math.isfinite(x) and abs(x) > 700)]
                jobs.append((name, L, fn, pts))
                ops.append('C07 xval %s %s %d %s' % (fn, name, L, ' '.join(_xr(x) for x in pts)))
    outs = ctx.driver.run(ops)
    for (name, L, fn, pts), out in zip(jobs, outs):
        link = LINKS[name](); dist = BinomialDist(levels=L)
        impl = _call(link, fn, pts, dist)
        toks = out.split()
        if out == 'bad-op' or len(toks) != len(pts):
            ctx.disagree(st, dict(link=name, levels=L, fn=fn), None, out, 'driver did not answer')
            continue
        for x, iv, tk in zip(pts, impl, toks):
            ctx.count('special: class of result', tk.split(':')[0])
            sig = dict(link=name, levels=L, fn=fn, x=common.f2bits(x))
            ctx.case(st, sig, nontrivial=(name != 'identity'), sample=dict(link=name, levels=L, fn=fn, x=repr(x), impl=repr(float(iv)), model=tk))
            mc = tk.split(':')[0]
            ok = _cls(iv) == mc
            if mc == 'fin' and ':' in tk:
                # exact rational value of the model; finite exact values outside the double range over/underflow in
                # NumPy (not modelled by XR): only sign and hugeness / smallness are compared there
                q = common.s2q(tk.split(':')[1])
                fv = float(iv)
                if abs(q) > 10 ** 290:
                    ok = (fv == fv) and abs(fv) > 1e280 and (fv > 0) == (q > 0)
                elif q != 0 and abs(q) < common.Fraction(1, 10 ** 290):
                    ok = (fv == fv) and abs(fv) < 1e-280
                else:
                    ok = _cls(iv) == 'fin' and _same(fv, float(q))
            if ok:
                continue
            case = dict(link=name, levels=L, fn=fn, x=repr(x), x_bits=common.f2bits(x))
            # property-level consequence: the NaN-class of link(y) is what check_y decides on
            bad = None
            if fn == 'link' and math.isfinite(x):
                want = oracle_reject(name, L, [x])
                if (_cls(iv) == 'nan') != want:
                    bad = dict(link_value=repr(float(iv)), is_nan=_cls(iv) == 'nan', outside_closed_domain=want)
            if bad is not None:
                ctx.fail(st, dict(link=name, levels=L, fn=fn), case, observed=bad,
                         expected='link(y) is NaN exactly for y outside the closed domain', oracle='closed-domain rule from the property text')
            else:
                ctx.disagree(st, case, repr(float(iv)), tk, 'IEEE class / exact value differs from the XR model')


# ---------------------------------------------------------------------------------------------
# stream 3: check_y and get_link_domain
# ---------------------------------------------------------------------------------------------
def target_arrays(rng, name, L, count, lits=()):
    """target arrays: in-domain, boundary, +-1 ulp, out-of-domain, specials, empty, 2-D, integer dtype"""
    Lf = float(L)
    inside = [0.5 * Lf, 0.25, Lf * 0.75, 1e-9, Lf * (1 - 1e-9), 1e-300]
    if name in ('identity', 'inverse', 'inv_squared'):
        inside += [-1.0, -1e6, 1e6, 3.5]
    if name == 'log':
        inside += [1e6, 3.5, 1e300]
    boundary = [0.0, -0.0, Lf, float(np.nextafter(0.0, 1.0)), float(np.nextafter(Lf, 0.0)), 1.0]
    outside = [float(np.nextafter(0.0, -1.0)), -1e-300, -1.0, -0.5, float(np.nextafter(Lf, math.inf)), Lf + 1, Lf + 0.5,
               2 * Lf, -1e300, 1e300]
    special = [math.nan, math.inf, -math.inf]
    arrs = [[], [0.0], [Lf], [-0.0], [0.5 * Lf]]
    litpts = sorted({w for v in lits for w in neighbours(v)} | {Lf * v for v in lits} | {Lf - v for v in lits})
    outside = outside + litpts        # literal-seeded: thresholds introduced by an edit become test points
    for v in litpts:
        arrs.append([v])
    for v in boundary + outside + special:
        arrs.append([v])
        arrs.append([0.5 * Lf, v, 0.25 * Lf])
    for _ in range(count):
        k = rng.randint(1, 6)
        r = rng.random()
        pool = inside + boundary if r < 0.4 else (inside + boundary + outside if r < 0.85 else inside + boundary + outside + special)
        a = [rng.choice(pool) for _ in range(k)]
        if r >= 0.4:
            a[rng.randrange(k)] = rng.choice(outside if r < 0.85 else special + outside)
        arrs.append(a)
    return arrs


def run_check_y(ctx, pg):
    from pygam.links import LINKS
    from pygam.distributions import DISTRIBUTIONS, BinomialDist
    from pygam import utils
    st = 'links.check_y'
    ctx.stream(st, 'utils.check_y verdict (ValueError / returns the ravelled array) and utils.get_link_domain vs checkY / getLinkDomain model')
    count = 40 if ctx.tier == 'quick' else 600
    lits = harvest_literals([utils.check_y, utils.get_link_domain, utils.check_array] + [LINKS[k] for k in LINK_NAMES])
    lits = [v for v in lits if abs(v) <= 1e6]
    ctx.extra['harvested_literals_check_y'] = lits
    jobs, ops = [], []
    for name in LINK_NAMES:
        for L in LEVELS:
            rng = ctx.subrng('check_y', name, L)
            dists = [('binomial(levels=%d)' % L, BinomialDist(levels=L))]
            dn = sorted(DISTRIBUTIONS)[LEVELS.index(L) % len(DISTRIBUTIONS)]
            dists.append((dn, DISTRIBUTIONS[dn]()))
            for arr in target_arrays(rng, name, L, count, lits):
                shape = rng.choice(['1d', '1d', '2d', 'list', 'int']) if arr else '1d'
                for dname, dist in dists:
                    # the logit link of a distribution without `levels` (every one but the binomial) has one trial
                    Le = _levels_of(dist) if name == 'logit' else L
                    jobs.append(('y', name, Le, dname, dist, arr, shape))
                    ops.append('C07 checky %s %d %s' % (name, Le, ' '.join(_xr(v) for v in arr)))
            jobs.append(('domain', name, L, dists[0][0], dists[0][1], None, None))
            ops.append('C07 domain %s %d' % (name, L))
    outs = ctx.driver.run(ops)
    # a link object carries no state: the verdict for (targets, distribution) must not depend on which distributions the
    # same object has been paired with before — every other job re-uses one long-lived link object per link name, across
    # distributions and numbers of trials (a model keeps its link object when its distribution is replaced)
    shared = {name: LINKS[name]() for name in LINK_NAMES}
    for jidx, ((kind, name, L, dname, dist, arr, shape), out) in enumerate(zip(jobs, outs)):
        link = shared[name] if jidx % 2 else LINKS[name]()
        ctx.count('check_y: link object', 'shared across jobs' if jidx % 2 else 'fresh')
        if kind == 'domain':
            try:
                d = utils.get_link_domain(link, dist)
                impl = '%s %s' % (_xr(d[0]), _xr(d[1]))
            except Exception as e:  # noqa
                impl = type(e).__name__
            ctx.case(st, dict(domain=name, levels=L), nontrivial=True, sample=dict(get_link_domain=name, levels=L, impl=impl, model=out))
            if impl != out:
                ctx.disagree(st, dict(call='utils.get_link_domain', link=name, levels=L), impl, out,
                             'reported domain differs (affects the text of the error message only)')
            continue
        y = arr
        if shape == '1d':
            y = np.array(arr, dtype=float)
        elif shape == '2d':
            y = np.array(arr, dtype=float).reshape(1, -1) if len(arr) % 2 else np.array(arr, dtype=float).reshape(-1, 1)
        elif shape == 'int':
            if all(math.isfinite(v) and float(v).is_integer() and abs(v) < 2 ** 50 for v in arr):
                y = np.array([int(v) for v in arr], dtype=int)
            else:
                y = np.array(arr, dtype=float)

        def call():
            try:
                r = utils.check_y(y, link, dist, verbose=False)
                same = np.array_equal(np.asarray(r, dtype=float), np.ravel(np.asarray(arr, dtype=float)))
                return 'accept' if same else 'accept-but-changed'
            except ValueError:
                return 'reject'
            except Exception as e:  # noqa
                return type(e).__name__
        impl = call()
        has_out = bool(arr) and all(math.isfinite(v) for v in arr) and oracle_reject(name, L, arr)
        ctx.count('check_y: model verdict', out)
        ctx.count('check_y: array kind', 'empty' if not arr else ('non-finite' if any(not math.isfinite(v) for v in arr) else ('outside' if has_out else 'inside/boundary')))
        sig = dict(link=name, levels=L, dist=dname, y=[common.f2bits(v) for v in arr], shape=shape)
        ctx.case(st, sig, nontrivial=bool(arr), sample=dict(link=name, levels=L, dist=dname, y=[repr(v) for v in arr], impl=impl, model=out))
        if impl == out:
            continue
        impl2 = call()
        want = 'reject' if oracle_reject(name, L, arr) else 'accept'
        case = dict(call='pygam.utils.check_y(y, LINKS[%r](), %s)' % (name, dname), link=name, levels=L, dist=dname,
                    y=[repr(v) for v in arr], y_bits=[common.f2bits(v) for v in arr], shape=shape)
        if impl2 != want:
            ctx.fail(st, dict(link=name, levels=L, verdict=impl2, want=want), case, observed=impl2, expected=want,
                     oracle='reject (ValueError) iff empty / non-finite / some target outside the closed domain of the link')
        else:
            ctx.disagree(st, case, impl2, out, 'check_y verdict differs from the model although it follows the closed-domain rule')


# ---------------------------------------------------------------------------------------------
# stream 4: fit-level rejection, every link x distribution + the model classes
# ---------------------------------------------------------------------------------------------
def _fit_outcome(make, X, y):
    """('reject-before-fit' | 'validated' | other) for one fresh model"""
    gam = make()
    try:
        with contextlib.redirect_stdout(io.StringIO()):
            gam.fit(X, y)
        return 'validated'
    except ValueError:
        touched = hasattr(gam, 'statistics_') or hasattr(gam, 'coef_') or hasattr(gam, 'logs_')
        return 'validated' if touched else 'reject-before-fit'
    except Exception as e:  # noqa
        touched = hasattr(gam, 'statistics_') or hasattr(gam, 'coef_')
        return 'validated' if touched else type(e).__name__


def run_fit(ctx, pg):
    import pygam
    from pygam import GAM, s
    from pygam.distributions import DISTRIBUTIONS, BinomialDist
    st = 'links.fit'
    ctx.stream(st, 'GAM(distribution, link).fit and the model classes: ValueError before anything is fitted iff the checkY model rejects')
    n = 12
    X = np.linspace(0.0, 1.0, n)[:, None]
    configs = []
    for name in LINK_NAMES:
        for dn in sorted(DISTRIBUTIONS):
            configs.append((name, dn, 1, 'GAM(%s,%s)' % (dn, name),
                            (lambda dn=dn, name=name: GAM(s(0, n_splines=4), distribution=dn, link=name, max_iter=1))))
        for L in LEVELS[1:]:
            configs.append((name, 'binomial', L, 'GAM(binomial(levels=%d),%s)' % (L, name),
                            (lambda L=L, name=name: GAM(s(0, n_splines=4), distribution=BinomialDist(levels=L), link=name, max_iter=1))))
    for cls, name, dn in (('LinearGAM', 'identity', 'normal'), ('LogisticGAM', 'logit', 'binomial'), ('PoissonGAM', 'log', 'poisson'),
                          ('GammaGAM', 'log', 'gamma'), ('InvGaussGAM', 'log', 'inv_gauss'), ('ExpectileGAM', 'identity', 'normal')):
        configs.append((name, dn, 1, cls, (lambda cls=cls: getattr(pygam, cls)(s(0, n_splines=4), max_iter=1))))
    reps = 1 if ctx.tier == 'quick' else 10
    jobs, ops = [], []
    for name, dn, L, label, make in configs:
        rng = ctx.subrng('fit', label)
        Lf = float(L)
        base = [Lf * (0.15 + 0.7 * rng.random()) for _ in range(n)]
        variants = [('inside', None, None)]
        cand = [('zero', 0.0), ('levels', Lf), ('below0', float(np.nextafter(0.0, -1.0))), ('neg', -0.5), ('neg1', -1.0),
                ('above', float(np.nextafter(Lf, math.inf))), ('above+', Lf + 0.5), ('twice', 2 * Lf + 1), ('nan', math.nan), ('inf', math.inf)]
        for _ in range(reps):
            for tag, v in cand:
                variants.append((tag, v, rng.randrange(n)))
        for tag, v, pos in variants:
            y = list(base)
            if v is not None:
                y[pos] = v
            jobs.append((name, dn, L, label, make, tag, pos, y))
            ops.append('C07 checky %s %d %s' % (name, L, ' '.join(_xr(t) for t in y)))
    outs = ctx.driver.run(ops)
    for (name, dn, L, label, make, tag, pos, y), out in zip(jobs, outs):
        ya = np.array(y, dtype=float)
        impl = _fit_outcome(make, X, ya)
        model = 'reject-before-fit' if out == 'reject' else ('validated' if out == 'accept' else out)
        sig = dict(model=label, target=tag, pos=pos)
        ctx.count('fit: model verdict', out)
        ctx.count('fit: outcome', impl)
        ctx.case(st, sig, nontrivial=(tag != 'inside'), sample=dict(model=label, target=tag, pos=pos, impl=impl, expected=model))
        if impl == model:
            continue
        case = dict(call='%s.fit(X, y)' % label, link=name, distribution=dn, levels=L, target=tag, pos=pos,
                    X='np.linspace(0,1,%d)[:,None]' % n, y=[repr(v) for v in y], y_bits=[common.f2bits(v) for v in y])
        impl2 = _fit_outcome(make, X, ya)
        want = 'reject-before-fit' if oracle_reject(name, L, y) else 'validated'
        if impl2 != want:
            ctx.fail(st, dict(model=label, target=tag, outcome=impl2), case, observed=impl2, expected=want,
                     oracle='ValueError with nothing fitted iff a target is outside the closed domain of the link (or not finite)')
        else:
            ctx.disagree(st, case, impl2, model, 'fit outcome differs from the model although it follows the closed-domain rule')


# ---------------------------------------------------------------------------------------------
# dtype axis: the same VALUES arriving in another numeric dtype / container
# ---------------------------------------------------------------------------------------------
# The property speaks about means and targets as numbers; NumPy carries them in a dtype, and integer dtypes have
# arithmetic of their own (wrap-around of unsigned / small signed integers, value-based casting of `levels - mu`,
# float16 results for 8-bit inputs).  Streams 5-7 run the value-level statements of streams 1, 3 and 4 over the dtypes
# in which a user can hand over the same values.  The model side is unchanged (checkY / linkFn are functions of the
# values): the exact values are sent to the driver as rationals / float64 bit patterns.
DT_FLOAT = ['float64', 'float32', 'float16']
DT_INT = ['int8', 'int16', 'int32', 'int64']
DT_UINT = ['uint8', 'uint16', 'uint32', 'uint64']
DT_OTHER = ['bool', 'object', 'list']
ALL_DT = DT_FLOAT + DT_INT + DT_UINT + DT_OTHER
DT_GROUPS = [DT_FLOAT[1:], DT_INT, DT_UINT, DT_OTHER]
LEVELS_DT = [1, 2, 5, 17, 30, 300]      # 30, 300: products mu * (levels - mu) beyond the range of 8-bit integers
INT_EDGES = [127, 128, 255, 256, 32767, 32768, 65535, 65536, 2 ** 24, 2 ** 31 - 1, 2 ** 31, 2 ** 32 - 1, 2 ** 32,
             2 ** 53, 2 ** 63 - 1, 2 ** 63, 2 ** 64 - 1]
NEG_EDGES = [-1, -2, -128, -129, -32768, -2 ** 31, -2 ** 63]


def _representable(v, dt):
    """is the exact value v (int / Fraction) carried without change by dtype / container dt?"""
    v = common.Fraction(v)
    if dt in DT_FLOAT:
        try:
            f = float(v)
        except OverflowError:
            return False
        if common.Fraction(f) != v:
            return False
        with np.errstate(all='ignore'):
            g = float(np.dtype(dt).type(f))
        return math.isfinite(g) and g == f
    if dt in DT_INT or dt in DT_UINT:
        ii = np.iinfo(dt)
        return v.denominator == 1 and ii.min <= v <= ii.max
    if dt == 'bool':
        return v in (0, 1)
    if dt == 'object':
        return v.denominator == 1
    if dt == 'list':
        return v.denominator == 1 or common.Fraction(float(v)) == v
    return False


def _mk(vals, dt):
    """the values as an array of dtype dt / an object array of Python ints / a Python list"""
    if dt in DT_FLOAT:
        return np.array([float(v) for v in vals], dtype=dt)
    if dt in DT_INT or dt in DT_UINT:
        return np.array([int(v) for v in vals], dtype=dt)
    if dt == 'bool':
        return np.array([bool(int(v)) for v in vals], dtype=bool)
    if dt == 'object':
        return np.array([int(v) for v in vals], dtype=object)
    return [int(v) if common.Fraction(v).denominator == 1 else float(v) for v in vals]


def _carriers(vals, dts=ALL_DT):
    return [dt for dt in dts if all(_representable(v, dt) for v in vals)]


# ---- stream 5: link / mu / gradient on non-float64 arrays ------------------------------------
def dtype_points(name, L, fn):
    """exact arguments (ints, dyadic fractions) of the open domain / the range"""
    F = common.Fraction
    ints = [1, 2, 3, 5, 7, 11, 100] + INT_EDGES + [1000, 30000]
    fracs = [F(1, 8), F(1, 2), F(3, 4), F(5, 2), F(33, 8)]
    if fn == 'mu':
        if name == 'identity':
            return [0] + ints + NEG_EDGES + fracs + [-f for f in fracs]
        if name in ('log', 'logit'):
            return list(range(-20, 21)) + fracs + [-f for f in fracs] + [-30, 30]
        if name == 'inverse':
            return ints + NEG_EDGES + fracs + [-f for f in fracs]
        return ints + fracs
    if name == 'identity':
        return [0] + ints + NEG_EDGES + fracs + [-f for f in fracs]
    if name == 'logit':
        if L <= 40:
            ks = list(range(1, L))
        else:
            ks = sorted(set(list(range(1, 12)) + list(range(L // 2 - 6, L // 2 + 7)) + list(range(L - 11, L)) + list(range(1, L, 13))))
        return ks + [F(k, 8) for k in range(1, 8 * min(L, 3)) if k % 8] + [L - F(1, 8), L - F(1, 2)]
    return ints + fracs


def run_dtype_values(ctx, pg):
    from pygam.links import LINKS
    from pygam.distributions import BinomialDist
    st = 'links.dtype_values'
    ctx.stream(st, 'Link.link / mu / gradient on float32/16, int8..64, uint8..64, bool, object arrays and lists vs the Float '
                   'model at the same values (bit-equal or 1e-11 relative)')
    jobs, ops = [], []
    for name in LINK_NAMES:
        for L in (LEVELS_DT if name == 'logit' else [1]):
            for fn in FNS:
                pts = dtype_points(name, L, fn)
                for dt in ALL_DT[1:]:               # every carrier other than a float64 array
                    vals = [v for v in pts if _representable(v, dt)]
                    if dt == 'bool' and fn != 'mu' and name != 'identity':
                        vals = [v for v in vals if v != 0]
                    if not vals:
                        continue
                    jobs.append((name, L, fn, dt, vals))
                    ops.append('C07 val %s %s %s %s' % (fn, name, common.f2bits(float(L)), ' '.join(common.f2bits(float(v)) for v in vals)))
    outs = ctx.driver.run(ops)
    for (name, L, fn, dt, vals), out in zip(jobs, outs):
        link = LINKS[name](); dist = BinomialDist(levels=L)
        if out == 'bad-op' or len(out.split()) != len(vals):
            ctx.disagree(st, dict(link=name, levels=L, fn=fn, dtype=dt), None, out, 'driver did not answer')
            continue
        model = [common.bits2f(t) for t in out.split()]

        def ev(vs):
            try:
                with np.errstate(all='ignore'):
                    r = np.asarray(_impl(link, fn)(_mk(vs, dt), dist))
                if r.shape != (len(vs),):
                    return 'shape %r' % (r.shape,), None
                return r.astype(float), r.dtype
            except Exception as e:  # noqa
                return type(e).__name__, None
        got, rd = ev(vals)
        ctx.count('dtype_values: result dtype', '%s -> %s' % (dt, rd))
        for i, (v, mv) in enumerate(zip(vals, model)):
            sig = dict(link=name, levels=L, fn=fn, dtype=dt, x=common.q2s(v))
            ctx.case(st, sig, nontrivial=(name != 'identity'))
            x = float(v)
            if isinstance(got, str):
                ok, iv = False, got
            else:
                iv = float(got[i])
                # the links convert their argument to float64 first (identity returns it / ones of its dtype: exact), so the
                # float64 model is the reference for every dtype, at the tolerance of links.values
                tol = TOL
                scale = 0.0
                if name == 'logit' and fn == 'link' and 0 < x < L:
                    scale = abs(math.log(x)) + abs(math.log(L - x))
                ok = _same(iv, mv, scale, tol=tol)
            if ok:
                continue
            tol = TOL
            got2, rd2 = ev([v])
            iv2 = got2 if isinstance(got2, str) else float(got2[0])
            if not isinstance(iv2, str) and not isinstance(iv, str) and _same(iv2, mv, 0.0, tol=10 * tol):
                continue
            try:
                ref = float(_call(link, fn, [x], dist)[0])    # the real code on the float64 version of the same value
            except Exception:  # noqa
                ref = math.nan
            case = dict(call='pygam.links.LINKS[%r]().%s(%s, BinomialDist(levels=%d))' % (
                name, {'link': 'link', 'mu': 'mu', 'grad': 'gradient'}[fn],
                ('[%s]' % common.q2s(v)) if dt == 'list' else 'np.array([%s], dtype=%r)' % (common.q2s(v), dt), L),
                link=name, levels=L, fn=fn, dtype=dt, x=common.q2s(v))
            if _same(ref, mv, 0.0, tol=10 * TOL) or (isinstance(iv2, str)):
                ctx.fail(st, dict(link=name, levels=L, fn=fn, dtype=dt), case,
                         observed=dict(value=iv2 if isinstance(iv2, str) else repr(iv2), result_dtype=str(rd2)),
                         expected=dict(float64_evaluation=repr(ref), model=repr(mv)),
                         oracle='the link / inverse link / gradient at a valid argument does not depend on the dtype that '
                                'carries it: the float64 evaluation satisfies round trip and derivative, this one differs from it')
            else:
                ctx.disagree(st, case, repr(iv2), repr(mv), 'value differs from the Float model (float64 evaluation differs too)')


# ---- stream 6: check_y over dtypes ------------------------------------------------------------
def dtype_target_arrays(rng, name, L, count, lits=()):
    """exact target arrays (ints and dyadic fractions): inside, boundary, outside, dtype edges"""
    F = common.Fraction
    inside = sorted({0, 1, L, max(L - 1, 0), L // 2})
    wide = [2, 3, L + 1, L + 2, 2 * L, 2 * L + 1, 100] + INT_EDGES + NEG_EDGES
    wide += [int(v) for v in lits if float(v).is_integer() and abs(v) < 2 ** 62] + [L + int(v) for v in lits if float(v).is_integer() and abs(v) < 2 ** 62]
    fr = [F(1, 8), L - F(1, 8), F(L, 2) + F(1, 4), L + F(1, 8), L + F(1, 2), -F(1, 8), -F(1, 2), F(2049, 2), F(2 ** 24 + 1, 2)]
    pool = sorted(set(inside + wide + fr))
    arrs = [[v] for v in pool]
    for v in pool:
        arrs.append([inside[rng.randrange(len(inside))], v, inside[rng.randrange(len(inside))]])
    for _ in range(count):
        k = rng.randint(2, 6)
        a = [rng.choice(inside) for _ in range(k)]
        if rng.random() < 0.7:
            a[rng.randrange(k)] = rng.choice(pool)
        arrs.append(a)
    return arrs


def run_check_y_dtype(ctx, pg):
    from pygam.links import LINKS
    from pygam.distributions import DISTRIBUTIONS, BinomialDist
    from pygam import utils
    st = 'links.check_y_dtype'
    ctx.stream(st, 'utils.check_y verdict for the same target values carried by float64/32/16, int8..64, uint8..64, bool, '
                   'object arrays, lists (1-D and column) vs the checkY model on the exact values')
    count = 10 if ctx.tier == 'quick' else 300
    lits = harvest_literals([utils.check_y, utils.get_link_domain, utils.check_array] + [LINKS[k] for k in LINK_NAMES])
    lits = [v for v in lits if abs(v) <= 1e6]
    jobs, ops = [], []
    for name in LINK_NAMES:
        for L in LEVELS:
            rng = ctx.subrng('check_y_dtype', name, L)
            dists = [('binomial(levels=%d)' % L, BinomialDist(levels=L))]
            dn = sorted(DISTRIBUTIONS)[(LEVELS.index(L) + 2) % len(DISTRIBUTIONS)]
            dists.append((dn, DISTRIBUTIONS[dn]()))
            for arr in dtype_target_arrays(rng, name, L, count, lits):
                cs = _carriers(arr)
                if not cs:
                    continue
                column = rng.random() < 0.25
                for dname, dist in dists:
                    Le = _levels_of(dist) if name == 'logit' else L      # logit of a non-binomial distribution: one trial
                    ops.append('C07 checky %s %d %s' % (name, Le, ' '.join(common.q2s(v) for v in arr)))
                    jobs.append((name, Le, [(dname, dist)], arr, cs, column))
    outs = ctx.driver.run(ops)
    for (name, L, dists, arr, cs, column), out in zip(jobs, outs):
        link = LINKS[name]()
        fl = [float(v) for v in arr]
        want = 'reject' if oracle_reject(name, L, fl) else 'accept'
        ctx.count('check_y_dtype: model verdict', out)
        for dt in cs:
            for dname, dist in dists:
                def call():
                    try:
                        y = _mk(arr, dt)
                        if column:
                            y = np.asarray(y).reshape(-1, 1) if dt != 'list' else [[t] for t in y]
                        r = utils.check_y(y, link, dist, verbose=False)
                        same = np.array_equal(np.asarray(r, dtype=float), np.asarray(fl, dtype=float))
                        return 'accept' if same else 'accept-but-changed'
                    except ValueError:
                        return 'reject'
                    except Exception as e:  # noqa
                        return type(e).__name__
                impl = call()
                ctx.count('check_y_dtype: dtype', dt)
                sig = dict(link=name, levels=L, dist=dname, y=[common.q2s(v) for v in arr], dtype=dt, column=column)
                ctx.case(st, sig, nontrivial=(dt != 'float64'),
                         sample=dict(link=name, levels=L, dist=dname, y=[common.q2s(v) for v in arr], dtype=dt, impl=impl, model=out))
                if impl == out:
                    continue
                impl2 = call()
                case = dict(call='pygam.utils.check_y(y, LINKS[%r](), %s)' % (name, dname), link=name, levels=L, dist=dname,
                            y=[common.q2s(v) for v in arr], dtype=dt, column=column,
                            build='np.array(y, dtype=%r)' % dt if dt not in ('list', 'object') else dt + ' of Python numbers')
                if impl2 != want:
                    ctx.fail(st, dict(link=name, levels=L, dtype=dt, verdict=impl2, want=want), case, observed=impl2, expected=want,
                             oracle='reject (ValueError) iff some target value is outside the closed domain of the link, '
                                    'whatever numeric dtype carries the values')
                else:
                    ctx.disagree(st, case, impl2, out, 'check_y verdict differs from the model although it follows the closed-domain rule')


# ---- stream 7: the public entry points that validate y, fresh and fitted models, over dtypes ---
_ENTERED = []
_PROBES = {}


def _probe(obj):
    """the same model as an instance of a subclass that records entry into the optimiser (observation only)"""
    cls = type(obj)
    if cls not in _PROBES:
        def _pirls(self, *a, **k):
            _ENTERED.append(1)
            return super(_PROBES[cls], self)._pirls(*a, **k)
        _PROBES[cls] = type(cls.__name__, (cls,), {'_pirls': _pirls, '__module__': cls.__module__})
    try:
        obj.__class__ = _PROBES[cls]
    except Exception:  # noqa
        pass
    return obj


def _num(v):
    try:
        a = np.asarray(v, dtype=float)
        return a
    except Exception:  # noqa
        return None


def _entry_outcome(entry, make, fitted, X, y):
    """(verdict, value) of one public entry point.
    verdict: 'reject-before-fit' (ValueError, optimiser not entered, model untouched) | 'validated' (y passed validation:
    a result, or a failure inside / after the optimiser) | name of another exception raised before the optimiser"""
    import copy
    try:
        gam = _probe(copy.deepcopy(fitted) if fitted is not None else make())
    except Exception as e:  # noqa
        return 'harness-copy-' + type(e).__name__, None
    before = (getattr(gam, 'coef_', None), getattr(gam, 'statistics_', None), getattr(gam, 'logs_', None))
    bcoef = None if before[0] is None else np.array(before[0], copy=True)
    del _ENTERED[:]
    val = None
    try:
        with contextlib.redirect_stdout(io.StringIO()), contextlib.redirect_stderr(io.StringIO()):
            if entry == 'fit':
                gam.fit(X, y)
                val = _num(getattr(gam, 'coef_', None))
            elif entry == 'gridsearch':
                gam.gridsearch(X, y, lam=[0.3, 30.0], progress=False)
                val = _num(getattr(gam, 'coef_', None))
            else:
                val = _num(getattr(gam, entry)(X, y))
        return 'validated', val
    except Exception as e:  # noqa
        after = (getattr(gam, 'coef_', None), getattr(gam, 'statistics_', None), getattr(gam, 'logs_', None))
        touched = bool(_ENTERED) or any(a is not b for a, b in zip(after, before))
        if not touched and bcoef is not None:
            try:
                touched = not np.array_equal(np.asarray(after[0]), bcoef)
            except Exception:  # noqa
                touched = True
        if touched:
            return 'validated', type(e).__name__
        return ('reject-before-fit' if isinstance(e, ValueError) else type(e).__name__), None


def _same_result(a, b, entry):
    """result of an entry point for the dtype version vs the float64 version of the same values"""
    if isinstance(a, str) or isinstance(b, str) or a is None or b is None:
        return (isinstance(a, str) and isinstance(b, str) and a == b) or (a is None and b is None)
    if a.shape != b.shape:
        return False
    rtol = 1e-6 if entry in ('fit', 'gridsearch') else 2e-3      # float16 / int8 targets: statistics in half precision
    with np.errstate(all='ignore'):
        okn = np.isnan(a) == np.isnan(b)
        d = np.abs(a - b) <= rtol * (np.abs(b) + np.max(np.abs(b[np.isfinite(b)]), initial=0.0)) + 1e-9
        eq = (a == b)
    return bool(np.all(okn & (d | eq | np.isnan(a))))


def run_entry(ctx, pg):
    import pygam
    from pygam import GAM, s
    from pygam.distributions import DISTRIBUTIONS, BinomialDist
    st = 'links.entry'
    ctx.stream(st, 'fit / gridsearch (fresh and fitted model), score, loglikelihood, deviance_residuals, accuracy with integer-'
                   'valued targets carried by every dtype: ValueError before the optimiser iff checkY rejects, else the result '
                   'of the float64 version')
    n = 12
    X = np.linspace(0.0, 1.0, n)[:, None]
    kw = dict(max_iter=2, verbose=False)
    configs = []
    for name in LINK_NAMES:
        for dn in sorted(DISTRIBUTIONS):
            configs.append((name, dn, 1, 'GAM(%s,%s)' % (dn, name),
                            (lambda dn=dn, name=name: GAM(s(0, n_splines=4), distribution=dn, link=name, **kw))))
        for L in LEVELS[1:] + [300]:
            configs.append((name, 'binomial', L, 'GAM(binomial(levels=%d),%s)' % (L, name),
                            (lambda L=L, name=name: GAM(s(0, n_splines=4), distribution=BinomialDist(levels=L), link=name, **kw))))
    for cls, name, dn in (('LinearGAM', 'identity', 'normal'), ('LogisticGAM', 'logit', 'binomial'), ('PoissonGAM', 'log', 'poisson'),
                          ('GammaGAM', 'log', 'gamma'), ('InvGaussGAM', 'log', 'inv_gauss'), ('ExpectileGAM', 'identity', 'normal')):
        configs.append((name, dn, 1, cls, (lambda cls=cls: getattr(pygam, cls)(s(0, n_splines=4), **kw))))
    quick = ctx.tier == 'quick'
    jobs, ops = [], []
    for name, dn, L, label, make in configs:
        rng = ctx.subrng('entry', label)
        has_domain = name in ('log', 'logit')
        lo = 0 if name == 'logit' else 1
        hi = L if name == 'logit' else 6
        base = [rng.randint(lo, hi) for _ in range(n)]
        if name == 'logit':
            base[rng.randrange(n)] = 0
            base[rng.randrange(n)] = L
            if len(set(base)) < 2:
                base[0], base[1] = 0, L
        cand = [('inside', None), ('levels+1', L + 1), ('2levels+1', 2 * L + 1), ('-1', -1), ('255', 255), ('65536', 65536)]
        if quick and not has_domain:
            cand = [cand[rng.randrange(len(cand))]]        # every value is inside the domain of these links
        elif quick:
            cand = cand[:4] + [cand[4 + rng.randrange(2)]]
        for tag, v in cand:
            y = list(base)
            pos = None
            if v is not None:
                pos = rng.randrange(n)
                y[pos] = v
            cs = _carriers(y)
            if quick:
                pick = []
                for grp in DT_GROUPS:
                    g = [d for d in cs if d in grp]
                    if g:
                        pick.append(g[rng.randrange(len(g))])
                if not has_domain and len(pick) > 2:
                    pick = rng.sample(pick, 2)
                cs = ['float64'] + pick
            jobs.append((name, dn, L, label, make, tag, pos, y, base, cs))
            ops.append('C07 checky %s %d %s' % (name, L, ' '.join(str(int(t)) for t in y)))
    outs = ctx.driver.run(ops)
    fitted_cache = {}
    hook_seen = False
    for (name, dn, L, label, make, tag, pos, y, base, cs), out in zip(jobs, outs):
        if label not in fitted_cache:
            # the fitted model of this configuration: trained on the float64 in-domain targets
            fm = None
            try:
                with contextlib.redirect_stdout(io.StringIO()):
                    fm = make().fit(X, np.array(base, dtype=float))
            except Exception as e:  # noqa
                fm = None
                ctx.count('entry: reference fit fails (fitted-model entries skipped)', '%s: %s' % (label, type(e).__name__))
            fitted_cache[label] = fm
        fm = fitted_cache[label]
        entries = [('fit', None), ('gridsearch', None)]
        if fm is not None:
            entries += [('fit', fm), ('gridsearch', fm), ('score', fm), ('loglikelihood', fm), ('deviance_residuals', fm)]
            if label == 'LogisticGAM':
                entries.append(('accuracy', fm))
        if quick and tag != 'inside' and out == 'accept':
            entries = [e for e in entries if e[0] != 'gridsearch']
        want_v = 'reject-before-fit' if oracle_reject(name, L, [float(t) for t in y]) else 'validated'
        model_v = 'reject-before-fit' if out == 'reject' else ('validated' if out == 'accept' else out)
        for entry, fitted in entries:
            ref = None
            for dt in cs:
                ename = '%s(%s)' % (entry, 'fitted' if fitted is not None else 'fresh')
                verdict, val = _entry_outcome(entry, make, fitted, X, _mk(y, dt))
                hook_seen = hook_seen or bool(_ENTERED)
                if dt == 'float64':
                    ref = (verdict, val)
                ctx.count('entry: outcome', verdict)
                sig = dict(model=label, entry=ename, target=tag, dtype=dt)
                ctx.case(st, sig, nontrivial=(dt != 'float64' or tag != 'inside'),
                         sample=dict(model=label, entry=ename, target=tag, pos=pos, dtype=dt, outcome=verdict, expected=model_v))
                case = dict(call='%s: %s(X, y)' % (label, ename), link=name, distribution=dn, levels=L, target=tag, pos=pos, dtype=dt,
                            X='np.linspace(0,1,%d)[:,None]' % n, y=[int(t) for t in y],
                            fitted_on=None if fitted is None else [int(t) for t in base])
                if verdict != model_v:
                    v2, _ = _entry_outcome(entry, make, fitted, X, _mk(y, dt))
                    if v2 == model_v:
                        continue
                    if v2 != want_v:
                        ctx.fail(st, dict(model=label, entry=ename, target=tag, dtype=dt, outcome=v2), case, observed=v2, expected=want_v,
                                 oracle='ValueError before the optimiser is entered and with the model untouched iff a target value is '
                                        'outside the closed domain of the link, whatever dtype carries the targets and whichever entry point')
                    else:
                        ctx.disagree(st, case, v2, model_v, 'outcome differs from the model although it follows the closed-domain rule')
                    continue
                if verdict == 'validated' and dt != 'float64' and ref is not None and ref[0] == 'validated':
                    if not _same_result(val, ref[1], entry):
                        v2, val2 = _entry_outcome(entry, make, fitted, X, _mk(y, dt))
                        r2v, r2 = _entry_outcome(entry, make, fitted, X, _mk(y, 'float64'))
                        if v2 == 'validated' and r2v == 'validated' and not _same_result(val2, r2, entry):
                            def short(t):
                                return t if (t is None or isinstance(t, str)) else [repr(float(u)) for u in np.ravel(t)[:6]]
                            ctx.fail(st, dict(model=label, entry=ename, target=tag, dtype=dt, outcome='result differs from float64'), case,
                                     observed=short(val2), expected=short(r2),
                                     oracle='accepted targets give the result of the float64 array of the same values')
    if not hook_seen:
        ctx.count('entry: optimiser-entry recorder inert (fallback: model attributes only)', 1)


# ---------------------------------------------------------------------------------------------
STREAMS = [('links.values', run_values), ('links.special', run_special), ('links.check_y', run_check_y), ('links.fit', run_fit),
           ('links.dtype_values', run_dtype_values), ('links.check_y_dtype', run_check_y_dtype), ('links.entry', run_entry)]


def run(ctx, only=None):
    pg = common.import_pygam()
    del CALL_ERRORS[:]
    ctx.extra['rule'] = ('full product link x levels{1,2,5,17} x {link,mu,gradient}; points = log-uniform magnitudes 1e-12..1e12 '
                         '(+1e-100..1e100), dyadic grids, domain boundaries and +-1 ulp, literals harvested from links.py; '
                         'target arrays = inside / boundary / +-1ulp outside / specials / empty x array shape; every link x '
                         'distribution and the six model classes for fit.  distinct = distinct (stream, link, levels, function, '
                         'argument bits) resp. (model, target kind, position); identity-link cases and levels != 1 copies of '
                         'links that ignore levels are counted as trivial.  dtype axis: exact integer / dyadic values (inside, '
                         'boundary, levels+1, 2*levels(+1), -1, edges 127/128/255/256/.../2^64-1 of the integer dtypes, harvested '
                         'literals) x every dtype / container that carries them exactly; entry points x fresh / fitted model x link '
                         'x distribution (quick: one dtype per family float / signed / unsigned / bool-object-list per case, '
                         'thorough: full product); float64 copies are counted as trivial')
    ctx.assumptions.append('IEEE-754 special-value behaviour of NumPy (log, subtraction, division, power) is modelled by XR '
                           '(stream links.special ties it to NumPy on every run); rounding is not modelled')
    ctx.assumptions.append('x**-1.0, x**-2.0, x**-3.0, x**-0.5 are modelled as 1/x, 1/(x*x), 1/(x*x*x), 1/sqrt(x) '
                           '(equal over R on the domain; agreement with NumPy measured <= 5e-16 relative)')
    ctx.assumptions.append('entry into the optimiser is observed through a recording subclass override of GAM._pirls '
                           '(observation only; if that hook is inert the run says so and falls back to coef_ / statistics_ / logs_)')
    for nm, f in STREAMS:
        if only is None or nm == only or (only == 'links.oracle' and nm == 'links.values'):
            f(ctx, pg)
    for k in CALL_ERRORS:
        ctx.count('link function raised / returned a wrong shape on a float64 array (treated as NaN)', k)


def replay(ctx, rp):
    """re-execute the stream that produced the replay with the recorded seed"""
    import random
    if 'seed' in rp:
        ctx.seed = int(rp['seed'])
        ctx.rng = random.Random('%s-%d' % (ctx.pid, ctx.seed))
    if rp.get('tier') in ('quick', 'thorough'):
        ctx.tier = rp['tier']
    run(ctx, only=rp.get('stream'))
