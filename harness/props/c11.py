"""
C11 — invalid data are rejected, never silently turned into a model or a number.

Theorems: lean/PyGam/Props/C11.lean (array checks reject a non-finite value at any position of an array of any
length, wrong width / length / too few samples, out-of-domain targets, unseen categories; for every entry point of the
table and every data argument a corruption gives ValueError on a fitted model; AttributeError before fit).

Streams
  utils.*        pygam.utils.check_array / check_y / check_X / check_lengths / get_link_domain, the links' NaN set and the
                 float32 cast against the model definitions (random arrays, literal-seeded values)
  entry.calls    exhaustive product  model class x term program x entry point x data argument x corruption x fitted?
                 with sampled positions: exception class of the real call vs `outcome` of the Lean model, and vs the
                 property text (independent oracle `allowed`)
  entry.shared_column  every class x term programs in which a factor term shares its column with numerical terms placed
                 before / after it (linear, spline, tensor marginal) or coexists with other factor terms: every post-fit
                 entry point x out-of-range level of every factor column -> ValueError (property text); valid -> accepted
  hostile.fits   fits on valid but hostile data must end in {ValueError family, finite coef_ and finite predictions}
  initial.adjust boundary targets: model says link(adjust(y)) is finite => the real fit does not trip its assertion
"""
import ast
import contextlib
import copy
import inspect
import io
import math
import os
import time
import warnings

import numpy as np

from harness import common
from harness.common import f2q, q2s

INF = float('inf')
NAN = float('nan')
REFIT = ('fit', 'poisson_fit', 'gridsearch', 'poisson_gridsearch', 'fit_quantile')


# --------------------------------------------------------------------------------------------
# transport
# --------------------------------------------------------------------------------------------
_ENC = {}


def enc_val(v):
    v = float(v)
    r = _ENC.get(v)
    if r is None:
        r = _ENC[v] = _enc_val(v)
    return r


def _enc_val(v):
    if v != v:
        return 'nan'
    if v == INF:
        return 'inf'
    if v == -INF:
        return '-inf'
    return q2s(f2q(v))


def enc_vec(v):
    if v is None:
        return '-'
    return '%d|%s' % (len(v), ','.join(enc_val(x) for x in v))


def enc_mat(M):
    if M is None:
        return '-'
    return '%d|%s' % (len(M), ';'.join(','.join(enc_val(x) for x in row) for row in M))


def exc_class(e):
    if e is None:
        return 'ok'
    if isinstance(e, ValueError):
        return 'ValueError'
    if isinstance(e, AttributeError):
        return 'AttributeError'
    return 'other:' + type(e).__name__


@contextlib.contextmanager
def quiet():
    with warnings.catch_warnings():
        warnings.simplefilter('ignore')
        with contextlib.redirect_stdout(io.StringIO()):
            with np.errstate(all='ignore'):
                yield


def harvest_literals(funcs):
    vals = set()
    for f in funcs:
        try:
            tree = ast.parse(inspect.getsource(f).lstrip() if False else _dedent(inspect.getsource(f)))
        except Exception:
            continue
        for node in ast.walk(tree):
            if isinstance(node, ast.Constant) and isinstance(node.value, (int, float)) and not isinstance(node.value, bool):
                x = float(node.value)
                if math.isfinite(x) and abs(x) < 1e6:
                    vals.add(x)
    out = set()
    for x in vals:
        for y in (x, -x, np.nextafter(x, INF), np.nextafter(x, -INF), x + 1, x - 1):
            out.add(float(y))
    return sorted(out)


def _dedent(src):
    import textwrap
    return textwrap.dedent(src)


# --------------------------------------------------------------------------------------------
# stream 1: utils-level ties
# --------------------------------------------------------------------------------------------
LINKS = ['identity', 'logit', 'log', 'inverse', 'inv_squared']


def _mk_link(pygam, name, levels):
    from pygam.links import LINKS as L
    from pygam.distributions import BinomialDist
    return L[name](), BinomialDist(levels=levels)


def rand_vec(rng, n, special_p=0.0):
    out = []
    for _ in range(n):
        if rng.random() < special_p:
            out.append(rng.choice([NAN, INF, -INF]))
        else:
            out.append(rng.randint(-64, 192) / 32.0)
    return out


def run_utils(ctx):
    pygam = common.import_pygam()
    from pygam import utils, links as plinks
    import pygam.pygam as pg
    lits = harvest_literals([utils.check_array, utils.check_y, utils.check_X, utils.check_lengths, utils.check_X_y,
                             utils.get_link_domain, plinks.LogitLink.link, plinks.LogLink.link, plinks.InverseLink.link,
                             plinks.InvSquaredLink.link, pg.GAM._initial_estimate, pg.PoissonGAM._exposure_to_weights])
    ctx.count('literals harvested', len(lits))
    rng = ctx.subrng('utils')
    thorough = ctx.tier == 'thorough'

    # ---- link NaN set + get_link_domain ----------------------------------------------------
    st = 'utils.link_nan'
    ctx.stream(st, 'np.isnan(link.link(v, dist)) vs linkIsNaN (special values, boundaries, harvested literals) and get_link_domain')
    pts = [NAN, INF, -INF, 0.0, -0.0, 1.0, -1.0, 5e-324, -5e-324, 1e-300, 1e300, -1e300] + lits
    ops, meta = [], []
    for ln in LINKS:
        for lv in (1, 2, 3, 5):
            ext = [float(lv), np.nextafter(lv, INF), np.nextafter(lv, -INF), lv / 2.0, lv + 1.0]
            for v in pts + ext:
                if v == 0 and math.copysign(1, v) < 0:
                    continue
                ops.append('C11 isnan %s %d %s' % (ln, lv, enc_val(v)))
                meta.append((ln, lv, v))
            ops.append('C11 domain %s %d' % (ln, lv))
            meta.append((ln, lv, 'domain'))
    outs = ctx.driver.run(ops)
    for (ln, lv, v), out in zip(meta, outs):
        link, dist = _mk_link(pygam, ln, lv)
        with quiet():
            if v == 'domain':
                d = utils.get_link_domain(link, dist)
                impl = '%s %s' % (enc_val(d[0]), enc_val(d[1]))
            else:
                impl = '1' if bool(np.isnan(link.link(np.array([v]), dist))[0]) else '0'
        sig = dict(link=ln, levels=lv, v=repr(v))
        ctx.case(st, sig, nontrivial=True, sample=dict(link=ln, levels=lv, v=repr(v), impl=impl))
        if impl != out:
            ctx.disagree(st, sig, impl, out, 'NaN set of the link differs')

    # ---- float32 cast -------------------------------------------------------------------------
    st = 'utils.cast32'
    ctx.stream(st, 'finiteness of np.array(w).astype("f") vs castF32 around the float32 overflow threshold')
    fmax = float(np.finfo(np.float32).max)
    thr = float(2.0 ** 128 - 2.0 ** 103)
    vals = [fmax, np.nextafter(fmax, INF), thr, np.nextafter(thr, -INF), np.nextafter(thr, INF), 1e38, 1e39, -1e39, -thr,
            np.nextafter(-thr, INF), 3.5e38, 1e300, -1e300, 0.0, 1.0, NAN, INF, -INF]
    vals += [rng.choice([-1, 1]) * 10 ** rng.uniform(37.5, 39.5) for _ in range(40)]
    outs = ctx.driver.run(['C11 cast32 %s' % enc_val(v) for v in vals])
    for v, out in zip(vals, outs):
        with quiet():
            c = float(np.array([v]).astype('f')[0])
        impl = enc_val(c) if not math.isfinite(c) else '0'
        sig = dict(v=repr(float(v)))
        ctx.case(st, sig, nontrivial=True)
        if impl != out:
            ctx.disagree(st, sig, impl, out, 'float32 overflow differs')

    # ---- check_array / check_lengths / check_y / check_X -------------------------------------
    st = 'utils.check'
    ctx.stream(st, 'exception class of utils.check_array / check_lengths / check_y / check_X vs model on random arrays')
    N = 1500 if thorough else 400
    ops, thunks, sigs = [], [], []
    for i in range(N):
        r = ctx.subrng('utils.check', i)
        kind = r.choice(['a1', 'a2', 'len', 'y', 'X'])
        sp = r.choice([0.0, 0.0, 0.03, 0.15])
        if kind == 'a1':
            n = r.choice([0, 1, 2, 3, 7])
            mn = r.choice([0, 1, 2, 3])
            v = rand_vec(r, n, sp)
            ops.append('C11 check_array1 %d %s' % (mn, enc_vec(v)))
            arr = to_container(v, r.choice(['nd', 'list', 'object', 'str', 'strlist', 'none']))
            thunks.append(lambda arr=arr, mn=mn: utils.check_array(arr, ndim=1, min_samples=mn, verbose=False))
            sigs.append(dict(k=kind, n=n, mn=mn, special=sum(1 for x in v if not math.isfinite(x))))
        elif kind == 'a2':
            n = r.choice([1, 2, 3, 5])
            w = r.choice([1, 2, 3])
            mn = r.choice([0, 1, 2, 3])
            nf = r.choice([None, 1, 2, 3])
            M = [rand_vec(r, w, sp) for _ in range(n)]
            ops.append('C11 check_array2 %s %d %s' % ('-' if nf is None else nf, mn, enc_mat(M)))
            arr = to_container(M, r.choice(['nd', 'list', 'object', 'str', 'strlist', 'none']), True)
            thunks.append(lambda arr=arr, mn=mn, nf=nf: utils.check_array(arr, force_2d=True, n_feats=nf, min_samples=mn, verbose=False))
            sigs.append(dict(k=kind, n=n, w=w, mn=mn, nf=nf, special=sum(1 for row in M for x in row if not math.isfinite(x))))
        elif kind == 'len':
            k = r.choice([1, 2, 3, 4])
            base = r.choice([1, 2, 5])
            ls = [base + (r.choice([-1, 1, 2]) if r.random() < 0.25 else 0) for _ in range(k)]
            ops.append('C11 check_lengths %s' % ','.join(map(str, ls)))
            arrs = [np.zeros(x) if r.random() < 0.5 else [0.0] * x for x in ls]
            thunks.append(lambda arrs=arrs: utils.check_lengths(*arrs))
            sigs.append(dict(k=kind, ls=ls))
        elif kind == 'y':
            ln = r.choice(LINKS)
            lv = r.choice([1, 1, 2, 3])
            n = r.choice([0, 1, 2, 5, 9])
            mn = r.choice([1, 1, 2])
            v = rand_vec(r, n, sp)
            if r.random() < 0.5:
                v = [abs(x) if r.random() < 0.9 else x for x in v]
            if r.random() < 0.5 and n:
                v[r.randrange(n)] = r.choice(lits + [float(lv), float(np.nextafter(lv, INF)), float(np.nextafter(0, -INF))])
            ops.append('C11 check_y %s %d %d %s' % (ln, lv, mn, enc_vec(v)))
            link, dist = _mk_link(pygam, ln, lv)
            arr = to_container(v, r.choice(['nd', 'list', 'object', 'str', 'strlist', 'none']))
            thunks.append(lambda arr=arr, link=link, dist=dist, mn=mn: utils.check_y(arr, link, dist, min_samples=mn, verbose=False))
            sigs.append(dict(k=kind, link=ln, lv=lv, n=n, mn=mn, v=[repr(x) for x in v]))
        else:
            n = r.choice([1, 2, 4, 6])
            w = r.choice([1, 2, 3])
            mn = r.choice([1, 1, 2])
            M = [[float(r.randint(0, 3)) if j == 1 else r.randint(0, 64) / 64.0 for j in range(w)] for _ in range(n)]
            if r.random() < sp * 4:
                M[r.randrange(n)][r.randrange(w)] = r.choice([NAN, INF, -INF])
            fitted = r.random() < 0.7
            if fitted:
                mf = r.choice([1, 2, 3])
                feats = sorted(set(r.randrange(mf) for _ in range(r.choice([1, 2]))))
                lo, hi = r.choice([(-0.5, 2.5), (0.5, 2.5), (-0.5, 1.5), (-0.5, 3.5)])
                cats = [(1, lo, hi)] if (1 in feats) else []
                fit_s = '%d:%s:%s' % (mf, ','.join(map(str, feats)), ';'.join('%d~%s~%s' % (f, q2s(f2q(a)), q2s(f2q(b))) for f, a, b in cats))
                ek = [np.array([lo, hi]) if f == 1 else np.array([0.0, 1.0]) for f in feats]
                dt = ['categorical' if f == 1 else 'numerical' for f in feats]
                kw = dict(n_feats=mf, edge_knots=ek, dtypes=dt, features=feats)
            else:
                fit_s, kw = '-', {}
            ops.append('C11 check_X %s %d %s' % (fit_s, mn, enc_mat(M)))
            arr = to_container(M, r.choice(['nd', 'list', 'object', 'str', 'strlist', 'none']), True)
            thunks.append(lambda arr=arr, kw=kw, mn=mn: utils.check_X(arr, min_samples=mn, verbose=False, **kw))
            sigs.append(dict(k=kind, n=n, w=w, mn=mn, fit=fit_s, M=[[repr(x) for x in row] for row in M]))
    outs = ctx.driver.run(ops)
    for op, th, sig, out in zip(ops, thunks, sigs, outs):
        try:
            with quiet():
                th()
            impl = 'ok'
        except Exception as e:  # noqa
            impl = exc_class(e)
        ctx.count('utils.check kind/impl', '%s/%s' % (sig['k'], impl))
        ctx.case(st, sig, nontrivial=True, sample=dict(op=op[:200], impl=impl))
        if impl != out:
            ctx.disagree(st, dict(op=op, **sig), impl, out, 'utils check differs from the model')


# --------------------------------------------------------------------------------------------
# stream 2: entry points
# --------------------------------------------------------------------------------------------
class Cfg:
    def __init__(self, name, mk, link, levels, ykind, cls):
        self.name, self.mk, self.link, self.levels, self.ykind, self.cls = name, mk, link, levels, ykind, cls


def make_configs(pygam):
    from pygam import GAM, LinearGAM, LogisticGAM, PoissonGAM, GammaGAM, InvGaussGAM, ExpectileGAM
    from pygam.distributions import BinomialDist

    def k(cls, **kw):
        return lambda t: (cls(t, **kw) if t is not None else cls(**kw))
    return [
        Cfg('LinearGAM', k(LinearGAM), 'identity', 1, 'real', 'linear'),
        Cfg('LogisticGAM', k(LogisticGAM), 'logit', 1, 'binary', 'logistic'),
        Cfg('PoissonGAM', k(PoissonGAM), 'log', 1, 'count', 'poisson'),
        Cfg('GammaGAM', k(GammaGAM), 'log', 1, 'positive', 'gam'),
        Cfg('InvGaussGAM', k(InvGaussGAM), 'log', 1, 'positive', 'gam'),
        Cfg('ExpectileGAM', k(ExpectileGAM), 'identity', 1, 'real', 'expectile'),
        Cfg('GAM', k(GAM), 'identity', 1, 'real', 'gam'),
        Cfg('GAM[binomial3,logit]', lambda t: (GAM(t, distribution=BinomialDist(levels=3), link='logit') if t is not None
                                              else GAM(distribution=BinomialDist(levels=3), link='logit')), 'logit', 3, 'binom3', 'gam'),
        Cfg('GAM[gamma,inverse]', k(GAM, distribution='gamma', link='inverse'), 'inverse', 1, 'positive', 'gam'),
        Cfg('GAM[inv_gauss,inv_squared]', k(GAM, distribution='inv_gauss', link='inv_squared'), 'inv_squared', 1, 'positive', 'gam'),
        Cfg('GAM[normal,log]', k(GAM, distribution='normal', link='log'), 'log', 1, 'positive', 'gam'),
    ]


def term_programs():
    """name -> (builder of the term expression, width, features needed by terms (incl. by), flattened gam.feature,
    categorical columns, categorical columns of each term)"""
    from pygam.terms import s, f, l, te
    return {
        'sf': (lambda: s(0, n_splines=6) + f(1), 2, [0, 1], [0, 1], [1], [[], [1]]),
        'auto': (lambda: None, 3, None, [0, 1, 2], [], [[], [], []]),
        'te': (lambda: te(0, 2, n_splines=4) + f(1) + l(0), 3, [0, 2, 1, 0], [0, 2, 1, 0], [1], [[], [1], []]),
        'by': (lambda: s(0, n_splines=6, by=2) + f(1), 3, [0, 2, 1], [0, 1], [1], [[], [1]]),
        'lf': (lambda: l(1) + f(0), 2, [1, 0], [1, 0], [0], [[], [0]]),
    }


def gen_data(rng, n, width, catcols, ykind):
    X = []
    for i in range(n):
        row = []
        for j in range(width):
            if j in catcols:
                row.append(float(i % 3) if i < 6 else float(rng.randint(0, 2)))
            else:
                row.append(rng.randint(1, 63) / 64.0)
        X.append(row)
    rng.shuffle(X)
    if ykind == 'real':
        y = [rng.randint(-32, 32) / 16.0 for _ in range(n)]
    elif ykind == 'binary':
        y = [float(i % 2) for i in range(n)]
        rng.shuffle(y)
    elif ykind == 'binom3':
        y = [float(i % 4) for i in range(n)]
        rng.shuffle(y)
    elif ykind == 'count':
        y = [float(rng.choice([0, 1, 1, 2, 3, 4, 6])) for _ in range(n)]
    else:
        y = [rng.randint(4, 48) / 16.0 for _ in range(n)]
    w = [rng.randint(2, 16) / 8.0 for _ in range(n)]
    e = [rng.randint(4, 24) / 8.0 for _ in range(n)]
    return X, y, w, e


def entries_for(cfg):
    """entry name (model table name) -> data arguments"""
    E = {}
    p = cfg.cls == 'poisson'
    E['poisson_fit' if p else 'fit'] = ['X', 'y', 'weights'] + (['exposure'] if p else [])
    E['poisson_predict' if p else 'predict'] = ['X'] + (['exposure'] if p else [])
    E['predict_mu'] = ['X']
    E['confidence_intervals'] = ['X']
    E['partial_dependence'] = ['X']
    E['deviance_residuals'] = ['X', 'y', 'weights']
    E['poisson_loglikelihood' if p else 'loglikelihood'] = ['X', 'y', 'weights'] + (['exposure'] if p else [])
    if cfg.cls == 'logistic':
        E['logistic_score'] = ['X', 'y']
        E['accuracy'] = ['X', 'y']
        E['predict_proba'] = ['X']
    else:
        E['score'] = ['X', 'y', 'weights']
    if cfg.cls == 'linear':
        E['prediction_intervals'] = ['X']
    E['poisson_gridsearch' if p else 'gridsearch'] = ['X', 'y', 'weights'] + (['exposure'] if p else [])
    E['sample'] = ['X', 'y', 'weights', 'sample_at_X']
    if cfg.cls == 'expectile':
        E['fit_quantile'] = ['X', 'y', 'weights']
    return E


def to_container(v, cont, two_d=False):
    if v is None:
        return None
    if cont == 'list':
        return [list(r) for r in v] if two_d else list(v)
    # containers that only become numbers through check_array's documented cast (`array.astype('float')`)
    if cont == 'object':
        return np.array(v, dtype=float).astype(object)
    if cont == 'none':       # nested list in which NaN is spelled None
        nn = lambda x: None if x != x else x  # noqa
        return [[nn(x) for x in r] for r in v] if two_d else [nn(x) for x in v]
    if cont == 'str':        # ndarray of numeric strings ('0.5', 'nan', 'inf', '-inf')
        return np.array([[repr(float(x)) for x in r] for r in v] if two_d else [repr(float(x)) for x in v], dtype=str).reshape(
            (len(v), len(v[0]) if len(v) else 0) if two_d else (len(v),))
    if cont == 'strlist':
        return [[repr(float(x)) for x in r] for r in v] if two_d else [repr(float(x)) for x in v]
    if cont == 'pandas-object':
        import pandas as pd
        a = np.array(v, dtype=float).astype(object)
        return pd.DataFrame(a) if two_d else pd.Series(a)
    if cont == 'f32':
        return np.array(v, dtype=np.float32)
    if cont == 'pandas':
        import pandas as pd
        return pd.DataFrame(np.array(v, dtype=float)) if two_d else pd.Series(np.array(v, dtype=float))
    if cont == 'col' and not two_d:
        return np.array(v, dtype=float).reshape(-1, 1)
    if cont == 'fortran' and two_d:
        return np.asfortranarray(np.array(v, dtype=float))
    return np.array(v, dtype=float)


CAST_CONTAINERS = ('object', 'none', 'str', 'strlist', 'pandas-object')


def do_call(gam, entry, A, cont, cont_arg=None):
    # an exotic container is used for the corrupted argument only (for every argument when nothing is corrupted)
    def cf(name):
        return cont if (cont not in CAST_CONTAINERS or cont_arg is None or cont_arg == name) else 'nd'
    X = to_container(A['X'], cf('X'), True)
    y = to_container(A.get('y'), cf('y'))
    w = to_container(A.get('weights'), cf('weights'))
    e = to_container(A.get('exposure'), cf('exposure'))
    sx = to_container(A.get('sample_at_X'), cf('sample_at_X'), True)
    if entry == 'fit':
        return gam.fit(X, y, weights=w)
    if entry == 'poisson_fit':
        return gam.fit(X, y, exposure=e, weights=w)
    if entry == 'predict':
        return gam.predict(X)
    if entry == 'poisson_predict':
        return gam.predict(X, exposure=e)
    if entry == 'predict_mu':
        return gam.predict_mu(X)
    if entry == 'predict_proba':
        return gam.predict_proba(X)
    if entry == 'confidence_intervals':
        return gam.confidence_intervals(X)
    if entry == 'prediction_intervals':
        return gam.prediction_intervals(X)
    if entry == 'partial_dependence':
        return gam.partial_dependence(term=A.get('term', 0), X=X)
    if entry == 'deviance_residuals':
        return gam.deviance_residuals(X, y, weights=w)
    if entry == 'loglikelihood':
        return gam.loglikelihood(X, y, weights=w)
    if entry == 'poisson_loglikelihood':
        return gam.loglikelihood(X, y, exposure=e, weights=w)
    if entry == 'score':
        return gam.score(X, y, weights=w)
    if entry == 'logistic_score':
        return gam.score(X, y)
    if entry == 'accuracy':
        return gam.accuracy(X, y)
    if entry == 'gridsearch':
        return gam.gridsearch(X, y, weights=w, lam=[0.1, 1.0], progress=False)
    if entry == 'poisson_gridsearch':
        return gam.gridsearch(X, y, exposure=e, weights=w, lam=[0.1, 1.0], progress=False)
    if entry == 'sample':
        return gam.sample(X, y, quantity=A.get('quantity', 'y'), sample_at_X=sx, weights=w, n_draws=3, n_bootstraps=1)
    if entry == 'fit_quantile':
        return gam.fit_quantile(X, y, quantile=A['quantile'], weights=w, max_iter=2)
    raise KeyError(entry)


def positions(n, rng, mode):
    """sampled positions: 'full' = every index, 'four' = first / middle / last / random, 'one' = one random index"""
    if n <= 0:
        return []
    if mode == 'full' or mode is True:
        return list(range(n))
    if mode == 'one':
        return [rng.choice([0, n // 2, n - 1, rng.randrange(n)])]
    return sorted({0, n // 2, n - 1, rng.randrange(n)})


def corruptions(entry, args, base, prog, cfg, state, rng, full):
    """yield (arg, kind, pos, mutated-args-dict).  `base` holds valid logical arrays."""
    width, termfeats, feats, catcols = prog[1], prog[2], prog[3], prog[4]
    n = len(base['X'])

    def mod(**kw):
        A = dict(base)
        A.update(kw)
        return A

    yield (None, 'valid', None, dict(base))
    for arg in args:
        if arg in ('X', 'sample_at_X'):
            M = base[arg] if base.get(arg) is not None else base['X']
            rows, w = len(M), len(M[0])
            for kind, val in (('nan', NAN), ('inf', INF), ('-inf', -INF)):
                for p in positions(rows * w, rng, full):
                    M2 = [list(r) for r in M]
                    M2[p // w][p % w] = val
                    yield (arg, kind, p, mod(**{arg: M2}))
            yield (arg, 'wide', None, mod(**{arg: [list(r) + [0.5] for r in M]}))
            if w > 1:
                yield (arg, 'narrow', None, mod(**{arg: [list(r)[:-1] for r in M]}))
            if arg == 'X' and ('y' in args or base.get('exposure') is not None):
                yield (arg, 'short', None, mod(X=[list(r) for r in M[:-1]]))
                yield (arg, 'long', None, mod(X=[list(r) for r in M] + [list(M[0])]))
                yield (arg, 'len1', None, mod(X=[list(M[0])]))
            if arg == 'X' and 'y' not in args and base.get('exposure') is None:
                yield (arg, 'onerow', None, mod(X=[list(M[rng.randrange(rows)])]))
            for c in catcols:
                col = [0.0, 2.0]  # the categories of every training set are 0, 1, 2 (gen_data)
                lo, hi = min(col) - 0.5, max(col) + 0.5
                for kind, val in (('cat_out', max(col) + 1.0), ('cat_out', min(col) - 1.0),
                                  ('cat_out', float(np.nextafter(hi, INF))), ('cat_out', float(np.nextafter(lo, -INF))),
                                  ('cat_edge', hi), ('cat_edge', lo), ('cat_gap', min(col) + 0.25)):
                    p = rng.choice(positions(rows, rng, 'four'))
                    M2 = [list(r) for r in M]
                    M2[p][c] = val
                    yield (arg, kind, p * w + c, mod(**{arg: M2}))
            if arg == 'X':
                M2 = [list(r) for r in M]
                M2[-1] = M2[-1][:-1] if w > 1 else M2[-1] + [0.5]
                if rows > 1:
                    yield (arg, 'ragged', None, mod(X=M2))
        elif arg == 'y':
            v = base['y']
            for kind, val in (('nan', NAN), ('inf', INF), ('-inf', -INF)):
                for p in positions(len(v), rng, full):
                    v2 = list(v)
                    v2[p] = val
                    yield (arg, kind, p, mod(y=v2))
            yield (arg, 'short', None, mod(y=list(v[:-1])))
            yield (arg, 'long', None, mod(y=list(v) + [v[0]]))
            yield (arg, 'len1', None, mod(y=[v[0]]))
            yield (arg, 'empty', None, mod(y=[]))
            outs = []
            if cfg.link == 'log':
                # (PoissonGAM divides y by the exposure first: keep clear of underflow to -0.0 there)
                outs = [-1.0, -0.25, -2.0 ** -1000 if entry in ('poisson_fit', 'poisson_gridsearch') else float(np.nextafter(0, -INF))]
            elif cfg.link == 'logit':
                outs = [-1.0, -0.25, cfg.levels + 1.0, float(np.nextafter(cfg.levels, INF)), float(np.nextafter(0, -INF))]
            for val in outs:
                for p in (positions(len(v), rng, 'four') if full == 'full' else positions(len(v), rng, 'one')):
                    v2 = list(v)
                    v2[p] = val
                    yield (arg, 'ydomain', p, mod(y=v2))
            bnd = []
            if cfg.link == 'logit':
                bnd = [0.0, float(cfg.levels), 0.5]
            elif cfg.link == 'log':
                bnd = [0.0, 5e-324]
            elif cfg.link in ('inverse', 'inv_squared'):
                bnd = [0.0, -1.0]
            if entry not in REFIT:
                for val in bnd:
                    p = rng.randrange(len(v))
                    v2 = list(v)
                    v2[p] = val
                    yield (arg, 'yboundary', p, mod(y=v2))
        else:  # weights / exposure
            v = base.get(arg)
            if v is None:
                v = [1.0] * n
            for kind, val in (('nan', NAN), ('inf', INF), ('-inf', -INF), ('f32over', 1e39), ('f32over', -3.5e38)):
                ps = positions(len(v), rng, full)
                if kind == 'f32over':
                    ps = ps[:2]
                for p in ps:
                    v2 = list(v)
                    v2[p] = val
                    yield (arg, kind, p, mod(**{arg: v2}))
            yield (arg, 'short', None, mod(**{arg: list(v[:-1])}))
            yield (arg, 'long', None, mod(**{arg: list(v) + [v[0]]}))
            yield (arg, 'len1', None, mod(**{arg: [v[0]]}))
            yield (arg, 'empty', None, mod(**{arg: []}))
            if arg == 'exposure' and entry in ('poisson_fit', 'poisson_gridsearch'):
                # finite weights and exposure whose product overflows float32; finite y / exposure that overflows float64
                p = rng.randrange(len(v))
                v2 = list(v)
                v2[p] = 1e30
                w2 = list(base['weights']) if base.get('weights') is not None else [1.0] * n
                w2[p] = 1e30
                yield (arg, 'prodover', p, mod(exposure=v2, weights=w2))
                v2 = list(v)
                v2[p] = 2.0 ** -60
                y2 = list(base['y'])
                y2[p] = 1e300
                yield (arg, 'scaledover', p, mod(exposure=v2, y=y2))
                for kind, val in (('expo_zero', 0.0), ('expo_neg', -1.0)):
                    p = rng.randrange(len(v))
                    # make sure the target at that position is positive so that the class of y/exposure is determined
                    v2 = list(v)
                    v2[p] = val
                    y2 = list(base['y'])
                    y2[p] = max(y2[p], 1.0)
                    yield (arg, kind, p, mod(exposure=v2, y=y2))


def allowed(entry, arg, kind, state, prog, A=None, pos=None):
    """the property text, independent of the model: the set of acceptable exception classes"""
    needs_fit = entry not in REFIT
    termfeats = prog[2]
    if kind in ('valid', 'onerow', 'yboundary'):
        verdict = 'valid'
    elif kind in ('nan', 'inf', '-inf', 'short', 'long', 'len1', 'empty', 'ydomain'):
        verdict = 'must'
    elif kind == 'wide':
        # a fitted model knows its number of features: every entry point except a plain re-`fit` must insist on it
        verdict = 'must' if (needs_fit or (state == 'fitted' and entry in ('gridsearch', 'poisson_gridsearch', 'fit_quantile'))) else 'na'
    elif kind == 'narrow':
        verdict = 'na' if (not needs_fit and termfeats is None and state != 'fitted') else 'must'
    elif kind == 'cat_out':
        verdict = 'must' if needs_fit else 'na'
    else:
        verdict = 'na'
    if entry == 'partial_dependence' and kind == 'cat_out' and A is not None and pos is not None:
        # the partial dependence of a term does not depend on the other columns: only the requested term's own
        # categorical features have to be inside the fitted range (repair c103169 of the tree under test)
        col = pos % prog[1]
        if col not in prog[5][A.get('term', 0)]:
            verdict = 'na'
    if arg == 'sample_at_X' and A is not None and A.get('quantity') == 'coef' and verdict == 'must':
        # sample(quantity='coef') never reads sample_at_X: nothing is computed from the invalid array
        verdict = 'na'
    unf = state != 'fitted'
    if unf and needs_fit:
        if verdict == 'valid':
            return {'AttributeError'}, verdict
        return {'AttributeError', 'ValueError'}, verdict
    if verdict == 'must':
        return {'ValueError'}, verdict
    if verdict == 'valid' and needs_fit:
        return {'ok'}, verdict
    return {'ok', 'ValueError'}, verdict


def build_states(cfg, prog, Xtr, ytr, etr, rng):
    """fitted / fresh / failed-fit models"""
    mk = lambda: cfg.mk(prog[0]())  # noqa
    X = np.array(Xtr, dtype=float)
    y = np.array(ytr, dtype=float)
    with quiet():
        g = mk()
        if cfg.cls == 'poisson' and etr is not None:
            g.fit(X, y, exposure=np.array(etr))
        else:
            g.fit(X, y)
        # a model whose parameters have been validated by a fit that was rejected (no coef_)
        bad = None
        # (a NaN in X is found by GAM.fit after `_validate_params`, for every class; the link is an object afterwards)
        for attempt in ('nan-X', 'nan-y', 'short-y'):
            b = mk()
            try:
                if attempt == 'nan-X':
                    Xbad = X.copy()
                    Xbad[0, 0] = np.nan
                    b.fit(Xbad, y)
                elif attempt == 'nan-y':
                    ybad = y.copy()
                    ybad[0] = np.nan
                    b.fit(X, ybad)
                else:
                    b.fit(X, y[:-1])
            except Exception:  # noqa
                pass
            if not b._is_fitted and not isinstance(b.link, str):
                bad = b
                break
        if bad is None:
            bad = mk()
    assert g._is_fitted
    return dict(fitted=g, fresh=mk, failedfit=bad)


def pick_training(ctx, cfg, pname, prog):
    """a training set on which the plain fit of this class / term program succeeds (first of up to 20 seeded draws).
    A draw on which the fit fails with something else than a ValueError is a failing input of the property (last
    sentence); if no draw can be fitted the class / program is skipped and reported."""
    st_name = 'entry.training'
    ctx.stream(st_name, 'plain fit of every class x term program on clean training data (needed by the entry-point stream)')
    errors = []
    for t in range(20):
        rng = ctx.subrng('entry', cfg.name, pname, 'train', t)
        Xtr, ytr, _, etr = gen_data(rng, 60, prog[1], prog[4], cfg.ykind)
        sig = dict(cls=cfg.name, terms=pname, draw=t)
        ctx.case(st_name, sig, nontrivial=True)
        try:
            st = build_states(cfg, prog, Xtr, ytr, None, None)
            ok = bool(np.isfinite(st['fitted'].coef_).all())
            if ok and cfg.cls == 'poisson':
                st = build_states(cfg, prog, Xtr, ytr, etr, None)
                ok = bool(np.isfinite(st['fitted'].coef_).all())
            if ok:
                ctx.count('training draws needed', t + 1)
                return Xtr, ytr, etr
            errors.append('non-finite coef_')
        except ValueError as e:
            errors.append('%s: %s' % (type(e).__name__, str(e)[:100]))
        except Exception as e:  # noqa
            errors.append('%s: %s' % (type(e).__name__, str(e)[:100]))
            ctx.fail(st_name, sig, dict(sig, X=Xtr, y=ytr), observed=dict(outcome=exc_class(e), message=str(e)[:160]),
                     expected=['ok', 'ValueError (incl. subclasses)'],
                     oracle='property text, last sentence: a fit on valid data never fails with an unrelated exception type')
            if len([x for x in errors if not x.startswith('ValueError')]) >= 3:
                break
    ctx.disagree(st_name, dict(cls=cfg.name, terms=pname), errors[:5], 'fit succeeds on clean data',
                 'no fittable clean training set: the entry-point stream skips this class / term program')
    return None


def fit_descr(prog, Xtr):
    width, feats, catcols = prog[1], prog[3], prog[4]
    def cat(c):
        col = [r[c] for r in Xtr]
        return '%d~%s~%s' % (c, q2s(f2q(min(col) - 0.5)), q2s(f2q(max(col) + 0.5)))
    cats = [cat(c) for c in catcols]
    tcs = '|'.join(';'.join(cat(c) for c in tc) for tc in prog[5])
    return '%d:%s:%s:%s' % (width, ','.join(map(str, feats)), ';'.join(cats), tcs)


def entry_cases(ctx, cfgs, progs, tier, only=None):
    """generate every case of the entry-point stream (deterministic in seed and tier)"""
    thorough = tier == 'thorough'
    n = 16 if thorough else 12
    rot = ['sf', 'te', 'by', 'lf', 'auto', 'sf', 'te']
    cases = []
    for ci, cfg in enumerate(cfgs):
        pn = list(progs) if thorough else [rot[(ci + ctx.seed) % len(rot)]]
        for pname in pn:
            prog = progs[pname]
            tr = pick_training(ctx, cfg, pname, prog)
            if tr is None:
                continue
            Xtr, ytr, etr = tr
            E = entries_for(cfg)
            for entry, args in E.items():
                r1 = ctx.subrng('entry-states', cfg.name, pname, entry)
                if thorough or 'loglikelihood' in entry:
                    sts = ('fitted', 'fresh', 'failedfit')
                else:
                    sts = ('fitted', r1.choice(['fresh', 'failedfit']))
                for state in sts:
                    r2 = ctx.subrng('entry', cfg.name, pname, entry, state)
                    # valid call arguments: a second data set drawn from the same ranges as the training data
                    Xc, yc, wc, ec = gen_data(r2, n, prog[1], prog[4], cfg.ykind)
                    if state == 'fitted':
                        variants = [(True, True, 'full' if (thorough and pname in ('sf', 'te')) else 'four'), (False, False, 'one')]
                    else:
                        variants = [(r2.random() < 0.5, r2.random() < 0.5, 'one')]
                    for vi, (give_w, give_e, mode) in enumerate(variants):
                        base = dict(X=Xc, y=yc if 'y' in args else None)
                        base['weights'] = wc if ('weights' in args and give_w) else None
                        base['exposure'] = ec if ('exposure' in args and give_e) else None
                        base['sample_at_X'] = None
                        extra_variants = [dict()]
                        if entry == 'fit_quantile':
                            extra_variants = [dict(quantile=0.9, pre=False)]
                            if state == 'fitted' and vi == 0:
                                extra_variants.append(dict(quantile=0.75, pre=True))
                        if entry == 'sample':
                            extra_variants = [dict(quantity='mu')]
                            if state == 'fitted' and vi == 0:
                                extra_variants += [dict(quantity='coef'), dict(quantity='mu', sx=True)]
                        if entry == 'partial_dependence':
                            extra_variants = [dict(term=0)] + ([dict(term=1)] if (state == 'fitted' and vi == 0) else [])
                        for xi, xv in enumerate(extra_variants):
                            b = dict(base)
                            b.update({k: v for k, v in xv.items() if k in ('quantile', 'quantity', 'term')})
                            if xv.get('sx'):
                                b['sample_at_X'] = [list(r) for r in Xc[: max(2, n // 2)]]
                            md = mode if (xi == 0 or xv.get('pre')) else 'one'
                            rc = ctx.subrng('entry', cfg.name, pname, entry, state, vi, sorted(xv.items()))
                            rr = {}
                            gen = list(corruptions(entry, args, b, prog, cfg, state, rc, md))
                            # clean arguments in containers that need check_array's cast must be accepted like float arrays
                            if xi == 0 and (vi == 0 or state != 'fitted'):
                                gen += [(None, 'valid', c_, dict(b)) for c_ in ('object', 'str', 'strlist')]
                            for (arg, kind, pos, A) in gen:
                                if md == 'one' and kind in ('cat_edge', 'cat_gap', 'ragged', 'f32over', 'empty') and rc.random() < 0.5:
                                    continue
                                cont = rc.choice(['nd', 'nd', 'list'] + (['f32', 'pandas', 'col', 'fortran'] if thorough else []))
                                if kind in ('nan', 'inf', '-inf'):
                                    # every (argument, kind) meets the cast containers: round robin over the sampled positions
                                    cyc = ['object', 'nd', 'str', 'none' if kind == 'nan' else 'strlist', 'list'] + (['pandas-object'] if thorough else [])
                                    k_ = rr.get((arg, kind), rc.randrange(3) if md == 'one' else 0)
                                    rr[(arg, kind)] = k_ + 1
                                    if md == 'one' or k_ % 2 == 0 or k_ < len(cyc):
                                        cont = cyc[k_ % len(cyc)]
                                elif kind in ('f32over', 'ydomain', 'cat_out', 'wide', 'short', 'len1', 'prodover') and rc.random() < 0.3:
                                    cont = rc.choice(['object', 'str', 'strlist'])
                                if kind == 'valid' and pos in CAST_CONTAINERS:
                                    cont, pos = pos, None
                                if kind == 'ragged':
                                    cont = 'list'
                                if cont == 'f32' and kind in ('f32over', 'cat_out', 'cat_edge', 'ydomain', 'yboundary'):
                                    cont = 'nd'
                                key = (cfg.name, pname, entry, state, vi, tuple(sorted(xv.items())), arg, kind, pos, len(cases))
                                cases.append(dict(key=key, base_valid=dict(X=b['X'], y=b['y']), cfg=cfg, pname=pname, prog=prog, entry=entry,
                                                  state=state, arg=arg, kind=kind, pos=pos, A=A, cont=cont, xv=xv,
                                                  train=(Xtr, ytr, etr if (cfg.cls == 'poisson' and vi == 0) else None),
                                                  trainkey=(cfg.name, pname, (vi == 0) if cfg.cls == 'poisson' else 0)))
    if only is not None:
        cases = [c for c in cases if list(map(str, c['key'][:9])) == list(map(str, only[:9]))]
    return cases


class StateCache:
    def __init__(self):
        self.d = {}

    def get(self, case, rng):
        k = case['trainkey']
        if k not in self.d:
            Xtr, ytr, etr = case['train']
            self.d[k] = build_states(case['cfg'], case['prog'], Xtr, ytr, etr, rng)
        return self.d[k]


def exec_case(case, states):
    """run one case on the real code; returns (impl class, message, converged flag used for the model)"""
    cfg, entry, state, A = case['cfg'], case['entry'], case['state'], case['A']
    mutates = entry in REFIT
    with quiet():
        if state == 'fitted':
            gam = copy.deepcopy(states['fitted']) if mutates else states['fitted']
        elif state == 'fresh':
            gam = states['fresh']()
        else:
            gam = copy.deepcopy(states['failedfit']) if mutates else states['failedfit']
        conv = False
        if entry == 'fit_quantile' and state == 'fitted':
            tr = case['train']
            if case['xv'].get('pre'):
                # bring the model to the requested quantile on the *call* data first (valid arguments); cached per variant
                pk = ('pre',) + tuple(str(x) for x in case['key'][:6])
                if pk not in states:
                    Xv = np.array(case['base_valid']['X'], dtype=float)
                    yv = np.array(case['base_valid']['y'], dtype=float)
                    try:
                        gam.fit_quantile(Xv, yv, quantile=A['quantile'], max_iter=30, tol=0.01)
                    except ValueError:
                        pass
                    states[pk] = gam
                gam = copy.deepcopy(states[pk])
            # the data-dependent branch of fit_quantile, recomputed through the public API on the call arguments
            try:
                Xa = np.array(A['X'], dtype=float)
                ya = np.array(A['y'], dtype=float)
                ratio = float((gam.predict(Xa) > ya).mean())
                conv = abs(ratio - A['quantile']) <= 0.01
            except Exception:  # noqa
                conv = False
        np.random.seed(abs(hash(tuple(str(x) for x in case['key'][:9]))) % (2 ** 32) if False else _stable_seed(case['key']))
        try:
            do_call(gam, entry, A, case['cont'], case['arg'])
            err = None
        except Exception as e:  # noqa
            err = e
    cls = exc_class(err)
    if cls == 'ValueError' and _raised_in(err, ('_pirls',)):
        # the validation let the data through; the optimiser gave up (allowed by the last sentence of the property)
        cls = 'ValueError@pirls'
    return cls, (str(err)[:160] if err is not None else ''), conv


def _stable_seed(key):
    import zlib
    return zlib.crc32('|'.join(str(x) for x in key[:9]).encode()) & 0x7fffffff


def _raised_in(err, names):
    tb = err.__traceback__
    while tb is not None:
        if tb.tb_frame.f_code.co_name in names:
            return True
        tb = tb.tb_next
    return False


def model_line(case, conv, fit_s):
    cfg, prog, A = case['cfg'], case['prog'], case['A']
    state = case['state']
    termfeats = prog[2]
    if termfeats is None:
        tf = 'auto' if state != 'fitted' else ','.join(map(str, range(prog[1])))
    else:
        tf = ','.join(map(str, termfeats))
    validated = '0' if state == 'fresh' else '1'
    fit = fit_s if state == 'fitted' else '-'
    coef = '1' if A.get('quantity') == 'coef' else '0'
    return 'C11 call %s %s %d %s %s %s X=%s y=%s w=%s e=%s sx=%s conv=%d coef=%s term=%d' % (
        case['entry'], cfg.link, cfg.levels, tf, validated, fit, enc_mat(A['X']), enc_vec(A.get('y') if A.get('y') is not None else []),
        enc_vec(A.get('weights')), enc_vec(A.get('exposure')), enc_mat(A.get('sample_at_X')), 1 if conv else 0, coef, A.get('term', 0))


def case_sig(case):
    return dict(cls=case['cfg'].name, terms=case['pname'], entry=case['entry'], state=case['state'], arg=case['arg'], kind=case['kind'],
                pos=case['pos'], variant=str(case['key'][4]) + str(case['key'][5]), container=case['cont'])


_CASES = None
_HOSTILE = None


def _pmap(fn, items, serial=False):
    """map over worker processes (fork: the workers inherit the generated cases); order of results = order of items"""
    nproc = int(os.environ.get('VERIF_PROCS', '0') or 0) or min(12, os.cpu_count() or 1)
    if serial or nproc <= 1 or len(items) <= 1:
        return [fn(x) for x in items]
    import multiprocessing as mp
    with mp.get_context('fork').Pool(min(nproc, len(items))) as pool:
        return pool.map(fn, items, chunksize=1)


def _entry_worker(idxs):
    cache = StateCache()
    out = []
    for i in idxs:
        c = _CASES[i]
        out.append((i, exec_case(c, cache.get(c, None))))
    return out


def run_signatures(ctx):
    """the data arguments the model attributes to every entry point are those of the Python signatures"""
    pygam = common.import_pygam()
    st = 'entry.signature'
    ctx.stream(st, 'data arguments (X, y, weights, exposure, sample_at_X) in the signature of every entry point of every class vs Entry.args')
    meth = dict(fit='fit', poisson_fit='fit', predict='predict', poisson_predict='predict', predict_mu='predict_mu', predict_proba='predict_proba',
                confidence_intervals='confidence_intervals', prediction_intervals='prediction_intervals', partial_dependence='partial_dependence',
                deviance_residuals='deviance_residuals', loglikelihood='loglikelihood', poisson_loglikelihood='loglikelihood', score='score',
                logistic_score='score', accuracy='accuracy', gridsearch='gridsearch', poisson_gridsearch='gridsearch', sample='sample',
                fit_quantile='fit_quantile')
    items = []
    for cfg in make_configs(pygam):
        gam = cfg.mk(None)
        for entry in entries_for(cfg):
            items.append((cfg, entry, getattr(gam, meth[entry])))
    outs = ctx.driver.run(['C11 args %s' % e for _, e, _ in items])
    for (cfg, entry, fn), out in zip(items, outs):
        pars = [p for p in inspect.signature(fn).parameters if p in ('X', 'y', 'weights', 'exposure', 'sample_at_X')]
        if entry == 'accuracy':
            pars = [p for p in pars if p != 'mu']
        impl = ','.join(pars)
        sig = dict(cls=cfg.name, entry=entry)
        ctx.case(st, sig, nontrivial=True, sample=dict(sig, impl=impl, model=out))
        if sorted(impl.split(',')) != sorted(out.split(' ')[0].split(',')):
            ctx.disagree(st, sig, impl, out, 'the entry point takes other data arguments than the model table says')


def run_entries(ctx, only=None):
    pygam = common.import_pygam()
    st = 'entry.calls'
    ctx.stream(st, 'exception class of every public entry point under every corruption of every data argument vs the model outcome and vs the property text')
    cfgs = make_configs(pygam)
    progs = term_programs()
    cases = entry_cases(ctx, cfgs, progs, ctx.tier, only=only)
    cache = StateCache()
    t0 = time.time()
    # cases are grouped by trained model; a group is executed in order by one worker (results do not depend on scheduling)
    groups = {}
    for i, c in enumerate(cases):
        groups.setdefault(c['trainkey'], []).append(i)
    global _CASES
    _CASES = cases
    results = [None] * len(cases)
    for part in _pmap(_entry_worker, list(groups.values()), serial=(len(cases) < 200)):
        for i, r in part:
            results[i] = r
    for c, r in zip(cases, results):
        c['A']['converged'] = r[2]
    ctx.extra['entry_exec_s'] = round(time.time() - t0, 2)
    lines = [model_line(c, r[2], fit_descr(c['prog'], c['train'][0])) for c, r in zip(cases, results)]
    t0 = time.time()
    outs = []
    CH = 4000
    for i in range(0, len(lines), CH):
        outs += ctx.driver.run(lines[i:i + CH])
    ctx.extra['entry_driver_s'] = round(time.time() - t0, 2)
    for c, (impl, msg, conv), out, line in zip(cases, results, outs, lines):
        sig = case_sig(c)
        model = out.split(' ')[0]
        step = out.split(' ')[1] if ' ' in out else '?'
        ok_set, verdict = allowed(c['entry'], c['arg'], c['kind'], c['state'], c['prog'], c['A'], c['pos'])
        pirls = impl == 'ValueError@pirls'
        if pirls:
            # post-validation numerical failure inside the optimiser: a ValueError for the property, `ok` for the
            # validation model (only re-fitting entry points get there)
            ctx.count('post-validation ValueError', c['entry'])
            impl_cmp = 'ok' if c['entry'] in REFIT else 'ValueError'
            impl = 'ValueError'
        else:
            impl_cmp = impl
        ctx.count('entry', c['entry'])
        ctx.count('class', c['cfg'].name)
        ctx.count('corruption', '%s:%s' % (c['arg'], c['kind']))
        ctx.count('impl outcome', impl)
        ctx.count('model failing step', step)
        ctx.count('oracle verdict', verdict)
        ctx.count('state', c['state'])
        if c['entry'] == 'fit_quantile':
            ctx.count('fit_quantile converged branch', '%s/%s' % (c['state'], conv))
        ctx.case(st, sig, nontrivial=(c['kind'] != 'valid'), sample=dict(sig, impl=impl, model=out))
        case_desc = dict(sig, key=[str(x) for x in c['key']], args={k: _jsonable(v) for k, v in c['A'].items()}, message=msg,
                         train=dict(X=c['train'][0], y=c['train'][1], exposure=c['train'][2]))
        if impl not in ok_set:
            # confirm by re-execution
            impl2, msg2, _ = exec_case(c, cache.get(c, ctx.subrng('states')))
            if impl2.split('@')[0] == impl:
                ctx.fail(st, sig, case_desc, observed=dict(outcome=impl, message=msg), expected=sorted(ok_set),
                         oracle='property text: corrupted data -> ValueError; needs fit & unfitted -> AttributeError; never another class',
                         detail='model says %s' % out)
                continue
        if model != impl_cmp:
            ctx.disagree(st, case_desc, impl, out, 'exception class differs from the model (property text allows %s)' % sorted(ok_set))


def _jsonable(v):
    if isinstance(v, list):
        return [_jsonable(x) for x in v]
    if isinstance(v, float):
        return repr(v)
    return v


# --------------------------------------------------------------------------------------------
# stream 2b: a factor term that shares its column with other terms / several factor terms
# --------------------------------------------------------------------------------------------
def shared_programs():
    """name -> (builder, width, {categorical column: index of its factor term}).  Every program is a valid
    specification in which a coded column is used by a factor term AND by a numerical term (linear trend, spline,
    tensor marginal) placed before or after it, or in which several factor terms coexist: "a categorical feature
    outside the fitted range" is a statement about the factor term, whatever else reads the column."""
    from pygam.terms import s, f, l, te
    return {
        's(0)+l(1)+f(1)': (lambda: s(0, n_splines=6) + l(1) + f(1), 2, {1: 2}),
        'l(1)+f(1)+s(0)': (lambda: l(1) + f(1) + s(0, n_splines=6), 2, {1: 1}),
        's(1)+f(1)+l(0)': (lambda: s(1, n_splines=5) + f(1) + l(0), 2, {1: 1}),
        'te(0,1)+f(1)': (lambda: te(0, 1, n_splines=4) + f(1), 2, {1: 1}),
        'te(1,0)+l(0)+f(1)': (lambda: te(1, 0, n_splines=4) + l(0) + f(1), 2, {1: 2}),
        'f(1)+l(1)+s(0)': (lambda: f(1) + l(1) + s(0, n_splines=6), 2, {1: 0}),          # control: factor first
        'f(0)+l(2)+f(2)+s(1)': (lambda: f(0) + l(2) + f(2) + s(1, n_splines=6), 3, {0: 0, 2: 2}),
        'l(0)+f(0)+s(1)+f(2)': (lambda: l(0) + f(0) + s(1, n_splines=6) + f(2), 3, {0: 1, 2: 3}),
    }


def shared_data(rng, n, width, levels, ykind):
    X, y, w, e = gen_data(rng, n, width, [], ykind)
    for c, K in levels.items():
        col = [float(i % K) for i in range(n)]
        rng.shuffle(col)
        for i in range(n):
            X[i][c] = col[i]
    return X, y, w, e


_SHARED = None


def _shared_worker(key):
    """fit one class x program and run every post-fit entry point on valid and on out-of-range factor levels"""
    ctx_like, cfgs, progs = _SHARED
    cname, pname = key
    cfg, (mk, width, cats) = cfgs[cname], progs[pname]
    out = dict(key=key, rows=[], train=None, levels=None, errors=[])
    gam = None
    for t in range(10):
        rng = common.Ctx.subrng(ctx_like, 'shared', cname, pname, 'train', t)
        levels = {c: rng.choice([3, 4, 5]) for c in sorted(cats)}
        Xtr, ytr, _, _ = shared_data(rng, 60, width, levels, cfg.ykind)
        try:
            with quiet():
                g = cfg.mk(mk()).fit(np.array(Xtr, dtype=float), np.array(ytr, dtype=float))
            if np.isfinite(g.coef_).all():
                gam = g
                break
            out['errors'].append('non-finite coef_')
        except Exception as e:  # noqa
            out['errors'].append('%s: %s' % (type(e).__name__, str(e)[:100]))
    if gam is None:
        return out
    out['train'], out['levels'] = (Xtr, ytr), levels
    n = 10
    for entry, args in entries_for(cfg).items():
        if entry in REFIT:
            continue
        r = common.Ctx.subrng(ctx_like, 'shared', cname, pname, entry)
        Xc, yc, wc, _ = shared_data(r, n, width, levels, cfg.ykind)
        base = dict(X=Xc, y=yc if 'y' in args else None, weights=wc if ('weights' in args and r.random() < 0.5) else None,
                    exposure=None, sample_at_X=None)
        if entry == 'sample':
            base['quantity'] = 'mu'
        todo = [(None, 'valid', None, None, dict(base))]
        for c, K in sorted(levels.items()):
            lo, hi = -0.5, K - 0.5
            for val in (float(K), float(K + r.randint(1, 4)), -1.0, float(-r.randint(2, 5)), float(np.nextafter(hi, INF)),
                        float(np.nextafter(lo, -INF))):
                for arg in [a for a in args if a in ('X', 'sample_at_X')]:
                    A = dict(base)
                    if arg == 'sample_at_X':
                        A['sample_at_X'] = [list(x) for x in Xc[:6]]
                    M = [list(x) for x in A[arg]]
                    p = r.choice([0, len(M) // 2, len(M) - 1, r.randrange(len(M))])
                    M[p][c] = val
                    A[arg] = M
                    if entry == 'partial_dependence':
                        A['term'] = cats[c]   # the factor term of that column (other terms need not look at it)
                    todo.append((arg, 'cat_out', c, val, A))
        for (arg, kind, c, val, A) in todo:
            cont = r.choice(['nd', 'nd', 'list'])
            np.random.seed(_stable_seed((cname, pname, entry, arg, kind, c, val)))
            try:
                with quiet():
                    do_call(gam, entry, A, cont, arg)
                cls, msg = 'ok', ''
            except Exception as e:  # noqa
                cls, msg = exc_class(e), str(e)[:160]
            out['rows'].append(dict(entry=entry, arg=arg, kind=kind, col=c, val=val, A=A, cont=cont, impl=cls, message=msg))
    return out


def run_shared(ctx, only=None):
    pygam = common.import_pygam()
    st = 'entry.shared_column'
    ctx.stream(st, 'fitted models whose factor term shares its column with numerical terms (before / after it) or with other factor terms: '
                   'every post-fit entry point x out-of-range level of every factor column -> ValueError; valid levels -> accepted')
    cfgs = {c.name: c for c in make_configs(pygam)}
    progs = shared_programs()
    keys = [(cn, pn) for cn in cfgs for pn in progs]
    if only is not None:
        keys = [k for k in keys if list(k) == list(only)]

    class _C:
        pass
    o = _C()
    o.pid, o.seed = ctx.pid, ctx.seed
    global _SHARED
    _SHARED = (o, cfgs, progs)
    reported = 0
    t0 = time.time()
    results = _pmap(_shared_worker, keys, serial=(len(keys) < 4))
    ctx.extra['shared_exec_s'] = round(time.time() - t0, 2)
    for res in results:
        cname, pname = res['key']
        if res['train'] is None:
            # no clean training set could be fitted: nothing is asserted for this class x program (visible in the counters)
            ctx.count('shared_column: class x program without a fittable training set', '%s/%s' % (cname, pname))
            continue
        for row in res['rows']:
            sig = dict(cls=cname, terms=pname, entry=row['entry'], arg=row['arg'], kind=row['kind'], col=row['col'], val=repr(row['val']))
            ctx.case(st, sig, nontrivial=(row['kind'] != 'valid'), sample=dict(sig, impl=row['impl']))
            ctx.count('shared_column outcome', '%s/%s' % (row['kind'], row['impl']))
            ok_set = {'ok'} if row['kind'] == 'valid' else {'ValueError'}
            if row['impl'] in ok_set:
                continue
            if reported >= 12:
                ctx.count('shared_column further failing cases (not listed)', '%s/%s' % (cname, pname))
                continue
            reported += 1
            ctx.fail(st, sig, dict(sig, shared_key=[cname, pname], fitted_levels={str(c): [0, K - 1] for c, K in res['levels'].items()},
                                   container=row['cont'], args={k: _jsonable(v) for k, v in row['A'].items()}, message=row['message'],
                                   train=dict(X=res['train'][0], y=res['train'][1])),
                     observed=dict(outcome=row['impl'], message=row['message']), expected=sorted(ok_set),
                     oracle=('property text: a categorical feature outside the fitted range -> ValueError from every method that accepts X'
                             if row['kind'] != 'valid' else 'valid data drawn from the fitted levels are accepted by a fitted model'))


# --------------------------------------------------------------------------------------------
# stream 3: hostile but valid fits
# --------------------------------------------------------------------------------------------
def hostile_cases(ctx, cfgs):
    thorough = ctx.tier == 'thorough'
    scens = ['plain', 'hugeX', 'tinyX', 'hugeY', 'tinyY', 'constcol', 'dup', 'zeroY', 'boundaryY', 'separable', 'constY', 'w0some',
             'w0all', 'wneg', 'whuge', 'wtiny', 'randmag', 'expo']
    ns = [1, 2, 3, 5, 12] + ([30] if thorough else [])
    tps = ['sf', 'lf', 's'] if thorough else ['sf', 'lf']
    reps = 5 if thorough else 1
    cases = []
    for cfg in cfgs:
        for n in ns:
            for sc in scens:
                for tp in tps:
                    # overflow-prone scenarios of the exp-type links get extra draws
                    r = reps + ((6 if sc == 'whuge' else 2) if (sc in ('whuge', 'hugeY', 'randmag') and cfg.link in ('log', 'logit')) else 0)
                    for rep in range(r):
                        cases.append((cfg.name, n, sc, tp, rep))
                # a search (unfitted model, more coefficients than rows are possible): same requirement on the outcome
                if n in (5, 12, 30) and sc in ('plain', 'w0some', 'whuge', 'wtiny', 'constcol', 'hugeY', 'boundaryY', 'randmag'):
                    for rep in range(reps + 1):
                        cases.append((cfg.name, n, sc, 'gs', rep))
    return cases


def hostile_data(cfg, n, sc, rng):
    X = [[rng.randint(0, 64) / 64.0, float(rng.randint(0, 2))] for _ in range(n)]
    if cfg.ykind == 'real':
        y = [rng.gauss(0, 1) for _ in range(n)]
    elif cfg.ykind == 'binary':
        y = [float(rng.randint(0, 1)) for _ in range(n)]
    elif cfg.ykind == 'binom3':
        y = [float(rng.randint(0, 3)) for _ in range(n)]
    elif cfg.ykind == 'count':
        y = [float(rng.choice([0, 1, 2, 3, 5, 8])) for _ in range(n)]
    else:
        y = [rng.random() * 3 + 0.1 for _ in range(n)]
    kw = {}
    mag = lambda: 10.0 ** rng.choice([150, -150, 100, -100, 30, -30, 8, -8])  # noqa
    discrete = cfg.ykind in ('binary', 'binom3', 'count')
    if sc == 'hugeX':
        s = 10.0 ** rng.choice([150, 100, 30])
        X = [[r[0] * s, r[1]] for r in X]
    elif sc == 'tinyX':
        s = 10.0 ** rng.choice([-150, -100, -30])
        X = [[r[0] * s, r[1]] for r in X]
    elif sc == 'hugeY':
        if discrete and cfg.ykind != 'count':
            return None
        s = 10.0 ** rng.choice([150, 100, 30, 12])
        y = [float(math.floor(v * s)) if discrete else v * s for v in y]
    elif sc == 'tinyY':
        if discrete:
            return None
        s = 10.0 ** rng.choice([-150, -100, -30, -12, -200])
        y = [v * s for v in y]
    elif sc == 'constcol':
        X = [[0.5, 1.0] for _ in X]
    elif sc == 'dup':
        X = [list(X[0]) for _ in X]
        y = [y[0] for _ in y]
    elif sc == 'zeroY':
        if cfg.ykind == 'positive' and cfg.link == 'log' and False:
            return None
        y = [0.0 for _ in y]
    elif sc == 'constY':
        y = [y[0] for _ in y]
    elif sc == 'boundaryY':
        if cfg.link == 'logit':
            y = [rng.choice([0.0, float(cfg.levels)]) for _ in y]
        elif cfg.link == 'log':
            y = [v * rng.choice([0.0, 1.0]) for v in y]
        else:
            y = [rng.choice([0.0, 1.0, v]) for v in y]
    elif sc == 'separable':
        if cfg.link != 'logit':
            return None
        y = [float(cfg.levels) if r[0] > 0.5 else 0.0 for r in X]
    elif sc == 'w0some':
        kw['weights'] = [float(rng.randint(0, 1)) for _ in y]
    elif sc == 'w0all':
        kw['weights'] = [0.0 for _ in y]
    elif sc == 'wneg':
        kw['weights'] = [-1.0 for _ in y]
    elif sc == 'whuge':
        kw['weights'] = [10.0 ** rng.choice([30, 37, 20]) for _ in y]
    elif sc == 'wtiny':
        kw['weights'] = [10.0 ** rng.choice([-30, -44, -20]) for _ in y]
    elif sc == 'randmag':
        sx, sy = mag(), mag()
        X = [[r[0] * sx, r[1]] for r in X]
        if not discrete:
            y = [v * sy for v in y]
    elif sc == 'expo':
        if cfg.cls != 'poisson':
            return None
        kw['exposure'] = [rng.choice([1.0, 0.5, 1e-3, 1e3, 1e30, 1e-30, 0.0, 2.0]) for _ in y]
    return X, y, kw


def run_hostile(ctx, only=None):
    pygam = common.import_pygam()
    from pygam.terms import s, f, l
    st = 'hostile.fits'
    ctx.stream(st, 'fit on valid but hostile data ends in ValueError family or finite coef_ and finite training predictions')
    cfgs = {c.name: c for c in make_configs(pygam)}
    tprog = {'sf': lambda: s(0, n_splines=5) + f(1), 'lf': lambda: l(0) + f(1), 's': lambda: s(0, n_splines=5),
             'gs': lambda: s(0, n_splines=12) + f(1) + l(0)}
    cases = hostile_cases(ctx, list(cfgs.values()))
    if only is not None:
        cases = [c for c in cases if list(map(str, c)) == list(map(str, only))]
    tprog['gs'].search = True
    global _HOSTILE
    _HOSTILE = (ctx.pid, ctx.seed, cfgs, tprog)
    chunks = [cases[k::48] for k in range(48)]
    chunks = [c for c in chunks if c]
    flat = []
    for part in _pmap(_hostile_worker, chunks, serial=(len(cases) < 50)):
        flat += part
    flat.sort(key=lambda r: cases.index(r[0]))
    for (key, res, msg, gap) in flat:
        (cname, n, sc, tp, rep) = key
        sig = dict(cls=cname, n=n, scenario=sc, terms=tp, rep=rep)
        ctx.count('hostile outcome', res)
        ctx.count('hostile scenario', sc)
        ctx.case(st, sig, nontrivial=(sc != 'plain'), sample=dict(sig, outcome=res))
        if res == 'ok-finite' or res.startswith('ValueError'):
            continue
        X, y, kw = hostile_data(cfgs[cname], n, sc, ctx.subrng('hostile', cname, n, sc, tp, rep))
        res2, _ = _hostile_once(cfgs[cname], tprog[tp], X, y, kw)
        if res2 == res:
            ctx.fail(st, sig, dict(sig, X=_jsonable(X), y=_jsonable(y), kw=_jsonable({k: v for k, v in kw.items()}), replay_key=[cname, n, sc, tp, rep]),
                     observed=dict(outcome=res, message=msg), expected=['ValueError (incl. subclasses)', 'finite coef_ and finite predictions'],
                     oracle='property text, last sentence: fit on valid data raises ValueError family or returns finite coefficients and predictions')


def _hostile_once(cfg, mkterms, X, y, kw):
    with quiet():
        try:
            g = cfg.mk(mkterms())
            kws = {k: np.array(v, dtype=float) for k, v in kw.items()}
            if getattr(mkterms, 'search', False):
                g.gridsearch(np.array(X, dtype=float), np.array(y, dtype=float), lam=[0.01, 0.1, 1.0], progress=False, **kws)
                if not g._is_fitted:
                    return 'ValueError:no-candidate-fitted', ''
            else:
                g.fit(np.array(X, dtype=float), np.array(y, dtype=float), **kws)
            c = np.asarray(g.coef_, dtype=float)
            p = np.asarray(g.predict_mu(np.array(X, dtype=float)), dtype=float)
            if np.isfinite(c).all() and np.isfinite(p).all():
                return 'ok-finite', ''
            return ('ok-nonfinite:coef' if not np.isfinite(c).all() else 'ok-nonfinite:pred',
                    'coef finite=%s predictions finite=%s' % (bool(np.isfinite(c).all()), bool(np.isfinite(p).all())))
        except Exception as e:  # noqa
            return exc_class(e) + (':' + type(e).__name__ if isinstance(e, ValueError) else ''), str(e)[:160]


def _hostile_worker(keys):
    pid, seed, cfgs, tprog = _HOSTILE

    class _C:
        pass
    o = _C()
    o.pid, o.seed = pid, seed
    out = []
    for key in keys:
        (cname, n, sc, tp, rep) = key
        cfg = cfgs[cname]
        d = hostile_data(cfg, n, sc, common.Ctx.subrng(o, 'hostile', cname, n, sc, tp, rep))
        if d is None:
            continue
        X, y, kw = d
        res, msg = _hostile_once(cfg, tprog[tp], X, y, kw)
        out.append((key, res, msg, None))
    return out


# --------------------------------------------------------------------------------------------
# stream 4: boundary targets and the initial estimate
# --------------------------------------------------------------------------------------------
def run_adjust(ctx):
    pygam = common.import_pygam()
    from pygam.terms import s
    st = 'initial.adjust'
    ctx.stream(st, 'model: link(adjust(y)) finite for boundary targets => real fit with that target does not raise AssertionError')
    cfgs = [c for c in make_configs(pygam) if c.cls != 'linear' and c.cls != 'expectile']
    ops, meta = [], []
    for cfg in cfgs:
        lv = cfg.levels
        ys = {0.0, 1.0, float(lv), 0.01, 0.99, lv - 0.01, 0.5, 2.0}
        if cfg.link == 'logit':
            ys = {v for v in ys if 0 <= v <= lv}
        for v in sorted(ys):
            ops.append('C11 adjust %s %d %s' % (cfg.link, lv, enc_val(v)))
            meta.append((cfg, v))
    outs = ctx.driver.run(ops)
    for (cfg, v), out in zip(meta, outs):
        fin = out.split(' ')[1] == '1'
        rng = ctx.subrng('adjust', cfg.name, v)
        n = 12
        X = np.array([[rng.randint(0, 64) / 64.0] for _ in range(n)])
        _, y, _, _ = gen_data(rng, n, 1, [], cfg.ykind)
        for p in (0, n // 2, n - 1):
            y[p] = v
        with quiet():
            try:
                cfg.mk(s(0, n_splines=5)).fit(X, np.array(y))
                impl = 'ok'
            except Exception as e:  # noqa
                impl = exc_class(e)
        sig = dict(cls=cfg.name, y=repr(v))
        ctx.case(st, sig, nontrivial=True, sample=dict(sig, model=out, impl=impl))
        if not impl.startswith('other'):
            continue
        if fin:
            ctx.fail(st, sig, dict(sig, X=X.ravel().tolist(), yvec=y), observed=impl, expected=['ok', 'ValueError'],
                     oracle='fit on valid boundary targets must not fail with an unrelated exception type', detail='model: ' + out)
        else:
            ctx.fail(st, sig, dict(sig, X=X.ravel().tolist(), yvec=y), observed=impl, expected=['ok', 'ValueError'],
                     oracle='fit on valid boundary targets must not fail with an unrelated exception type', detail='model also predicts a non-finite transformed target: ' + out)


# --------------------------------------------------------------------------------------------
def run(ctx):
    ctx.extra['rule'] = ('entry.calls: full product of model class x term program x entry point x fitted-state x data argument x corruption kind '
                         'with sampled positions (first, middle, last, random; every position in the thorough tier for the s+f program); a case is '
                         'non-trivial when an argument is corrupted; distinct = distinct (class, terms, entry, state, argument, kind, position, '
                         'variant, container) signatures.  hostile.fits: class x n x scenario x terms.  utils.*: random arrays / literal-seeded values')
    ctx.partial.append('fit_finite_partial: "a successful fit has finite coefficients and predictions" is floating point; checked by the hostile.fits '
                       'stream on the real code, the model only proves that validation lets through nothing but finite, in-domain, consistent data')
    ctx.partial.append('entry_rejects_category_partial: partial_dependence(term, X) only checks the categorical features of the requested term '
                       '(deliberate, repair c103169); counter-example of the unrestricted statement proved in Props/C11.lean')
    ctx.assumptions.append('NumPy raises ValueError for ragged nested lists and for non-broadcastable shapes (observed on every run by the entry.calls stream)')
    try:
        import subprocess
        ctx.extra['repo_head'] = subprocess.run(['git', '-C', common.REPO, 'rev-parse', '--short', 'HEAD'], capture_output=True, text=True).stdout.strip()
    except Exception:  # noqa
        pass
    run_utils(ctx)
    run_signatures(ctx)
    run_entries(ctx)
    run_shared(ctx)
    run_hostile(ctx)
    run_adjust(ctx)


def replay(ctx, rp):
    case = rp.get('case', {})
    if rp.get('stream') == 'hostile.fits' and 'replay_key' in case:
        run_hostile(ctx, only=case['replay_key'])
    elif rp.get('stream') == 'entry.calls' and 'key' in case:
        run_entries(ctx, only=case['key'])
    elif rp.get('stream') == 'entry.shared_column' and 'shared_key' in case:
        run_shared(ctx, only=case['shared_key'])
    else:
        run(ctx)
