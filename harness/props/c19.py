"""
C19 — PoissonGAM exposure is equivalent to rate modelling with exposure weights.

Theorems: lean/PyGam/Props/C19.lean (conversion (y/e, w*e); omitted exposure = ones; fit/gridsearch = base
entry point on the converted data (definitional); weighted rate deviance = count deviance at mean e*rate; PIRLS
weights / pseudo-data of the converted data = those of the counts; predict = e * rate; np.round recovers counts;
loglikelihood = sum of Poisson log-pmf at mean rate * exposure; statistics of a fit with exposure (loglikelihood, AIC,
AICc, UBRE, McFadden) = those of the counts at mean rate * exposure; a change of the unit of the exposure changes
nothing but the unit of the rate; gridsearch with a finite score returns a fitted minimiser).

Correspondence (model executed by the Lean driver, `C19 <op>`):
  np.cast32 / np.round     castF32 / roundHalfEven of the model vs NumPy astype('f') / np.round        (exact)
  dev.identity             PoissonDist.deviance: e*dev(y/e, r) vs dev(y, e r) vs the model              (1e-11)
  fit.rates                PoissonGAM.fit(X, y, exposure, weights) vs GAM(poisson, log).fit on the model's
                           (rates, weights) and on NumPy's (y/e, w*e); statistics_; deviance of counts   (1e-8);
                           statistics_['AIC','AICc','UBRE','pseudo_r2'] vs closed forms on the COUNTS
                           (scipy.stats.poisson.logpmf(y, e*rate), NumPy deviance, reported edof) and vs
                           -2 loglikelihood(X, y, exposure, weights) + 2 edof                            (1e-9)
  fit.stats                the same statistics vs the model's fitLoglik / fitAIC / fitAICc / fitUBRE /
                           fitMcFadden(Adj) / fitExplained / fitDeviance (driver op `stats`)             (1e-9)
  fit.noexposure           exposure omitted vs exposure of ones                                         (1e-10)
  fit.offset-glm           PoissonGAM with linear terms vs an independent NumPy Newton solver of the
                           penalised Poisson regression of the counts with offset log(e)                (1e-6)
  gridsearch               PoissonGAM.gridsearch, objective in {auto, UBRE, AIC, AICc}: candidate scores vs the
                           closed-form objective of the counts (1e-8); fitted model minimising it over independent
                           PoissonGAM.fit candidates (1e-6); UBRE/auto: vs GAM.gridsearch on rates / weights (1e-8)
  predict                  predict(X, exposure) vs e * predict_mu(X) and vs the model                   (1e-12)
  exposure.containers      the exposure as 1-D float64 / float32 / int array, list, tuple, (n,1) / (1,n) array, nested
                           list: predict has shape (n,) and equals NumPy ravel(e) * predict_mu(X)       (1e-12);
                           fit / loglikelihood / gridsearch equal those with the flat float64 vector     (1e-9)
  loglik                   loglikelihood(X, y, exposure, weights) vs scipy poisson.logpmf(y, mu*e).sum()
                           (no weights) and vs the model kernel (+ SciPy's normaliser)                  (1e-10)

Generators: exposure kind x exposure UNIT (exact powers of two 2^-40 … 2^40, decimal units 1e-12 … 1e12, mixtures of
magnitudes within one data set, magnitudes around the numeric constants of the code under test — literals and named module
constants such as EPS, their square roots and squares) x weight kind x term mix.

Everything goes through pyGAM's public API (PoissonGAM / GAM / PoissonDist methods and attributes).
"""
import ast
import contextlib
import inspect
import io
import math
import multiprocessing as mp
import random
import textwrap
from fractions import Fraction

import numpy as np
import scipy.special
import scipy.stats

from harness import common
from harness.common import f2bits, bits2f, q2s, s2q, f2q

PID = 'C19'


# --------------------------------------------------------------------------------------------
# helpers
# --------------------------------------------------------------------------------------------
def _subrng(seed, *key):
    return random.Random('%s-%d-%s' % (PID, seed, '-'.join(map(str, key))))


def _f32(x):
    return float(np.float32(x))


def _is_f32(v):
    v = np.asarray(v, dtype=float)
    return bool(np.all(v.astype('f').astype(float) == v))


def _vec_q(v):
    return ' '.join(q2s(f2q(float(x))) for x in v)


def _opt_q(v):
    return 'none' if v is None else _vec_q(v)


def _vec_b(v):
    return ' '.join(f2bits(float(x)) for x in v)


def _opt_b(v):
    return 'none' if v is None else _vec_b(v)


def _qvec_to_f(s):
    def one(t):
        q = Fraction(t)
        try:
            return float(q)
        except OverflowError:          # an exact model value beyond the float range (a diverged fit): it is +-inf as a float
            return float('inf') if q > 0 else float('-inf')
    return np.array([one(t) for t in s.split()], dtype=float)


def _maxrel(a, b):
    a = np.asarray(a, dtype=float).ravel()
    b = np.asarray(b, dtype=float).ravel()
    if a.shape != b.shape:
        return float('inf')
    if a.size == 0:
        return 0.0
    bad = ~(np.isfinite(a) & np.isfinite(b))
    if bad.any():
        same = (a[bad] == b[bad]) | (np.isnan(a[bad]) & np.isnan(b[bad]))
        if not same.all():
            return float('inf')
        a = a[~bad]
        b = b[~bad]
        if a.size == 0:
            return 0.0
    return float(np.max(np.abs(a - b) / np.maximum(1.0, np.maximum(np.abs(a), np.abs(b)))))


def harvest_literals(pygam):
    """numeric literals in the functions under test (literal-seeded sampling)"""
    from pygam import distributions
    fs = []
    P = pygam.PoissonGAM
    for name in ('_exposure_to_weights', 'fit', 'predict', 'gridsearch', 'loglikelihood', '_loglikelihood'):
        if hasattr(P, name):
            fs.append(getattr(P, name))
    fs.append(distributions.PoissonDist.log_pdf)
    lits = set()
    import pygam.pygam as pgmod
    import pygam.distributions as dmod

    def add(v):
        try:
            v = abs(float(v))
        except Exception:  # noqa
            return
        if math.isfinite(v) and 1e-30 < v < 1e30:
            lits.add(v)
    for f in fs:
        try:
            tree = ast.parse(textwrap.dedent(inspect.getsource(f)))
        except Exception:
            continue
        for node in ast.walk(tree):
            if isinstance(node, ast.Constant) and isinstance(node.value, (int, float)) and not isinstance(node.value, bool):
                add(node.value)
            elif isinstance(node, ast.Name):
                # a name bound to a numeric module constant (EPS, ...) is a literal in disguise; thresholds are usually
                # built from it by sqrt / square
                for mod in (pgmod, dmod):
                    v = getattr(mod, node.id, None)
                    if isinstance(v, (int, float, np.floating, np.integer)) and not isinstance(v, (bool, np.bool_)):
                        add(v)
                        add(math.sqrt(abs(float(v))))
                        add(float(v) ** 2)
    return sorted(lits)


# --------------------------------------------------------------------------------------------
# generators
# --------------------------------------------------------------------------------------------
EXPO_KINDS = ['none', 'ones', 'twos', 'int', 'dyadic', 'f32', 'small', 'large', 'literal', 'nonrep']
WEIGHT_KINDS = ['none', 'ones', 'int', 'dyadic', 'f32', 'zeros', 'literal', 'nonrep']

TERM_MIXES = ['l0+l1', 's0', 's0+l1', 's0+f2', 's0+s1+f2', 'te01', 's0by1+l1', 'f2+l1', 's0:noint', 's0p+l1', 's1+te02']


def build_terms(pygam, mix, lam, ns):
    from pygam import s, l, f, te
    if mix == 'l0+l1':
        return l(0, lam=lam) + l(1, lam=lam), True
    if mix == 's0':
        return s(0, n_splines=ns, lam=lam), True
    if mix == 's0+l1':
        return s(0, n_splines=ns, lam=lam) + l(1, lam=lam), True
    if mix == 's0+f2':
        return s(0, n_splines=ns, lam=lam) + f(2, lam=lam), True
    if mix == 's0+s1+f2':
        return s(0, n_splines=ns, lam=lam) + s(1, n_splines=ns, lam=lam) + f(2, lam=lam), True
    if mix == 'te01':
        return te(0, 1, n_splines=4, lam=lam), True
    if mix == 's0by1+l1':
        return s(0, by=1, n_splines=ns, lam=lam) + l(1, lam=lam), True
    if mix == 'f2+l1':
        return f(2, lam=lam) + l(1, lam=lam), True
    if mix == 's0:noint':
        return s(0, n_splines=ns, lam=lam), False
    if mix == 's0p+l1':
        return s(0, n_splines=ns, lam=lam, basis='cp') + l(1, lam=lam), True
    if mix == 's1+te02':
        return s(1, n_splines=ns, lam=lam) + te(0, 2, n_splines=[5, 4], lam=lam), True
    raise KeyError(mix)


def gen_vec(kind, n, rs, lits, what):
    """positive per-sample vector of the requested kind (None for 'none')"""
    if kind == 'none':
        return None
    if kind == 'ones':
        return np.ones(n)
    if kind == 'twos':
        return np.full(n, 2.0)
    if kind == 'int':
        return rs.randint(1, 30, n).astype(float)
    if kind == 'dyadic':
        den = [2, 8, 64, 1024][rs.randint(4)]
        return rs.randint(1, 6 * den, n) / float(den)
    if kind == 'f32':
        return np.exp(rs.uniform(np.log(0.05), np.log(20.0), n)).astype('f').astype(float)
    if kind == 'small':
        return (np.exp(rs.uniform(np.log(1e-3), np.log(1e-1), n))).astype('f').astype(float)
    if kind == 'large':
        return (np.exp(rs.uniform(np.log(50.0), np.log(2e3), n))).astype('f').astype(float)
    if kind == 'zeros':
        v = rs.randint(1, 5, n).astype(float)
        v[rs.rand(n) < 0.2] = 0.0
        if not v.any():
            v[0] = 1.0
        return v
    if kind == 'literal':
        pool = []
        for x in lits + [1.0, 2.0, 0.5]:
            f = np.float32(x)
            pool += [float(f), float(np.nextafter(f, np.float32(np.inf))), float(np.nextafter(f, np.float32(0)))]
        # sample weights stay moderate (tiny weights are the PIRLS mask's business, not this property's); exposures are a
        # quantity with a unit: any magnitude float32 can hold
        pool = [p for p in pool if (1e-3 < p < 1e3 if what == 'w' else 1e-30 < p < 1e30)]
        return np.array([pool[rs.randint(len(pool))] for _ in range(n)], dtype=float)
    if kind == 'nonrep':
        return rs.randint(1, 60, n) / 10.0 + rs.rand(n) * 1e-3
    raise KeyError(kind)


# the unit the exposure is expressed in: exact powers of two (the float32-representability of the base vector is kept), decimal
# units 1e-12 … 1e12, and mixtures of magnitudes within one data set
UNITS = ['p2:-40', 'p2:-30', 'p2:-20', 'p2:20', 'p2:30', 'p2:40', '1e-12', '1e-9', '1e-6', '1e6', '1e9', '1e12',
         'mix:p2', 'mix:wide', 'mix:lit']


def pick_unit(r):
    return '1' if r.random() < 0.4 else UNITS[r.randrange(len(UNITS))]


def apply_unit(e, unit, rs, lits):
    """the exposure vector `e` (None = omitted) expressed in another unit"""
    if e is None or unit == '1':
        return e
    rep = _is_f32(e)
    n = len(e)
    if unit.startswith('p2:'):
        out = e * 2.0 ** int(unit[3:])
    elif unit == 'mix:p2':
        out = e * 2.0 ** int([-30, -20, 0, 20, 30][rs.randint(5)]) * 2.0 ** rs.randint(-6, 7, n)
    elif unit == 'mix:wide':
        out = e * 10.0 ** rs.uniform(-12, 12, n)
    elif unit == 'mix:lit':
        # magnitudes around the numeric constants of the code under test (and around 1): below, at and above each
        pool = sorted(set([1.0] + [float(np.float32(x)) for x in lits]))
        base = np.array([pool[rs.randint(len(pool))] for _ in range(n)])
        out = e * base * 2.0 ** rs.randint(-3, 4, n)
    else:
        out = e * float(unit)
    if rep:
        out = out.astype('f').astype(float)
    return np.clip(out, 1e-30, 1e30)


def gen_data(rs, n, e, mix):
    X = np.c_[rs.rand(n), rs.rand(n) * 2 - 1, rs.randint(0, 4, n).astype(float)]
    if n >= 4:
        X[:4, 2] = [0, 1, 2, 3]
    a = rs.uniform(-0.5, 1.2)
    eta = a + rs.uniform(0.3, 1.2) * np.sin(rs.uniform(2, 5) * X[:, 0]) + rs.uniform(-0.6, 0.6) * X[:, 1] \
        + rs.uniform(-0.3, 0.3) * X[:, 2]
    ee = np.ones(n) if e is None else e
    # rates are counts per unit exposure: centre them so that the counts stay moderate whatever the magnitude of e
    eta = eta - np.log(np.exp(np.mean(np.log(ee)))) + np.log(rs.uniform(1.0, 6.0))
    mean = np.minimum(ee * np.exp(eta), 1e15)
    y = rs.poisson(mean).astype(float)
    return X, y


def make_case(seed, stream, idx, tier, lits, force=None):
    """one deterministic case from (seed, stream, idx)"""
    r = _subrng(seed, stream, idx)
    rs = np.random.RandomState(r.getrandbits(32))
    force = force or {}
    # exposure kind and term mix sweep a full product (10 and 11 are coprime); the weight kind is drawn
    ek = force.get('ek', EXPO_KINDS[idx % len(EXPO_KINDS)])
    wk = force.get('wk', WEIGHT_KINDS[r.randrange(len(WEIGHT_KINDS))])
    mix = force.get('mix', TERM_MIXES[idx % len(TERM_MIXES)])
    n = force.get('n', [24, 40, 60, 90][r.randrange(4)] if tier == 'quick' else [24, 40, 60, 90, 150, 250][r.randrange(6)])
    lam = force.get('lam', [0.05, 0.6, 0.6, 5.0, 40.0][r.randrange(5)])
    ns = force.get('ns', [5, 6, 8, 10][r.randrange(4)])
    ru = _subrng(seed, stream, idx, 'unit')
    rsu = np.random.RandomState(ru.getrandbits(32))
    unit = force.get('unit', pick_unit(ru))
    unit2 = force.get('unit2', pick_unit(ru))
    if ek == 'none':
        unit = '1'
    e = apply_unit(gen_vec(ek, n, rs, lits, 'e'), unit, rsu, lits)
    w = gen_vec(wk, n, rs, lits, 'w')
    X, y = gen_data(rs, n, e, mix)
    ydtype = ['float', 'int', 'list'][r.randrange(3)]
    # new data for predict / loglikelihood
    n2 = [1, 7, 20][r.randrange(3)]
    ek2 = EXPO_KINDS[r.randrange(len(EXPO_KINDS))]
    wk2 = WEIGHT_KINDS[r.randrange(len(WEIGHT_KINDS))]
    if ek2 == 'none':
        unit2 = '1'
    e2 = apply_unit(gen_vec(ek2, n2, rs, lits, 'e'), unit2, rsu, lits)
    w2 = gen_vec(wk2, n2, rs, lits, 'w')
    X2, y2 = gen_data(rs, n2, e2, mix)
    return dict(stream=stream, idx=idx, ek=ek, wk=wk, mix=mix, n=n, lam=lam, ns=ns, ydtype=ydtype, unit=unit, unit2=unit2,
                X=X, y=y, e=e, w=w, n2=n2, ek2=ek2, wk2=wk2, X2=X2, y2=y2, e2=e2, w2=w2)


def case_sig(c, **extra):
    d = dict(ek=c['ek'], wk=c['wk'], mix=c['mix'], n=c['n'], lam=c['lam'], ns=c['ns'], idx=c['idx'], unit=c['unit'])
    d.update(extra)
    return d


def case_replay(seed, c, **extra):
    d = dict(seed=seed, stream=c['stream'], idx=c['idx'], force=dict(ek=c['ek'], wk=c['wk'], mix=c['mix'], n=c['n'],
                                                                     lam=c['lam'], ns=c['ns'], unit=c['unit'], unit2=c['unit2']))
    d.update(extra)
    return d


def y_as(c, y=None):
    y = c['y'] if y is None else y
    if c['ydtype'] == 'int':
        return y.astype(np.int64)
    if c['ydtype'] == 'list':
        return [float(v) for v in y]
    return y


# --------------------------------------------------------------------------------------------
# fits
# --------------------------------------------------------------------------------------------
def fit_poisson(pygam, c, max_iter, e='case', w='case'):
    terms, fi = build_terms(pygam, c['mix'], c['lam'], c['ns'])
    g = pygam.PoissonGAM(terms, tol=1e-10, max_iter=max_iter, fit_intercept=fi)
    e = c['e'] if isinstance(e, str) else e
    w = c['w'] if isinstance(w, str) else w
    g.fit(c['X'], y_as(c), exposure=e, weights=w)
    return g


def fit_base(pygam, c, max_iter, rates, weights):
    terms, fi = build_terms(pygam, c['mix'], c['lam'], c['ns'])
    g = pygam.GAM(terms, distribution='poisson', link='log', tol=1e-10, max_iter=max_iter, fit_intercept=fi)
    g.fit(c['X'], rates, weights=weights)
    return g


STAT_KEYS = ['edof', 'deviance', 'UBRE', 'scale']


def model_compare(a, b, X):
    """max relative difference of coefficients / predictions / statistics of two fitted models"""
    d = _maxrel(a.coef_, b.coef_)
    d = max(d, _maxrel(a.predict_mu(X), b.predict_mu(X)))
    for k in STAT_KEYS:
        if k in a.statistics_ or k in b.statistics_:
            d = max(d, _maxrel([a.statistics_.get(k, np.nan)], [b.statistics_.get(k, np.nan)]))
    return d


def np_poisson_dev(y, m):
    y = np.asarray(y, dtype=float)
    t = np.zeros_like(y)
    nz = y != 0
    t[nz] = y[nz] * np.log(y[nz] / m[nz])
    return 2 * (t - (y - m))


def eff(v, n):
    return np.ones(n) if v is None else np.asarray(v, dtype=float)


def _num(x):
    """float(x), NaN when the library handed out something that is not a number"""
    try:
        v = np.asarray(x, dtype=float)
        return float(v) if v.ndim == 0 else (float(v.ravel()[0]) if v.size == 1 else float('nan'))
    except Exception:  # noqa
        return float('nan')


GAMMA = 1.4     # default of GAM._estimate_GCV_UBRE (documented)


def f32_product(w64, e64):
    """the weight the base fit works with: the product w e rounded to float32 (every GAM.fit casts its weights to float32)"""
    return (w64.astype('f').astype(float) * e64.astype('f').astype(float)).astype('f').astype(float)


def eff_weights(w64, e64):
    """sample weights such that (weights) x (float32 exposure) is exactly the float32 weight of the base fit: w itself whenever
    the product w e is a float32 number (always when w = 1), else w (1 + O(6e-8))"""
    e32 = e64.astype('f').astype(float)
    with np.errstate(all='ignore'):
        return np.where(e32 > 0, f32_product(w64, e64) / e32, w64.astype('f').astype(float))


def count_loglik(y, rate, e64, w64):
    """(closed-form log-likelihood, absolute scale of its rounding error, kind): the Poisson log-probability of the observed
    counts at mean rate x exposure.  Without sample weights that is the sentence of the property; integer sample weights w
    replicate an observation w times, which the code expresses as the count y w at mean rate e w (theorem
    loglikelihood_general) -- kind 'weighted' is then only a model statement, not the property's."""
    unweighted = bool(np.all(w64 == 1.0))
    if unweighted:
        k, m = np.asarray(y, dtype=float), rate * e64
    else:
        wc = f32_product(w64, e64)
        with np.errstate(all='ignore'):
            k, m = np.round(np.asarray(y, dtype=float) / e64.astype('f').astype(float) * wc), rate * wc
    with np.errstate(all='ignore'):
        ll = float(np.sum(scipy.stats.poisson.logpmf(k, m)))
        sc = float(np.sum(np.abs(k * np.log(np.maximum(m, 1e-300))) + m + scipy.special.gammaln(k + 1))) + 1.0
    return ll, sc, ('unweighted' if unweighted else 'weighted')


def count_objectives(n, ll, dev, edof):
    """AIC, AICc, UBRE of a Poisson model (known scale 1) from the log-likelihood / deviance of the counts and the edof"""
    aic = -2.0 * ll + 2.0 * edof
    with np.errstate(all='ignore'):
        aicc = aic + 2.0 * (edof + 1) * (edof + 2) / (n - edof - 2)
    ubre = 1.0 / n * dev + 2.0 * GAMMA / n * edof
    return dict(AIC=aic, AICc=aicc, UBRE=ubre)


def stat_oracle(c, a, rate, ll_pub):
    """statistics_ entries derived from the log-likelihood / deviance of a PoissonGAM fitted with exposure vs closed forms
    (scipy.stats.poisson.logpmf of the counts at e * rate, NumPy deviance of the counts, the reported edof).
    Returns (bad | None, info)."""
    n = c['n']
    y = np.asarray(c['y'], dtype=float)
    e64, w64 = eff(c['e'], n), eff(c['w'], n)
    rep = _is_f32(e64) and _is_f32(w64)
    e32, w32 = e64.astype('f').astype(float), w64.astype('f').astype(float)
    st = a.statistics_
    edof = _num(st.get('edof'))
    info = dict()
    if not (np.isfinite(edof) and np.all(np.isfinite(rate))):
        return None, dict(skipped='non-finite edof / rate')
    reltol = 1e-9 if rep else 1e-5
    ll, sc, kind = count_loglik(y, rate, e64, w64)
    info['kind'] = kind
    weff = eff_weights(w64, e64)
    dev = float(np.sum(weff * np_poisson_dev(y, e32 * rate)))
    got = dict(AIC=_num(st.get('AIC')), AICc=_num(st.get('AICc')), UBRE=_num(st.get('UBRE')))
    r2 = st.get('pseudo_r2') or {}
    try:
        got.update(McFadden=_num(r2.get('McFadden')), McFadden_adj=_num(r2.get('McFadden_adj')),
                   explained_deviance=_num(r2.get('explained_deviance')))
    except Exception:  # noqa
        got.update(McFadden=float('nan'), McFadden_adj=float('nan'), explained_deviance=float('nan'))
    bad = None

    scales = info.setdefault('scales', {})

    def check(name, g, w, abs_scale, why):
        nonlocal bad
        if np.isfinite(abs_scale):
            scales[name] = max(scales.get(name, 0.0), float(abs_scale))
        if bad is not None:
            return
        if not np.isfinite(w):
            info.setdefault('nonfinite', []).append(name)
            return
        if not (np.isfinite(g) and abs(g - w) <= 10 * reltol * abs_scale):
            bad = dict(reason="statistics_[%r] is not %s" % (name, why), got=g, want=w, tol=10 * reltol * abs_scale, weights=kind)
    # (a) consistency with the public log-likelihood of the training data (any weights): AIC = -2 loglik + 2 edof
    if np.isfinite(ll_pub):
        ob = count_objectives(n, ll_pub, dev, edof)
        check('AIC', got['AIC'], ob['AIC'], 2 * sc + 2 * abs(edof), '-2 loglikelihood(X, y, exposure, weights) + 2 edof')
        check('AICc', got['AICc'], ob['AICc'], 2 * sc + abs(ob['AICc'] - ob['AIC']) + 2 * abs(edof),
              'AIC + 2 (edof+1)(edof+2)/(n-edof-2) with AIC = -2 loglikelihood(X, y, exposure, weights) + 2 edof')
    # (b) closed forms on the counts
    ob = count_objectives(n, ll, dev, edof)
    info['closed'] = ob
    if kind == 'unweighted':
        check('AIC', got['AIC'], ob['AIC'], 2 * sc + 2 * abs(edof), '-2 sum poisson.logpmf(y, e*rate) + 2 edof')
        check('AICc', got['AICc'], ob['AICc'], 2 * sc + abs(ob['AICc'] - ob['AIC']) + 2 * abs(edof),
              '-2 sum poisson.logpmf(y, e*rate) + 2 edof + 2 (edof+1)(edof+2)/(n-edof-2)')
    # rounding floor of the deviance itself (log(y / mu) carries an absolute error of eps, multiplied by w y: counts of 1e12)
    with np.errstate(all='ignore'):
        dev_floor = 16 * np.finfo(float).eps * float(np.sum(weff * (np.abs(y) + np.abs(e32 * rate)))) / (10 * reltol)
    dev_floor = dev_floor if np.isfinite(dev_floor) else 0.0
    check('UBRE', got['UBRE'], ob['UBRE'], abs(dev) / n + abs(ob['UBRE']) + dev_floor / n + 1e-300,
          'deviance of the counts at e*rate / n + 2 gamma edof / n')
    # pseudo R^2: the null model is the constant rate mean(y/e) (documented: "the null model is the unweighted mean")
    null_rate = float(np.mean(y / e32)) * np.ones(n)
    ll0, sc0, _ = count_loglik(y, null_rate, e64, w64)
    dev0 = float(np.sum(weff * np_poisson_dev(y, e32 * null_rate)))
    info['null'] = dict(ll0=ll0, dev0=dev0)
    with np.errstate(all='ignore'):
        if np.isfinite(ll0) and ll0 != 0 and np.isfinite(ll):
            amp = (sc + sc0 * abs(ll / ll0)) / abs(ll0)     # |d(1 - ll/ll0)| for relative errors of the two sums
            scales['McFadden'] = amp + 1.0
            scales['McFadden_adj'] = amp + abs(edof / ll0) + 1.0
            if kind == 'unweighted':
                check('McFadden', got['McFadden'], 1.0 - ll / ll0, amp + 1.0, '1 - loglik(counts at e*rate) / loglik(counts at e*mean(y/e))')
                check('McFadden_adj', got['McFadden_adj'], 1.0 - (ll - edof) / ll0, amp + abs(edof / ll0) + 1.0,
                      '1 - (loglik(counts at e*rate) - edof) / loglik(counts at e*mean(y/e))')
            else:
                info['mcfadden_model_only'] = (got['McFadden'], 1.0 - ll / ll0)
        if np.isfinite(dev0) and dev0 > 0:
            check('explained_deviance', got['explained_deviance'], 1.0 - dev / dev0, abs(dev / dev0) + 1.0 + dev_floor / abs(dev0),
                  '1 - deviance(counts at e*rate) / deviance(counts at e*mean(y/e))')
    info['got'] = got
    info['ll_scale'] = sc
    info['dev'] = dev
    return bad, info


class PoissonFitError(Exception):
    """PoissonGAM.fit itself raised (as opposed to one of the oracle's fits)"""


def _in_library(ex):
    import os
    import traceback
    repo = os.path.realpath(common.REPO)
    e = ex
    while e is not None:
        for fr in traceback.extract_tb(e.__traceback__):
            if os.path.realpath(fr.filename).startswith(repo + os.sep):
                return True
        e = e.__cause__ or e.__context__
    return False


def eval_fit_case(pygam, c, max_iter, model_line):
    """returns dict(bad=…|None, disagree=…|None, info…) for one fit case; `model_line` is the driver's answer"""
    n = c['n']
    out = dict(bad=None, disagree=None)
    try:
        a = fit_poisson(pygam, c, max_iter)
    except Exception as ex:  # noqa
        raise PoissonFitError(ex)
    e64, w64 = eff(c['e'], n), eff(c['w'], n)
    rep = _is_f32(e64) and _is_f32(w64)
    out['rep'] = rep

    def vs_base(rates, weights):
        """difference to the base-class fit on (rates, weights); inf when that fit raises although PoissonGAM.fit did not"""
        try:
            return model_compare(a, fit_base(pygam, c, max_iter, rates, weights), c['X'])
        except Exception as ex:  # noqa
            out.setdefault('base_exceptions', []).append(type(ex).__name__)
            return float('inf')
    # --- model tie
    rates_s, weights_s = model_line.split('|')
    mr, mw = _qvec_to_f(rates_s), _qvec_to_f(weights_s)
    d_model = vs_base(mr, mw)
    out['d_model'] = d_model
    # --- independent oracle: rates y/e with weights w*e in NumPy
    orates, oweights = c['y'] / e64, w64 * e64
    if np.array_equal(orates, mr) and np.array_equal(oweights, mw):
        d_or = d_model
        out['oracle_same_args'] = True
    else:
        d_or = vs_base(orates, oweights)
        out['oracle_same_args'] = False
    out['d_oracle'] = d_or
    tol_or = 1e-8 if rep else 1e-5
    # exposure / weights that are not float32 numbers: the code rounds them to float32 (6e-8 relative); a fit that does not
    # settle (a diverging PIRLS run at rates of 1e12, say) amplifies that perturbation without bound, so a large d_oracle is
    # only a failure when the fit also differs from the one on the NumPy-rounded arguments (y / f32(e), f32(w) f32(e))
    d_cast = d_or
    if not rep and d_or > tol_or:
        e32_, w32_ = e64.astype('f').astype(float), w64.astype('f').astype(float)
        d_cast = vs_base(c['y'] / e32_, w32_ * e32_)
    out['d_cast'] = d_cast
    # --- statistic: deviance is the weighted Poisson deviance of the *counts* at mean e*rate (theorem)
    rate = np.asarray(a.predict_mu(c['X']), dtype=float)
    e32 = e64.astype('f').astype(float)
    w32 = w64.astype('f').astype(float)
    # (no mask: the statistic is the plain weighted sum, whatever the magnitude of the weights w*e; a zero weight gives a zero term)
    dev_counts = float(np.sum(eff_weights(w64, e64) * np_poisson_dev(c['y'], e32 * rate)))
    d_dev = _maxrel([_num(a.statistics_.get('deviance'))], [dev_counts])
    # rounding floor of ANY evaluation of the Poisson deviance: log(y / mu) carries an absolute error of eps, multiplied by
    # w y — for counts of 1e12 (exposures in a large unit) that is 1e-3 per observation, whatever the formulation
    with np.errstate(all='ignore'):
        dev_floor = 16 * np.finfo(float).eps * float(np.sum(eff_weights(w64, e64) * (np.abs(c['y']) + np.abs(e32 * rate))))
    if np.isfinite(dev_floor) and abs(_num(a.statistics_.get('deviance')) - dev_counts) <= dev_floor:
        d_dev = 0.0
    out['d_dev'] = d_dev
    # --- statistics_['loglikelihood'] is the public loglikelihood at the training data
    ll_stat = _num(a.statistics_.get('loglikelihood'))
    ll_pub = float(a.loglikelihood(c['X'], y_as(c), exposure=c['e'], weights=c['w']))
    d_ll = _maxrel([ll_stat], [ll_pub])
    out['d_llstat'] = d_ll
    # --- every statistic derived from the log-likelihood / deviance is the one of the COUNTS at mean rate x exposure
    out['stats_bad'], out['stats_info'] = stat_oracle(c, a, rate, ll_pub)
    if d_or > 10 * tol_or and (rep or d_cast > 1e-7):
        out['bad'] = dict(reason='PoissonGAM.fit(X, y, exposure=e, weights=w) differs from GAM(poisson, log).fit(X, y/e, weights=w*e)',
                          max_rel_diff=d_or, tol=tol_or, vs_float32_rounded_arguments=d_cast)
    elif d_dev > 1e-7:
        out['bad'] = dict(reason="statistics_['deviance'] is not the weighted Poisson deviance of the counts at mean e*rate",
                          got=float(a.statistics_['deviance']), want=dev_counts)
    elif d_ll > 1e-9:
        out['bad'] = dict(reason="statistics_['loglikelihood'] differs from loglikelihood(X, y, exposure, weights)",
                          got=ll_stat, want=ll_pub)
    elif out['stats_bad'] is not None:
        out['bad'] = out['stats_bad']
    elif d_model > 1e-8 or (rep and d_or > tol_or):
        # (exposure / weights that are not float32-representable: the NumPy oracle's arguments differ from the code's by
        # float32 rounding, amplified by the conditioning of the fit; between tol and 10 tol that is counted by the
        # caller as 'float32 rounding visible', the exact tie is the model's (d_model))
        out['disagree'] = dict(d_model=d_model, d_oracle=d_or)
    out['model'] = a
    return out


def run_fit(ctx, pygam, lits, cases=None):
    st = 'fit.rates'
    ctx.stream(st, 'PoissonGAM.fit(X,y,exposure,weights) vs GAM(poisson,log).fit on the model\'s (rates, weights) and on '
                   'NumPy (y/e, w*e): coef_, predict_mu, edof, deviance, UBRE to 1e-8; deviance = count deviance at e*rate')
    st_p = 'predict'
    ctx.stream(st_p, 'predict(X, exposure) vs e * predict_mu(X) (1e-12; 1e-6 when e is not float32) and vs model rate*castF32(e) (4 ulp)')
    st_l = 'loglik'
    ctx.stream(st_l, 'loglikelihood(X,y,exposure,weights) vs scipy.stats.poisson.logpmf(y, mu*e).sum() (weights None/ones) '
                     'and vs model kernel - sum gammaln(counts+1), 1e-10 of the sum of |terms|')
    max_iter = 40 if ctx.tier == 'quick' else 150
    if cases is None:
        ncase = 110 if ctx.tier == 'quick' else 440
        cases = [make_case(ctx.seed, st, i, ctx.tier, lits) for i in range(ncase)]
    ops = ['C19 fit %d | %s | %s | %s' % (c['n'], _vec_q(c['y']), _opt_q(c['e']), _opt_q(c['w'])) for c in cases]
    outs = ctx.driver.run(ops)
    fitted = []
    stat_items = []
    for c, line in zip(cases, outs):
        ctx.count('exposure kind', c['ek'])
        ctx.count('weight kind', c['wk'])
        ctx.count('term mix', c['mix'])
        ctx.count('n', c['n'])
        sig = case_sig(c)
        nontriv = c['ek'] not in ('none', 'ones') or c['unit'] != '1'
        ctx.count('exposure unit', c['unit'])
        ctx.case(st, sig, nontrivial=nontriv, sample=dict(ek=c['ek'], wk=c['wk'], mix=c['mix'], n=c['n'], unit=c['unit'],
                                                         e=None if c['e'] is None else c['e'][:4].tolist(), y=c['y'][:4].tolist()))
        if line == 'bad-op':
            ctx.disagree(st, sig, 'fit', 'bad-op', 'driver rejected the operation')
            continue
        try:
            r = eval_fit_case(pygam, c, max_iter, line)
        except Exception as ex:  # noqa
            ctx.count('fit exception', type(ex.args[0]).__name__ if isinstance(ex, PoissonFitError) and ex.args else type(ex).__name__)
            r2 = None
            try:
                r2 = eval_fit_case(pygam, c, max_iter, line)
            except PoissonFitError as ex2:
                orig = ex2.args[0] if ex2.args else ex2
                # does the base fit on the rates fail as well?  then it is not about exposure
                try:
                    n = c['n']
                    # (on the float32-rounded arguments the code works with: a diverging run is not robust to the 6e-8 rounding)
                    e32_ = eff(c['e'], n).astype('f').astype(float)
                    fit_base(pygam, c, max_iter, c['y'] / e32_, f32_product(eff(c['w'], n), eff(c['e'], n)))
                    base_ok = True
                except Exception:  # noqa
                    base_ok = False
                if base_ok:
                    ctx.fail(st, sig, case_replay(ctx.seed, c), observed=dict(exception=type(orig).__name__, msg=str(orig)[:200]),
                             expected='PoissonGAM.fit succeeds whenever the GAM fit of the rates with weights w*e does',
                             oracle='GAM(distribution=poisson, link=log).fit(X, y/e, weights=w*e)')
                else:
                    ctx.count('both fits fail', type(orig).__name__)
                continue
            except Exception as ex2:  # noqa
                if not _in_library(ex2):
                    raise
                # the fit went through; a public method or statistic of the fitted model raised on the training data
                ctx.fail(st, sig, case_replay(ctx.seed, c), observed=dict(exception=type(ex2).__name__, msg=str(ex2)[:200]),
                         expected='statistics / loglikelihood of the fitted model are numbers',
                         oracle='a PoissonGAM fitted with exposure answers loglikelihood(X, y, exposure, weights)')
                continue
            r = r2
        if not r['rep']:
            ctx.count('float32 rounding of exposure/weights visible (>1e-8)', r['d_oracle'] > 1e-8)
        if r['bad'] is not None:
            r2 = eval_fit_case(pygam, c, max_iter, line)   # re-execute
            if r2['bad'] is not None:
                ctx.fail(st, sig, case_replay(ctx.seed, c), observed=r2['bad'],
                         expected='same coefficients / predictions / edof / deviance / UBRE',
                         oracle='GAM(distribution=poisson, link=log).fit(X, y/e, weights=w*e) with NumPy-computed rates and weights; '
                                'NumPy weighted Poisson deviance of the counts')
                fitted.append((c, r2['model']))
                continue
        elif r['disagree'] is not None:
            ctx.disagree(st, sig, r['disagree'], 'model (rates, weights) fit', 'fit on model arguments differs beyond 1e-8')
        fitted.append((c, r['model']))
        stat_items.append((c, r['model'], r.get('stats_info') or {}))
    run_fit_stats(ctx, stat_items)
    run_predict_loglik(ctx, pygam, fitted, st_p, st_l)
    return fitted


def run_fit_stats(ctx, items):
    """model tie of the statistics of a fit with exposure: Lean `fitLoglik / fitAIC / fitAICc / fitUBRE / fitMcFadden /
    fitMcFaddenAdj / fitExplained / fitDeviance` (driver op `stats`) vs statistics_ of the real fit"""
    st = 'fit.stats'
    ctx.stream(st, "statistics_['loglikelihood','AIC','AICc','UBRE','pseudo_r2','deviance'] of PoissonGAM.fit(X,y,exposure,weights) "
                   "vs the model's fitLoglik/fitAIC/fitAICc/fitUBRE/fitMcFadden(Adj)/fitExplained/fitDeviance at predict_mu(X) and the "
                   "reported edof (SciPy gammaln as the normaliser), 1e-9 of the magnitude of the sums")
    ops, plan = [], []
    for c, g, info in items:
        n = c['n']
        try:
            rate = np.asarray(g.predict_mu(c['X']), dtype=float)
            edof = _num(g.statistics_.get('edof'))
        except Exception:  # noqa
            continue
        if rate.shape != (n,) or not (np.all(np.isfinite(rate)) and np.isfinite(edof)):
            ctx.count('fit.stats skipped', 'non-finite rate / edof')
            continue
        e64, w64 = eff(c['e'], n), eff(c['w'], n)
        with np.errstate(all='ignore'):
            ks = np.unique(np.round(np.asarray(c['y'], dtype=float) / e64.astype('f').astype(float) * f32_product(w64, e64)))
        ks = ks[np.isfinite(ks)]
        ns = scipy.special.gammaln(ks + 1)
        ops.append('C19 stats %d | %s | %s | %s | %s | %s | %s | %s' % (n, _vec_b(rate), _vec_b(c['y']), _opt_b(c['e']), _opt_b(c['w']),
                                                                  f2bits(edof), _vec_b(ks), _vec_b(ns)))
        plan.append((c, g, info))
    outs = ctx.driver.run(ops) if ops else []
    names = ['loglikelihood', 'AIC', 'AICc', 'UBRE', 'McFadden', 'McFadden_adj', 'explained_deviance', 'deviance']
    for (c, g, info), line in zip(plan, outs):
        sig = case_sig(c)
        ctx.case(st, sig, nontrivial=c['ek'] not in ('none', 'ones') or c['unit'] != '1' or c['wk'] not in ('none', 'ones'))
        if line == 'bad-op':
            ctx.disagree(st, sig, 'stats', 'bad-op', 'driver rejected the operation')
            continue
        model = dict(zip(names, [bits2f(t) for t in line.split()]))
        stt = g.statistics_
        r2 = stt.get('pseudo_r2') or {}
        got = dict(loglikelihood=_num(stt.get('loglikelihood')), AIC=_num(stt.get('AIC')), AICc=_num(stt.get('AICc')),
                   UBRE=_num(stt.get('UBRE')), deviance=_num(stt.get('deviance')))
        for k in ('McFadden', 'McFadden_adj', 'explained_deviance'):
            try:
                got[k] = _num(r2.get(k))
            except Exception:  # noqa
                got[k] = float('nan')
        sc = dict(info.get('scales') or {})
        llsc = float(info.get('ll_scale') or 1.0)
        sc.setdefault('AIC', 2 * llsc + 2 * abs(_num(stt.get('edof'))))
        sc.setdefault('AICc', sc['AIC'] + abs(got['AICc'] - got['AIC']) if np.isfinite(got['AICc'] - got['AIC']) else sc['AIC'])
        sc['loglikelihood'] = llsc
        sc['deviance'] = abs(float(info.get('dev') or 0.0)) + 1.0
        worst = None
        for k in names:
            a_, m_ = got[k], model[k]
            if not (np.isfinite(a_) and np.isfinite(m_)):
                if not ((a_ == m_) or (a_ != a_ and m_ != m_)):
                    # non-finite on one side only; McFadden / explained deviance have 0/0 forms whose NaN-ness both sides share
                    worst = (k, a_, m_, float('inf'))
                    break
                continue
            scale = sc.get(k)
            if scale is None or not np.isfinite(scale):
                scale = max(1.0, abs(a_), abs(m_))
            d = abs(a_ - m_) / scale
            if d > 1e-9 and (worst is None or d > worst[3]):
                worst = (k, a_, m_, d)
        if worst is not None:
            ctx.disagree(st, sig, {worst[0]: worst[1]}, {worst[0]: worst[2]}, 'statistic %s: rel %g' % (worst[0], worst[3]))


def run_predict_loglik(ctx, pygam, fitted, st_p, st_l):
    # ---- gather driver ops
    ops, plan = [], []
    for c, g in fitted:
        for which in ('train', 'new'):
            if which == 'train':
                X, y, e, w, n = c['X'], c['y'], c['e'], c['w'], c['n']
            else:
                X, y, e, w, n = c['X2'], c['y2'], c['e2'], c['w2'], c['n2']
            try:
                rate = np.asarray(g.predict_mu(X), dtype=float)
            except Exception:  # noqa
                continue
            if not np.all(np.isfinite(rate)):
                ctx.count('non-finite rate skipped', which)
                continue
            ops.append('C19 predict %d | %s | %s' % (n, _vec_q(rate), _opt_q(e)))
            plan.append(('predict', c, g, which, X, y, e, w, n, rate))
            ops.append('C19 loglik %d | %s | %s | %s | %s' % (n, _vec_b(rate), _vec_b(y), _opt_b(e), _opt_b(w)))
            plan.append(('loglik', c, g, which, X, y, e, w, n, rate))
    outs = ctx.driver.run(ops)
    for (kind, c, g, which, X, y, e, w, n, rate), line in zip(plan, outs):
        ek = c['ek'] if which == 'train' else c['ek2']
        wk = c['wk'] if which == 'train' else c['wk2']
        unit = c['unit'] if which == 'train' else c['unit2']
        sig = case_sig(c, which=which, ek=ek, wk=wk, unit=unit)
        if kind == 'predict':
            ctx.case(st_p, sig, nontrivial=ek not in ('none', 'ones') or unit != '1')
            ctx.count('predict exposure unit', unit)
            ctx.count('predict exposure kind', ek)

            def ev():
                got = np.asarray(g.predict(X, exposure=e), dtype=float)
                e64 = eff(e, n)
                want = e64 * rate
                tol = 1e-12 if _is_f32(e64) else 1e-6
                return got, want, tol
            got, want, tol = ev()
            d_or = _maxrel(got, want)
            if line == 'bad-op':
                ctx.disagree(st_p, sig, 'predict', 'bad-op', 'driver rejected the operation')
                continue
            model = _qvec_to_f(line)
            d_m = _maxrel(got, model)
            if not _is_f32(eff(e, n)):
                ctx.count('predict: float32 rounding of exposure visible (>1e-9)', d_or > 1e-9)
            if d_or > 10 * tol:
                got2, want2, _ = ev()
                if _maxrel(got2, want2) > 10 * tol:
                    i = int(np.argmax(np.abs(got2 - want2) / np.maximum(1, np.abs(want2))))
                    ctx.fail(st_p, sig, case_replay(ctx.seed, c, which=which),
                             observed=dict(i=i, predict=float(got2[i]), exposure=float(eff(e, n)[i]), predict_mu=float(rate[i])),
                             expected=dict(e_times_rate=float(want2[i])), oracle='predict(X, exposure=e) == e * predict_mu(X)')
                    continue
            if d_m > 1e-15 * 4 or d_or > tol:
                ctx.disagree(st_p, sig, got[:5].tolist(), model[:5].tolist(), 'd_model=%g d_oracle=%g' % (d_m, d_or))
        else:
            yi = np.asarray(y, dtype=float)
            ctx.case(st_l, sig, nontrivial=ek not in ('none', 'ones') or wk not in ('none', 'ones') or unit != '1')
            ctx.count('loglik exposure unit', unit)
            ctx.count('loglik weight kind', wk)
            yy = yi.astype(np.int64) if c['ydtype'] == 'int' else ([float(v) for v in yi] if c['ydtype'] == 'list' else yi)

            def evl():
                return float(g.loglikelihood(X, yy, exposure=e, weights=w))
            try:
                got = evl()
            except Exception as ex:  # noqa
                ctx.fail(st_l, sig, case_replay(ctx.seed, c, which=which), observed=dict(exception=type(ex).__name__, msg=str(ex)[:200]),
                         expected='a number', oracle='loglikelihood returns the Poisson log-probability')
                continue
            e64, w64 = eff(e, n), eff(w, n)
            if line == 'bad-op':
                ctx.disagree(st_l, sig, got, 'bad-op', 'driver rejected the operation')
                continue
            ks, cs = line.split('|')
            kern = bits2f(ks.strip())
            counts = np.array([bits2f(t) for t in cs.split()], dtype=float)
            model = kern - float(np.sum(scipy.special.gammaln(counts + 1)))
            e32 = e64.astype('f').astype(float)
            w32 = w64.astype('f').astype(float)
            mean_m = rate * (w32 * e32)
            scale = float(np.sum(np.abs(counts * np.log(np.maximum(mean_m, 1e-300))) + mean_m + scipy.special.gammaln(counts + 1))) + 1.0
            d_m = abs(got - model) / scale if np.isfinite(got) and np.isfinite(model) else (0.0 if (got == model or (got != got and model != model)) else float('inf'))
            unweighted = bool(np.all(w64 == 1.0))
            bad = None
            if unweighted:
                terms = scipy.stats.poisson.logpmf(yi, rate * e64)
                want = float(np.sum(terms))
                sc2 = float(np.sum(np.abs(yi * np.log(np.maximum(rate * e64, 1e-300))) + rate * e64 + scipy.special.gammaln(yi + 1))) + 1.0
                tol = 1e-10 if _is_f32(e64) else 1e-5
                d_or = abs(got - want) / sc2 if np.isfinite(got) and np.isfinite(want) else (0.0 if got == want else float('inf'))
                if d_or > 10 * tol:
                    got2 = evl()
                    d2 = abs(got2 - want) / sc2 if np.isfinite(got2) and np.isfinite(want) else (0.0 if got2 == want else float('inf'))
                    if d2 > 10 * tol:
                        bad = dict(loglikelihood=got2, scipy_sum_logpmf_at_rate_times_exposure=want, rel=d2)
                ctx.count('loglik oracle', 'unweighted')
            else:
                ctx.count('loglik oracle', 'weighted: model only')
            if bad is not None:
                ctx.fail(st_l, sig, case_replay(ctx.seed, c, which=which), observed=bad,
                         expected='sum_i scipy.stats.poisson.logpmf(y_i, mu_i * e_i)',
                         oracle='loglikelihood(X, y, exposure=e) == scipy.stats.poisson.logpmf(y, predict_mu(X) * e).sum()')
            elif d_m > 1e-10:
                # with sample weights the only statement is the model's; evaluate its formula with SciPy as a second opinion
                alt = float(np.sum(scipy.stats.poisson.logpmf(np.round(yi * w32), rate * w32 * e32)))
                ctx.disagree(st_l, sig, got, model, 'rel=%g; scipy on round(y*w) at mu*w*e gives %r' % (d_m, alt))


def run_noexposure(ctx, pygam, lits, idxs=None):
    st = 'fit.noexposure'
    ctx.stream(st, 'PoissonGAM.fit / predict / loglikelihood with exposure omitted vs exposure = ones (1e-10)')
    max_iter = 40 if ctx.tier == 'quick' else 150
    ncase = 22 if ctx.tier == 'quick' else 88
    idxs = range(ncase) if idxs is None else idxs
    for i in idxs:
        c = make_case(ctx.seed, st, i, ctx.tier, lits, force=dict(ek='none'))
        sig = case_sig(c)
        ctx.case(st, sig, nontrivial=c['wk'] not in ('none', 'ones'))

        def ev():
            a = fit_poisson(pygam, c, max_iter)
            ones = [np.ones(c['n']), np.ones(c['n'], dtype='f'), [1] * c['n']][i % 3]
            b = fit_poisson(pygam, c, max_iter, e=ones)
            d = model_compare(a, b, c['X'])
            d = max(d, _maxrel([a.statistics_['loglikelihood']], [b.statistics_['loglikelihood']]))
            p1 = a.predict(c['X2'])
            p2 = a.predict(c['X2'], exposure=np.ones(c['n2']))
            d = max(d, _maxrel(p1, p2), _maxrel(p1, a.predict_mu(c['X2'])))
            l1 = a.loglikelihood(c['X2'], c['y2'], weights=c['w2'])
            l2 = a.loglikelihood(c['X2'], c['y2'], exposure=np.ones(c['n2']), weights=c['w2'])
            d = max(d, _maxrel([l1], [l2]))
            return d
        try:
            d = ev()
        except Exception as ex:  # noqa
            ctx.count('noexposure exception', type(ex).__name__)
            continue
        if d > 1e-9:
            d = ev()
            if d > 1e-9:
                ctx.fail(st, sig, case_replay(ctx.seed, c), observed=dict(max_rel_diff=d), expected='identical models',
                         oracle='fit(X, y, weights=w) == fit(X, y, exposure=ones, weights=w); predict(X) == predict(X, ones) == predict_mu(X)')
        elif d > 1e-10:
            ctx.disagree(st, sig, d, 0.0, 'omitted exposure and ones differ slightly')


def newton_offset_glm(X, y, e, w, lam, n_iter=200):
    """penalised Poisson regression of counts with offset log e:  maximise  sum w (y eta - e exp(eta)) - 1/2 lam |b_lin|^2"""
    n = len(y)
    A = np.c_[X, np.ones(n)]
    p = A.shape[1]
    S = np.diag([lam] * (p - 1) + [0.0])
    b = np.zeros(p)
    b[-1] = np.log(max((w * y).sum(), 1e-3) / (w * e).sum())
    for _ in range(n_iter):
        m = e * np.exp(A @ b)
        g = A.T @ (w * (y - m)) - S @ b
        H = A.T @ (A * (w * m)[:, None]) + S
        step = np.linalg.solve(H, g)
        t = 1.0
        while np.max(np.abs(t * step)) > 3.0:
            t /= 2
        b = b + t * step
        if np.max(np.abs(step)) < 1e-13:
            break
    m = e * np.exp(A @ b)
    g = A.T @ (w * (y - m)) - S @ b
    return b, float(np.max(np.abs(g)))


def run_offset_glm(ctx, pygam, lits, idxs=None):
    st = 'fit.offset-glm'
    ctx.stream(st, 'PoissonGAM(l(0)+l(1)).fit(X, y, exposure, weights) vs independent NumPy Newton solution of the l2-penalised '
                   'Poisson regression of the counts with offset log(e) (1e-6)')
    from pygam import l
    ncase = 60 if ctx.tier == 'quick' else 400
    idxs = range(ncase) if idxs is None else idxs
    for i in idxs:
        c = make_case(ctx.seed, st, i, ctx.tier, lits, force=dict(mix='l0+l1'))
        if c['ek'] == 'nonrep' or c['wk'] == 'nonrep':
            c = make_case(ctx.seed, st, i, ctx.tier, lits, force=dict(mix='l0+l1', ek='f32' if c['ek'] == 'nonrep' else c['ek'],
                                                                        wk='dyadic' if c['wk'] == 'nonrep' else c['wk']))
        n = c['n']
        sig = case_sig(c)
        ctx.case(st, sig, nontrivial=c['ek'] not in ('none', 'ones') or c['unit'] != '1')
        ctx.count('offset-glm exposure unit', c['unit'])
        e64, w64 = eff(c['e'], n), eff(c['w'], n)
        if int(np.sum((c['y'] > 0) & (w64 > 0))) < 5:
            ctx.count('offset-glm degenerate counts skipped', 1)
            continue
        b, gn = newton_offset_glm(c['X'][:, :2], c['y'], e64, w64, c['lam'])
        if not (gn < 1e-7 and np.all(np.isfinite(b))):
            ctx.count('offset-glm oracle did not converge', 1)
            continue

        def ev():
            g = pygam.PoissonGAM(l(0, lam=c['lam']) + l(1, lam=c['lam']), tol=1e-12, max_iter=300)
            g.fit(c['X'], y_as(c), exposure=c['e'], weights=c['w'])
            return g, _maxrel(g.coef_, b)
        try:
            g, d = ev()
        except Exception as ex:  # noqa
            ctx.count('offset-glm fit exception', type(ex).__name__)
            continue
        if len(g.logs_.get('diffs', [])) >= 300:
            ctx.count('offset-glm pygam not converged', 1)
            continue
        if d > 1e-5:
            g, d = ev()
            if d > 1e-5:
                ctx.fail(st, sig, case_replay(ctx.seed, c), observed=dict(coef=np.asarray(g.coef_).tolist()), expected=dict(coef=b.tolist()),
                         oracle='NumPy Newton: argmax sum w (y (Xb + log e) - e exp(Xb)) - lam/2 |b_lin|^2')
        elif d > 1e-6:
            ctx.disagree(st, sig, np.asarray(g.coef_).tolist(), b.tolist(), 'rel diff %g' % d)


GS_OBJECTIVES = ['auto', 'UBRE', 'AIC', 'AICc']


def model_objective(g, objective, X, y, yy, e, w, n):
    """closed-form value of the gridsearch objective of the fitted PoissonGAM `g` for the counts y, exposure e, weights w:
    from scipy.stats.poisson.logpmf of the counts at e * rate (without sample weights; with them the public
    loglikelihood(X, y, exposure, weights), itself checked in stream loglik), the NumPy deviance of the counts and g's edof.
    Returns (value, absolute scale of its rounding error)."""
    e64, w64 = eff(e, n), eff(w, n)
    rate = np.asarray(g.predict_mu(X), dtype=float)
    edof = _num(g.statistics_.get('edof'))
    ll, sc, kind = count_loglik(y, rate, e64, w64)
    if kind != 'unweighted':
        ll = float(g.loglikelihood(X, yy, exposure=e, weights=w))
    e32 = e64.astype('f').astype(float)
    dev = float(np.sum(eff_weights(w64, e64) * np_poisson_dev(y, e32 * rate)))
    ob = count_objectives(n, ll, dev, edof)
    name = 'UBRE' if objective == 'auto' else objective
    v = ob[name]
    scale = (abs(dev) / n + abs(v)) if name == 'UBRE' else (2 * sc + abs(v - ob['AIC']) + 2 * abs(edof))
    return v, scale + 1e-300


def gs_setup(seed, i, tier, lits):
    """case number i of the gridsearch stream: (case, grid, objective, return_scores, max_iter)"""
    st = 'gridsearch'
    max_iter = 60 if tier == 'quick' else 150
    c = make_case(seed, st, i, tier, lits, force=dict(n=[30, 50][i % 2], ns=6))
    if c['mix'] in ('s0+s1+f2', 's1+te02'):
        c = make_case(seed, st, i, tier, lits, force=dict(n=[30, 50][i % 2], ns=6, mix='s0+l1'))
    n = c['n']
    r = _subrng(seed, st, i, 'grid')
    grid = sorted(set([[0.01, 0.1, 1.0, 10.0, 100.0][r.randrange(5)] for _ in range(3)] + [0.6]))
    objective = GS_OBJECTIVES[i % 4]
    ret_scores = ((i // 4) % 2 == 1)
    return c, grid, objective, ret_scores, max_iter


def gs_eval(job):
    """evaluate one gridsearch case (runs in a worker process): dict(res=…, res2=… (re-execution when bad), exc=…, fail_exc=…)"""
    seed, i, tier, lits = job
    with contextlib.redirect_stdout(io.StringIO()):
        return _gs_eval(seed, i, tier, lits)


def _gs_eval(seed, i, tier, lits):
    pygam = common.import_pygam()
    c, grid, objective, ret_scores, max_iter = gs_setup(seed, i, tier, lits)
    n = c['n']
    e64, w64 = eff(c['e'], n), eff(c['w'], n)
    rep = _is_f32(e64) and _is_f32(w64)
    e32, w32 = e64.astype('f').astype(float), w64.astype('f').astype(float)
    yy = y_as(c)

    def new_poisson(lam=None):
        terms, fi = build_terms(pygam, c['mix'], c['lam'] if lam is None else lam, c['ns'])
        return pygam.PoissonGAM(terms, tol=1e-10, max_iter=max_iter, fit_intercept=fi)

    def settled(g):
        # (PIRLS steps of spline models stall at a relative size of ~1e-7, the noise floor of the sqrt(eps)-regularised
        # QR/SVD step, so tol=1e-10 is often never met; 'settled' = the last step was that small)
        d = g.logs_.get('diffs', [])
        return len(d) > 0 and np.isfinite(d[-1]) and d[-1] < 1e-6

    def ev():
        """dict(bad=…|None, notes=[…], d32=…)"""
        res = dict(bad=None, notes=[], d32=0.0)
        oname = 'UBRE' if objective == 'auto' else objective     # known scale: 'auto' is UBRE
        a = new_poisson()
        ra = a.gridsearch(c['X'], yy, exposure=c['e'], weights=c['w'], lam=grid, return_scores=ret_scores,
                          objective=objective, progress=False)
        # ---- (i) / (ii): closed forms, independent candidates
        def candidates():
            """independent candidates: one cold PoissonGAM.fit per grid point -> (lam, objective, scale, settled, model)"""
            cand = []
            for lam in grid:
                try:
                    g = new_poisson(lam).fit(c['X'], yy, exposure=c['e'], weights=c['w'])
                    v, scale = model_objective(g, objective, c['X'], c['y'], yy, c['e'], c['w'], n)
                    cand.append((lam, v, scale, settled(g), g))
                except Exception as ex:  # noqa
                    res['notes'].append('candidate fit exception ' + type(ex).__name__)
            return cand
        if ret_scores:
            if not hasattr(ra, 'items'):
                # "No models were fitted": documented when every candidate raises
                finite = [t for t in candidates() if np.isfinite(t[1])]
                if finite:
                    res['bad'] = dict(reason='gridsearch(return_scores=True) returned no scores although candidates can be fitted',
                                      returned=type(ra).__name__, candidates=[(t[0], t[1]) for t in finite])
                else:
                    res['notes'].append('no candidate fits')
                return res
            if len(ra) > len(grid):
                res['bad'] = dict(reason='more scores than candidates', n_scores=len(ra), n_grid=len(grid))
                return res
            res['notes'].append('candidates scored: %d of %d' % (len(ra), len(grid)))
            for g, score in ra.items():
                want, scale = model_objective(g, objective, c['X'], c['y'], yy, c['e'], c['w'], n)
                got = _num(score)
                tol = (1e-8 if rep else 1e-5) * scale
                if np.isfinite(want) and not (np.isfinite(got) and abs(got - want) <= 10 * tol):
                    res['bad'] = dict(reason='score of a candidate is not the %s of the counts at mean rate x exposure' % oname,
                                      lam=np.ravel(g.lam).tolist()[:3], score=got, closed_form=want, tol=10 * tol)
                    return res
        else:
            cand = candidates()
            finite = [t for t in cand if np.isfinite(t[1])]
            try:
                a.predict_mu(c['X'])
                fitted = True
            except Exception:  # noqa
                fitted = False
            if not fitted:
                if finite:
                    res['bad'] = dict(reason='gridsearch returned an unfitted model although candidates can be fitted and have a '
                                             'finite %s' % oname, candidates=[(t[0], t[1]) for t in finite])
                else:
                    res['notes'].append('no candidate fits')
                return res
            va, sa = model_objective(a, objective, c['X'], c['y'], yy, c['e'], c['w'], n)
            own = _num(a.statistics_.get('UBRE' if objective == 'auto' else objective))
            tol_own = (1e-8 if rep else 1e-5) * sa
            if np.isfinite(va) and not (np.isfinite(own) and abs(own - va) <= 10 * tol_own):
                res['bad'] = dict(reason="statistics_[%r] of the selected model is not the closed form of the counts at mean rate x "
                                         "exposure" % oname, got=own, closed_form=va, tol=10 * tol_own)
                return res
            lam_a = np.ravel(a.lam).astype(float)
            if not any(np.all(lam_a == lam) for lam in grid):
                res['bad'] = dict(reason='selected lam is not a grid point', lam=lam_a.tolist()[:3], grid=grid)
                return res
            if finite and all(t[3] for t in cand) and len(cand) == len(grid) and settled(a):
                best = min(finite, key=lambda t: t[1])
                tolb = (1e-6 if rep else 1e-4) * max(best[2], sa)
                if np.isfinite(va) and abs(va - best[1]) > 10 * tolb:
                    res['bad'] = dict(reason='the model returned by gridsearch does not minimise the %s over the grid' % oname,
                                      selected_lam=float(lam_a[0]), selected_objective=va, best_lam=best[0],
                                      best_objective=best[1], candidates=[(t[0], t[1]) for t in cand])
                    return res
                res['notes'].append('argmin checked')
            else:
                res['notes'].append('argmin not checked (a fit did not settle)')
        # ---- (iii) base-class gridsearch on rates / weights (valid for the deviance-based objective only: on the rates the
        #      base-class log-likelihood, hence AIC / AICc, is not the counts')
        if objective in ('auto', 'UBRE'):
            ds = []
            for (ee, ww) in ((e64, w64), (e32, w32)):
                terms2, fi = build_terms(pygam, c['mix'], c['lam'], c['ns'])
                b = pygam.GAM(terms2, distribution='poisson', link='log', tol=1e-10, max_iter=max_iter, fit_intercept=fi)
                rb = b.gridsearch(c['X'], c['y'] / ee, weights=ww * ee, lam=grid, return_scores=ret_scores,
                                  objective=objective, progress=False)
                if ret_scores:
                    sa_ = sorted(_num(v) for v in ra.values())
                    sb_ = sorted(_num(v) for v in rb.values())
                    d = _maxrel(sa_, sb_) if len(sa_) == len(sb_) else float('inf')
                else:
                    d = max(_maxrel(np.ravel(a.lam), np.ravel(b.lam)), model_compare(a, b, c['X']))
                ds.append(d)
                if rep:
                    ds.append(d)
                    break
            d64, d32 = ds
            res['d32'] = d32
            tol = 1e-8 if rep else 1e-4
            if d64 > 10 * tol and (rep or d32 > 1e-7):
                res['bad'] = dict(reason='differs from GAM(poisson, log).gridsearch(X, y/e, weights=w*e)', max_rel_diff=d64,
                                  vs_float32_cast=d32)
        return res
    out = dict(res=None, res2=None, exc=None, fail_exc=None)
    try:
        out['res'] = ev()
    except Exception as ex:  # noqa
        out['exc'] = type(ex).__name__
        # an exception of the exposure entry point where the base-class search on the converted data runs is a failing input
        b = None
        try:
            terms2, fi = build_terms(pygam, c['mix'], c['lam'], c['ns'])
            b = pygam.GAM(terms2, distribution='poisson', link='log', tol=1e-10, max_iter=max_iter, fit_intercept=fi)
            b.gridsearch(c['X'], c['y'] / e32, weights=w32 * e32, lam=grid, objective='UBRE', progress=False)
            new_poisson().gridsearch(c['X'], yy, exposure=c['e'], weights=c['w'], lam=grid, return_scores=ret_scores,
                                     objective=objective, progress=False)
        except Exception as ex2:  # noqa
            try:
                b.predict_mu(c['X'])
                base_fitted = True
            except Exception:  # noqa
                base_fitted = False
            if base_fitted:
                out['fail_exc'] = dict(exception=type(ex2).__name__, msg=str(ex2)[:200])
        return out
    if out['res']['bad'] is not None:
        try:
            out['res2'] = ev()
        except Exception:  # noqa
            pass
    return out


def run_gridsearch(ctx, pygam, lits, idxs=None):
    st = 'gridsearch'
    ctx.stream(st, 'PoissonGAM.gridsearch(X,y,exposure,weights,lam=grid,objective in auto/UBRE/AIC/AICc): (i) the score of every '
                   'candidate (return_scores) is the closed-form objective of the counts at e*rate (scipy logpmf / NumPy deviance, '
                   'reported edof), 1e-8; (ii) the returned model is fitted and its objective is the minimum over the grid of '
                   'independent PoissonGAM.fit(exposure, weights) candidates, 1e-6; (iii) UBRE/auto: same chosen lam, coef_, scores '
                   'as GAM(poisson,log).gridsearch(X,y/e,weights=w*e), 1e-8')
    ncase = 64 if ctx.tier == 'quick' else 256
    max_iter = 60 if ctx.tier == 'quick' else 150
    idxs = range(ncase) if idxs is None else idxs
    jobs = [(ctx.seed, i, ctx.tier, lits) for i in idxs]
    if len(jobs) > 1:
        with mp.get_context('fork').Pool(min(16, len(jobs))) as pool:
            outs = pool.map(gs_eval, jobs)
    else:
        outs = [gs_eval(j) for j in jobs]
    for (_, i, _, _), out in zip(jobs, outs):
        c, grid, objective, ret_scores, _mi = gs_setup(ctx.seed, i, ctx.tier, lits)
        sig = case_sig(c, grid=grid, ret=ret_scores, objective=objective)
        ctx.case(st, sig, nontrivial=c['ek'] not in ('none', 'ones') or c['unit'] != '1')
        ctx.count('gridsearch objective', '%s%s' % (objective, ' (scores)' if ret_scores else ''))
        ctx.count('gridsearch exposure unit', c['unit'])
        rp = case_replay(ctx.seed, c, grid=grid, ret=ret_scores, objective=objective)
        if out['exc'] is not None:
            ctx.count('gridsearch exception', out['exc'])
            if out['fail_exc'] is not None:
                ctx.fail(st, sig, rp, observed=out['fail_exc'],
                         expected='PoissonGAM.gridsearch with exposure succeeds whenever the base-class search on (y/e, w*e) does',
                         oracle='GAM(distribution=poisson, link=log).gridsearch(X, y/e, weights=w*e, lam=grid)')
            continue
        res, res2 = out['res'], out['res2']
        for note in res['notes']:
            ctx.count('gridsearch note', note)
        if res['bad'] is not None and res2 is not None and res2['bad'] is not None:
            ctx.fail(st, sig, rp, observed=res2['bad'],
                     expected='scores = closed-form objective of the counts at e*rate; fitted model minimising it; same search as on '
                              'rates with weights',
                     oracle='scipy.stats.poisson.logpmf(y, e*rate), NumPy Poisson deviance of the counts, reported edof; independent '
                            'PoissonGAM.fit per grid point; GAM(distribution=poisson, link=log).gridsearch(X, y/e, weights=w*e, lam=grid)')
            continue
        if res['d32'] > 1e-8:
            ctx.disagree(st, sig, res['d32'], 0.0, 'gridsearch on (y/cast e, cast w * cast e) differs')


def run_dev_identity(ctx, pygam, lits):
    st = 'dev.identity'
    ctx.stream(st, 'PoissonDist.deviance(y/e, r, weights=e) vs PoissonDist.deviance(y, e*r) vs model e*poissonDev(y/e,r), poissonDev(y,e r) (1e-11)')
    from pygam.distributions import PoissonDist
    dist = PoissonDist()
    r = ctx.subrng(st)
    ncase = 400 if ctx.tier == 'quick' else 4000
    cases = []
    for i in range(ncase):
        y = float([0, 0, 1, 2, 3, 7, 30, 1000][r.randrange(8)] if i % 2 else r.randrange(0, 60))
        e = [float(r.randrange(1, 50)), r.randrange(1, 400) / 64.0, _f32(math.exp(r.uniform(-6, 6))), r.uniform(0.01, 30)][i % 4]
        rate = math.exp(r.uniform(-5, 5))
        cases.append((y, e, rate))
    for x in lits:
        cases.append((float(int(x)), _f32(x), 1.3))
        cases.append((2.0, _f32(x), float(x)))
    outs = ctx.driver.run(['C19 wdev %s %s %s' % (f2bits(e), f2bits(y), f2bits(rt)) for (y, e, rt) in cases])
    for (y, e, rt), line in zip(cases, outs):
        sig = dict(y=y, e=e, r=rt)
        ctx.case(st, sig, nontrivial=(e != 1.0))
        lhs = float(dist.deviance(y=np.array([y / e]), mu=np.array([rt]), weights=np.array([e]), scaled=False)[0])
        rhs = float(dist.deviance(y=np.array([y]), mu=np.array([e * rt]), scaled=False)[0])
        want = float(np_poisson_dev(np.array([y]), np.array([e * rt]))[0])
        scale = 2 * (abs(y * math.log(max(y, 1) / (e * rt))) + y + e * rt) + 1e-300
        if line == 'bad-op':
            ctx.disagree(st, sig, lhs, 'bad-op', '')
            continue
        m1, m2 = [bits2f(t) for t in line.split()]
        if abs(lhs - want) > 1e-9 * scale or abs(rhs - want) > 1e-9 * scale:
            ctx.fail(st, sig, dict(y=y, e=e, r=rt), observed=dict(weighted_rate_dev=lhs, count_dev=rhs), expected=want,
                     oracle='e * dev(y/e, r) == dev(y, e r) == 2 (y log(y/(e r)) - (y - e r)) in NumPy')
        elif max(abs(lhs - m1), abs(rhs - m2), abs(m1 - m2)) > 1e-11 * scale:
            ctx.disagree(st, sig, [lhs, rhs], [m1, m2], 'deviance values differ from the model')


def run_np_contracts(ctx, lits):
    st = 'np.cast32-round'
    ctx.stream(st, 'model castF32 / roundHalfEven vs numpy astype("f") / np.round on exact rationals (exact)')
    r = ctx.subrng(st)
    ncase = 300 if ctx.tier == 'quick' else 3000
    vals = [0.1, 0.2, 1 / 3, 16777217.0, 16777219.0, 1e-40, 1e-45, 3e38, 0.5, 1.5, 2.5, 1 + 2 ** -24, 1 + 3 * 2 ** -24,
            2 ** -126, 2 ** -127 * 1.0000001, 2 ** -149, 2 ** -150, 1.5 * 2 ** -149]
    vals += [float(x) for x in lits] + [float(x) * (1 + 1e-6) for x in lits]
    for i in range(ncase):
        k = i % 4
        if k == 0:
            vals.append(math.exp(r.uniform(-30, 30)) * r.choice([1, -1]))
        elif k == 1:
            vals.append(r.randrange(1, 1 << 26) / float(1 << r.randrange(0, 30)))
        elif k == 2:
            f = np.float32(math.exp(r.uniform(-10, 10)))
            nx = np.nextafter(f, np.float32(np.inf))
            vals.append((float(f) + float(nx)) / 2)          # exact tie between two float32 neighbours
        else:
            vals.append(r.uniform(-100, 100))
    ops = ['C19 cast32 %s' % q2s(f2q(v)) for v in vals]
    rvals = [r.randrange(-400, 400) / 2.0 for _ in range(ncase // 3)] + [r.uniform(-50, 50) for _ in range(ncase // 3)] + [0.5, 1.5, 2.5, -0.5, -1.5, 0.0]
    ops += ['C19 round %s' % q2s(f2q(v)) for v in rvals]
    outs = ctx.driver.run(ops)
    for v, line in zip(vals, outs[:len(vals)]):
        ctx.case(st, dict(op='cast32', v=v), nontrivial=True)
        want = f2q(float(np.array([v]).astype('f')[0]))
        if line == 'bad-op' or s2q(line) != want:
            ctx.disagree(st, dict(op='cast32', v=v), str(want), line, 'castF32 of the model differs from numpy astype("f")')
    for v, line in zip(rvals, outs[len(vals):]):
        ctx.case(st, dict(op='round', v=v), nontrivial=True)
        want = int(np.round(v))
        if line == 'bad-op' or int(line) != want:
            ctx.disagree(st, dict(op='round', v=v), want, line, 'roundHalfEven of the model differs from np.round')


def run_etw_exact(ctx, pygam, lits):
    """exact check of the conversion through the public API: a one-parameter model (intercept only would hide e),
    so we observe the conversion through predict: predict(X, e) / predict_mu(X) == castF32(e) for wild exposures"""
    st = 'predict.wild'
    ctx.stream(st, 'predict(X, exposure) for wild magnitudes / non-float32 exposures vs model rate*castF32(e) (4 ulp) and e*rate (1e-6)')
    from pygam import l
    r = ctx.subrng(st)
    rs = np.random.RandomState(r.getrandbits(32))
    n = 40
    X = rs.rand(n, 1)
    y = rs.poisson(np.exp(1 + X[:, 0])).astype(float)
    g = pygam.PoissonGAM(l(0), tol=1e-10).fit(X, y)
    ncase = 40 if ctx.tier == 'quick' else 300
    ops, cases = [], []
    for i in range(ncase):
        m = 8
        Xn = rs.rand(m, 1)
        kind = i % 4
        if kind == 0:
            e = np.exp(rs.uniform(np.log(1e-12), np.log(1e12), m))
        elif kind == 1:
            e = rs.randint(1, 1000, m) / 10.0
        elif kind == 2:
            e = np.array([float(np.float32(x)) for x in np.exp(rs.uniform(-8, 8, m))])
        else:
            pool = [p for p in lits if 0 < p < 1e6] + [1.0, 2.0]
            e = np.array([pool[rs.randint(len(pool))] * (1 + [0, 1e-6, -1e-6][rs.randint(3)]) for _ in range(m)])
        rate = np.asarray(g.predict_mu(Xn), dtype=float)
        ops.append('C19 predict %d | %s | %s' % (m, _vec_q(rate), _vec_q(e)))
        cases.append((i, Xn, e, rate))
    outs = ctx.driver.run(ops)
    for (i, Xn, e, rate), line in zip(cases, outs):
        sig = dict(i=i, kind=i % 4, e0=float(e[0]))
        ctx.case(st, sig, nontrivial=True)
        etype = [e, e.tolist(), e.astype('f') if _is_f32(e) else e][i % 3]
        got = np.asarray(g.predict(Xn, exposure=etype), dtype=float)
        want = e * rate
        d_or = _maxrel(got / np.maximum(want, 1e-300), np.ones_like(want))
        if line == 'bad-op':
            ctx.disagree(st, sig, 'predict', 'bad-op', '')
            continue
        model = _qvec_to_f(line)
        d_m = float(np.max(np.abs(got - model) / np.maximum(np.abs(model), 1e-300)))
        tol = 1e-12 if _is_f32(e) else 1e-6
        if d_or > 10 * tol:
            got = np.asarray(g.predict(Xn, exposure=etype), dtype=float)
            j = int(np.argmax(np.abs(got / want - 1)))
            if abs(got[j] / want[j] - 1) > 10 * tol:
                ctx.fail(st, sig, dict(seed=ctx.seed, stream=st, i=i, exposure=e.tolist()),
                         observed=dict(predict=float(got[j]), exposure=float(e[j]), predict_mu=float(rate[j])),
                         expected=float(want[j]), oracle='predict(X, exposure=e) == e * predict_mu(X)')
                continue
        if d_m > 4e-16 * 2:
            ctx.disagree(st, sig, got.tolist(), model.tolist(), 'rel %g' % d_m)


# --------------------------------------------------------------------------------------------
# containers of the exposure
# --------------------------------------------------------------------------------------------
# every container / shape in which PoissonGAM.fit accepts n exposures (it flattens them); a per-sample quantity given as a column
# of a table, a row, a list of lists … is the same n exposures, at every entry point that takes them
CONTAINERS = ['f64', 'f32', 'int', 'list', 'tuple', 'col', 'row', 'nested', 'f32col', 'intcol', 'listrow']


def exposure_containers(e):
    """{name: (container, flat)}: the exposures `e` in every container; `flat` = the float64 1-D vector of the values the
    container holds (computed with NumPy: float32 / integer containers hold rounded values)"""
    e = np.asarray(e, dtype=float)
    e32 = e.astype('f')
    ei = np.clip(np.round(e), 1, 2 ** 40).astype(np.int64)
    out = {
        'f64': (e.copy(), e),
        'f32': (e32, e32.astype(float)),
        'int': (ei, ei.astype(float)),
        'list': ([float(v) for v in e], e),
        'tuple': (tuple(float(v) for v in e), e),
        'col': (e[:, None].copy(), e),
        'row': (e[None, :].copy(), e),
        'nested': ([[float(v)] for v in e], e),
        'f32col': (e32[:, None].copy(), e32.astype(float)),
        'intcol': (ei[:, None].copy(), ei.astype(float)),
        'listrow': ([[float(v) for v in e]], e),
    }
    for k, (cont, flat) in out.items():
        assert np.array_equal(np.asarray(cont, dtype=float).ravel(), flat), k
    return out


def run_containers(ctx, pygam, lits, idxs=None):
    st = 'exposure.containers'
    ctx.stream(st, 'exposure given to predict / fit / loglikelihood / gridsearch as 1-D float64 / float32 / int arrays, lists, tuples, '
                   '(n,1) / (1,n) arrays, nested lists: predict has shape (n,) and equals NumPy flat(e) * predict_mu(X) (1e-12; 1e-6 when '
                   'e is not float32-representable); the other entry points give the same model / value as with the flat float64 vector (1e-9)')
    max_iter = 40 if ctx.tier == 'quick' else 100
    ncase = 5 if ctx.tier == 'quick' else 22
    kinds = ['nonrep', 'int', 'f32', 'dyadic', 'large', 'small', 'literal', 'twos']
    idxs = range(ncase) if idxs is None else idxs
    for i in idxs:
        c = make_case(ctx.seed, st, i, ctx.tier, lits, force=dict(ek=kinds[i % len(kinds)], n=[24, 40, 60][i % 3], ns=6))
        r = _subrng(ctx.seed, st, i, 'cont')
        rs = np.random.RandomState(r.getrandbits(32))
        n, n2 = c['n'], c['n2']
        e2 = c['e2'] if c['e2'] is not None else rs.randint(1, 60, n2) / 10.0
        yy = y_as(c)

        def new_poisson():
            terms, fi = build_terms(pygam, c['mix'], c['lam'], c['ns'])
            return pygam.PoissonGAM(terms, tol=1e-10, max_iter=max_iter, fit_intercept=fi)

        conts, conts2 = exposure_containers(c['e']), exposure_containers(e2)
        try:
            ref = {}
            for name in ('f64', 'f32', 'int'):
                ref[name] = new_poisson().fit(c['X'], yy, exposure=conts[name][1], weights=c['w'])
            g = ref['f64']
            rate = {'train': np.asarray(g.predict_mu(c['X']), dtype=float), 'new': np.asarray(g.predict_mu(c['X2']), dtype=float)}
        except Exception as ex:  # noqa
            ctx.count('containers: reference fit exception', type(ex).__name__)
            continue
        if not (np.all(np.isfinite(rate['train'])) and np.all(np.isfinite(rate['new']))):
            ctx.count('containers: non-finite rate skipped')
            continue
        grid = [0.1, 10.0]
        gs_names = [CONTAINERS[(3 + i) % len(CONTAINERS)], ['col', 'nested', 'row'][i % 3]]
        gs_ref = {}
        for name in CONTAINERS:
            refname = {'f32': 'f32', 'f32col': 'f32', 'int': 'int', 'intcol': 'int'}.get(name, 'f64')
            # ---- predict: e_i * rate_i, one value per sample
            for which, X, cs in (('train', c['X'], conts), ('new', c['X2'], conts2)):
                cont, flat = cs[name]
                sig = case_sig(c, container=name, op='predict', which=which)
                ctx.case(st, sig, nontrivial=name != 'f64')
                ctx.count('containers: predict', name)
                want = flat * rate[which]
                tol = 1e-12 if _is_f32(flat) else 1e-6

                def evp():
                    try:
                        got = np.asarray(g.predict(X, exposure=cont), dtype=float)
                    except Exception as ex:  # noqa
                        return dict(exception=type(ex).__name__, msg=str(ex)[:200])
                    if got.shape != want.shape:
                        return dict(shape=list(got.shape), exposure_shape=list(np.shape(cont)))
                    d = float(np.max(np.abs(got - want) / np.maximum(np.abs(want), 1e-300))) if want.size else 0.0
                    if not d <= 10 * tol:
                        j = int(np.argmax(np.abs(got - want) / np.maximum(np.abs(want), 1e-300)))
                        return dict(i=j, predict=float(got[j]), exposure=float(flat[j]), predict_mu=float(rate[which][j]), rel=d)
                    return None
                bad = evp() and evp()
                if bad:
                    ctx.fail(st, sig, case_replay(ctx.seed, c, container=name, op='predict', which=which), observed=bad,
                             expected=dict(shape=list(want.shape), e_times_rate=want[:5].tolist()),
                             oracle='predict(X, exposure=e) has one value per sample, numpy.ravel(e) * predict_mu(X), for every '
                                    'container of n exposures that fit accepts')
            # ---- loglikelihood: same value as with the flat float64 vector of the same values
            cont2, flat2 = conts2[name]
            sig = case_sig(c, container=name, op='loglik')
            ctx.case(st, sig, nontrivial=name != 'f64')

            def evl():
                try:
                    a = float(g.loglikelihood(c['X2'], c['y2'], exposure=cont2, weights=c['w2']))
                    b = float(g.loglikelihood(c['X2'], c['y2'], exposure=flat2, weights=c['w2']))
                except Exception as ex:  # noqa
                    return dict(exception=type(ex).__name__, msg=str(ex)[:200])
                return None if _maxrel([a], [b]) <= 1e-9 else dict(container=a, flat_float64=b)
            bad = evl() and evl()
            if bad:
                ctx.fail(st, sig, case_replay(ctx.seed, c, container=name, op='loglik'), observed=bad, expected='the same number',
                         oracle='loglikelihood(X, y, exposure=container) == loglikelihood(X, y, exposure=numpy.ravel(container) as float64)')
            # ---- fit: same model
            if name != 'f64':
                cont, flat = conts[name]
                sig = case_sig(c, container=name, op='fit')
                ctx.case(st, sig, nontrivial=True)

                def evf():
                    try:
                        b = new_poisson().fit(c['X'], yy, exposure=cont, weights=c['w'])
                        d = model_compare(ref[refname], b, c['X'])
                    except Exception as ex:  # noqa
                        return dict(exception=type(ex).__name__, msg=str(ex)[:200])
                    return None if d <= 1e-9 else dict(max_rel_diff=d)
                bad = evf() and evf()
                if bad:
                    ctx.fail(st, sig, case_replay(ctx.seed, c, container=name, op='fit'), observed=bad, expected='identical models',
                             oracle='fit(X, y, exposure=container) == fit(X, y, exposure=numpy.ravel(container) as float64)')
            # ---- gridsearch: same model (two containers per case)
            if name in gs_names:
                cont, flat = conts[name]
                sig = case_sig(c, container=name, op='gridsearch')
                ctx.case(st, sig, nontrivial=True)

                def evg():
                    if refname not in gs_ref:
                        try:
                            gs_ref[refname] = new_poisson().gridsearch(c['X'], yy, exposure=conts[refname][1], weights=c['w'], lam=grid,
                                                                       progress=False)
                            gs_ref[refname].coef_
                        except Exception as ex:  # noqa
                            gs_ref[refname] = None
                            ctx.count('containers: reference gridsearch exception', type(ex).__name__)
                    if gs_ref[refname] is None:
                        return None
                    try:
                        b = new_poisson().gridsearch(c['X'], yy, exposure=cont, weights=c['w'], lam=grid, progress=False)
                        d = model_compare(gs_ref[refname], b, c['X'])
                    except Exception as ex:  # noqa
                        return dict(exception=type(ex).__name__, msg=str(ex)[:200])
                    return None if d <= 1e-9 else dict(max_rel_diff=d)
                bad = evg() and evg()
                if bad:
                    ctx.fail(st, sig, case_replay(ctx.seed, c, container=name, op='gridsearch'), observed=bad, expected='identical models',
                             oracle='gridsearch(X, y, exposure=container) == gridsearch(X, y, exposure=numpy.ravel(container) as float64)')


# --------------------------------------------------------------------------------------------
def run(ctx):
    # pyGAM prints 'did not converge' on stdout; keep the check's stdout for the verdict lines
    with contextlib.redirect_stdout(io.StringIO()):
        _run(ctx)


def _run(ctx):
    pygam = common.import_pygam()
    lits = harvest_literals(pygam)
    ctx.extra['rule'] = ('cases = product-like sweep of exposure kind (none, ones, twos, integer, dyadic, float32 log-uniform, small, '
                         'large, AST-literal neighbours, non-float32) x weight kind (none, ones, integer, dyadic, float32, with zeros, '
                         'literal, non-float32) x unit of the exposure (1 with probability 0.4, else 2^-40…2^40, 1e-12…1e12, mixtures '
                         'of magnitudes within a data set, magnitudes around the constants of the code) x 11 term mixes x n x lam; '
                         'gridsearch: 4 objectives x return_scores; distinct = distinct (stream, configuration+index) signatures; '
                         'non-trivial = exposure not omitted / not all ones or in another unit (resp. weights for loglik)')
    ctx.extra['literals'] = lits
    ctx.assumptions.append('scipy.special.gammaln(k+1) = log k! is the normaliser of the Poisson log-pmf (parameter `norm` of the model)')
    ctx.assumptions.append("numpy astype('f') is IEEE round-to-nearest-even to binary32 and np.round is round-half-even "
                           "(validated against the model's exact castF32 / roundHalfEven each run)")
    ctx.assumptions.append('the null model of the pseudo R^2 is the constant rate mean(y/e) (documented in _estimate_r2: unweighted mean); '
                           'UBRE uses gamma = 1.4 and adds the scale back (documented defaults of _estimate_GCV_UBRE)')
    ctx.assumptions.append('the candidate loop of GAM.gridsearch is Search.loop (tied to the code by C10); here its consequence is checked '
                           'on the real search: a fitted model minimising the closed-form objective')
    ctx.partial.append('fit_eq_base_fit_on_rates / gridsearch_eq_base_gridsearch_on_rates are definitional in the model; '
                       'their content is carried by the streams fit.rates, gridsearch, fit.offset-glm')
    run_np_contracts(ctx, lits)
    run_dev_identity(ctx, pygam, lits)
    run_etw_exact(ctx, pygam, lits)
    run_containers(ctx, pygam, lits)
    run_fit(ctx, pygam, lits)
    run_noexposure(ctx, pygam, lits)
    run_offset_glm(ctx, pygam, lits)
    run_gridsearch(ctx, pygam, lits)


def replay(ctx, rp):
    """re-execute the single failing case of a replay file on the current tree"""
    with contextlib.redirect_stdout(io.StringIO()):
        _replay(ctx, rp)


def _replay(ctx, rp):
    pygam = common.import_pygam()
    lits = harvest_literals(pygam)
    case = rp.get('case', {})
    st = rp.get('stream') or case.get('stream')
    seed = case.get('seed', rp.get('seed', ctx.seed))
    ctx.seed = seed
    if st in ('fit.rates', 'fit.stats', 'predict', 'loglik') and 'idx' in case:
        c = make_case(seed, 'fit.rates', case['idx'], rp.get('tier', ctx.tier), lits, force=case.get('force'))
        run_fit(ctx, pygam, lits, cases=[c])
    elif st == 'fit.noexposure' and 'idx' in case:
        run_noexposure(ctx, pygam, lits, idxs=[case['idx']])
    elif st == 'fit.offset-glm' and 'idx' in case:
        run_offset_glm(ctx, pygam, lits, idxs=[case['idx']])
    elif st == 'gridsearch' and 'idx' in case:
        run_gridsearch(ctx, pygam, lits, idxs=[case['idx']])
    elif st == 'exposure.containers' and 'idx' in case:
        run_containers(ctx, pygam, lits, idxs=[case['idx']])
    else:
        _run(ctx)
