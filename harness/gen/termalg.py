"""
Term-algebra histories for C14 (term expressions, plural attributes, info / params round trips, GAM keyword hand-over).

A `History` executes instructions on the *real* pyGAM classes and records, for every instruction, the token
encoding understood by the Lean driver (`lean/PyGam/Drv/C14.lean`, grammar in its header) and the canonical
observation (`ok`, `ok <value>`, `err:<ExceptionClass>`).  Execution stops at the first exception, like the model
machine.  Objects have value semantics: whenever a register is used as an argument it is deep-copied, so that
aliasing (property C15) does not leak into these streams.

Generators (`gen_expr`, `gen_plural`, `gen_params`, `gen_gam`, `gen_roundtrip`, `gen_malformed`) build random histories
from a `random.Random`.
"""
from __future__ import annotations

import copy
import pickle
import traceback

import numpy as np

from harness import common

PLURAL = ['feature', 'dtype', 'fit_linear', 'fit_splines', 'lam', 'n_splines', 'spline_order', 'constraints',
          'penalties', 'basis', 'edge_knots_']


# ---------------------------------------------------------------------------------------------------------
# canonical encoding (must agree with showSc / showTree / showDict of the driver)
# ---------------------------------------------------------------------------------------------------------
def enc_tree(v):
    if v is None:
        return 'N'
    if isinstance(v, (bool, np.bool_)):
        return 'T' if v else 'F'
    if isinstance(v, (int, np.integer)):
        return 'i%d' % int(v)
    if isinstance(v, (float, np.floating)):
        return 'q' + common.q2s(common.f2q(float(v)))
    if isinstance(v, str):
        assert ' ' not in v and v != ''
        return 's:' + v
    if isinstance(v, (list, tuple, np.ndarray)):
        return '[ ' + ''.join(enc_tree(x) + ' ' for x in v) + ']'
    return '<obj>'


def enc_entries(pairs):
    return '{ ' + ' , '.join('%s=%s' % (k, v) for k, v in sorted(pairs)) + ' }'


def enc_info(info):
    """info dictionary of a term or a term list"""
    pairs = []
    for k, v in info.items():
        if k == 'terms':
            pairs.append((k, '< ' + ' '.join(enc_info(i) for i in v) + ' >'))
        else:
            pairs.append((k, enc_tree(v)))
    return enc_entries(pairs)


def enc_params(d):
    pairs = []
    for k, v in d.items():
        if k in ('_terms', 'terms'):
            pairs.append((k, '<obj>'))
        else:
            pairs.append((k, enc_tree(v)))
    return enc_entries(pairs)


def flatten(v):
    if isinstance(v, (list, tuple, np.ndarray)):
        out = []
        for x in v:
            out += flatten(x)
        return out
    return [v]


def kw_tokens(kw):
    toks = [str(len(kw))]
    for k, v in kw.items():
        toks += [k] + enc_tree(v).split()
    return toks


# ---------------------------------------------------------------------------------------------------------
# histories
# ---------------------------------------------------------------------------------------------------------
class History:
    def __init__(self, seed_key=''):
        from pygam import terms as T
        self.T = T
        self.env = []
        self.instr = []      # token lists
        self.obs = []        # observations of the real code
        self.meta = []       # per instruction: dict for the oracles
        self.dead = False
        self.skip = None     # reason why the history must not be compared (e.g. fit failed outside the hand-over)
        self.seed_key = seed_key
        self.data = None

    # -- plumbing ---------------------------------------------------------------------------------
    def line(self):
        return 'C14 run ' + ' ; '.join(' '.join(t) for t in self.instr)

    def _do(self, toks, thunk, meta=None):
        """thunk() -> (object to push | None, object to store back | None, observation)"""
        if self.dead:
            return None
        self.instr.append([str(t) for t in toks])
        m = dict(meta or {})
        m['op'] = toks[0]
        try:
            obs = thunk()
            m['ok'] = True
        except Exception as e:  # noqa
            obs = 'err:' + type(e).__name__
            m['ok'] = False
            m['exc'] = type(e).__name__
            m['tb'] = [f.name for f in traceback.extract_tb(e.__traceback__)]
            self.dead = True
        self.obs.append(obs)
        self.meta.append(m)
        return m

    def use(self, arg):
        """python value of an argument token (`r<i>` -> deep copy of the register, `f<sc>` handled by caller)"""
        return copy.deepcopy(self.env[arg])

    # -- instructions ------------------------------------------------------------------------------
    def atom(self, kind, kw, via_function=False):
        T = self.T
        cls = {'I': T.Intercept, 'L': T.LinearTerm, 'S': T.SplineTerm, 'F': T.FactorTerm}[kind]
        fn = {'L': T.l, 'S': T.s, 'F': T.f}.get(kind)

        def thunk():
            if via_function and fn is not None and 'feature' in kw:
                obj = fn(**copy.deepcopy(kw))
            else:
                obj = cls(**copy.deepcopy(kw))
            self.env.append(obj)
            return 'ok'
        m = self._do(['atom', kind] + kw_tokens(kw), thunk, dict(kind=kind, kw=kw))
        return len(self.env) - 1 if m and m['ok'] else None

    def te(self, args, by=None, verbose=False, kw=None):
        """args: ('r', i) | ('f', feature)"""
        kw = kw or {}
        toks = ['te', str(len(args))]
        for a in args:
            toks.append('r%d' % a[1] if a[0] == 'r' else 'f' + enc_tree(a[1]))
        toks += enc_tree(by).split() + enc_tree(verbose).split() + kw_tokens(kw)

        def thunk():
            pa = [self.use(a[1]) if a[0] == 'r' else a[1] for a in args]
            obj = self.T.te(*pa, by=by, verbose=verbose, **copy.deepcopy(kw))
            self.env.append(obj)
            return 'ok'
        m = self._do(toks, thunk, dict(args=args, by=by, kw=kw))
        return len(self.env) - 1 if m and m['ok'] else None

    def _arg(self, a):
        if a[0] == 'r':
            return self.use(a[1])
        if a[0] == 'f':
            return a[1]
        return 3.5     # junk: neither Term nor TermList

    @staticmethod
    def _argtok(a):
        return 'r%d' % a[1] if a[0] == 'r' else ('f' + enc_tree(a[1]) if a[0] == 'f' else 'x')

    def tl(self, args, verbose=False):
        def thunk():
            obj = self.T.TermList(*[self._arg(a) for a in args], verbose=verbose)
            self.env.append(obj)
            return 'ok'
        m = self._do(['tl', 'T' if verbose else 'F', str(len(args))] + [self._argtok(a) for a in args], thunk, dict(args=args))
        return len(self.env) - 1 if m and m['ok'] else None

    def add(self, a, b):
        def thunk():
            obj = self._arg(a) + self._arg(b)
            self.env.append(obj)
            return 'ok'
        m = self._do(['add', self._argtok(a), self._argtok(b)], thunk, dict(args=[a, b]))
        return len(self.env) - 1 if m and m['ok'] else None

    def gam(self, terms, fit_intercept=True, verbose=False, kw=None):
        """terms: ('r', i) | 'auto' | None"""
        from pygam import LinearGAM
        kw = kw or {}
        ttok = 'auto' if terms == 'auto' else ('none' if terms is None else 'r%d' % terms[1])

        def thunk():
            t = terms if terms in ('auto', None) else self.use(terms[1])
            obj = LinearGAM(terms=t, fit_intercept=fit_intercept, verbose=verbose, **copy.deepcopy(kw))
            self.env.append(obj)
            return 'ok'
        m = self._do(['gam', ttok, 'T' if fit_intercept else 'F', 'T' if verbose else 'F'] + kw_tokens(kw), thunk, dict(kw=kw))
        return len(self.env) - 1 if m and m['ok'] else None

    def get(self, r, name):
        def thunk():
            return 'ok ' + enc_tree(getattr(self.env[r], name))
        return self._do(['get', 'r%d' % r, name], thunk, dict(r=r, name=name))

    def set(self, r, name, value):
        obj = self.env[r]
        before = None
        try:
            before = copy.deepcopy(getattr(obj, name))
        except Exception:  # noqa
            pass

        def thunk():
            setattr(obj, name, copy.deepcopy(value))
            return 'ok'
        m = self._do(['set', 'r%d' % r, name] + enc_tree(value).split(), thunk, dict(r=r, name=name, value=value, before=before))
        if m is not None:
            try:
                m['after'] = copy.deepcopy(getattr(obj, name))
            except Exception as e:  # noqa
                m['after_exc'] = type(e).__name__
        return m

    def getp(self, r, deep=False):
        def thunk():
            obj = self.env[r]
            d = obj.get_params(deep=deep)
            if hasattr(obj, 'fit') and hasattr(obj, 'predict'):
                d = {k: v for k, v in d.items() if k in PLURAL}
                return 'ok ' + enc_entries([(k, enc_tree(v)) for k, v in d.items()])
            return 'ok ' + enc_params(d)
        return self._do(['getp', 'r%d' % r, 'T' if deep else 'F'], thunk, dict(r=r, deep=deep))

    def setp(self, r, deep, force, kw):
        obj = self.env[r]
        try:
            before = enc_params(obj.get_params(deep=False))
        except Exception:  # noqa
            before = None

        def thunk():
            res = obj.set_params(deep=deep, force=force, **copy.deepcopy(kw))
            assert res is obj
            return 'ok'
        m = self._do(['setp', 'r%d' % r, 'T' if deep else 'F', 'T' if force else 'F'] + kw_tokens(kw), thunk,
                     dict(r=r, deep=deep, force=force, kw=kw, before=before))
        if m is not None and m['ok']:
            m['after'] = {k: enc_tree(v) for k, v in obj.get_params(deep=False).items() if k not in ('terms', '_terms')}
        return m

    def info(self, r):
        def thunk():
            return 'ok ' + enc_info(self.env[r].info)
        return self._do(['info', 'r%d' % r], thunk, dict(r=r))

    def rebuild(self, r):
        T = self.T

        def thunk():
            obj = self.env[r]
            if isinstance(obj, T.TermList):
                new = T.TermList.build_from_info(obj.info)
            else:
                new = T.Term.build_from_info(obj.info)
            self.env[r] = new
            return 'ok'
        return self._do(['rebuild', 'r%d' % r], thunk, dict(r=r))

    def copy(self, r, how='deepcopy'):
        def thunk():
            obj = self.env[r]
            self.env[r] = copy.deepcopy(obj) if how == 'deepcopy' else pickle.loads(pickle.dumps(obj))
            return 'ok'
        return self._do(['copy', 'r%d' % r], thunk, dict(r=r, how=how))

    def make_data(self, rng, n=36, ncat=4):
        """4 columns: numeric dyadic in [0,1], numeric in [-3.5, 0.5], integer codes 0..ncat-1, by-variable"""
        X = np.zeros((n, 4))
        p0 = [rng.randint(1, 1023) / 1024.0 for _ in range(n)]
        p0[0], p0[1] = 0.0, 1.0
        X[:, 0] = p0
        p1 = [rng.randint(1, 1023) / 1024.0 for _ in range(n)]
        p1[0], p1[1] = 0.0, 1.0
        X[:, 1] = -3.5 + 4.0 * np.array(p1)
        codes = [rng.randint(0, ncat - 1) for _ in range(n)]
        for c in range(ncat):
            codes[c] = c
        X[:, 2] = codes
        X[:, 3] = [rng.choice([-2.0, -0.5, 0.25, 1.0, 2.5]) for _ in range(n)]
        y = np.array([rng.gauss(0.0, 1.0) for _ in range(n)]) + X[:, 0]
        self.data = (X, y)
        return X, y

    def _data_tokens(self):
        X, _ = self.data
        toks = [str(X.shape[1])]
        for j in range(X.shape[1]):
            col = X[:, j]
            toks += [common.q2s(common.f2q(col.min())), common.q2s(common.f2q(col.max())), str(len(np.unique(col)))]
        return toks

    def fit(self, r):
        X, y = self.data

        def thunk():
            import contextlib
            import io
            with contextlib.redirect_stdout(io.StringIO()):      # "did not converge" is printed, not warned
                self.env[r].fit(X, y)
            return 'ok'
        m = self._do(['fit', 'r%d' % r] + self._data_tokens(), thunk, dict(r=r))
        if m is not None and not m['ok'] and '_validate_data_dep_params' not in m['tb']:
            self.skip = 'fit raised outside the hand-over: ' + m['exc']
        return m

    def compile(self, r):
        X, _ = self.data

        def thunk():
            self.env[r].compile(X)
            return 'ok'
        return self._do(['compile', 'r%d' % r] + self._data_tokens(), thunk, dict(r=r))


# ---------------------------------------------------------------------------------------------------------
# random settings
# ---------------------------------------------------------------------------------------------------------
LAMS = [0, 0.6, 1, 1.0, 2.5, 10, 100.0, 0.015625]
PENS = ['auto', 'derivative', 'l2', None, 'none', 'periodic']
CONS = [None, 'convex', 'concave', 'monotonic_inc', 'monotonic_dec', 'none']


def rand_lam(rng, invalid=0.0):
    if rng.random() < invalid:
        return rng.choice([-1, -0.5, None, 'abc'])
    v = rng.choice(LAMS)
    if rng.random() < 0.1:
        v = np.float64(v) if isinstance(v, float) else np.int64(v)
    return v


def rand_spline_kw(rng, invalid=0.08, feats=(0, 1), cat_feats=(2,), by_feats=(3,), full=False):
    kw = {}
    feat = rng.choice(list(feats))
    kw['feature'] = np.int64(feat) if rng.random() < 0.1 else feat
    p = 0.75 if full else 0.4
    order = 3
    if rng.random() < p:
        order = rng.choice([0, 1, 2, 3, 4])
        kw['spline_order'] = order
    if rng.random() < p or order >= 20:
        kw['n_splines'] = rng.choice([order + 1, order + 2, 6 + order, 9 + order, 12])
        if rng.random() < invalid:
            kw['n_splines'] = rng.choice([order, 0, -1, order - 1 if order else 0])
    npen = 1
    if rng.random() < p:
        npen = rng.choice([1, 1, 2, 3])
        pens = [rng.choice(PENS) for _ in range(npen)]
        if rng.random() < invalid:
            pens[rng.randrange(npen)] = rng.choice(['foo', 3])
        kw['penalties'] = pens if (npen > 1 or rng.random() < 0.5) else pens[0]
    if rng.random() < p or npen > 1:
        if rng.random() < 0.5:
            kw['lam'] = rand_lam(rng, invalid)
        else:
            n = npen if rng.random() > invalid else npen + 1
            kw['lam'] = [rand_lam(rng, invalid / 2) for _ in range(n)]
    if rng.random() < p:
        ncon = rng.choice([1, 1, 2])
        cons = [rng.choice(CONS) for _ in range(ncon)]
        if rng.random() < invalid:
            cons[0] = 'bar'
        kw['constraints'] = cons if (ncon > 1 or rng.random() < 0.5) else cons[0]
    if rng.random() < 0.06:
        # empty lists are valid: a term without penalty / without constraint slots (arity 0)
        if rng.random() < 0.6:
            kw['penalties'] = []
            kw.pop('lam', None)
            if rng.random() < 0.3:
                kw['lam'] = []
        else:
            kw['constraints'] = []
    if rng.random() < p / 2:
        kw['dtype'] = rng.choice(['numerical', 'numerical', 'categorical'] + (['foo'] if rng.random() < invalid else []))
    if rng.random() < p / 2:
        kw['basis'] = rng.choice(['ps', 'cp'] + (['xx'] if rng.random() < invalid else []))
    if rng.random() < p / 2:
        kw['by'] = rng.choice(list(by_feats) + [None] + ([-1] if rng.random() < invalid else []))
    if rng.random() < p / 2:
        lo = rng.choice([-1.0, 0.0, -4.0, 0.25])
        kw['edge_knots'] = [lo, lo + rng.choice([1.0, 2.5, 8.0])]
    if rng.random() < 0.15:
        kw['verbose'] = rng.choice([True, False])
    if rng.random() < invalid / 2:
        kw['foo'] = 1
    return kw


def rand_linear_kw(rng, invalid=0.08, feats=(0, 1, 3)):
    kw = {'feature': rng.choice(list(feats))}
    if rng.random() < 0.5:
        npen = rng.choice([1, 1, 2])
        pens = [rng.choice(['auto', 'l2', None, 'none']) for _ in range(npen)]
        kw['penalties'] = pens if (npen > 1 or rng.random() < 0.5) else pens[0]
        if npen > 1 or rng.random() < 0.5:
            kw['lam'] = [rand_lam(rng, invalid / 2) for _ in range(npen)] if rng.random() < 0.6 else rand_lam(rng, invalid)
    elif rng.random() < 0.5:
        kw['lam'] = rand_lam(rng, invalid)
    if rng.random() < 0.1:
        kw['verbose'] = rng.choice([True, False])
    if rng.random() < invalid / 2:
        kw['constraints'] = None      # not accepted by LinearTerm
    return kw


def rand_factor_kw(rng, invalid=0.08, feats=(2,)):
    kw = {'feature': rng.choice(list(feats))}
    if rng.random() < 0.5:
        kw['lam'] = rand_lam(rng, invalid) if rng.random() < 0.7 else [rand_lam(rng)]
    if rng.random() < 0.4:
        kw['penalties'] = rng.choice(['auto', 'l2', None, ['l2'], 'none'])
    if rng.random() < 0.5:
        kw['coding'] = rng.choice(['one-hot', 'dummy'] + (['effect'] if rng.random() < invalid else []))
    if rng.random() < 0.1:
        kw['verbose'] = rng.choice([True, False])
    return kw


def rand_atom(h, rng, invalid=0.08, kinds='SSSLFI', full=False):
    k = rng.choice(kinds)
    if k == 'S':
        kw = rand_spline_kw(rng, invalid, full=full)
    elif k == 'L':
        kw = rand_linear_kw(rng, invalid)
    elif k == 'F':
        kw = rand_factor_kw(rng, invalid)
    else:
        kw = {}
        if rng.random() < 0.2:
            kw['verbose'] = rng.choice([True, False])
        if rng.random() < invalid:
            kw['feature'] = 0
    return h.atom(k, kw, via_function=rng.random() < 0.5), (k, kw)


def rand_te(h, rng, invalid=0.08, regs=None):
    """a tensor term from fresh atoms and/or feature indices with keyword settings"""
    m = rng.choice([2, 2, 3])
    if rng.random() < invalid:
        m = rng.choice([0, 1])
    args = []
    n_feat = 0
    for i in range(m):
        if rng.random() < 0.55:
            r, _ = rand_atom(h, rng, invalid=0.0, kinds='SSSSLF' + ('I' if rng.random() < 0.1 else ''))
            if r is None:
                return None
            args.append(('r', r))
        else:
            args.append(('f', rng.choice([0, 1, 3])))
            n_feat += 1
    if regs and rng.random() < invalid and m >= 2:
        args[rng.randrange(m)] = ('r', rng.choice(regs))        # possibly a tensor: rejected
    kw = {}
    if m >= 2 and rng.random() < 0.7:
        def per(gen):
            if rng.random() < 0.5:
                return gen()
            n = m if rng.random() > invalid else m + 1
            return [gen() for _ in range(n)]
        if rng.random() < 0.5:
            kw['n_splines'] = per(lambda: rng.choice([4, 5, 6, 8]))
        if rng.random() < 0.3:
            kw['spline_order'] = per(lambda: rng.choice([0, 1, 2, 3]))
        if rng.random() < 0.4:
            kw['lam'] = per(lambda: rand_lam(rng))
        if rng.random() < 0.25:
            if rng.random() < 0.5:
                kw['penalties'] = per(lambda: rng.choice(PENS))
            else:
                kw['penalties'] = [[rng.choice(PENS), rng.choice(PENS)] for _ in range(m)]
                kw['lam'] = [[rand_lam(rng), rand_lam(rng)] for _ in range(m)]
        if rng.random() < 0.25:
            kw['constraints'] = per(lambda: rng.choice(CONS))
        if rng.random() < 0.15:
            kw['basis'] = per(lambda: rng.choice(['ps', 'cp']))
        if rng.random() < 0.15:
            kw['dtype'] = per(lambda: rng.choice(['numerical', 'categorical']))
        if rng.random() < 0.1:
            kw['edge_knots'] = [[0.0, 1.0 + i] for i in range(m)]
        if rng.random() < invalid / 2:
            kw['foo'] = 1
    by = rng.choice([None, None, 3, 2, np.int64(3)]) if rng.random() > invalid / 2 else -1
    verbose = rng.random() < 0.1
    return h.te(args, by=by, verbose=verbose, kw=kw)


def small_te(h, rng):
    """a small tensor term for histories in which the model is fitted: two marginals, few splines"""
    if rng.random() < 0.5:
        return h.te([('f', 0), ('f', 1)], by=rng.choice([None, 3]), kw={'n_splines': rng.choice([4, [4, 5]])})
    m1 = h.atom('S', {'feature': 0, 'n_splines': 5})
    m2 = h.atom(rng.choice('SL'), {'feature': 1})
    return None if (m1 is None or m2 is None) else h.te([('r', m1), ('r', m2)])


def value_for(rng, name, size, invalid=0.1, small=False):
    """a value to assign to the plural attribute `name` of an object whose flattened size is `size`"""
    def one(bad=False):
        if name == 'lam':
            return rand_lam(rng, 1.0 if bad else 0.0)
        if name == 'n_splines':
            return rng.choice([0, 1, 2, -3]) if bad else rng.choice([5, 6, 8] if small else [3, 4, 5, 6, 8, 11, 20, 25])
        if name == 'spline_order':
            return rng.choice([-1, 30]) if bad else rng.choice([0, 1, 2, 3] if small else [0, 1, 2, 3, 3, 4, 5, 6])
        if name == 'penalties':
            return rng.choice(['foo', 7]) if bad else rng.choice(PENS)
        if name == 'constraints':
            return rng.choice(['bar', 1.5]) if bad else rng.choice(CONS)
        if name == 'basis':
            return 'xx' if bad else rng.choice(['ps', 'cp'])
        if name == 'dtype':
            return 'foo' if bad else rng.choice(['numerical', 'categorical'])
        if name == 'feature':
            return rng.choice([0, 1, 2, 3])
        if name in ('fit_linear', 'fit_splines'):
            return rng.choice([True, False])
        if name == 'edge_knots_':
            return rng.choice([-1.0, 0.0, 0.5, 2.0, 7.5])
        return 1
    r = rng.random()
    bad = rng.random() < invalid
    if r < 0.3:
        return one(bad), 'scalar'
    if r < 0.8:
        vals = [one() for _ in range(size)]
        if bad and size:
            vals[rng.randrange(size)] = one(True)
        if rng.random() < 0.25 and size >= 2:       # nested: is flattened by the setter
            k = rng.randint(1, size - 1)
            return [vals[:k], vals[k:]], 'nested'
        return vals, 'list'
    n = rng.choice([size + 1, max(size - 1, 0), size + 3, 0, 2 * size])
    if n == size:
        n = size + 1
    return [one() for _ in range(n)], 'wrong-length'


# ---------------------------------------------------------------------------------------------------------
# history generators
# ---------------------------------------------------------------------------------------------------------
def _pool(h, rng, n_specs, invalid=0.0, with_te=True):
    """specs with deliberate duplicates and near-duplicates; returns list of (builder, description)"""
    specs = []
    for _ in range(n_specs):
        r = rng.random()
        if with_te and r < 0.2:
            seed = rng.randrange(1 << 30)
            specs.append(('te', seed))
        else:
            k = rng.choice('SSSLFI')
            if k == 'S':
                kw = rand_spline_kw(rng, invalid)
            elif k == 'L':
                kw = rand_linear_kw(rng, invalid)
            elif k == 'F':
                kw = rand_factor_kw(rng, invalid)
            else:
                kw = {'verbose': True} if rng.random() < 0.15 else {}
            specs.append(('atom', k, kw))
    # near duplicates of atoms: int vs float lam, scalar vs list lam, verbose flipped, numpy scalar
    for s in list(specs):
        if s[0] == 'atom' and s[1] != 'I' and rng.random() < 0.5:
            kw = dict(s[2])
            how = rng.choice(['float', 'list', 'verbose', 'np', 'same'])
            lam = kw.get('lam', 0.6)
            if how == 'float' and isinstance(lam, (int, float)) and not isinstance(lam, bool):
                kw['lam'] = float(lam) if isinstance(lam, int) else (int(lam) if float(lam).is_integer() else lam)
            elif how == 'list' and not isinstance(lam, list):
                kw['lam'] = [lam]
            elif how == 'verbose':
                kw['verbose'] = not kw.get('verbose', False)
            elif how == 'np':
                kw['feature'] = np.int64(kw['feature'])
            specs.append(('atom', s[1], kw))
    return specs


def _instantiate(h, rng, spec):
    import random
    if spec[0] == 'te':
        return rand_te(h, random.Random(spec[1]), invalid=0.0)
    return h.atom(spec[1], spec[2], via_function=rng.random() < 0.5)


def gen_expr(rng, n_leaves=None):
    """random nested sums / TermList(...) over atoms drawn (with repetition) from a small pool; ends with `info`.
    Returns (history, leaves) where leaves are the registers of the atoms in left-to-right order."""
    h = History()
    specs = _pool(h, rng, rng.randint(2, 4))
    n = n_leaves or rng.randint(2, 7)
    leaves = []
    for _ in range(n):
        r = _instantiate(h, rng, rng.choice(specs))
        if r is None:
            return h, leaves
        leaves.append(r)

    def build(lo, hi):
        """combine leaves[lo:hi] (hi - lo >= 1) in a random association; returns an arg"""
        if hi - lo == 1:
            if rng.random() < 0.15:
                r = h.tl([('r', leaves[lo])], verbose=rng.random() < 0.2)
                return None if r is None else ('r', r)
            return ('r', leaves[lo])
        if rng.random() < 0.6:
            k = rng.randint(lo + 1, hi - 1)
            a = build(lo, k)
            b = build(k, hi) if a is not None else None
            if a is None or b is None:
                return None
            r = h.add(a, b)
        else:
            # n-ary TermList over a random partition
            cuts = sorted(set([lo, hi] + [rng.randint(lo + 1, hi - 1) for _ in range(rng.randint(1, 3))]))
            parts = []
            for u, v in zip(cuts[:-1], cuts[1:]):
                p = build(u, v)
                if p is None:
                    return None
                parts.append(p)
            r = h.tl(parts, verbose=rng.random() < 0.15)
        return None if r is None else ('r', r)
    top = build(0, n)
    if top is not None:
        if h.env and not isinstance(h.env[top[1]], h.T.TermList):
            top = ('r', h.tl([top]))
        h.info(top[1])
        if rng.random() < 0.5:
            name = rng.choice(['lam', 'feature', 'n_splines', 'penalties', 'dtype'])
            h.get(top[1], name)
    return h, leaves


def _some_list(h, rng, invalid=0.0, max_terms=4):
    """a term list of 1..max_terms terms (atoms and tensors, maybe an intercept); returns its register"""
    args = []
    for _ in range(rng.randint(1, max_terms)):
        if rng.random() < 0.25:
            r = rand_te(h, rng, invalid=invalid)
        else:
            r, _ = rand_atom(h, rng, invalid=invalid, kinds='SSSSLFI')
        if r is None:
            return None
        args.append(('r', r))
    return h.tl(args, verbose=rng.random() < 0.1)


def gen_plural(rng, n_ops=None, target=None):
    """plural gets / sets on a term list or a tensor term"""
    h = History()
    target = target or rng.choice(['list', 'list', 'list', 'tensor'])
    r = _some_list(h, rng) if target == 'list' else rand_te(h, rng, invalid=0.0)
    if r is None:
        return h
    compiled = False
    for _ in range(n_ops or rng.randint(2, 7)):
        if h.dead:
            break
        names = ['lam'] * 4 + ['n_splines', 'spline_order', 'penalties', 'penalties', 'constraints', 'constraints',
                                'basis', 'dtype', 'feature', 'fit_linear', 'fit_splines']
        if compiled:
            names += ['edge_knots_'] * 3
        name = rng.choice(names)
        u = rng.random()
        if u < 0.3:
            h.get(r, name)
        elif u < 0.8:
            try:
                size = len(flatten(getattr(h.env[r], name)))
            except Exception:  # noqa
                size = 1
            v, _ = value_for(rng, name, size)
            h.set(r, name, v)
            if not h.dead:
                h.get(r, name)
        elif u < 0.86 and not compiled and target == 'list':
            h.make_data(rng)
            h.compile(r)
            compiled = not h.dead
        elif u < 0.93:
            h.info(r)
        else:
            h.copy(r, rng.choice(['deepcopy', 'pickle']))
    if not h.dead:
        h.info(r)
    return h


UNKNOWN_NAMES = ['foo', 'zzz', '_foo', 'foo_', '_lam', 'lam_', 'istensor', 'info', 'Lam', 'coef_']


def gen_params(rng):
    """get_params / set_params on atoms, tensor terms and term lists"""
    h = History()
    kind = rng.choice(['atom', 'atom', 'atom', 'tensor', 'list'])
    if kind == 'atom':
        r, _ = rand_atom(h, rng, invalid=0.0, full=rng.random() < 0.5)
    elif kind == 'tensor':
        r = rand_te(h, rng, invalid=0.0)
    else:
        r = _some_list(h, rng, max_terms=3)
    if r is None:
        return h
    for _ in range(rng.randint(2, 6)):
        if h.dead:
            break
        u = rng.random()
        if u < 0.3:
            h.getp(r, deep=rng.random() < 0.35)
        elif u < 0.85:
            obj = h.env[r]
            kw = {}
            for _ in range(rng.randint(1, 3)):
                v = rng.random()
                if v < 0.5:
                    known = list(obj.get_params().keys()) + ['lam', 'n_splines', 'penalties']
                    known = [k for k in known if k not in ('terms',)]
                    name = rng.choice(known)
                    if name in PLURAL and kind != 'atom':
                        try:
                            size = len(flatten(getattr(obj, name)))
                        except Exception:  # noqa
                            size = 1
                        val, _ = value_for(rng, name, size, invalid=0.05)
                    elif name in PLURAL:
                        val = value_for(rng, name, 1, invalid=0.3)[0]
                    elif name == 'verbose':
                        val = rng.choice([True, False])
                    elif name == 'by':
                        val = rng.choice([None, 0, 3])
                    elif name == 'coding':
                        val = rng.choice(['one-hot', 'dummy'])
                    elif name == 'edge_knots':
                        val = rng.choice([None, [0.0, 2.0]])
                    else:
                        val = rng.choice([1, 'a', None])
                elif v < 0.6:
                    name = rng.choice(['_name', '_line_width', '_exclude', 'fit_linear', 'fit_splines', 'dtype', 'edge_knots_'])
                    val = {'_name': 'renamed', '_line_width': 80, '_exclude': ['lam'], 'fit_linear': False, 'fit_splines': True,
                           'dtype': 'numerical', 'edge_knots_': [0.0, 1.0]}[name]
                else:
                    name = rng.choice(UNKNOWN_NAMES)
                    val = rng.choice([1, 'a', [1, 2], None, 2.5])
                kw[name] = val
            h.setp(r, deep=rng.random() < 0.3, force=rng.random() < 0.3, kw=kw)
            if not h.dead:
                h.getp(r, deep=False)
        elif u < 0.93:
            h.info(r)
        else:
            h.rebuild(r)
    if not h.dead:
        h.getp(r, deep=True)
        h.info(r)
    return h


def gen_gam(rng):
    """GAM keyword hand-over: plural keywords at construction, sets / gets before and after fit"""
    h = History()
    h.make_data(rng)
    mode = rng.choice(['list', 'list', 'list', 'auto', 'none', 'term'])
    if mode in ('list', 'term'):
        args = []
        kinds = 'SSSS' + ('LF' if rng.random() < 0.4 else '')
        for _ in range(1 if mode == 'term' else rng.randint(1, 3)):
            if rng.random() < 0.15:
                r = small_te(h, rng)
            else:
                k = rng.choice(kinds)
                kw = {'S': lambda: _fit_spline_kw(rng), 'L': lambda: {'feature': rng.choice([0, 1, 3])},
                      'F': lambda: {'feature': 2, 'coding': rng.choice(['one-hot', 'dummy'])}}[k]()
                r = h.atom(k, kw)
            if r is None:
                return h
            args.append(('r', r))
        if rng.random() < 0.2:
            r, _ = rand_atom(h, rng, invalid=0.0, kinds='I')
            args.append(('r', r))
        tr = args[0] if mode == 'term' else ('r', h.tl(args))
    else:
        tr = 'auto' if mode == 'auto' else None
    nterm = 4 if mode == 'auto' else (0 if mode == 'none' else len([a for a in (args if mode != 'term' else args[:1])]))
    kw = {}
    if rng.random() < 0.65:
        for _ in range(rng.randint(1, 2)):
            name = rng.choice(['lam', 'lam', 'lam', 'n_splines', 'spline_order', 'penalties', 'constraints', 'basis', 'dtype'])
            if rng.random() < 0.5 or nterm == 0:
                val = value_for(rng, name, 1, invalid=0.03, small=True)[0]
                if isinstance(val, list):
                    val = val[0] if val else 1
            else:
                n = nterm if rng.random() < 0.8 else nterm + 1
                val = [value_for(rng, name, 1, invalid=0.0, small=True)[0] for _ in range(n)]
                val = [v[0] if isinstance(v, list) and v else (v if not isinstance(v, list) else 1) for v in val]
            kw[name] = val
        if rng.random() < 0.05:
            kw['foo'] = 1
    g = h.gam(tr, fit_intercept=rng.random() < 0.8, verbose=False, kw=kw)
    if g is None:
        return h
    fitted = False
    for _ in range(rng.randint(2, 6)):
        if h.dead:
            break
        u = rng.random()
        name = rng.choice(['lam'] * 4 + ['n_splines', 'spline_order', 'penalties', 'constraints', 'basis', 'feature', 'dtype'] + (['edge_knots_'] if fitted else []))
        if u < 0.3:
            h.get(g, name)
        elif u < 0.6:
            try:
                size = len(flatten(getattr(h.env[g], name)))
            except Exception:  # noqa
                size = 1
            v, _ = value_for(rng, name, size, invalid=0.05, small=True)
            h.set(g, name, v)
            if not h.dead:
                h.get(g, name)
        elif u < 0.9:
            h.fit(g)
            fitted = fitted or not h.dead
            if not h.dead:
                h.get(g, rng.choice(['lam', 'n_splines', 'feature', 'edge_knots_', name]))
        else:
            h.getp(g)
    if not h.dead:
        if not fitted and rng.random() < 0.7:
            h.fit(g)
        if not h.dead:
            for name in ['lam', 'n_splines', 'penalties']:
                h.get(g, name)
            h.getp(g)
    return h


def _fit_spline_kw(rng):
    kw = {'feature': rng.choice([0, 1])}
    if rng.random() < 0.5:
        kw['n_splines'] = rng.choice([5, 6, 8, 10])
    if rng.random() < 0.3:
        kw['spline_order'] = rng.choice([1, 2, 3])
    if rng.random() < 0.4:
        kw['lam'] = rng.choice(LAMS)
    if rng.random() < 0.2:
        kw['penalties'] = ['derivative', 'l2']
        kw['lam'] = [rng.choice(LAMS), rng.choice(LAMS)]
    if rng.random() < 0.2:
        kw['constraints'] = rng.choice(CONS)
    if rng.random() < 0.15:
        kw['by'] = 3
    if rng.random() < 0.15:
        kw['edge_knots'] = [-4.0, 4.0]
    return kw


def gen_roundtrip(rng):
    """info -> build_from_info, deep copy, pickle, before and after compile; structure compared through info / plural reads"""
    h = History()
    h.make_data(rng)
    kind = rng.choice(['atom', 'tensor', 'list', 'list'])
    if kind == 'atom':
        r, _ = rand_atom(h, rng, invalid=0.0, full=True)
    elif kind == 'tensor':
        r = rand_te(h, rng, invalid=0.0)
    else:
        r = _some_list(h, rng, max_terms=4)
    if r is None:
        return h
    steps = ['info', rng.choice(['rebuild', 'copy', 'pickle']), 'info']
    if rng.random() < 0.7:
        steps += ['compile', 'info', rng.choice(['rebuild', 'copy', 'pickle']), 'info', 'getek']
    if rng.random() < 0.4:
        steps += ['set', 'info', 'rebuild', 'info']
    for s in steps:
        if h.dead:
            break
        if s == 'info':
            h.info(r)
        elif s == 'rebuild':
            h.rebuild(r)
        elif s == 'copy':
            h.copy(r, 'deepcopy')
        elif s == 'pickle':
            h.copy(r, 'pickle')
        elif s == 'compile':
            h.compile(r)
        elif s == 'getek':
            if kind != 'atom':
                h.get(r, 'edge_knots_')
                h.get(r, 'n_splines')
        elif s == 'set' and kind != 'atom':
            name = rng.choice(['lam', 'n_splines', 'penalties'])
            try:
                size = len(flatten(getattr(h.env[r], name)))
            except Exception:  # noqa
                size = 1
            h.set(r, name, value_for(rng, name, size, invalid=0.0)[0])
    return h


def gen_malformed(rng):
    """invalid constructor arguments, junk operands, bad info dictionaries: exception classes must agree"""
    h = History()
    u = rng.random()
    if u < 0.12:
        # boundary of n_splines > spline_order
        k = rng.choice([0, 1, 2, 3, 4])
        kw = {'feature': 0, 'spline_order': k, 'n_splines': k + rng.choice([-1, 0, 0, 1])}
        if rng.random() < 0.3:
            del kw['spline_order']
            kw['n_splines'] = rng.choice([2, 3, 4])
        elif rng.random() < 0.4:
            # list-valued sizes (what set_params can leave behind): Python compares two lists lexicographically and
            # refuses list > int
            form = rng.choice(['ll', 'll', 'li', 'il', 'l2'])
            a, b = rng.choice([3, 8, 30]), rng.choice([3, 8, 30])
            if form == 'll':
                kw['n_splines'], kw['spline_order'] = [a], [b]
            elif form == 'li':
                kw['n_splines'], kw['spline_order'] = [a], b
            elif form == 'il':
                kw['n_splines'], kw['spline_order'] = a, [b]
            else:
                kw['n_splines'], kw['spline_order'] = [a, rng.choice([1, 9])], [b, rng.choice([1, 9])][:rng.choice([1, 2])]
        h.atom('S', kw)
        if not h.dead:
            h.info(0)
    elif u < 0.35:
        rand_atom(h, rng, invalid=0.6, full=True)
    elif u < 0.55:
        rand_te(h, rng, invalid=0.5)
    elif u < 0.75:
        r, _ = rand_atom(h, rng, invalid=0.0)
        if r is not None:
            a, b = ('r', r), rng.choice([('x',), ('f', 0)])
            if rng.random() < 0.5:
                a, b = b, a
            if rng.random() < 0.5:
                h.add(a, b)
            else:
                h.tl([a, b])
    elif u < 0.9:
        r = _some_list(h, rng, invalid=0.0, max_terms=3)
        if r is not None:
            name = rng.choice(['lam', 'n_splines', 'penalties', 'constraints', 'spline_order', 'basis', 'dtype'])
            try:
                size = len(flatten(getattr(h.env[r], name)))
            except Exception:  # noqa
                size = 1
            h.set(r, name, value_for(rng, name, size, invalid=1.0)[0])
    else:
        r = rand_te(h, rng, invalid=0.0)
        if r is not None:
            g = h.te([('r', r), ('f', 0)])
    return h
