"""
Random term programs (shared by C02, C04, C05, C14, C16).

`gen_program(rng, ...)` returns a `Program`: the real pyGAM `TermList` (compiled on a training matrix), the training
and query matrices, and the token encoding of the compiled terms for the Lean driver (grammar in
lean/PyGam/Drv/TermParse.lean).  The encoding is read back from the *public attributes of the real objects*
(feature, n_splines, spline_order, basis, by, coding, lam, penalties, constraints, edge_knots_), so the
model sees what the implementation says it is.
"""
from __future__ import annotations

from dataclasses import dataclass, field
from fractions import Fraction

import numpy as np

from harness import common

PEN_NAMES = {None: 'none', 'auto': 'auto', 'derivative': 'derivative', 'l2': 'l2', 'none': 'none', 'periodic': 'periodic'}
CON_NAMES = {None: 'none', 'none': 'none', 'convex': 'convex', 'concave': 'concave',
             'monotonic_inc': 'monotonic_inc', 'monotonic_dec': 'monotonic_dec'}


def q(x):
    return common.q2s(common.f2q(float(x)))


def _lamspec(term):
    lam = list(np.atleast_1d(term.lam))
    pens = list(term.penalties)
    assert len(lam) == len(pens)
    toks = [str(len(lam))]
    for p, l in zip(pens, lam):
        toks += [PEN_NAMES[p], q(l)]
    return toks


def con_name(c):
    """constraint kind of a constraint given as a registry string or as a callable from pygam.penalties"""
    if callable(c):
        return CON_NAMES[c.__name__]
    return CON_NAMES[c]


def _conspec(term):
    cons = list(term.constraints)
    return [str(len(cons))] + [con_name(c) for c in cons]


def encode_marg(term):
    name = term._name
    if name == 'linear_term':
        ek = getattr(term, 'edge_knots_', [0.0, 0.0])
        return ['L', str(term.feature), q(ek[0]), q(ek[1])] + _lamspec(term)
    if name == 'factor_term':
        ek = term.edge_knots_
        return ['F', str(term.feature), str(int(term.n_splines)), '1' if term.coding == 'dummy' else '0', q(ek[0]), q(ek[1])] + _lamspec(term)
    if name == 'spline_term':
        ek = term.edge_knots_
        return ['S', str(term.feature), str(int(term.n_splines)), str(int(term.spline_order)),
                str((1 if term.basis == 'cp' else 0) + (2 if getattr(term, 'dtype', 'numerical') == 'categorical' else 0)),
                str(-1 if term.by is None else int(term.by)), q(ek[0]), q(ek[1])] + _lamspec(term) + _conspec(term)
    raise ValueError('cannot encode ' + name)


def encode_term(term):
    if term.isintercept:
        return ['I']
    if term.istensor:
        toks = ['T', str(len(term._terms)), str(-1 if term.by is None else int(term.by))]
        for t in term._terms:
            toks += encode_marg(t)
        return toks
    return encode_marg(term)


def encode_terms(termlist):
    toks = [str(len(termlist))]
    for t in termlist:
        toks += encode_term(t)
    return toks


def uses_periodic_penalty(term):
    """does the term (or a marginal) use the 'periodic' penalty (explicitly or via 'auto' on a cp basis)?"""
    if term.isintercept:
        return False
    if term.istensor:
        return any(uses_periodic_penalty(t) for t in term._terms)
    for p in term.penalties:
        if p == 'periodic':
            return True
        if p == 'auto' and term._name == 'spline_term' and term.basis == 'cp' and getattr(term, 'dtype', 'numerical') == 'numerical':
            return True
    return False


@dataclass
class Program:
    terms: object                 # compiled TermList
    X: np.ndarray                 # training matrix
    Xq: np.ndarray                # query matrix (may extrapolate)
    tokens: list
    desc: dict = field(default_factory=dict)


def _feature_kinds(rng, m):
    """per feature: 'num' (continuous), 'cat' (consecutive integer codes), 'by' (any sign)"""
    kinds = []
    for j in range(m):
        kinds.append(rng.choice(['num', 'num', 'cat', 'by']))
    kinds[0] = 'num'
    if m > 1:
        kinds[1] = 'cat'
    return kinds


def gen_data(rng, n, kinds, one_level_prob=0.0, huge_prob=0.0):
    X = np.zeros((n, len(kinds)))
    info = []
    for j, k in enumerate(kinds):
        if k == 'num':
            lo = rng.choice([0.0, -3.5, 100.0, -1e3])
            span = rng.choice([1.0, 4.0, 0.125, 1000.0])
            if huge_prob and rng.random() < huge_prob:
                # unstandardised features of huge magnitude (a Unix timestamp, a population count): still exact in float64
                lo = rng.choice([1.7e9, -2.5e6, 0.0])
                span = rng.choice([1000.0, 1e6, 86400.0 * 365])
            # dyadic positions (exactly representable), both ends present
            pos = [rng.randint(0, 1024) / 1024.0 for _ in range(n)]
            pos[0], pos[1] = 0.0, 1.0
            X[:, j] = lo + span * np.array(pos)
            info.append(('num', lo, span))
        elif k == 'cat':
            ncat = 1 if rng.random() < one_level_prob else rng.randint(2, 5)
            base = rng.choice([0, 1, -2, 7])
            codes = [rng.randint(0, ncat - 1) for _ in range(n)]
            for c in range(ncat):
                codes[c % n] = c     # every level present
            X[:, j] = base + np.array(codes)
            info.append(('cat', base, ncat))
        else:
            X[:, j] = np.array([rng.choice([-2.0, -0.5, 0.0, 1.0, 1.0, 2.5, rng.randint(-8, 8) / 4.0]) for _ in range(n)])
            info.append(('by',))
    return X, info


def _safe_positions(rng, nrow, n_splines, order, cyclic, extrap):
    """relative positions u that stay away from discontinuities of the basis"""
    N = n_splines + (order if cyclic else 0)
    cells = N - order
    us = []
    for _ in range(nrow):
        if order == 0 or cyclic:
            k = rng.randint(0, cells - 1)
            u = (k + rng.choice([0.5, 0.25, 0.75])) / cells
            if cyclic and extrap and rng.random() < 0.4:
                u += rng.choice([-2, -1, 1, 3])
        else:
            u = rng.randint(0, 256) / 256.0
            if extrap and rng.random() < 0.4:
                u = rng.choice([-0.5, -2.25, 1.5, 3.75, -0.0625, 1.03125])
        us.append(u)
    return us


def gen_program(rng, pygam_mod, n_rows=12, n_query=8, allow_constraints=True, allow_periodic_penalty=True,
                max_terms=4, tensor_prob=0.35, extrap=True, one_level_prob=0.0, huge_prob=0.0):
    from pygam.terms import SplineTerm, LinearTerm, FactorTerm, TensorTerm, Intercept, TermList
    m = rng.randint(3, 5)
    kinds = _feature_kinds(rng, m)
    X, info = gen_data(rng, n_rows, kinds, one_level_prob, huge_prob)
    num_feats = [j for j, k in enumerate(kinds) if k == 'num']
    cat_feats = [j for j, k in enumerate(kinds) if k == 'cat']
    by_feats = [j for j, k in enumerate(kinds) if k == 'by'] or num_feats

    spline_cfg = {}   # feature -> list of (n_splines, order, cyclic) used, to place query points safely
    cat_spline_feats = set()   # features of spline terms declared dtype='categorical'

    def rand_lam():
        return rng.choice([0.0, 0.6, 1.0, 2.5, 10.0, 0.015625, 100.0])

    def mk_spline(as_marginal=False, cap=None):
        feat = rng.choice(num_feats)
        order = rng.choice([0, 1, 2, 3, 3, 4])
        if cap is not None:
            order = min(order, max(cap - 1, 0))
        n_spl = rng.randint(order + 1, order + 6) if as_marginal else rng.choice([order + 1, order + 2, 6, 9, 12, 20])
        if cap is not None:
            n_spl = min(n_spl, cap)
        n_spl = max(n_spl, order + 1)
        basis = rng.choice(['ps', 'ps', 'cp'])
        npen = rng.choice([1, 1, 2, 3])
        pens = []
        for _ in range(npen):
            choices = ['auto', 'derivative', 'l2', None, 'none'] + (['periodic'] if allow_periodic_penalty else [])
            pens.append(rng.choice(choices))
        if not allow_periodic_penalty and basis == 'cp':
            pens = [p if p != 'auto' else 'derivative' for p in pens]
        lam = [rand_lam() for _ in range(npen)] if rng.random() < 0.7 else rand_lam()
        cons = None
        if allow_constraints and rng.random() < 0.5:
            ncon = rng.choice([1, 1, 2])
            cons = [rng.choice(['monotonic_inc', 'monotonic_dec', 'convex', 'concave', None, 'none']) for _ in range(ncon)]
            if rng.random() < 0.3:
                # the same constraints given as the callables of pygam.penalties instead of their registry names
                import pygam.penalties as _pen
                cons = [getattr(_pen, c) if (isinstance(c, str) and c != 'none') else c for c in cons]
            if ncon == 1 and rng.random() < 0.5:
                cons = cons[0]
        by = rng.choice(by_feats) if rng.random() < 0.3 else None
        ek = None
        if rng.random() < 0.25:
            lo, hi = X[:, feat].min(), X[:, feat].max()
            ek = [float(lo - 0.25 * (hi - lo)), float(hi + 0.5 * (hi - lo))]
            if rng.random() < 0.35:
                ek = ek[::-1]       # a pair of edge knots is a set: the order in which the user gives it is immaterial
        # dtype='categorical' on a spline term: 'auto' resolves to the ridge penalty and the data knots are widened by 0.5
        # (continuous bases only: the safe positions of order-0 / cyclic bases are relative to the data range)
        # A categorical feature is domain-checked at query time (values outside the training range are rejected, C11), so
        # such a feature is never also a by-variable and its query values stay inside the training range
        dtype = 'categorical' if (order >= 1 and basis == 'ps' and feat not in by_feats and rng.random() < 0.15) else 'numerical'
        if dtype == 'categorical':
            cat_spline_feats.add(feat)
        t = SplineTerm(feat, n_splines=n_spl, spline_order=order, lam=lam, penalties=pens if npen > 1 else pens[0],
                       constraints=cons, basis=basis, by=by, edge_knots=ek, dtype=dtype)
        spline_cfg.setdefault(feat, []).append((n_spl, order, basis == 'cp', ek))
        return t

    def mk_linear():
        return LinearTerm(rng.choice(num_feats + by_feats), lam=rand_lam(), penalties=rng.choice(['auto', 'l2', None, 'none', 'derivative']) if False else rng.choice(['auto', 'l2', None, 'none']))

    def mk_factor():
        if not cat_feats:
            return mk_linear()
        # penalties of a factor term: the default ridge, none, or (non-default) difference penalties over the levels, singly
        # or as a list with one lam each — the penalty is over the term's coefficients (one fewer under dummy coding)
        if rng.random() < 0.3:
            pens = [rng.choice(['auto', 'l2', 'derivative', None]) for _ in range(2)]
            lam = [rand_lam(), rand_lam()]
        else:
            pens = rng.choice(['auto', 'l2', None, 'derivative'])
            lam = rand_lam()
        return FactorTerm(rng.choice(cat_feats), lam=lam, penalties=pens, coding=rng.choice(['one-hot', 'dummy']))

    def mk_tensor():
        k = rng.choice([2, 2, 3, 4])
        cap = {2: 12, 3: 5, 4: 3}[k]     # keep the number of tensor coefficients <= ~150
        margs = []
        for _ in range(k):
            r = rng.random()
            if r < 0.6:
                margs.append(mk_spline(as_marginal=True, cap=cap))
            elif r < 0.8:
                margs.append(mk_factor())
            else:
                margs.append(mk_linear())
        by = rng.choice(by_feats) if rng.random() < 0.3 else None
        return TensorTerm(*margs, by=by)

    nterms = rng.randint(1, max_terms)
    terms = []
    for _ in range(nterms):
        r = rng.random()
        if r < tensor_prob:
            terms.append(mk_tensor())
        elif r < tensor_prob + 0.35:
            terms.append(mk_spline())
        elif r < tensor_prob + 0.5:
            terms.append(mk_linear())
        else:
            terms.append(mk_factor())
    # a feature declared categorical by one spline term is domain-checked for every query of the model: it must not be the
    # feature (or by-variable) of any other term, whose grids and knots may reach beyond the categories seen in training
    def _leaves_of(ts):
        for t in ts:
            for s_ in (t._terms if t.istensor else [t]):
                yield t, s_
    usage = {}
    for t, s_ in _leaves_of(terms):
        usage[int(s_.feature)] = usage.get(int(s_.feature), 0) + 1
        if getattr(s_, 'by', None) is not None:
            usage[int(s_.by)] = usage.get(int(s_.by), 0) + 2
    for t in terms:
        if t.istensor and t.by is not None:
            usage[int(t.by)] = usage.get(int(t.by), 0) + 2
    for t, s_ in _leaves_of(terms):
        if s_._name == 'spline_term' and getattr(s_, 'dtype', 'numerical') == 'categorical' and usage.get(int(s_.feature), 0) > 1:
            s_.dtype = 'numerical'
            cat_spline_feats.discard(int(s_.feature))
    with_intercept = rng.random() < 0.7
    tl = TermList(*terms)
    if with_intercept:
        pos = rng.randint(0, len(tl))
        tl = TermList(*(list(tl)[:pos] + [Intercept()] + list(tl)[pos:])) if rng.random() < 0.3 else tl + Intercept()

    # training data: make spline features safe w.r.t. every configuration that uses them
    for feat, cfgs in spline_cfg.items():
        need_safe = [c for c in cfgs if c[1] == 0 or c[2]]
        if need_safe:
            # a common refinement: positions at odd multiples of 1/(2*L) where L = lcm of the cell counts is overkill;
            # instead use positions k/997 + tiny offset: never on a uniform knot with <= 64 cells
            lo, hi = X[:, feat].min(), X[:, feat].max()
            pos = [(rng.randint(1, 995)) / 997.0 for _ in range(n_rows)]
            pos[0], pos[1] = 0.0, 1.0
            X[:, feat] = lo + (hi - lo) * np.array(pos)
    tl.compile(X)

    # query matrix
    Xq = X[[rng.randrange(n_rows) for _ in range(n_query)]].copy()
    for feat, cfgs in spline_cfg.items():
        lo, hi = X[:, feat].min(), X[:, feat].max()
        need_safe = [c for c in cfgs if c[1] == 0 or c[2]]
        for i in range(n_query):
            if need_safe:
                u = rng.randint(1, 995) / 997.0
                if extrap and all(c[2] for c in cfgs) and rng.random() < 0.3:
                    u += rng.choice([-1, 1, 2])
            else:
                u = rng.randint(0, 256) / 256.0
                if extrap and feat not in cat_spline_feats and rng.random() < 0.35:
                    u = rng.choice([-0.5, -2.25, 1.5, 3.75, -0.0625, 1.03125])
            Xq[i, feat] = lo + (hi - lo) * u
    for j, k in enumerate(kinds):
        if k == 'by':
            Xq[:, j] = np.array([rng.choice([-3.0, -1.0, 0.0, 0.5, 1.0, 2.0]) for _ in range(n_query)])
    desc = dict(n_terms=len(tl), kinds=[t._name for t in tl], m_features=m,
                tensor_sizes=[len(t._terms) for t in tl if t.istensor])
    return Program(tl, X, Xq, encode_terms(tl), desc)


def knot_safe(program):
    """True when no query value of an order-0 / cyclic spline feature sits within 1e-6 (relative) of a knot of that term"""
    tl, Xq = program.terms, program.Xq

    def ok_term(t):
        if t.isintercept:
            return True
        if t.istensor:
            return all(ok_term(s) for s in t._terms)
        if t._name != 'spline_term':
            return True
        order, n, cyc = int(t.spline_order), int(t.n_splines), t.basis == 'cp'
        if order >= 1 and not cyc:
            return True
        lo, hi = float(min(t.edge_knots_)), float(max(t.edge_knots_))
        if hi == lo:
            return False
        cells = (n + (order if cyc else 0)) - order
        for x in Xq[:, t.feature]:
            u = (common.f2q(x) - common.f2q(lo)) / (common.f2q(hi) - common.f2q(lo))
            pos = u * cells
            if abs(pos - round(pos)) < Fraction(1, 10 ** 6):
                if not (u == 0 or u == 1):
                    return False
            if cyc and abs(u - round(u)) < Fraction(1, 10 ** 6) and not (u == 0 or u == 1):
                return False
        return True
    return all(ok_term(t) for t in tl)
