"""generators of term programs (filled in with the Terms model)"""
