"""
Random fitting problems (shared by C01, C08, C09, C12, C13): model class / distribution x link, term program,
data with n relative to the number of coefficients m, responses in the link domain, sample weights.

A case is a plain dict (picklable) so that fits can run in a process pool:
  dict(seed, cls, dist, link, levels, expectile, scale, n_mode, weights_mode, lam_scale, constraints, max_terms)
`build(case)` regenerates everything deterministically from the case inside the worker.
"""
from __future__ import annotations

import contextlib
import io
import random
import warnings

import numpy as np

from harness import common
from harness.gen import termgen

# (class name, distribution, link) — generic GAM for non-default pairs
PAIRS = [
    ('LinearGAM', 'normal', 'identity'),
    ('LogisticGAM', 'binomial', 'logit'),
    ('PoissonGAM', 'poisson', 'log'),
    ('GammaGAM', 'gamma', 'log'),
    ('InvGaussGAM', 'inv_gauss', 'log'),
    ('ExpectileGAM', 'normal', 'identity'),
    ('GAM', 'normal', 'identity'),
    ('GAM', 'normal', 'log'),
    ('GAM', 'binomial', 'logit'),       # with levels > 1
    ('GAM', 'gamma', 'inverse'),
    ('GAM', 'poisson', 'log'),
    ('GAM', 'inv_gauss', 'inv_squared'),
    ('GAM', 'gamma', 'identity'),
]


def gen_cases(rng, count, tier='quick'):
    cases = []
    for i in range(count):
        cls, dist, link = PAIRS[i % len(PAIRS)]
        levels = rng.choice([2, 5]) if (cls == 'GAM' and dist == 'binomial') else 1
        cases.append(dict(
            seed=rng.randrange(10 ** 9), cls=cls, dist=dist, link=link, levels=levels,
            expectile=(rng.choice([0.1, 0.5, 0.75, 0.95]), [0.1, 0.95, 0.5, 0.75][(i // len(PAIRS)) % 4])[1] if cls == 'ExpectileGAM' else None,
            scale=rng.choice([None, None, 0.3, 2.5]) if cls in ('LinearGAM', 'GammaGAM', 'InvGaussGAM', 'ExpectileGAM') else None,
            n_mode=rng.choice(['m-1', 'm', 'm+1', 'small', 'mid', 'mid', 'large'] if tier == 'quick' else ['1', '2', 'm-1', 'm', 'm+1', 'small', 'mid', 'large', 'xlarge']),
            weights_mode=rng.choice(['none', 'none', 'pos', 'int', 'zeros']),
            lam_mode=rng.choice(['default', 'default', 'zero', 'big', 'mixed']),
            constraints=(rng.random() < 0.25),
            max_terms=rng.choice([1, 2, 3]),
            # units of the response (continuous families only): the optimum is equivariant, the code must not carry an absolute scale
            # (deterministic cycle per pair, so that every run has each pair in small and large units; the identity-link
            # models whose PIRLS needs several iterations — expectiles, gamma / identity — are mostly in small units, where
            # coefficients are far below 1 and any absolute tolerance in the loop shows)
            y_scale=(rng.choice([1.0, 1.0, 1.0, 1e-4, 1e-8, 1e4]),
                     ([1e-4, 1e-8, 1.0, 1e-8, 1e4, 1e-4] if (cls == 'ExpectileGAM' or (dist, link) == ('gamma', 'identity')) else [1.0, 1e-4, 1.0, 1e-8, 1e4, 1.0])[(i // len(PAIRS)) % 6])[1]
            if dist in ('normal', 'gamma') else (rng.choice([1.0]), 1.0)[1],
            # what happened to the model object before the fit that is judged (used by the streams that look at histories)
            history=rng.choice(['none', 'none', 'none', 'refit-lam', 'refit-lam', 'refit-data', 'refit-pen']),
            # used only by streams that opt in (build(..., opt_in=True)): features of huge magnitude; exposure of a PoissonGAM
            feature_units=(rng.choice(['plain', 'plain', 'plain', 'huge']), 'huge' if (i % 3 == 1) else 'plain')[1],
            exposure_mode=rng.choice(['none', 'pos', 'pos']) if cls == 'PoissonGAM' else 'none',
        ))
    # PoissonGAM: every run has exposure together with sample weights, exposure alone, weights alone, and neither
    for i, c in enumerate(cases):
        if c['cls'] == 'PoissonGAM':
            k = (i // len(PAIRS)) % 4
            c['exposure_mode'] = ['pos', 'pos', 'none', 'pos'][k]
            c['weights_mode'] = ['pos', 'none', 'int', 'int'][k]
    return cases


def _response(rs, dist, link, levels, eta):
    """responses in the support of `dist` and in the domain of `link`, roughly following eta (link scale)"""
    n = len(eta)
    eta = np.clip(eta, -2.5, 2.5)
    if dist == 'normal':
        if link == 'identity':
            return eta + 0.3 * rs.normal(size=n)
        if link == 'log':
            return np.exp(0.5 * eta) * np.exp(0.1 * rs.normal(size=n)) + 0.05
        return 1.0 / (1.5 + 0.3 * eta) + 0.0   # inverse etc.: positive
    if dist == 'binomial':
        p = 1 / (1 + np.exp(-eta))
        y = rs.binomial(levels, p).astype(float)
        if n >= 2:
            y[0], y[1] = 0.0, float(levels)       # boundary values present
        return y
    if dist == 'poisson':
        y = rs.poisson(np.exp(0.6 * eta + 0.5)).astype(float)
        if n >= 1:
            y[0] = 0.0
        return y
    if dist == 'gamma':
        mu = np.exp(0.4 * eta) if link != 'inverse' else 1.0 / (1.2 + 0.3 * eta)
        return mu * rs.gamma(8.0, 1 / 8.0, size=n) + 1e-3
    if dist == 'inv_gauss':
        mu = np.exp(0.3 * eta) if link != 'inv_squared' else 1.0 / np.sqrt(1.5 + 0.4 * eta)
        return rs.wald(mu, 20.0) + 1e-3
    raise ValueError(dist)


def build(case, pygam=None, opt_in=False):
    """-> dict(gam (unfitted), X, y, weights, exposure, desc)  (raises ValueError when the generator rejects the program);
    opt_in: also generate the ingredients only some streams can judge (huge feature magnitudes, PoissonGAM exposure)"""
    if pygam is None:
        pygam = common.import_pygam()
    rng = random.Random(case['seed'])
    rs = np.random.default_rng(case['seed'])
    huge = 0.5 if (opt_in and case.get('feature_units') == 'huge') else 0.0
    # huge raw features enter one at a time (a linear or spline term on a timestamp): no tensor products of them — columns
    # of magnitude 1e18 are beyond what any solve without equilibration can be held to
    if opt_in and case.get('forced') == 'huge-linear':
        # a fixed design, in every run: a linear term on a raw timestamp (1.7e9 + seconds) next to a spline and an
        # intercept — badly scaled, perfectly well-posed
        from pygam.terms import SplineTerm, LinearTerm, Intercept, TermList
        Xh = np.zeros((260, 3))
        Xh[:, 0] = 1.7e9 + 1000.0 * np.array([rng.randint(0, 1024) / 1024.0 for _ in range(260)])
        Xh[:, 1] = np.array([rng.randint(0, 1024) / 1024.0 for _ in range(260)])
        Xh[0, :2], Xh[1, :2] = (1.7e9, 0.0), (1.7e9 + 1000.0, 1.0)
        tlh = TermList(LinearTerm(0, lam=rng.choice([0.0, 0.6])), SplineTerm(1, n_splines=rng.choice([6, 10]), lam=rng.choice([0.01, 0.6])), Intercept())
        tlh.compile(Xh)
        pr = termgen.Program(tlh, Xh, Xh[:12].copy(), termgen.encode_terms(tlh), dict(n_terms=3, kinds=['linear_term', 'spline_term', 'intercept_term'], m_features=3, tensor_sizes=[]))
    else:
        pr = termgen.gen_program(rng, pygam, n_rows=260, n_query=12, allow_constraints=case['constraints'],
                                 allow_periodic_penalty=True, max_terms=case['max_terms'], tensor_prob=(0.0 if (huge and not case.get('huge_products')) else 0.25), huge_prob=huge)
    tl = pr.terms
    m = int(tl.n_coefs)
    if m > 110:
        raise ValueError('program too large for the fit streams (m > 110)')
    has_factor = any((t._name == 'factor_term') or (t.istensor and any(s._name == 'factor_term' for s in t._terms)) for t in tl if not t.isintercept)
    mode = case['n_mode']
    n = {'1': 1, '2': 2, 'm-1': max(m - 1, 1), 'm': m, 'm+1': m + 1, 'small': 12, 'mid': 60, 'large': 200, 'xlarge': 260}[mode]
    n = min(n, 260)
    if has_factor:
        n = max(n, 6)
    X = pr.X[:n].copy()
    # lam modes
    if case['lam_mode'] != 'default':
        for t in tl:
            if t.isintercept:
                continue
            subs = t._terms if t.istensor else [t]
            for s_ in subs:
                k = len(np.atleast_1d(s_.lam))
                if case['lam_mode'] == 'zero':
                    s_.lam = [0.0] * k
                elif case['lam_mode'] == 'big':
                    s_.lam = [1e4] * k
                else:
                    s_.lam = [rng.choice([0.0, 1e-3, 0.6, 30.0]) for _ in range(k)]
    # a smooth signal on the link scale
    eta = np.zeros(n)
    for j in range(X.shape[1]):
        col = X[:, j]
        span = (col.max() - col.min()) or 1.0
        eta += np.sin(3 * (col - col.min()) / span + j) * (1.0 if j == 0 else 0.4)
    y = _response(rs, case['dist'], case['link'], case['levels'], eta)
    if case.get('y_scale', 1.0) != 1.0 and case['dist'] in ('normal', 'gamma'):
        y = y * case['y_scale']
    wm = case['weights_mode']
    if wm == 'none':
        w = None
    elif wm == 'pos':
        w = rs.choice([0.25, 0.5, 1.0, 1.5, 2.0, 3.0], size=n)      # float32-representable
    elif wm == 'int':
        w = rs.integers(1, 4, size=n).astype(float)
    else:
        w = rs.choice([0.0, 1.0, 2.0], size=n, p=[0.2, 0.5, 0.3])
        if w.sum() == 0:
            w[0] = 1.0
    exposure = None
    if opt_in and case.get('exposure_mode', 'none') != 'none' and case['cls'] == 'PoissonGAM':
        # counts observed over different exposures: y ~ Poisson(rate * e); the model is fitted with fit(X, y, exposure=e, weights=w)
        exposure = rs.choice([0.5, 1.0, 2.0, 3.0, 7.5], size=n)
        y = rs.poisson(np.exp(0.6 * np.clip(eta, -2.5, 2.5) + 0.5) * exposure).astype(float)
    cls = getattr(pygam, case['cls'])
    kw = dict(tol=1e-10, max_iter=150)
    fit_intercept = any(t.isintercept for t in tl)
    kw['fit_intercept'] = fit_intercept
    if case['cls'] == 'GAM':
        d = case['dist']
        if d == 'binomial':
            from pygam.distributions import BinomialDist
            kw['distribution'] = BinomialDist(levels=case['levels'])
        else:
            kw['distribution'] = d
        kw['link'] = case['link']
    if case['cls'] == 'ExpectileGAM':
        kw['expectile'] = case['expectile']
    if case.get('scale') is not None and case['cls'] in ('LinearGAM', 'GammaGAM', 'InvGaussGAM', 'ExpectileGAM'):
        kw['scale'] = case['scale']
    gam = cls(tl, **kw)
    return dict(gam=gam, X=X, y=y, weights=w, exposure=exposure, Xq=pr.Xq, m=m, n=n, desc=dict(pr.desc, n=n, m=m))


def fit_quiet(gam, X, y, weights=None, **kw):
    """fit, capturing stdout; returns (status, stdout)  status in {'ok', 'ValueError', other exception class name}"""
    buf = io.StringIO()
    with warnings.catch_warnings():
        warnings.simplefilter('ignore')
        try:
            with contextlib.redirect_stdout(buf):
                if weights is None:
                    gam.fit(X, y, **kw)
                else:
                    gam.fit(X, y, weights=weights, **kw)
        except ValueError as e:
            return 'ValueError', str(e)[:200]
        except Exception as e:  # noqa
            return type(e).__name__, str(e)[:300]
    return 'ok', buf.getvalue()


# -------------------------------------------------------------------------------------------------------
# independent NumPy formulas (oracle side; deliberately not pyGAM's)
# -------------------------------------------------------------------------------------------------------
def np_link(link, levels, mu):
    if link == 'identity':
        return mu
    if link == 'log':
        return np.log(mu)
    if link == 'logit':
        return np.log(mu) - np.log(levels - mu)
    if link == 'inverse':
        return 1.0 / mu
    if link == 'inv_squared':
        return mu ** -2.0
    raise ValueError(link)


def np_mu(link, levels, lp):
    if link == 'identity':
        return lp
    if link == 'log':
        return np.exp(lp)
    if link == 'logit':
        return levels / (1.0 + np.exp(-lp))
    if link == 'inverse':
        return 1.0 / lp
    if link == 'inv_squared':
        return lp ** -0.5
    raise ValueError(link)


def np_grad(link, levels, mu):
    if link == 'identity':
        return np.ones_like(mu)
    if link == 'log':
        return 1.0 / mu
    if link == 'logit':
        return levels / (mu * (levels - mu))
    if link == 'inverse':
        return -1.0 / mu ** 2
    if link == 'inv_squared':
        return -2.0 / mu ** 3
    raise ValueError(link)


def np_V(dist, levels, mu):
    return {'normal': lambda: np.ones_like(mu), 'binomial': lambda: mu * (1 - mu / levels), 'poisson': lambda: mu,
            'gamma': lambda: mu ** 2, 'inv_gauss': lambda: mu ** 3}[dist]()


def _ylogy(y, u):
    out = np.zeros_like(u, dtype=float)
    nz = y != 0
    out[nz] = y[nz] * np.log(y[nz] / u[nz])
    return out


def np_deviance(dist, levels, y, mu):
    """unit deviances (unscaled, unweighted)"""
    if dist == 'normal':
        return (y - mu) ** 2
    if dist == 'binomial':
        return 2 * (_ylogy(y, mu) + _ylogy(levels - y, levels - mu))
    if dist == 'poisson':
        return 2 * (_ylogy(y, mu) - (y - mu))
    if dist == 'gamma':
        return 2 * ((y - mu) / mu - np.log(y / mu))
    if dist == 'inv_gauss':
        return (y - mu) ** 2 / (mu ** 2 * y)
    raise ValueError(dist)
