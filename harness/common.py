"""
Shared machinery for every property check (see DESIGN.md sections 3, 4 and 8).

  Ctx            one check run: seed, tier, PRNG, driver, streams, violations, evidence
  Driver         line-protocol client for the Lean model driver (lean/Driver.lean)
  lean_build     `lake build` of the library and of the compiled driver
  audit          `#print axioms` for every theorem of lean/PyGam/Props/<ID>.lean + forbidden-token grep
  exact transport helpers (floats as IEEE bit patterns, rationals as num/den)

Nothing here knows about a particular property.
"""
from __future__ import annotations

import hashlib
import json
import os
import random
import re
import struct
import subprocess
import sys
import time
import traceback
from fractions import Fraction

VERIF = os.path.dirname(os.path.dirname(os.path.abspath(__file__)))
LEAN_DIR = os.path.join(VERIF, 'lean')
REPO = os.environ.get('PYGAM_REPO', '/repo')
OUT_DIR = os.path.join(VERIF, 'out')
# runs against a private copy of the implementation (PYGAM_REPO=<dir>: calibration, seeded changes) keep their replays and
# evidence apart, so that evidence/<id>.json always describes a run on /repo itself
_ALT = '' if os.path.realpath(REPO) == os.path.realpath('/repo') else '-' + os.path.basename(os.path.normpath(REPO))
REPLAY_DIR = os.path.join(OUT_DIR, 'replays' + _ALT)
EVIDENCE_DIR = os.path.join(VERIF, 'evidence') if not _ALT else os.path.join(OUT_DIR, 'evidence' + _ALT)
KNOWN_FINDINGS = os.path.join(VERIF, 'known_findings.json')
DRIVER_BIN = os.path.join(LEAN_DIR, '.lake', 'build', 'bin', 'pgdriver')

STD_AXIOMS = {'propext', 'Classical.choice', 'Quot.sound'}
FORBIDDEN = re.compile(
    r'\bsorry\b|\badmit\b|\bnative_decide\b|\bbv_decide\b|\bimplemented_by\b|\bunsafe\s|maxHeartbeats\s+0\b|^\s*axiom\s',
    re.M,
)

TRUSTED_BASE = [
    'Lean 4.33.0 kernel',
    'Mathlib v4.33.0 as compiled under /opt/veriftools/mathlib4',
    'axioms propext, Classical.choice, Quot.sound only (audited per theorem on every run)',
    'hand-written Lean model lean/PyGam/Model/*.lean tied to /repo by the correspondence streams of this run',
    'correspondence harness (generators, canonicalisation, tolerances) in harness/',
    'CPython 3.12, NumPy 1.26, SciPy 1.11 of /venv',
]


# --------------------------------------------------------------------------------------------
# exact transport
# --------------------------------------------------------------------------------------------
def f2bits(x: float) -> str:
    return 'b%d' % struct.unpack('<Q', struct.pack('<d', float(x)))[0]


def bits2f(s: str) -> float:
    assert s[0] == 'b', s
    return struct.unpack('<d', struct.pack('<Q', int(s[1:])))[0]


def q2s(q) -> str:
    q = Fraction(q)
    return str(q.numerator) if q.denominator == 1 else '%d/%d' % (q.numerator, q.denominator)


def s2q(s: str) -> Fraction:
    return Fraction(s)


def f2q(x: float) -> Fraction:
    """exact rational value of a finite float"""
    return Fraction(*float(x).as_integer_ratio())


def parse_mat(s: str, conv=s2q):
    """`a b ; c d` -> [[a,b],[c,d]]"""
    s = s.strip()
    if s == '':
        return []
    return [[conv(t) for t in row.split()] for row in s.split(';')]


def parse_vec(s: str, conv=s2q):
    return [conv(t) for t in s.split()]


# --------------------------------------------------------------------------------------------
# Lean: build, audit, driver
# --------------------------------------------------------------------------------------------
def _run(cmd, cwd=None, timeout=3600, input=None):
    p = subprocess.run(cmd, cwd=cwd, capture_output=True, text=True, timeout=timeout, input=input)
    return p.returncode, p.stdout, p.stderr


def lean_sources_hash() -> str:
    h = hashlib.sha256()
    for root, dirs, files in sorted(os.walk(LEAN_DIR)):
        dirs[:] = sorted(d for d in dirs if d != '.lake')
        for fn in sorted(files):
            if fn.endswith('.lean') or fn.endswith('.toml'):
                p = os.path.join(root, fn)
                h.update(p.encode())
                h.update(open(p, 'rb').read())
    return h.hexdigest()


def lean_build(pid=None):
    """Build what the check of property `pid` needs: its theorems (`PyGam.Props.<pid>`, with everything they
    import), its driver module, and the compiled driver `pgdriver` (all driver modules).  Properties are isolated
    from each other: if the compiled driver cannot be built (another property's driver module is broken) the
    check falls back to interpreting its own driver (`lean --run Mains/<pid>.lean`).
    Returns (ok, log, seconds).  A no-op build takes ~0.5 s."""
    t0 = time.time()
    # regenerate the translated tables (lean/PyGam/Gen/Tables.lean) from /repo's current source
    trc, tout, terr = _run([sys.executable, os.path.join(VERIF, 'tools', 'translate.py')], cwd=VERIF, timeout=300)
    if trc != 0:
        return False, 'translator failed:\n' + (tout + terr)[-3000:], time.time() - t0
    targets = ['PyGam.Props.%s' % pid, 'PyGam.Drv.%s' % pid] if pid else ['PyGam']
    rc, out, err = _run(['lake', 'build'] + targets, cwd=LEAN_DIR, timeout=3000)
    log = (out + err)[-4000:]
    if rc != 0:
        return False, log, time.time() - t0
    rc2, out2, err2 = _run(['lake', 'build', 'pgdriver'], cwd=LEAN_DIR, timeout=3000)
    if rc2 != 0:
        os.environ['PGDRIVER_INTERP'] = '1'
        log += '\n[pgdriver build failed; using the interpreted per-property driver]\n' + (out2 + err2)[-1500:]
    return True, log, time.time() - t0


def strip_comments(src: str) -> str:
    # nested block comments are rare in our sources; handle one level + line comments
    src = re.sub(r'/-.*?-/', '', src, flags=re.S)
    src = re.sub(r'--.*', '', src)
    return src


def prop_theorems(pid: str):
    """names of the theorems stated in lean/PyGam/Props/<pid>.lean (namespace PyGam.<pid>)"""
    path = os.path.join(LEAN_DIR, 'PyGam', 'Props', pid + '.lean')
    if not os.path.exists(path):
        return []
    src = strip_comments(open(path).read())
    return re.findall(r'^\s*(?:private\s+|protected\s+)?theorem\s+([A-Za-z_][A-Za-z0-9_\.\']*)', src, flags=re.M)


def import_closure(pid):
    """the project files (relative to lean/) that the theorems and the driver of `pid` are built from"""
    seen, todo = set(), ['PyGam/Props/%s.lean' % pid, 'PyGam/Drv/%s.lean' % pid]
    while todo:
        f = todo.pop()
        if f in seen or not os.path.exists(os.path.join(LEAN_DIR, f)):
            continue
        seen.add(f)
        for m in re.findall(r'^\s*import\s+(PyGam[\w\.]*)', open(os.path.join(LEAN_DIR, f)).read(), flags=re.M):
            todo.append(m.replace('.', '/') + '.lean')
    return sorted(seen)


def forbidden_tokens(pid=None):
    """occurrences of sorry / admit / native_decide / bv_decide / axiom / ... outside comments, in the files the
    property is built from (all project files when pid is None)"""
    hits = []
    if pid is not None:
        files = import_closure(pid)
    else:
        files = []
        for root, dirs, fs in os.walk(LEAN_DIR):
            dirs[:] = [d for d in dirs if d != '.lake']
            files += [os.path.relpath(os.path.join(root, fn), LEAN_DIR) for fn in fs if fn.endswith('.lean')]
    for f in files:
        src = strip_comments(open(os.path.join(LEAN_DIR, f)).read())
        for m in FORBIDDEN.finditer(src):
            hits.append((f, m.group(0).strip()))
    return hits


def audit(pid: str):
    """`#print axioms` on every theorem of Props/<pid>.lean.
    Returns dict(theorems=[...], bad={name: [axioms]}, forbidden=[...], cached=bool, ok=bool, log=str)."""
    names = prop_theorems(pid)
    # cache key: the compiled theorem module (its .olean hash changes whenever the file or anything it imports changes)
    key = None
    oh = os.path.join(LEAN_DIR, '.lake', 'build', 'lib', 'lean', 'PyGam', 'Props', pid + '.olean.hash')
    src = os.path.join(LEAN_DIR, 'PyGam', 'Props', pid + '.lean')
    if os.path.exists(oh) and os.path.exists(src):
        key = open(oh).read().strip() + ':' + hashlib.sha256(open(src, 'rb').read()).hexdigest()
    else:
        key = lean_sources_hash()
    cache_dir = os.path.join(LEAN_DIR, '.lake', 'audit')
    os.makedirs(cache_dir, exist_ok=True)
    cache = os.path.join(cache_dir, pid + '.json')
    if os.path.exists(cache):
        try:
            c = json.load(open(cache))
            if c.get('key') == key:
                c['cached'] = True
                c['forbidden'] = forbidden_tokens(pid)      # cheap; always re-scanned
                c['ok'] = bool(c.get('ok')) and not c['forbidden']
                return c
        except Exception:
            pass
    res = dict(key=key, theorems=names, bad={}, forbidden=forbidden_tokens(pid), cached=False, log='', files=import_closure(pid))
    if not names:
        res['ok'] = False
        res['log'] = 'no theorems found for ' + pid
        return res
    tmp = os.path.join(cache_dir, 'Audit_%s.lean' % pid)
    with open(tmp, 'w') as fh:
        fh.write('import PyGam.Props.%s\n' % pid)
        for n in names:
            fh.write('#print axioms PyGam.%s.%s\n' % (pid, n))
    rc, out, err = _run(['lake', 'env', 'lean', tmp], cwd=LEAN_DIR, timeout=1800)
    text = out + err
    res['log'] = text[-3000:]
    seen = set()
    for m in re.finditer(r"'PyGam\.%s\.([^']+)' (depends on axioms: \[([^\]]*)\]|does not depend on any axioms)" % pid, text, flags=re.S):
        name = m.group(1)
        seen.add(name)
        axs = [a.strip() for a in (m.group(3) or '').replace('\n', ' ').split(',') if a.strip()]
        extra = [a for a in axs if a not in STD_AXIOMS]
        if extra:
            res['bad'][name] = extra
    missing = [n for n in names if n not in seen]
    if missing:
        res['bad'].update({n: ['<not reported by #print axioms>'] for n in missing})
    res['ok'] = rc == 0 and not res['bad'] and not res['forbidden']
    if res['ok']:
        json.dump(res, open(cache, 'w'))
    return res


def leanchecker(ctx, pid):
    """thorough tier: re-check the compiled theorem module (and what it imports from this project) with Lean's
    independent .olean re-checker"""
    t0 = time.time()
    mods = [f[:-5].replace('/', '.') for f in import_closure(pid) if f.startswith('PyGam/Props/') or f.startswith('PyGam/Proofs/')]
    rc, out, err = _run(['lake', 'env', 'leanchecker'] + mods, cwd=LEAN_DIR, timeout=3000)
    ctx.extra['leanchecker'] = dict(modules=mods, rc=rc, seconds=round(time.time() - t0, 1), tail=(out + err)[-400:])
    if rc != 0:
        ctx.broken.append(dict(kind='leanchecker', modules=mods, log=(out + err)[-2000:]))


class Driver:
    """Batch client of the Lean model driver.  `run(lines)` returns one output line per input line."""

    def __init__(self, pid=None):
        if os.environ.get('PGDRIVER_INTERP') and pid:
            # development mode: interpret only this property's driver (no dependence on other modules)
            self.cmd = ['lake', 'env', 'lean', '--run', 'Mains/%s.lean' % pid]
        elif os.path.exists(DRIVER_BIN):
            self.cmd = [DRIVER_BIN]
        else:
            self.cmd = ['lake', 'env', 'lean', '--run', 'Driver.lean']
        self.calls = 0
        self.lines = 0

    def run(self, lines, timeout=1800, parallel=None):
        """one output line per input line; large batches are split over several driver processes
        (operations are independent, order of results is preserved)"""
        lines = list(lines)
        if not lines:
            return []
        nproc = parallel if parallel is not None else (min(16, os.cpu_count() or 1) if len(lines) >= 1500 else 1)
        if nproc > 1:
            from concurrent.futures import ThreadPoolExecutor
            size = (len(lines) + nproc * 4 - 1) // (nproc * 4)
            chunks = [lines[i:i + size] for i in range(0, len(lines), size)]
            with ThreadPoolExecutor(nproc) as ex:
                parts = list(ex.map(lambda c: self.run(c, timeout=timeout, parallel=1), chunks))
            return [x for part in parts for x in part]
        for ln in lines:
            assert '\n' not in ln
        rc, out, err = _run(self.cmd, cwd=LEAN_DIR, timeout=timeout, input='\n'.join(lines) + '\n')
        res = out.split('\n')
        if res and res[-1] == '':
            res.pop()
        if rc != 0 or len(res) != len(lines):
            raise RuntimeError('driver failed rc=%s got %d lines for %d ops\n%s' % (rc, len(res), len(lines), err[-2000:]))
        self.calls += 1
        self.lines += len(lines)
        return res


# --------------------------------------------------------------------------------------------
# known findings
# --------------------------------------------------------------------------------------------
def load_known_findings():
    if not os.path.exists(KNOWN_FINDINGS):
        return []
    return json.load(open(KNOWN_FINDINGS)).get('findings', [])


def selector_matches(selector: dict, signature: dict) -> bool:
    """every key of the selector must be present in the signature with an equal value
    (a list in the selector means `one of`)."""
    for k, v in selector.items():
        if k not in signature:
            return False
        s = signature[k]
        if isinstance(v, list):
            if s not in v:
                return False
        elif s != v:
            return False
    return True


# --------------------------------------------------------------------------------------------
# one check run
# --------------------------------------------------------------------------------------------
class Stream:
    def __init__(self, name, what):
        self.name = name
        self.what = what
        self.cases = 0
        self.disagreements = 0      # model/impl disagreements and failing inputs that are NOT recorded known findings
        self.known = 0              # failing inputs matching a `known` entry of known_findings.json


class Ctx:
    """State of one `./check <ID>` run."""

    def __init__(self, pid, tier, seed, replay=None):
        self.pid = pid
        self.tier = tier
        self.seed = seed
        self.rng = random.Random('%s-%d' % (pid, seed))
        self.replay = replay
        self.driver = Driver(pid)
        self.streams = {}
        self.evaluations = 0
        self.nontrivial = set()
        self.samples = []
        self.hist = {}
        self.failing = []       # confirmed failing inputs (dicts)
        self.broken = []        # correspondence / theorem breaks without a failing input
        self.partial = []       # statements only proved as ..._partial (documentation)
        self.assumptions = []
        self.extra = {}
        self.t0 = time.time()

    # ---- bookkeeping -------------------------------------------------------------------
    def subrng(self, *key):
        return random.Random('%s-%d-%s' % (self.pid, self.seed, '-'.join(map(str, key))))

    def stream(self, name, what=''):
        if name not in self.streams:
            self.streams[name] = Stream(name, what)
        return self.streams[name]

    def count(self, bucket, key=1, n=1):
        d = self.hist.setdefault(bucket, {})
        k = str(key)
        d[k] = d.get(k, 0) + n

    def case(self, stream, signature, nontrivial=True, sample=None):
        """register one evaluated case; `signature` (hashable / json-able) identifies distinct cases"""
        self.evaluations += 1
        self.stream(stream).cases += 1
        if nontrivial:
            self.nontrivial.add(stream + '|' + json.dumps(signature, sort_keys=True, default=str))
        if sample is not None and len(self.samples) < 8 and (self.stream(stream).cases in (1, 2)):
            self.samples.append({'stream': stream, 'case': sample})

    def disagree(self, stream, case, impl, model, detail=''):
        """model and implementation differ on `case` and no property failure could be confirmed there"""
        self.stream(stream).disagreements += 1
        self.broken.append(dict(kind='correspondence', stream=stream, case=case, impl=impl, model=model, detail=detail))

    def fail(self, stream, signature, case, observed, expected, oracle, detail=''):
        """a concrete input on which the property fails on the real code (confirmed by the oracle)"""
        self.stream(stream)
        self.failing.append(dict(stream=stream, signature=signature, case=case, observed=observed,
                                 expected=expected, oracle=oracle, detail=detail))

    # ---- verdict ------------------------------------------------------------------------
    def finish(self, build_ok, build_log, audit_res):
        pid = self.pid
        known = [k for k in load_known_findings() if k.get('property') == pid and k.get('status') == 'known']
        lines = []
        new_fail = []
        known_hit = {}
        for f in self.failing:
            hit = None
            for k in known:
                if selector_matches(k.get('selector', {}), f['signature']):
                    hit = k
                    break
            if hit is not None:
                known_hit.setdefault(hit.get('id', json.dumps(hit['selector'], sort_keys=True)), (hit, f))
                self.stream(f['stream']).known += 1
            else:
                new_fail.append(f)
                self.stream(f['stream']).disagreements += 1
        for kid, (k, f) in known_hit.items():
            lines.append('KNOWN-FINDING: property=%s %s' % (pid, k.get('what', kid)))

        theorems = audit_res.get('theorems', []) if audit_res else []
        proof_ok = bool(build_ok and audit_res and audit_res.get('ok'))
        obligations = len(theorems) + len(self.streams)
        discharged = (len(theorems) if proof_ok else 0) + sum(1 for s in self.streams.values() if s.disagreements == 0)

        rc = 0
        os.makedirs(REPLAY_DIR, exist_ok=True)
        stamp = '%s_%s_%d' % (pid, self.tier, self.seed)
        if new_fail:
            f = new_fail[0]
            path = os.path.join(REPLAY_DIR, stamp + '_fail.json')
            json.dump(dict(property=pid, seed=self.seed, tier=self.tier, kind='failing-input', **f,
                           others=len(new_fail) - 1,
                           how_to_run='./check %s --replay %s' % (pid, os.path.relpath(path, VERIF))),
                      open(path, 'w'), indent=1, default=str)
            lines.append('VIOLATION property=%s replay=%s' % (pid, os.path.relpath(path, VERIF)))
            rc = 1
        elif self.broken or not proof_ok:
            path = os.path.join(REPLAY_DIR, stamp + '_broken.json')
            what = []
            if not build_ok:
                what.append(dict(kind='lean-build', log=build_log))
            elif not proof_ok:
                what.append(dict(kind='axiom-audit', bad=audit_res.get('bad') if audit_res else None,
                                 forbidden=audit_res.get('forbidden') if audit_res else None,
                                 log=(audit_res or {}).get('log', '')))
            what += self.broken[:20]
            json.dump(dict(property=pid, seed=self.seed, tier=self.tier, kind='no-failing-input-found',
                           no_longer_checks=what, n_broken=len(self.broken),
                           how_to_run='./check %s --tier %s' % (pid, self.tier)),
                      open(path, 'w'), indent=1, default=str)
            lines.append('VIOLATION property=%s replay=%s no-failing-input-found' % (pid, os.path.relpath(path, VERIF)))
            rc = 1

        wall = time.time() - self.t0
        cov = dict(
            obligations=obligations,
            discharged=discharged,
            checker_cmd='cd lean && lake build PyGam pgdriver && lake env lean .lake/audit/Audit_%s.lean   # then: ./check %s --tier %s' % (pid, pid, self.tier),
            trusted_base=TRUSTED_BASE + self.assumptions,
            evaluations=self.evaluations,
            distinct_nontrivial=len(self.nontrivial),
            rule=self.extra.pop('rule', 'distinct canonical (stream, case-signature) pairs registered as non-trivial by the property harness'),
            samples=self.samples or [{'note': 'no sample recorded'}],
            theorems=theorems,
            axioms_ok=proof_ok,
            streams={s.name: dict(what=s.what, cases=s.cases, disagreements=s.disagreements, known_finding_cases=s.known) for s in self.streams.values()},
            obligations_note='obligations = property theorems (kernel-checked, axioms audited) + correspondence / oracle streams; a stream is discharged when it has no disagreement and no failing input other than recorded known findings (listed in known_findings_hit; nothing is claimed inside their selectors)',
            input_distribution=self.hist,
            partial=self.partial,
            driver_lines=self.driver.lines,
            known_findings_hit=[k for k in known_hit],
        )
        cov.update(self.extra)
        ev = dict(property_id=pid, tier=self.tier, seed=self.seed, level='proof', coverage=cov,
                  assumptions=self.assumptions, wall_s=round(wall, 3), violations=len(new_fail) + (1 if (rc and not new_fail) else 0))
        if self.replay is None:
            os.makedirs(EVIDENCE_DIR, exist_ok=True)
            tmp = os.path.join(EVIDENCE_DIR, pid + '.json.tmp')
            json.dump(ev, open(tmp, 'w'), indent=1, default=str)
            os.replace(tmp, os.path.join(EVIDENCE_DIR, pid + '.json'))
        for ln in lines:
            print(ln)
        print('%s tier=%s seed=%d theorems=%d streams=%d evaluations=%d distinct=%d wall=%.1fs -> %s' % (
            pid, self.tier, self.seed, len(theorems), len(self.streams), self.evaluations, len(self.nontrivial), wall,
            'OK' if rc == 0 else 'VIOLATION'))
        return rc


def import_pygam():
    """import the implementation under test from /repo's current working tree"""
    if REPO not in sys.path:
        sys.path.insert(0, REPO)
    os.environ.setdefault('PYGAM_VERIF', '1')
    import warnings
    warnings.filterwarnings('ignore')
    import pygam  # noqa
    assert os.path.realpath(pygam.__file__).startswith(os.path.realpath(REPO)), pygam.__file__
    return pygam


def close(a, b, rtol=1e-9, atol=1e-12):
    a = float(a); b = float(b)
    if a == b:
        return True
    if a != a or b != b:
        return (a != a) and (b != b)
    return abs(a - b) <= atol + rtol * max(abs(a), abs(b))


def fracf(t):
    """float of an exact rational (a Fraction or its text): +-inf when it lies beyond the float range (a diverged fit on a
    mutated library must become a verdict, not an OverflowError of the harness)"""
    from fractions import Fraction as _F
    q = t if isinstance(t, _F) else _F(t)
    try:
        return float(q)
    except OverflowError:
        return float('inf') if q > 0 else float('-inf')
