import PyGam.Drv.Loop
import PyGam.Drv.C03
/-! development driver for C03 only: `lake env lean --run Mains/C03.lean` (production uses the compiled `pgdriver`) -/
def main : IO Unit := PyGam.Drv.runLoop (fun toks => match toks with
  | "C03" :: rest => (PyGam.Drv.C03.handle rest).getD "bad-op"
  | _ => "bad-op")
