import PyGam.Drv.Loop
import PyGam.Drv.C01
/-! development driver for C01 only: `lake env lean --run Mains/C01.lean` (production uses the compiled `pgdriver`) -/
def main : IO Unit := PyGam.Drv.runLoop (fun toks => match toks with
  | "C01" :: rest => (PyGam.Drv.C01.handle rest).getD "bad-op"
  | _ => "bad-op")
