import PyGam.Drv.Loop
import PyGam.Drv.C06
/-! development driver for C06 only: `lake env lean --run Mains/C06.lean` (production uses the compiled `pgdriver`) -/
def main : IO Unit := PyGam.Drv.runLoop (fun toks => match toks with
  | "C06" :: rest => (PyGam.Drv.C06.handle rest).getD "bad-op"
  | _ => "bad-op")
