import PyGam.Drv.Loop
import PyGam.Drv.C13
/-! development driver for C13 only: `lake env lean --run Mains/C13.lean` (production uses the compiled `pgdriver`) -/
def main : IO Unit := PyGam.Drv.runLoop (fun toks => match toks with
  | "C13" :: rest => (PyGam.Drv.C13.handle rest).getD "bad-op"
  | _ => "bad-op")
