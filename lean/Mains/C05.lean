import PyGam.Drv.Loop
import PyGam.Drv.C05
/-! development driver for C05 only: `lake env lean --run Mains/C05.lean` (production uses the compiled `pgdriver`) -/
def main : IO Unit := PyGam.Drv.runLoop (fun toks => match toks with
  | "C05" :: rest => (PyGam.Drv.C05.handle rest).getD "bad-op"
  | _ => "bad-op")
