import PyGam.Drv.Loop
import PyGam.Drv.C10
/-! development driver for C10 only: `lake env lean --run Mains/C10.lean` (production uses the compiled `pgdriver`) -/
def main : IO Unit := PyGam.Drv.runLoop (fun toks => match toks with
  | "C10" :: rest => (PyGam.Drv.C10.handle rest).getD "bad-op"
  | _ => "bad-op")
