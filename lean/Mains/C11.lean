import PyGam.Drv.Loop
import PyGam.Drv.C11
/-! development driver for C11 only: `lake env lean --run Mains/C11.lean` (production uses the compiled `pgdriver`) -/
def main : IO Unit := PyGam.Drv.runLoop (fun toks => match toks with
  | "C11" :: rest => (PyGam.Drv.C11.handle rest).getD "bad-op"
  | _ => "bad-op")
