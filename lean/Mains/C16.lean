import PyGam.Drv.Loop
import PyGam.Drv.C16
/-! development driver for C16 only: `lake env lean --run Mains/C16.lean` (production uses the compiled `pgdriver`) -/
def main : IO Unit := PyGam.Drv.runLoop (fun toks => match toks with
  | "C16" :: rest => (PyGam.Drv.C16.handle rest).getD "bad-op"
  | _ => "bad-op")
