import PyGam.Drv.Loop
import PyGam.Drv.C15
/-! development driver for C15 only: `lake env lean --run Mains/C15.lean` (production uses the compiled `pgdriver`) -/
def main : IO Unit := PyGam.Drv.runLoop (fun toks => match toks with
  | "C15" :: rest => (PyGam.Drv.C15.handle rest).getD "bad-op"
  | _ => "bad-op")
