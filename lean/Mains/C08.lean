import PyGam.Drv.Loop
import PyGam.Drv.C08
/-! development driver for C08 only: `lake env lean --run Mains/C08.lean` (production uses the compiled `pgdriver`) -/
def main : IO Unit := PyGam.Drv.runLoop (fun toks => match toks with
  | "C08" :: rest => (PyGam.Drv.C08.handle rest).getD "bad-op"
  | _ => "bad-op")
