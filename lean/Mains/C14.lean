import PyGam.Drv.Loop
import PyGam.Drv.C14
/-! development driver for C14 only: `lake env lean --run Mains/C14.lean` (production uses the compiled `pgdriver`) -/
def main : IO Unit := PyGam.Drv.runLoop (fun toks => match toks with
  | "C14" :: rest => (PyGam.Drv.C14.handle rest).getD "bad-op"
  | _ => "bad-op")
