import PyGam.Drv.Loop
import PyGam.Drv.C12
/-! development driver for C12 only: `lake env lean --run Mains/C12.lean` (production uses the compiled `pgdriver`) -/
def main : IO Unit := PyGam.Drv.runLoop (fun toks => match toks with
  | "C12" :: rest => (PyGam.Drv.C12.handle rest).getD "bad-op"
  | _ => "bad-op")
