import PyGam.Drv.Loop
import PyGam.Drv.C17
/-! development driver for C17 only: `lake env lean --run Mains/C17.lean` (production uses the compiled `pgdriver`) -/
def main : IO Unit := PyGam.Drv.runLoop (fun toks => match toks with
  | "C17" :: rest => (PyGam.Drv.C17.handle rest).getD "bad-op"
  | _ => "bad-op")
