import PyGam.Drv.Loop
import PyGam.Drv.C04
/-! development driver for C04 only: `lake env lean --run Mains/C04.lean` (production uses the compiled `pgdriver`) -/
def main : IO Unit := PyGam.Drv.runLoop (fun toks => match toks with
  | "C04" :: rest => (PyGam.Drv.C04.handle rest).getD "bad-op"
  | _ => "bad-op")
