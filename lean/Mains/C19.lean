import PyGam.Drv.Loop
import PyGam.Drv.C19
/-! development driver for C19 only: `lake env lean --run Mains/C19.lean` (production uses the compiled `pgdriver`) -/
def main : IO Unit := PyGam.Drv.runLoop (fun toks => match toks with
  | "C19" :: rest => (PyGam.Drv.C19.handle rest).getD "bad-op"
  | _ => "bad-op")
