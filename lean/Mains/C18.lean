import PyGam.Drv.Loop
import PyGam.Drv.C18
/-! development driver for C18 only: `lake env lean --run Mains/C18.lean` (production uses the compiled `pgdriver`) -/
def main : IO Unit := PyGam.Drv.runLoop (fun toks => match toks with
  | "C18" :: rest => (PyGam.Drv.C18.handle rest).getD "bad-op"
  | _ => "bad-op")
