import PyGam.Drv.Loop
import PyGam.Drv.C20
/-! development driver for C20 only: `lake env lean --run Mains/C20.lean` (production uses the compiled `pgdriver`) -/
def main : IO Unit := PyGam.Drv.runLoop (fun toks => match toks with
  | "C20" :: rest => (PyGam.Drv.C20.handle rest).getD "bad-op"
  | _ => "bad-op")
