import PyGam.Drv.Loop
import PyGam.Drv.C02
/-! development driver for C02 only: `lake env lean --run Mains/C02.lean` (production uses the compiled `pgdriver`) -/
def main : IO Unit := PyGam.Drv.runLoop (fun toks => match toks with
  | "C02" :: rest => (PyGam.Drv.C02.handle rest).getD "bad-op"
  | _ => "bad-op")
