import PyGam.Drv.Loop
import PyGam.Drv.C07
/-! development driver for C07 only: `lake env lean --run Mains/C07.lean` (production uses the compiled `pgdriver`) -/
def main : IO Unit := PyGam.Drv.runLoop (fun toks => match toks with
  | "C07" :: rest => (PyGam.Drv.C07.handle rest).getD "bad-op"
  | _ => "bad-op")
