import PyGam.Drv.Loop
import PyGam.Drv.C09
/-! development driver for C09 only: `lake env lean --run Mains/C09.lean` (production uses the compiled `pgdriver`) -/
def main : IO Unit := PyGam.Drv.runLoop (fun toks => match toks with
  | "C09" :: rest => (PyGam.Drv.C09.handle rest).getD "bad-op"
  | _ => "bad-op")
