import PyGam.Model.Vec
import PyGam.Model.Penalty
