import Mathlib.Data.Matrix.Mul
import Mathlib.Data.Matrix.Diagonal
import Mathlib.LinearAlgebra.Matrix.Trace
/-!
The coded QR/SVD solve of `GAM._pirls` under the LAPACK / Cholesky contracts (C01, C08).

`WB = Q R` (reduced QR, `k = min(#rows, m)` rows of `R`), `Eᵀ E = A = S + P (+ C)` (Cholesky),
`[R; E] = U diag(d) Vᵀ` (SVD; `U₁` = the `k × m` block of `U` belonging to `R`, `U₂` the block belonging to `E`),
coefficients `β = V D⁻¹ U₁ᵀ Qᵀ (W z)`.
-/
open Matrix
namespace PyGam.Solve
variable {α : Type} [Field α] {n k m : ℕ}

/-- contracts assumed of LAPACK (`qr`, `svd`) and of the Cholesky factorisation; validated numerically on
the loop locals of every checked fit, never proved -/
structure Factor (α : Type) [Field α] (n k m : ℕ) where
  WB : Matrix (Fin n) (Fin m) α
  A : Matrix (Fin m) (Fin m) α
  Q : Matrix (Fin n) (Fin k) α
  R : Matrix (Fin k) (Fin m) α
  E : Matrix (Fin m) (Fin m) α
  U1 : Matrix (Fin k) (Fin m) α
  U2 : Matrix (Fin m) (Fin m) α
  d : Fin m → α
  V : Matrix (Fin m) (Fin m) α
  qr : WB = Q * R
  qorth : Qᵀ * Q = 1
  chol : Eᵀ * E = A
  svdR : R = U1 * diagonal d * Vᵀ
  svdE : E = U2 * diagonal d * Vᵀ
  uorth : U1ᵀ * U1 + U2ᵀ * U2 = 1
  vorth : Vᵀ * V = 1
  dne : ∀ i, d i ≠ 0

/-- the matrix `B` of the code: `Vt.T.dot(Dinv).dot(U1.T).dot(Q.T)` -/
def Factor.Bmat (F : Factor α n k m) : Matrix (Fin m) (Fin n) α :=
  F.V * diagonal (fun i => (F.d i)⁻¹) * F.U1ᵀ * F.Qᵀ

theorem diag_inv_mul (d : Fin m → α) (h : ∀ i, d i ≠ 0) :
    diagonal d * diagonal (fun i => (d i)⁻¹) = (1 : Matrix (Fin m) (Fin m) α) := by
  rw [diagonal_mul_diagonal]; ext i j; by_cases hij : i = j
  · subst hij; simp [h i]
  · simp [hij]

theorem diag_inv_mul' (d : Fin m → α) (h : ∀ i, d i ≠ 0) :
    diagonal (fun i => (d i)⁻¹) * diagonal d = (1 : Matrix (Fin m) (Fin m) α) := by
  rw [diagonal_mul_diagonal]; ext i j; by_cases hij : i = j
  · subst hij; simp [h i]
  · simp [hij]

theorem normal_matrix (F : Factor α n k m) :
    F.WBᵀ * F.WB + F.A = F.V * diagonal F.d * diagonal F.d * F.Vᵀ := by
  have h1 : F.WBᵀ * F.WB = F.Rᵀ * F.R := by
    rw [F.qr, transpose_mul, Matrix.mul_assoc, ← Matrix.mul_assoc F.Qᵀ, F.qorth, Matrix.one_mul]
  rw [h1, ← F.chol]
  conv_lhs => rw [F.svdR, F.svdE]
  simp only [transpose_mul, transpose_transpose, diagonal_transpose]
  have : F.V * (diagonal F.d * F.U1ᵀ) * (F.U1 * diagonal F.d * F.Vᵀ)
       + F.V * (diagonal F.d * F.U2ᵀ) * (F.U2 * diagonal F.d * F.Vᵀ)
       = F.V * diagonal F.d * (F.U1ᵀ * F.U1 + F.U2ᵀ * F.U2) * (diagonal F.d * F.Vᵀ) := by
    simp only [Matrix.mul_assoc, Matrix.mul_add, Matrix.add_mul]
  rw [this, F.uorth]; simp only [Matrix.mul_assoc, Matrix.mul_one]

theorem wbT (F : Factor α n k m) : F.WBᵀ = F.V * diagonal F.d * F.U1ᵀ * F.Qᵀ := by
  rw [F.qr, F.svdR]; simp only [transpose_mul, transpose_transpose, diagonal_transpose]
  simp only [Matrix.mul_assoc]

/-- matrix form: `(WBᵀ WB + A) · Bmat = WBᵀ` -/
theorem normal_mul_Bmat (F : Factor α n k m) : (F.WBᵀ * F.WB + F.A) * F.Bmat = F.WBᵀ := by
  rw [normal_matrix F, Factor.Bmat, wbT F]
  have : F.V * diagonal F.d * diagonal F.d * F.Vᵀ * (F.V * diagonal (fun i => (F.d i)⁻¹) * F.U1ᵀ * F.Qᵀ)
       = F.V * diagonal F.d * diagonal F.d * (F.Vᵀ * F.V) * diagonal (fun i => (F.d i)⁻¹) * F.U1ᵀ * F.Qᵀ := by
    simp only [Matrix.mul_assoc]
  rw [this, F.vorth, Matrix.mul_one]
  have : F.V * diagonal F.d * diagonal F.d * diagonal (fun i => (F.d i)⁻¹) * F.U1ᵀ * F.Qᵀ
       = F.V * diagonal F.d * (diagonal F.d * diagonal (fun i => (F.d i)⁻¹)) * F.U1ᵀ * F.Qᵀ := by
    simp only [Matrix.mul_assoc]
  rw [this, diag_inv_mul _ F.dne, Matrix.mul_one]

end PyGam.Solve
