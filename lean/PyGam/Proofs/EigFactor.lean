import Mathlib.Data.Matrix.Mul
import Mathlib.Data.Matrix.Diagonal
import Mathlib.Analysis.SpecialFunctions.Pow.Real
/-!
# PyGam.Proofs.EigFactor — the eigen-factor used when the Cholesky factorisation breaks down

`GAM._cholesky` (after repair c0c1d29): if `cholesky(A)` fails by rounding, `w, V = eigh(A)`, eigenvalues below the
rounding level are replaced by the ridge `√ε`, and `L = (V * sqrt(w)).T = diag(√w) Vᵀ` is returned in place of the
Cholesky factor.  Under the LAPACK contract of `eigh` (`A = V diag(w) Vᵀ`) this `L` satisfies the only thing the PIRLS
solve needs from the factor, `LᵀL = A` (the contract `E'E = S + P (+ C)` of `Proofs/Solve.lean`), exactly when no
eigenvalue is replaced, and `LᵀL = V diag(w') Vᵀ` in general: the model is changed only in the eigen-directions whose
eigenvalue was replaced, by `w' - w` there.
-/
open Matrix
namespace PyGam.EigFactor
variable {m : Type} [Fintype m] [DecidableEq m]

/-- the factor returned by the fallback -/
noncomputable def eigFactor (V : Matrix m m ℝ) (w : m → ℝ) : Matrix m m ℝ :=
  diagonal (fun i => Real.sqrt (w i)) * Vᵀ

/-- `LᵀL = V diag(w) Vᵀ` for non-negative `w` -/
theorem eigFactor_gram (V : Matrix m m ℝ) (w : m → ℝ) (hw : ∀ i, 0 ≤ w i) :
    (eigFactor V w)ᵀ * eigFactor V w = V * diagonal w * Vᵀ := by
  unfold eigFactor
  rw [transpose_mul, transpose_transpose, diagonal_transpose, Matrix.mul_assoc, ← Matrix.mul_assoc (diagonal _),
    diagonal_mul_diagonal, ← Matrix.mul_assoc]
  congr 2
  ext i j
  by_cases h : i = j
  · subst h; simp [diagonal, Real.mul_self_sqrt (hw i)]
  · simp [diagonal, h]

/-- **contract of the fallback**: if `eigh` returned a decomposition of `A` and nothing was replaced, the factor
satisfies `LᵀL = A` -/
theorem eigFactor_contract (A V : Matrix m m ℝ) (w : m → ℝ) (hA : A = V * diagonal w * Vᵀ) (hw : ∀ i, 0 ≤ w i) :
    (eigFactor V w)ᵀ * eigFactor V w = A := by
  rw [eigFactor_gram V w hw, hA]

/-- with replaced eigenvalues `w'` the factored matrix differs from `A` by `V diag(w' - w) Vᵀ`: only the replaced
eigen-directions are touched -/
theorem eigFactor_replaced (A V : Matrix m m ℝ) (w w' : m → ℝ) (hA : A = V * diagonal w * Vᵀ) (hw' : ∀ i, 0 ≤ w' i) :
    (eigFactor V w')ᵀ * eigFactor V w' - A = V * diagonal (fun i => w' i - w i) * Vᵀ := by
  rw [eigFactor_gram V w' hw', hA, ← Matrix.sub_mul, ← Matrix.mul_sub]
  congr 2
  ext i j
  by_cases h : i = j
  · subst h; simp [diagonal]
  · simp [diagonal, h]

end PyGam.EigFactor
