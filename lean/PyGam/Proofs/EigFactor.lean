import Mathlib.Data.Matrix.Mul
import Mathlib.Data.Matrix.Diagonal
import Mathlib.Analysis.SpecialFunctions.Pow.Real
import Mathlib.Algebra.BigOperators.Ring.Finset
/-!
# PyGam.Proofs.EigFactor — the eigen-factor used when the Cholesky factorisation breaks down

`GAM._cholesky` (after repair c0c1d29): if `cholesky(A)` fails by rounding, `w, V = eigh(A)`, eigenvalues below the
rounding level are replaced by the ridge `√ε`, and `L = (V * sqrt(w)).T = diag(√w) Vᵀ` is returned in place of the
Cholesky factor.  Under the LAPACK contract of `eigh` (`A = V diag(w) Vᵀ`) this `L` satisfies the only thing the PIRLS
solve needs from the factor, `LᵀL = A` (the contract `E'E = S + P (+ C)` of `Proofs/Solve.lean`), exactly when no
eigenvalue is replaced, and `LᵀL = V diag(w') Vᵀ` in general: the model is changed only in the eigen-directions whose
eigenvalue was replaced, by `w' - w` there.
-/
open Matrix
namespace PyGam.EigFactor
variable {m : Type} [Fintype m] [DecidableEq m]

/-- the factor returned by the fallback -/
noncomputable def eigFactor (V : Matrix m m ℝ) (w : m → ℝ) : Matrix m m ℝ :=
  diagonal (fun i => Real.sqrt (w i)) * Vᵀ

/-- `LᵀL = V diag(w) Vᵀ` for non-negative `w` -/
theorem eigFactor_gram (V : Matrix m m ℝ) (w : m → ℝ) (hw : ∀ i, 0 ≤ w i) :
    (eigFactor V w)ᵀ * eigFactor V w = V * diagonal w * Vᵀ := by
  unfold eigFactor
  rw [transpose_mul, transpose_transpose, diagonal_transpose, Matrix.mul_assoc, ← Matrix.mul_assoc (diagonal _),
    diagonal_mul_diagonal, ← Matrix.mul_assoc]
  congr 2
  ext i j
  by_cases h : i = j
  · subst h; simp [diagonal, Real.mul_self_sqrt (hw i)]
  · simp [diagonal, h]

/-- **contract of the fallback**: if `eigh` returned a decomposition of `A` and nothing was replaced, the factor
satisfies `LᵀL = A` -/
theorem eigFactor_contract (A V : Matrix m m ℝ) (w : m → ℝ) (hA : A = V * diagonal w * Vᵀ) (hw : ∀ i, 0 ≤ w i) :
    (eigFactor V w)ᵀ * eigFactor V w = A := by
  rw [eigFactor_gram V w hw, hA]

/-- with replaced eigenvalues `w'` the factored matrix differs from `A` by `V diag(w' - w) Vᵀ`: only the replaced
eigen-directions are touched -/
theorem eigFactor_replaced (A V : Matrix m m ℝ) (w w' : m → ℝ) (hA : A = V * diagonal w * Vᵀ) (hw' : ∀ i, 0 ≤ w' i) :
    (eigFactor V w')ᵀ * eigFactor V w' - A = V * diagonal (fun i => w' i - w i) * Vᵀ := by
  rw [eigFactor_gram V w' hw', hA, ← Matrix.sub_mul, ← Matrix.mul_sub]
  congr 2
  ext i j
  by_cases h : i = j
  · subst h; simp [diagonal]
  · simp [diagonal, h]

/-! ### block-wise factorization (repair c980deb)

`S + P (+ C)` is block diagonal, one block per term.  Since c980deb the fallback factors each connected block of the
sparsity pattern on its own and assembles `L` from the per-block factors.  If `A` and `L` are block diagonal with
respect to a labelling `ℓ` of the indices and every block of `L` factors the corresponding block of `A`
(`Σ_{k in the block} L k i · L k j = A i j`), then `LᵀL = A`: the factor contract holds for the whole matrix, and the
cut-off of one block never sees the eigenvalues of another. -/
section blocks
variable {κ : Type} [DecidableEq κ]

theorem block_factor_contract {R : Type} [CommRing R] (ℓ : m → κ) (A L : Matrix m m R)
    (hA : ∀ i j, ℓ i ≠ ℓ j → A i j = 0) (hL : ∀ k i, ℓ k ≠ ℓ i → L k i = 0)
    (hblock : ∀ i j, ℓ i = ℓ j → ∑ k ∈ Finset.univ.filter (fun k => ℓ k = ℓ i), L k i * L k j = A i j) :
    Lᵀ * L = A := by
  ext i j
  simp only [Matrix.mul_apply, transpose_apply]
  by_cases hij : ℓ i = ℓ j
  · rw [← hblock i j hij, Finset.sum_filter]
    apply Finset.sum_congr rfl
    intro k _
    by_cases hk : ℓ k = ℓ i
    · rw [if_pos hk]
    · rw [if_neg hk, hL k i hk, zero_mul]
  · rw [hA i j hij]
    apply Finset.sum_eq_zero
    intro k _
    by_cases hk : ℓ k = ℓ i
    · have : ℓ k ≠ ℓ j := fun h => hij (hk.symm.trans h)
      rw [hL k j this, mul_zero]
    · rw [hL k i hk, zero_mul]

/-- a block of `A` is untouched by what happens in the other blocks: the entries of `LᵀL` inside one block depend on
the rows and columns of `L` in that block only -/
theorem block_factor_local {R : Type} [CommRing R] (ℓ : m → κ) (L L' : Matrix m m R)
    (hL : ∀ k i, ℓ k ≠ ℓ i → L k i = 0) (hL' : ∀ k i, ℓ k ≠ ℓ i → L' k i = 0) (b : κ)
    (hsame : ∀ k i, ℓ k = b → ℓ i = b → L k i = L' k i) (i j : m) (hi : ℓ i = b) (hj : ℓ j = b) :
    (Lᵀ * L) i j = (L'ᵀ * L') i j := by
  simp only [Matrix.mul_apply, transpose_apply]
  apply Finset.sum_congr rfl
  intro k _
  by_cases hk : ℓ k = b
  · rw [hsame k i hk hi, hsame k j hk hj]
  · have h1 : ℓ k ≠ ℓ i := fun h => hk (h.trans hi)
    rw [hL k i h1, hL' k i h1, zero_mul, zero_mul]

end blocks

end PyGam.EigFactor
