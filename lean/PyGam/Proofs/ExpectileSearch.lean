import PyGam.Proofs.Expectile
/-!
Helper lemmas for C18: the `fit_quantile` search with the re-fit made explicit (`searchLoop fit ratio kw`): bracket
invariant, counter, post-condition, and the provenance of the current model — it is the start model as long as no
step was taken, and `fit kw e` (the fit **with the forwarded keywords**) at the current expectile afterwards.
-/
set_option linter.unusedSectionVars false
namespace PyGam.Expectile
variable {α κ μ : Type} [Field α] [LinearOrder α] [IsStrictOrderedRing α]

theorem searchLoop_inv (fit : κ → α → μ) (ratio : μ → α) (kw : κ) (q tol : α) (fuel : Nat)
    (s : SState α μ) (hI : Inv s.b) : Inv (searchLoop fit ratio kw q tol fuel s).1.b := by
  induction fuel generalizing s with
  | zero => simpa [searchLoop] using hI
  | succ fuel ih =>
    unfold searchLoop
    cases hst : bisectStep q tol (ratio s.model) s.b with
    | none => simpa using hI
    | some b' => simpa using ih { b := b', model := fit kw b'.e } (bisectStep_inv q tol _ s.b b' hI hst)

theorem searchLoop_nIter_le (fit : κ → α → μ) (ratio : μ → α) (kw : κ) (q tol : α) (fuel : Nat)
    (s : SState α μ) :
    s.b.nIter ≤ (searchLoop fit ratio kw q tol fuel s).1.b.nIter ∧
    (searchLoop fit ratio kw q tol fuel s).1.b.nIter ≤ s.b.nIter + fuel := by
  induction fuel generalizing s with
  | zero => simp [searchLoop]
  | succ fuel ih =>
    unfold searchLoop
    cases hst : bisectStep q tol (ratio s.model) s.b with
    | none => simp
    | some b' =>
      have hn := (bisectStep_some q tol _ s.b b' hst).2.1
      have := ih { b := b', model := fit kw b'.e }
      simp only at this ⊢
      omega

theorem searchLoop_post (fit : κ → α → μ) (ratio : μ → α) (kw : κ) (q tol : α) (fuel : Nat)
    (s : SState α μ) :
    ((searchLoop fit ratio kw q tol fuel s).2 = true →
        withinTol (ratio (searchLoop fit ratio kw q tol fuel s).1.model) q tol = true) ∧
    ((searchLoop fit ratio kw q tol fuel s).2 = false →
        (searchLoop fit ratio kw q tol fuel s).1.b.nIter = s.b.nIter + fuel) := by
  induction fuel generalizing s with
  | zero => simp [searchLoop]
  | succ fuel ih =>
    unfold searchLoop
    cases hst : bisectStep q tol (ratio s.model) s.b with
    | none =>
      simp only
      exact ⟨fun _ => bisectStep_none q tol _ s.b hst, fun h => absurd h (by simp)⟩
    | some b' =>
      have hn := (bisectStep_some q tol _ s.b b' hst).2.1
      have := ih { b := b', model := fit kw b'.e }
      simp only at this ⊢
      refine ⟨this.1, fun h => ?_⟩
      rw [this.2 h, hn]; omega

/-- provenance of the current model: untouched while no step was taken, afterwards the fit with the forwarded
keywords `kw` at the current expectile -/
theorem searchLoop_model (fit : κ → α → μ) (ratio : μ → α) (kw : κ) (q tol : α) (fuel : Nat)
    (s : SState α μ) :
    ((searchLoop fit ratio kw q tol fuel s).1.b.nIter = s.b.nIter ∧
        (searchLoop fit ratio kw q tol fuel s).1 = s) ∨
    (s.b.nIter < (searchLoop fit ratio kw q tol fuel s).1.b.nIter ∧
        (searchLoop fit ratio kw q tol fuel s).1.model
          = fit kw (searchLoop fit ratio kw q tol fuel s).1.b.e) := by
  induction fuel generalizing s with
  | zero => left; simp [searchLoop]
  | succ fuel ih =>
    unfold searchLoop
    cases hst : bisectStep q tol (ratio s.model) s.b with
    | none => left; simp
    | some b' =>
      right
      have hn := (bisectStep_some q tol _ s.b b' hst).2.1
      have hle := (searchLoop_nIter_le fit ratio kw q tol fuel { b := b', model := fit kw b'.e }).1
      simp only at hle ⊢
      refine ⟨by omega, ?_⟩
      rcases ih { b := b', model := fit kw b'.e } with h | h
      · rw [h.2]
      · exact h.2

theorem searchTrace_length (fit : κ → α → μ) (ratio : μ → α) (kw : κ) (q tol : α) (fuel : Nat)
    (s : SState α μ) :
    s.b.nIter + (searchTrace fit ratio kw q tol fuel s).length
      = (searchLoop fit ratio kw q tol fuel s).1.b.nIter := by
  induction fuel generalizing s with
  | zero => simp [searchTrace, searchLoop]
  | succ fuel ih =>
    unfold searchTrace searchLoop
    cases hst : bisectStep q tol (ratio s.model) s.b with
    | none => simp
    | some b' =>
      have hn := (bisectStep_some q tol _ s.b b' hst).2.1
      have := ih { b := b', model := fit kw b'.e }
      simp only [List.length_cons] at this ⊢
      omega

/-- every re-fit of the search is the fit with the forwarded keywords at an expectile strictly inside `(0,1)` -/
theorem searchTrace_mem (fit : κ → α → μ) (ratio : μ → α) (kw : κ) (q tol : α) (fuel : Nat)
    (s : SState α μ) (hI : Inv s.b) :
    ∀ em ∈ searchTrace fit ratio kw q tol fuel s, em.2 = fit kw em.1 ∧ 0 < em.1 ∧ em.1 < 1 := by
  induction fuel generalizing s with
  | zero => simp [searchTrace]
  | succ fuel ih =>
    unfold searchTrace
    cases hst : bisectStep q tol (ratio s.model) s.b with
    | none => simp
    | some b' =>
      have hI' := bisectStep_inv q tol _ s.b b' hI hst
      intro em hem
      simp only [List.mem_cons] at hem
      rcases hem with rfl | hem
      · exact ⟨rfl, lt_of_le_of_lt hI'.1 hI'.2.1, lt_of_lt_of_le hI'.2.2.1 hI'.2.2.2⟩
      · exact ih { b := b', model := fit kw b'.e } hI' em hem

end PyGam.Expectile
