import PyGam.Proofs.SplineShapeRows
import Mathlib.Analysis.Calculus.MeanValue
import Mathlib.Analysis.Convex.Slope
/-!
Convex coefficients give a convex spline (C05, function level), over `ℝ`.

* `convexOn_of_rightDeriv_mono` : a continuous function on a convex set of reals whose right derivative
  exists and is non-decreasing is convex (mean value inequality with right derivatives + adjacent slopes);
  no differentiability at the knots is needed.
* `deBoorH_uniform_hasDerivAt` : on uniform knots (step `h`) every polynomial piece of the Cox–de Boor
  recursion satisfies `d/dx B^{q+1}_j = (B^q_j - B^q_{j+1}) / h`.
* the pieces on the augmented knots of the code (last knot pushed out by `ε`) are those of the uniform knots
  for all functions and cells that are read inside `[0,1]`;
* the right derivative of `Σ c_j B^p_j` on `[0,1)` is the order `p-1` spline of the first differences
  `(c_{j+1} - c_j)/h`, which is non-decreasing by `spline_mono` when the second differences are `≥ 0`;
* `splineVal_convexOn_Icc`, `splineVal_convexOn_univ`.
-/
open Finset Set
namespace PyGam

/-! ### a convexity criterion with right derivatives -/

/-- continuous on a convex set `D ⊆ ℝ`, right derivative `g` at every point of `D` that is not its maximum,
`g` non-decreasing there ⇒ convex on `D` -/
theorem convexOn_of_rightDeriv_mono {D : Set ℝ} (hD : Convex ℝ D) {f g : ℝ → ℝ}
    (hc : ContinuousOn f D)
    (hd : ∀ x ∈ D, ∀ z ∈ D, x < z → HasDerivWithinAt f (g x) (Ici x) x)
    (hg : ∀ x ∈ D, ∀ y ∈ D, ∀ z ∈ D, x ≤ y → y < z → g x ≤ g y) : ConvexOn ℝ D f := by
  apply convexOn_of_slope_mono_adjacent hD
  intro x y z hx hz hxy hyz
  have hy : y ∈ D := hD.ordConnected.out hx hz ⟨hxy.le, hyz.le⟩
  have hxyD : Icc x y ⊆ D := hD.ordConnected.out hx hy
  have hyzD : Icc y z ⊆ D := hD.ordConnected.out hy hz
  have hlin : ∀ (a b w : ℝ), HasDerivWithinAt (fun v : ℝ => a + g y * (v - b)) (g y) (Ici w) w := by
    intro a b w
    have := (((hasDerivAt_id' w).sub_const b).const_mul (g y)).const_add a
    exact (this.congr_deriv (by ring)).hasDerivWithinAt
  have h1 : f y ≤ f x + g y * (y - x) := by
    have := image_le_of_deriv_right_le_deriv_boundary (f := f) (f' := g) (a := x) (b := y)
      (hc.mono hxyD) (fun w hw => hd w (hxyD ⟨hw.1, hw.2.le⟩) z hz (lt_trans hw.2 hyz))
      (B := fun w => f x + g y * (w - x)) (B' := fun _ => g y) (by simp) (by fun_prop)
      (fun w _ => hlin (f x) x w)
      (fun w hw => hg w (hxyD ⟨hw.1, hw.2.le⟩) y hy z hz hw.2.le hyz)
    exact this ⟨hxy.le, le_rfl⟩
  have h2 : f y + g y * (z - y) ≤ f z := by
    have := image_le_of_deriv_right_le_deriv_boundary (f := fun w => f y + g y * (w - y))
      (f' := fun _ => g y) (a := y) (b := z) (by fun_prop) (fun w _ => hlin (f y) y w)
      (B := f) (B' := g) (by simp) (hc.mono hyzD)
      (fun w hw => hd w (hyzD ⟨hw.1, hw.2.le⟩) z hz hw.2)
      (fun w hw => hg y hy w (hyzD ⟨hw.1, hw.2.le⟩) z hz hw.1 hw.2)
    exact this ⟨hyz.le, le_rfl⟩
  have a1 : (f y - f x) / (y - x) ≤ g y := by
    rw [div_le_iff₀ (sub_pos.2 hxy)]; linarith
  have a2 : g y ≤ (f z - f y) / (z - y) := by
    rw [le_div_iff₀ (sub_pos.2 hyz)]; linarith
  exact le_trans a1 a2

/-! ### the derivative identity on uniform knots -/

/-- on uniform knots `t_j = a + j h` the polynomial pieces of the Cox–de Boor recursion (any order-0 row `H`)
satisfy `d/dx B^{q+1}_j = (B^q_j - B^q_{j+1}) / h` -/
theorem deBoorH_uniform_hasDerivAt (t H : Nat → ℝ) (a h : ℝ) (hh : h ≠ 0)
    (hu : ∀ j, t j = a + (j : ℝ) * h) :
    ∀ q j x, HasDerivAt (fun y => deBoorH t H (q+1) j y)
      ((deBoorH t H q j x - deBoorH t H q (j+1) x) / h) x := by
  have hdiff : ∀ j k, t (j + k) - t j = (k : ℝ) * h := by
    intro j k; rw [hu, hu]; push_cast; ring
  intro q
  induction q with
  | zero =>
    intro j x
    have h1 := ((((hasDerivAt_id' x).sub_const (t j)).div_const (t (j+0+1) - t j)).mul_const (H j)).add
      ((((hasDerivAt_id' x).const_sub (t (j+0+2))).div_const (t (j+0+2) - t (j+1))).mul_const (H (j+1)))
    refine h1.congr_deriv ?_
    have e1 : t (j+0+1) - t j = h := by have := hdiff j 1; simpa using this
    have e2 : t (j+0+2) - t (j+1) = h := by
      have := hdiff (j+1) 1; simpa [show j + 1 + 1 = j + 0 + 2 by omega] using this
    rw [e1, e2]; simp only [deBoorH]; field_simp; ring
  | succ q ih =>
    intro j x
    have h1 := ((((hasDerivAt_id' x).sub_const (t j)).div_const (t (j+(q+1)+1) - t j)).mul (ih j x)).add
      ((((hasDerivAt_id' x).const_sub (t (j+(q+1)+2))).div_const
        (t (j+(q+1)+2) - t (j+1))).mul (ih (j+1) x))
    refine h1.congr_deriv ?_
    have hq1 : (q:ℝ) + 1 ≠ 0 := by positivity
    have hq2 : (q:ℝ) + 2 ≠ 0 := by positivity
    have d1 : t (j+(q+1)+1) - t j = ((q:ℝ)+2) * h := by rw [hu, hu]; push_cast; ring
    have d2 : t (j+(q+1)+2) - t (j+1) = ((q:ℝ)+2) * h := by rw [hu, hu]; push_cast; ring
    have d3 : t (j+q+1) - t j = ((q:ℝ)+1) * h := by rw [hu, hu]; push_cast; ring
    have d4 : t (j+q+2) - t (j+1) = ((q:ℝ)+1) * h := by rw [hu, hu]; push_cast; ring
    have d5 : t (j+1+q+1) - t (j+1) = ((q:ℝ)+1) * h := by rw [hu, hu]; push_cast; ring
    have d6 : t (j+1+q+2) - t (j+1+1) = ((q:ℝ)+1) * h := by rw [hu, hu]; push_cast; ring
    simp only [deBoorH]
    rw [d1, d2, d3, d4, d5, d6]
    generalize deBoorH t H q j x = A
    generalize deBoorH t H q (j+1) x = B
    generalize deBoorH t H q (j+1+1) x = C
    simp only [hu]; push_cast
    field_simp
    ring

/-! ### pieces, cells -/

/-- inside a half-open knot cell the B-spline is the polynomial piece of that cell -/
theorem bspl_eq_piece (t : Nat → ℝ) (ht : StrictMono t) (k q j : Nat) (y : ℝ)
    (h1 : t k ≤ y) (h2 : y < t (k+1)) : bspl t q j y = deBoorH t (indRow k) q j y := by
  unfold bspl; rw [haar_eq_ind t ht k y h1 h2]

/-- order ≥ 1: also at the right end of the cell (continuity at the knot) -/
theorem bspl_eq_piece_closed (t : Nat → ℝ) (ht : StrictMono t) (k q j : Nat) (y : ℝ)
    (h1 : t k ≤ y) (h2 : y ≤ t (k+1)) : bspl t (q+1) j y = deBoorH t (indRow k) (q+1) j y := by
  rcases lt_or_eq_of_le h2 with h | h
  · exact bspl_eq_piece t ht k (q+1) j y h1 h
  · subst h
    rw [bspl_eq_piece t ht (k+1) (q+1) j (t (k+1)) le_rfl (ht (by omega))]
    exact (deBoorH_knot_continuity t ht k q j).symm

theorem exists_cell (t : Nat → ℝ) (ht : StrictMono t) (a : Nat) (x : ℝ) :
    ∀ b, t a ≤ x → x < t b → ∃ k, a ≤ k ∧ k < b ∧ t k ≤ x ∧ x < t (k+1) := by
  intro b
  induction b with
  | zero =>
    intro h1 h2
    have := ht.lt_iff_lt.mp (lt_of_le_of_lt h1 h2); omega
  | succ b ih =>
    intro h1 h2
    by_cases hx : x < t b
    · obtain ⟨k, ha, hb, hk⟩ := ih h1 hx
      exact ⟨k, ha, by omega, hk⟩
    · have := ht.lt_iff_lt.mp (lt_of_le_of_lt h1 h2)
      exact ⟨b, by omega, by omega, not_lt.mp hx, h2⟩

/-- first differences, index-shifted: `e_0 = e_1 = c_1 - c_0`, `e_j = c_j - c_{j-1}` -/
def firstDiff (c : Nat → ℝ) : Nat → ℝ := fun j => if j = 0 then c 1 - c 0 else c j - c (j-1)

theorem firstDiff_succ (c : Nat → ℝ) (j : Nat) : firstDiff c (j+1) = c (j+1) - c j := by
  simp [firstDiff]

theorem firstDiff_mono (c : Nat → ℝ) (N : Nat)
    (hc : ∀ j, j + 2 < N → c (j+1) - c j ≤ c (j+2) - c (j+1)) :
    ∀ j, j + 1 < N → firstDiff c j ≤ firstDiff c (j+1) := by
  intro j hj
  cases j with
  | zero => simp [firstDiff]
  | succ i => rw [firstDiff_succ, firstDiff_succ]; exact hc i (by omega)

/-- summation by parts against a row that vanishes at both ends -/
theorem sum_diff_by_parts (c B : Nat → ℝ) (N : Nat) (hN : 0 < N) (h0 : B 0 = 0) (hBN : B N = 0) :
    ∑ j ∈ range N, c j * (B j - B (j+1)) = ∑ j ∈ range N, firstDiff c j * B j := by
  obtain ⟨M, rfl⟩ : ∃ M, N = M + 1 := ⟨N - 1, by omega⟩
  have h := sum_by_parts c B h0 M
  rw [hBN, mul_zero, zero_sub] at h
  rw [sum_range_succ' (fun j => firstDiff c j * B j), h0, mul_zero, add_zero]
  simp only [firstDiff_succ]
  have : ∑ j ∈ range (M+1), c j * (B j - B (j+1)) = - ∑ j ∈ range (M+1), c j * (B (j+1) - B j) := by
    rw [← sum_neg_distrib]; apply sum_congr rfl; intro j _; ring
  rw [this, h, neg_neg]

/-! ### the augmented knots of the code -/
section aug
variable (N p : Nat) (ε : ℝ)

theorem augKnot_zero_uniform (j : Nat) :
    augKnot N p (0:ℝ) j = (-(p:ℝ) * (1 / ((N:ℝ) - (p:ℝ)))) + (j:ℝ) * (1 / ((N:ℝ) - (p:ℝ))) := by
  simp only [augKnot]; split <;> ring

theorem augKnot_eq_zero_of_lt (j : Nat) (hj : j < N + p) : augKnot N p ε j = augKnot N p 0 j := by
  simp only [augKnot, if_neg (not_le.mpr hj)]

/-- the perturbed last knot is never read with a non-zero factor by the functions `j + q ≤ N + p - 1`,
`q ≤ p`, on the cells `k < N`: the pieces are those of the uniform knots -/
theorem deBoorH_aug_eq_uniform (k : Nat) (hk : k < N) (x : ℝ) :
    ∀ q j, q ≤ p → j + q + 1 ≤ N + p →
      deBoorH (augKnot N p ε) (indRow k) q j x = deBoorH (augKnot N p 0) (indRow k) q j x := by
  intro q
  induction q with
  | zero => intro j _ _; rfl
  | succ q ih =>
    intro j hq hj
    simp only [deBoorH]
    rw [ih j (by omega) (by omega), ih (j+1) (by omega) (by omega),
      augKnot_eq_zero_of_lt N p ε j (by omega), augKnot_eq_zero_of_lt N p ε (j+q+1) (by omega),
      augKnot_eq_zero_of_lt N p ε (j+1) (by omega)]
    by_cases hl : j + q + 2 < N + p
    · rw [augKnot_eq_zero_of_lt N p ε (j+q+2) hl]
    · have hz : deBoorH (augKnot N p (0:ℝ)) (indRow k) q (j+1) x = 0 := by
        by_contra hne
        have := deBoorH_band (augKnot N p (0:ℝ)) k x q (j+1) hne
        omega
      rw [hz]; simp

end aug

/-! ### the fitted function inside the knot range -/
section inside
variable (N : Nat) (ε : ℝ)

/-- polynomial piece of the fitted function on the cell `k` -/
noncomputable def pieceVal (p : Nat) (c : Nat → ℝ) (k : Nat) (y : ℝ) : ℝ :=
  ∑ j ∈ range N, c j * deBoorH (augKnot N p ε) (indRow k) p j y

/-- the right derivative of the fitted function on `[0,1)`: the order `p-1` spline of the first
differences over the knot step `h = 1/(N-p)` -/
noncomputable def rightSlope (p : Nat) (c : Nat → ℝ) (x : ℝ) : ℝ :=
  ((N:ℝ) - (p:ℝ)) * ∑ j ∈ range N, firstDiff c j * bspl (augKnot N p ε) (p-1) j x

theorem splineVal_eq_piece (q : Nat) (hNp : q + 1 < N) (hε : 0 ≤ ε) (c : Nat → ℝ) (k : Nat)
    (hqk : q + 1 ≤ k) (hkN : k < N) (y : ℝ)
    (h1 : augKnot N (q+1) ε k ≤ y) (h2 : y ≤ augKnot N (q+1) ε (k+1)) :
    splineVal N (q+1) ε c y = pieceVal N ε (q+1) c k y := by
  have ht := augKnot_strictMono N (q+1) ε hNp hε
  have y0 : 0 ≤ y := by
    have := ht.monotone hqk
    rw [augKnot_at_p N (q+1) ε (by omega)] at this; linarith
  have y1 : y ≤ 1 := by
    have := ht.monotone (show k + 1 ≤ N by omega)
    rw [augKnot_at_N N (q+1) ε hNp (by omega)] at this; linarith
  unfold splineVal pieceVal
  rw [openRow_inner N (q+1) ε y y0 y1]
  apply sum_congr rfl; intro j _
  simp only [innerRow]
  rw [bspl_eq_piece_closed _ ht k q j y h1 h2]

theorem pieceVal_hasDerivAt (q : Nat) (hNp : q + 1 < N) (c : Nat → ℝ) (k : Nat) (hk : k < N) (x : ℝ) :
    HasDerivAt (pieceVal N ε (q+1) c k)
      (∑ j ∈ range N, c j * ((deBoorH (augKnot N (q+1) ε) (indRow k) q j x
          - deBoorH (augKnot N (q+1) ε) (indRow k) q (j+1) x) / (1 / ((N:ℝ) - ((q+1 : Nat) : ℝ))))) x := by
  have hh : (1 / ((N:ℝ) - ((q+1 : Nat) : ℝ))) ≠ 0 := (augKnot_h_pos (α := ℝ) N (q+1) hNp).ne'
  have hfun : pieceVal N ε (q+1) c k
      = fun y => ∑ j ∈ range N, c j * deBoorH (augKnot N (q+1) (0:ℝ)) (indRow k) (q+1) j y := by
    funext y; unfold pieceVal; apply sum_congr rfl; intro j hj
    rw [deBoorH_aug_eq_uniform N (q+1) ε k hk y (q+1) j le_rfl (by have := mem_range.mp hj; omega)]
  rw [hfun]
  have := HasDerivAt.fun_sum (u := range N)
    (A := fun j y => c j * deBoorH (augKnot N (q+1) (0:ℝ)) (indRow k) (q+1) j y)
    (fun j _ => (deBoorH_uniform_hasDerivAt (augKnot N (q+1) (0:ℝ)) (indRow k) _ _ hh
      (augKnot_zero_uniform N (q+1)) q j x).const_mul (c j))
  refine this.congr_deriv ?_
  apply sum_congr rfl; intro j hj
  have hj' := mem_range.mp hj
  rw [deBoorH_aug_eq_uniform N (q+1) ε k hk x q j (by omega) (by omega),
    deBoorH_aug_eq_uniform N (q+1) ε k hk x q (j+1) (by omega) (by omega)]

/-- the value of the derivative of the piece of cell `k ≥ p` is the order `p-1` spline of the first differences -/
theorem piece_slope_eq (q : Nat) (c : Nat → ℝ) (k : Nat)
    (hqk : q + 1 ≤ k) (hkN : k < N) (x : ℝ) :
    ∑ j ∈ range N, c j * ((deBoorH (augKnot N (q+1) ε) (indRow k) q j x
          - deBoorH (augKnot N (q+1) ε) (indRow k) q (j+1) x) / (1 / ((N:ℝ) - ((q+1 : Nat) : ℝ))))
      = ((N:ℝ) - ((q+1 : Nat) : ℝ))
          * ∑ j ∈ range N, firstDiff c j * deBoorH (augKnot N (q+1) ε) (indRow k) q j x := by
  have h0 : deBoorH (augKnot N (q+1) ε) (indRow k) q 0 x = 0 := by
    by_contra hne; have := deBoorH_band (augKnot N (q+1) ε) k x q 0 hne; omega
  have hN : deBoorH (augKnot N (q+1) ε) (indRow k) q N x = 0 := by
    by_contra hne; have := deBoorH_band (augKnot N (q+1) ε) k x q N hne; omega
  rw [← sum_diff_by_parts c (fun j => deBoorH (augKnot N (q+1) ε) (indRow k) q j x) N (by omega) h0 hN,
    mul_sum]
  apply sum_congr rfl; intro j _
  rw [div_div_eq_mul_div, div_one]; ring

/-- right derivative at every point of `[0,1)`, knots included -/
theorem splineVal_hasDerivWithinAt (q : Nat) (hNp : q + 1 < N) (hε : 0 ≤ ε) (c : Nat → ℝ) (x : ℝ)
    (h0 : 0 ≤ x) (h1 : x < 1) :
    HasDerivWithinAt (splineVal N (q+1) ε c) (rightSlope N ε (q+1) c x) (Ici x) x := by
  have ht := augKnot_strictMono N (q+1) ε hNp hε
  obtain ⟨k, hqk, hkN, hk1, hk2⟩ := exists_cell _ ht (q+1) x N
    (by rw [augKnot_at_p N (q+1) ε (by omega)]; exact h0)
    (by rw [augKnot_at_N N (q+1) ε hNp (by omega)]; exact h1)
  have hP := (pieceVal_hasDerivAt N ε q hNp c k hkN x).hasDerivWithinAt (s := Ici x)
  have hE : splineVal N (q+1) ε c =ᶠ[nhdsWithin x (Ici x)] pieceVal N ε (q+1) c k := by
    filter_upwards [Ico_mem_nhdsGE hk2] with y hy
    exact splineVal_eq_piece N ε q hNp hε c k hqk hkN y (le_trans hk1 hy.1) hy.2.le
  refine (hP.congr_of_eventuallyEq hE
    (splineVal_eq_piece N ε q hNp hε c k hqk hkN x hk1 hk2.le)).congr_deriv ?_
  rw [piece_slope_eq N ε q c k hqk hkN x]
  unfold rightSlope
  congr 1
  apply sum_congr rfl; intro j _
  rw [Nat.add_sub_cancel, bspl_eq_piece _ ht k q j x hk1 hk2]

/-- second differences `≥ 0` ⇒ the right derivative is non-decreasing on `[0,1)` -/
theorem rightSlope_mono (q : Nat) (hNp : q + 1 < N) (hε : 0 ≤ ε) (c : Nat → ℝ)
    (hc : ∀ j, j + 2 < N → c (j+1) - c j ≤ c (j+2) - c (j+1)) (x y : ℝ)
    (h0 : 0 ≤ x) (hxy : x ≤ y) (h1 : y < 1) :
    rightSlope N ε (q+1) c x ≤ rightSlope N ε (q+1) c y := by
  have ht := augKnot_strictMono N (q+1) ε hNp hε
  have hp0 : augKnot N (q+1) ε (q+1) = 0 := augKnot_at_p N (q+1) ε (by omega)
  have hN1 : augKnot N (q+1) ε N = 1 := augKnot_at_N N (q+1) ε hNp (by omega)
  have hq0 : augKnot N (q+1) ε q ≤ 0 := by rw [← hp0]; exact ht.monotone (by omega)
  have hpos : (0:ℝ) ≤ (N:ℝ) - ((q+1 : Nat) : ℝ) := by
    have : ((q+1 : Nat) : ℝ) < (N:ℝ) := by exact_mod_cast hNp
    linarith
  unfold rightSlope
  apply mul_le_mul_of_nonneg_left _ hpos
  rw [Nat.add_sub_cancel]
  apply spline_mono _ ht q N (firstDiff c) (firstDiff_mono c N hc) x y (by linarith) hxy
  · exact bspl_partition _ ht q N x (by linarith) (by rw [hN1]; linarith)
  · exact bspl_partition _ ht q N y (by linarith) (by rw [hN1]; exact h1)

/-- order ≥ 1: the fitted function is continuous on the closed knot range -/
theorem splineVal_continuousOn (q : Nat) (hNp : q + 1 < N) (hε : 0 ≤ ε) (c : Nat → ℝ) :
    ContinuousOn (splineVal N (q+1) ε c) (Icc 0 1) := by
  have ht := augKnot_strictMono N (q+1) ε hNp hε
  have hcell : ∀ k, q + 1 ≤ k → k < N →
      ContinuousOn (splineVal N (q+1) ε c) (Icc (augKnot N (q+1) ε k) (augKnot N (q+1) ε (k+1))) := by
    intro k hqk hkN
    have hc : ContinuousOn (pieceVal N ε (q+1) c k)
        (Icc (augKnot N (q+1) ε k) (augKnot N (q+1) ε (k+1))) :=
      fun y _ => (pieceVal_hasDerivAt N ε q hNp c k hkN y).continuousAt.continuousWithinAt
    exact hc.congr (fun y hy => splineVal_eq_piece N ε q hNp hε c k hqk hkN y hy.1 hy.2)
  have hglue : ∀ m, q + 1 + m ≤ N →
      ContinuousOn (splineVal N (q+1) ε c) (Icc (augKnot N (q+1) ε (q+1)) (augKnot N (q+1) ε (q+1+m))) := by
    intro m
    induction m with
    | zero => intro _; rw [Nat.add_zero, Set.Icc_self]; exact continuousOn_singleton _ _
    | succ m ih =>
      intro hm
      rw [← Icc_union_Icc_eq_Icc (ht.monotone (show q + 1 ≤ q + 1 + m by omega))
        (ht.monotone (show q + 1 + m ≤ q + 1 + (m+1) by omega))]
      exact (ih (by omega)).union_of_isClosed (hcell (q+1+m) (by omega) (by omega)) isClosed_Icc isClosed_Icc
  have := hglue (N - (q+1)) (by omega)
  rw [show q + 1 + (N - (q+1)) = N by omega, augKnot_at_p N (q+1) ε (by omega),
    augKnot_at_N N (q+1) ε hNp (by omega)] at this
  exact this

/-- **convex inside the knot range**: order `p ≥ 1`, second differences of the coefficients `≥ 0` ⇒ the fitted
function is convex on `[0,1]` (rescaled coordinates) -/
theorem splineVal_convexOn_Icc (p : Nat) (hNp : p < N) (hp : 0 < p) (hε : 0 ≤ ε) (c : Nat → ℝ)
    (hc : ∀ j, j + 2 < N → c (j+1) - c j ≤ c (j+2) - c (j+1)) :
    ConvexOn ℝ (Icc 0 1) (splineVal N p ε c) := by
  obtain ⟨q, rfl⟩ : ∃ q, p = q + 1 := ⟨p - 1, by omega⟩
  apply convexOn_of_rightDeriv_mono (convex_Icc 0 1) (g := rightSlope N ε (q+1) c)
    (splineVal_continuousOn N ε q hNp hε c)
  · intro x hx z hz hxz
    exact splineVal_hasDerivWithinAt N ε q hNp hε c x hx.1 (lt_of_lt_of_le hxz hz.2)
  · intro x hx y _ z hz hxy hyz
    exact rightSlope_mono N ε q hNp hε c hc x y hx.1 hxy (lt_of_lt_of_le hyz hz.2)

end inside

/-! ### the linear continuations: the fitted function on the whole real line -/
section outside
variable (N : Nat) (ε : ℝ)

theorem deBoorH_continuous (t H : Nat → ℝ) : ∀ q j, Continuous (fun y : ℝ => deBoorH t H q j y) := by
  intro q
  induction q with
  | zero => intro j; exact continuous_const
  | succ q ih =>
    intro j
    exact (((continuous_id.sub continuous_const).div_const _).mul (ih j)).add
      (((continuous_const.sub continuous_id).div_const _).mul (ih (j+1)))

/-- slopes of the two continuations -/
noncomputable def slope0 (p : Nat) (c : Nat → ℝ) : ℝ := ∑ j ∈ range N, c j * gradOf N p ε (prev0 N p ε) j
noncomputable def slope1 (p : Nat) (c : Nat → ℝ) : ℝ := ∑ j ∈ range N, c j * gradOf N p ε (prev1 N p ε) j

theorem splineVal_left (p : Nat) (hp : 0 < p) (c : Nat → ℝ) (z : ℝ) (hz : z ≤ 0) :
    splineVal N p ε c z = slope0 N ε p c * z + splineVal N p ε c 0 := by
  rcases lt_or_eq_of_le hz with hz | rfl
  · have e0 : openRow N p ε (0:ℝ) = row0 N p ε := by
      rw [openRow_inner N p ε 0 le_rfl zero_le_one]; rfl
    simp only [splineVal, e0, slope0]
    unfold openRow; rw [if_pos ⟨hz, hp⟩]
    rw [sum_mul, ← sum_add_distrib]; apply sum_congr rfl; intro j _; ring
  · ring

theorem splineVal_right (p : Nat) (hNp : p < N) (hp : 0 < p) (hε : 0 ≤ ε) (c : Nat → ℝ) (z : ℝ)
    (hz : 1 ≤ z) : splineVal N p ε c z = slope1 N ε p c * (z - 1) + splineVal N p ε c 1 := by
  rcases lt_or_eq_of_le hz with hz | rfl
  · have e1 : openRow N p ε (1:ℝ) = row1 N p ε := by
      rw [openRow_inner N p ε 1 zero_le_one le_rfl, row1_eq_inner N p ε hNp hp hε]
    have hn : ¬ (z < 0 ∧ 0 < p) := fun h => by linarith [h.1]
    simp only [splineVal, e1, slope1]
    unfold openRow; rw [if_neg hn, if_pos ⟨hz, hp⟩]
    rw [sum_mul, ← sum_add_distrib]; apply sum_congr rfl; intro j _; ring
  · ring

theorem augKnot_diff (p j k : Nat) (h : j + k < N + p) :
    augKnot N p ε (j+k) - augKnot N p ε j = (k:ℝ) * (1 / ((N:ℝ) - (p:ℝ))) := by
  rw [augKnot_eq_zero_of_lt N p ε (j+k) h, augKnot_eq_zero_of_lt N p ε j (by omega),
    augKnot_zero_uniform, augKnot_zero_uniform]
  push_cast; ring

/-- with the uniform knots the boundary gradient of function `j` is `(prev_j - prev_{j+1}) / h` -/
theorem gradOf_eq (p : Nat) (hNp : p < N) (hp : 0 < p) (prev : Nat → ℝ) (hN : prev N = 0) (j : Nat)
    (hj : j < N) :
    gradOf N p ε prev j = ((N:ℝ) - (p:ℝ)) * (prev j - prev (j+1)) := by
  have hpos : (0:ℝ) < (N:ℝ) - (p:ℝ) := by
    have : (p:ℝ) < (N:ℝ) := by exact_mod_cast hNp
    linarith
  have hp' : (p:ℝ) ≠ 0 := by exact_mod_cast hp.ne'
  simp only [gradOf]
  rw [augKnot_diff N ε p j p (by omega)]
  by_cases hl : j + 1 < N
  · rw [show j + p + 1 = (j+1) + p by omega, augKnot_diff N ε p (j+1) p (by omega)]
    field_simp
  · have : j + 1 = N := by omega
    rw [this, hN]; field_simp; ring

theorem slope_eq_firstDiff (p : Nat) (hNp : p < N) (hp : 0 < p) (c prev : Nat → ℝ)
    (h0 : prev 0 = 0) (hN : prev N = 0) :
    ∑ j ∈ range N, c j * gradOf N p ε prev j
      = ((N:ℝ) - (p:ℝ)) * ∑ j ∈ range N, firstDiff c j * prev j := by
  rw [← sum_diff_by_parts c prev N (by omega) h0 hN, mul_sum]
  apply sum_congr rfl; intro j hj
  rw [gradOf_eq N ε p hNp hp prev hN j (mem_range.mp hj)]; ring

/-- the left continuation is the tangent at `0` -/
theorem slope0_eq (q : Nat) (hNp : q + 1 < N) (hε : 0 ≤ ε) (c : Nat → ℝ) :
    slope0 N ε (q+1) c = rightSlope N ε (q+1) c 0 := by
  unfold slope0 rightSlope
  rw [slope_eq_firstDiff N ε (q+1) hNp (by omega) c _ (prev0_zero N (q+1) ε hNp (by omega) hε)
    (prev0_N N (q+1) ε hNp (by omega) hε)]
  rfl

/-- the right continuation is at least as steep as the function anywhere inside -/
theorem rightSlope_le_slope1 (q : Nat) (hNp : q + 1 < N) (hε : 0 ≤ ε) (c : Nat → ℝ)
    (hc : ∀ j, j + 2 < N → c (j+1) - c j ≤ c (j+2) - c (j+1)) (x : ℝ) (h0 : 0 ≤ x) (h1 : x < 1) :
    rightSlope N ε (q+1) c x ≤ slope1 N ε (q+1) c := by
  have ht := augKnot_strictMono N (q+1) ε hNp hε
  have hN1 : augKnot N (q+1) ε N = 1 := augKnot_at_N N (q+1) ε hNp (by omega)
  have hN1' : augKnot N (q+1) ε (N - 1 + 1) = 1 := by rw [show N - 1 + 1 = N by omega]; exact hN1
  have hlast : augKnot N (q+1) ε (N-1) < 1 := by rw [← hN1]; exact ht (by omega)
  -- the polynomial of the last cell
  set G : ℝ → ℝ := fun y => ((N:ℝ) - ((q+1 : Nat):ℝ))
    * ∑ j ∈ range N, firstDiff c j * deBoorH (augKnot N (q+1) ε) (indRow (N-1)) q j y with hG
  have hGc : Continuous G :=
    continuous_const.mul (continuous_finsetSum _ (fun j _ => continuous_const.mul (deBoorH_continuous _ _ q j)))
  have hG1 : slope1 N ε (q+1) c = G 1 := by
    unfold slope1
    rw [slope_eq_firstDiff N ε (q+1) hNp (by omega) c _ (prev1_zero N (q+1) ε hNp (by omega) hε)
      (prev1_N N (q+1) ε hNp hε)]
    simp only [hG, prev1, haarMirror_eq N (q+1) ε hNp hε, Nat.add_sub_cancel]
  have hGr : ∀ y, augKnot N (q+1) ε (N-1) ≤ y → y < 1 → rightSlope N ε (q+1) c y = G y := by
    intro y hy1 hy2
    simp only [hG, rightSlope, Nat.add_sub_cancel]
    congr 1; apply sum_congr rfl; intro j _
    rw [bspl_eq_piece _ ht (N-1) q j y hy1 (by rw [hN1']; exact hy2)]
  rw [hG1]
  set x' := max x (augKnot N (q+1) ε (N-1)) with hx'
  have hx'1 : x' < 1 := max_lt h1 hlast
  have hstep : rightSlope N ε (q+1) c x ≤ G x' := by
    rw [← hGr x' (le_max_right _ _) hx'1]
    exact rightSlope_mono N ε q hNp hε c hc x x' h0 (le_max_left _ _) hx'1
  refine le_trans hstep ?_
  have htend : Filter.Tendsto G (nhdsWithin 1 (Iio 1)) (nhds (G 1)) :=
    (hGc.continuousAt.tendsto).mono_left nhdsWithin_le_nhds
  apply ge_of_tendsto htend
  filter_upwards [Ioo_mem_nhdsLT hx'1] with y hy
  have hy0 : augKnot N (q+1) ε (N-1) ≤ y := le_trans (le_max_right _ _) hy.1.le
  rw [← hGr x' (le_max_right _ _) hx'1, ← hGr y hy0 hy.2]
  exact rightSlope_mono N ε q hNp hε c hc x' y (le_trans h0 (le_max_left _ _)) hy.1.le hy.2

/-- the right derivative on the whole line -/
noncomputable def rightSlopeAll (p : Nat) (c : Nat → ℝ) (x : ℝ) : ℝ :=
  if x < 0 then slope0 N ε p c else if x < 1 then rightSlope N ε p c x else slope1 N ε p c

theorem splineVal_continuous (q : Nat) (hNp : q + 1 < N) (hε : 0 ≤ ε) (c : Nat → ℝ) :
    ContinuousOn (splineVal N (q+1) ε c) univ := by
  have hl : ContinuousOn (splineVal N (q+1) ε c) (Iic 0) := by
    have : ContinuousOn (fun z : ℝ => slope0 N ε (q+1) c * z + splineVal N (q+1) ε c 0) (Iic 0) := by
      fun_prop
    exact this.congr (fun z hz => splineVal_left N ε (q+1) (by omega) c z hz)
  have hr : ContinuousOn (splineVal N (q+1) ε c) (Ici 1) := by
    have : ContinuousOn (fun z : ℝ => slope1 N ε (q+1) c * (z - 1) + splineVal N (q+1) ε c 1) (Ici 1) := by
      fun_prop
    exact this.congr (fun z hz => splineVal_right N ε (q+1) hNp (by omega) hε c z hz)
  have hm := splineVal_continuousOn N ε q hNp hε c
  have := (hl.union_of_isClosed hm isClosed_Iic isClosed_Icc).union_of_isClosed hr
    (isClosed_Iic.union isClosed_Icc) isClosed_Ici
  refine this.mono ?_
  intro z _
  rcases le_total z 0 with h | h
  · exact Or.inl (Or.inl h)
  · rcases le_total z 1 with h' | h'
    · exact Or.inl (Or.inr ⟨h, h'⟩)
    · exact Or.inr h'

theorem splineVal_hasDerivWithinAt_all (q : Nat) (hNp : q + 1 < N) (hε : 0 ≤ ε) (c : Nat → ℝ) (x : ℝ) :
    HasDerivWithinAt (splineVal N (q+1) ε c) (rightSlopeAll N ε (q+1) c x) (Ici x) x := by
  have hlin : ∀ (a b m w : ℝ), HasDerivWithinAt (fun v : ℝ => m * (v - b) + a) m (Ici w) w := by
    intro a b m w
    have := (((hasDerivAt_id' w).sub_const b).const_mul m).add_const a
    exact (this.congr_deriv (by ring)).hasDerivWithinAt
  unfold rightSlopeAll
  by_cases hx0 : x < 0
  · rw [if_pos hx0]
    have hE : splineVal N (q+1) ε c =ᶠ[nhdsWithin x (Ici x)]
        fun v => slope0 N ε (q+1) c * (v - 0) + splineVal N (q+1) ε c 0 := by
      filter_upwards [Ico_mem_nhdsGE hx0] with y hy
      rw [sub_zero]; exact splineVal_left N ε (q+1) (by omega) c y hy.2.le
    refine (hlin _ 0 _ x).congr_of_eventuallyEq hE ?_
    rw [sub_zero]; exact splineVal_left N ε (q+1) (by omega) c x hx0.le
  · rw [if_neg hx0]
    by_cases hx1 : x < 1
    · rw [if_pos hx1]
      exact splineVal_hasDerivWithinAt N ε q hNp hε c x (not_lt.mp hx0) hx1
    · rw [if_neg hx1]
      exact (hlin _ 1 _ x).congr
        (fun y hy => splineVal_right N ε (q+1) hNp (by omega) hε c y (le_trans (not_lt.mp hx1) hy))
        (splineVal_right N ε (q+1) hNp (by omega) hε c x (not_lt.mp hx1))

theorem rightSlopeAll_mono (q : Nat) (hNp : q + 1 < N) (hε : 0 ≤ ε) (c : Nat → ℝ)
    (hc : ∀ j, j + 2 < N → c (j+1) - c j ≤ c (j+2) - c (j+1)) (x y : ℝ) (hxy : x ≤ y) :
    rightSlopeAll N ε (q+1) c x ≤ rightSlopeAll N ε (q+1) c y := by
  have h01 : slope0 N ε (q+1) c ≤ slope1 N ε (q+1) c := by
    rw [slope0_eq N ε q hNp hε c]
    exact rightSlope_le_slope1 N ε q hNp hε c hc 0 le_rfl zero_lt_one
  unfold rightSlopeAll
  by_cases hx0 : x < 0
  · rw [if_pos hx0]
    by_cases hy0 : y < 0
    · rw [if_pos hy0]
    · rw [if_neg hy0]
      by_cases hy1 : y < 1
      · rw [if_pos hy1, slope0_eq N ε q hNp hε c]
        exact rightSlope_mono N ε q hNp hε c hc 0 y le_rfl (not_lt.mp hy0) hy1
      · rw [if_neg hy1]; exact h01
  · have hy0 : ¬ y < 0 := fun h => hx0 (lt_of_le_of_lt hxy h)
    rw [if_neg hx0, if_neg hy0]
    by_cases hy1 : y < 1
    · have hx1 : x < 1 := lt_of_le_of_lt hxy hy1
      rw [if_pos hx1, if_pos hy1]
      exact rightSlope_mono N ε q hNp hε c hc x y (not_lt.mp hx0) hxy hy1
    · rw [if_neg hy1]
      by_cases hx1 : x < 1
      · rw [if_pos hx1]
        exact rightSlope_le_slope1 N ε q hNp hε c hc x (not_lt.mp hx0) hx1
      · rw [if_neg hx1]

/-- **convex on the whole real line**: order `p ≥ 1`, second differences of the coefficients `≥ 0` ⇒ the fitted
function with its two linear continuations is convex (the left continuation is the tangent at `0`, the right
one is at least as steep as any slope inside) -/
theorem splineVal_convexOn_univ (p : Nat) (hNp : p < N) (hp : 0 < p) (hε : 0 ≤ ε) (c : Nat → ℝ)
    (hc : ∀ j, j + 2 < N → c (j+1) - c j ≤ c (j+2) - c (j+1)) :
    ConvexOn ℝ univ (splineVal N p ε c) := by
  obtain ⟨q, rfl⟩ : ∃ q, p = q + 1 := ⟨p - 1, by omega⟩
  apply convexOn_of_rightDeriv_mono convex_univ (g := rightSlopeAll N ε (q+1) c)
    (splineVal_continuous N ε q hNp hε c)
  · intro x _ z _ _
    exact splineVal_hasDerivWithinAt_all N ε q hNp hε c x
  · intro x _ y _ z _ hxy _
    exact rightSlopeAll_mono N ε q hNp hε c hc x y hxy

end outside

/-! ### the rescaling of `b_spline_basis` is affine -/
section rescale

theorem scale_pos_real (cfg : BasisCfg ℝ) : 0 < cfg.scale := by
  have hl : cfg.lo ≤ cfg.hi := by
    simp only [BasisCfg.lo, BasisCfg.hi]; split <;> [exact le_of_lt ‹_›; exact not_lt.mp ‹_›]
  simp only [BasisCfg.scale]; split
  · exact zero_lt_one
  · rename_i hne; exact lt_of_le_of_ne (by linarith) (Ne.symm hne)

/-- the rescaling `x ↦ (x - lo) / scale` is affine … -/
theorem rescale_affine (cfg : BasisCfg ℝ) (x y a b : ℝ) (hab : a + b = 1) :
    cfg.rescale (a * x + b * y) = a * cfg.rescale x + b * cfg.rescale y := by
  have hb : b = 1 - a := by linarith
  subst hb; simp only [BasisCfg.rescale]; ring

/-- … and maps the term's domain `[lo, hi]` into the knot range `[0,1]` -/
theorem rescale_mem_unit (cfg : BasisCfg ℝ) (x : ℝ) (hx : x ∈ Set.Icc cfg.lo cfg.hi) :
    cfg.rescale x ∈ Set.Icc (0:ℝ) 1 := by
  have hs := scale_pos_real cfg
  simp only [BasisCfg.rescale]
  refine ⟨div_nonneg (by linarith [hx.1]) hs.le, ?_⟩
  rw [div_le_one hs]
  simp only [BasisCfg.scale]; split
  · rename_i h0; linarith [hx.2]
  · linarith [hx.2]

/-- convexity is kept under the (affine) rescaling -/
theorem convexOn_comp_rescale (cfg : BasisCfg ℝ) {f : ℝ → ℝ} {S : Set ℝ} (hf : ConvexOn ℝ S f) :
    ConvexOn ℝ (cfg.rescale ⁻¹' S) (fun x => f (cfg.rescale x)) := by
  refine ⟨?_, ?_⟩
  · intro x hx y hy a b ha hb hab
    simp only [Set.mem_preimage, smul_eq_mul] at hx hy ⊢
    rw [rescale_affine cfg x y a b hab]
    exact hf.1 hx hy ha hb hab
  · intro x hx y hy a b ha hb hab
    simp only [Set.mem_preimage, smul_eq_mul] at hx hy ⊢
    rw [rescale_affine cfg x y a b hab]
    exact hf.2 hx hy ha hb hab

end rescale

end PyGam
