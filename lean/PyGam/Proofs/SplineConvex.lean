import PyGam.Proofs.SplineShapeRows
import Mathlib.Analysis.Calculus.MeanValue
import Mathlib.Analysis.Convex.Slope
/-!
Convex coefficients give a convex spline (C05, function level), over `ℝ`.

* `convexOn_of_rightDeriv_mono` : a continuous function on a convex set of reals whose right derivative
  exists and is non-decreasing is convex (mean value inequality with right derivatives + adjacent slopes);
  no differentiability at the knots is needed.
* `deBoorH_uniform_hasDerivAt` : on uniform knots (step `h`) every polynomial piece of the Cox–de Boor
  recursion satisfies `d/dx B^{q+1}_j = (B^q_j - B^q_{j+1}) / h`.
* the pieces on the augmented knots of the code (last knot pushed out by `ε`) are those of the uniform knots
  for all functions and cells that are read inside `[0,1]`;
* the right derivative of `Σ c_j B^p_j` on `[0,1)` is the order `p-1` spline of the first differences
  `(c_{j+1} - c_j)/h`, which is non-decreasing by `spline_mono` when the second differences are `≥ 0`;
* `splineVal_convexOn_Icc`, `splineVal_convexOn_univ`.
-/
open Finset Set
namespace PyGam

/-! ### a convexity criterion with right derivatives -/

/-- continuous on a convex set `D ⊆ ℝ`, right derivative `g` at every point of `D` that is not its maximum,
`g` non-decreasing there ⇒ convex on `D` -/
theorem convexOn_of_rightDeriv_mono {D : Set ℝ} (hD : Convex ℝ D) {f g : ℝ → ℝ}
    (hc : ContinuousOn f D)
    (hd : ∀ x ∈ D, ∀ z ∈ D, x < z → HasDerivWithinAt f (g x) (Ici x) x)
    (hg : ∀ x ∈ D, ∀ y ∈ D, ∀ z ∈ D, x ≤ y → y < z → g x ≤ g y) : ConvexOn ℝ D f := by
  apply convexOn_of_slope_mono_adjacent hD
  intro x y z hx hz hxy hyz
  have hy : y ∈ D := hD.ordConnected.out hx hz ⟨hxy.le, hyz.le⟩
  have hxyD : Icc x y ⊆ D := hD.ordConnected.out hx hy
  have hyzD : Icc y z ⊆ D := hD.ordConnected.out hy hz
  have hlin : ∀ (a b w : ℝ), HasDerivWithinAt (fun v : ℝ => a + g y * (v - b)) (g y) (Ici w) w := by
    intro a b w
    have := (((hasDerivAt_id' w).sub_const b).const_mul (g y)).const_add a
    exact (this.congr_deriv (by ring)).hasDerivWithinAt
  have h1 : f y ≤ f x + g y * (y - x) := by
    have := image_le_of_deriv_right_le_deriv_boundary (f := f) (f' := g) (a := x) (b := y)
      (hc.mono hxyD) (fun w hw => hd w (hxyD ⟨hw.1, hw.2.le⟩) z hz (lt_trans hw.2 hyz))
      (B := fun w => f x + g y * (w - x)) (B' := fun _ => g y) (by simp) (by fun_prop)
      (fun w _ => hlin (f x) x w)
      (fun w hw => hg w (hxyD ⟨hw.1, hw.2.le⟩) y hy z hz hw.2.le hyz)
    exact this ⟨hxy.le, le_rfl⟩
  have h2 : f y + g y * (z - y) ≤ f z := by
    have := image_le_of_deriv_right_le_deriv_boundary (f := fun w => f y + g y * (w - y))
      (f' := fun _ => g y) (a := y) (b := z) (by fun_prop) (fun w _ => hlin (f y) y w)
      (B := f) (B' := g) (by simp) (hc.mono hyzD)
      (fun w hw => hd w (hyzD ⟨hw.1, hw.2.le⟩) z hz hw.2)
      (fun w hw => hg y hy w (hyzD ⟨hw.1, hw.2.le⟩) z hz hw.1 hw.2)
    exact this ⟨hyz.le, le_rfl⟩
  have a1 : (f y - f x) / (y - x) ≤ g y := by
    rw [div_le_iff₀ (sub_pos.2 hxy)]; linarith
  have a2 : g y ≤ (f z - f y) / (z - y) := by
    rw [le_div_iff₀ (sub_pos.2 hyz)]; linarith
  exact le_trans a1 a2

/-! ### the derivative identity on uniform knots -/

/-- on uniform knots `t_j = a + j h` the polynomial pieces of the Cox–de Boor recursion (any order-0 row `H`)
satisfy `d/dx B^{q+1}_j = (B^q_j - B^q_{j+1}) / h` -/
theorem deBoorH_uniform_hasDerivAt (t H : Nat → ℝ) (a h : ℝ) (hh : h ≠ 0)
    (hu : ∀ j, t j = a + (j : ℝ) * h) :
    ∀ q j x, HasDerivAt (fun y => deBoorH t H (q+1) j y)
      ((deBoorH t H q j x - deBoorH t H q (j+1) x) / h) x := by
  have hdiff : ∀ j k, t (j + k) - t j = (k : ℝ) * h := by
    intro j k; rw [hu, hu]; push_cast; ring
  intro q
  induction q with
  | zero =>
    intro j x
    have h1 := ((((hasDerivAt_id' x).sub_const (t j)).div_const (t (j+0+1) - t j)).mul_const (H j)).add
      ((((hasDerivAt_id' x).const_sub (t (j+0+2))).div_const (t (j+0+2) - t (j+1))).mul_const (H (j+1)))
    refine h1.congr_deriv ?_
    have e1 : t (j+0+1) - t j = h := by have := hdiff j 1; simpa using this
    have e2 : t (j+0+2) - t (j+1) = h := by
      have := hdiff (j+1) 1; simpa [show j + 1 + 1 = j + 0 + 2 by omega] using this
    rw [e1, e2]; simp only [deBoorH]; field_simp; ring
  | succ q ih =>
    intro j x
    have h1 := ((((hasDerivAt_id' x).sub_const (t j)).div_const (t (j+(q+1)+1) - t j)).mul (ih j x)).add
      ((((hasDerivAt_id' x).const_sub (t (j+(q+1)+2))).div_const
        (t (j+(q+1)+2) - t (j+1))).mul (ih (j+1) x))
    refine h1.congr_deriv ?_
    have hq1 : (q:ℝ) + 1 ≠ 0 := by positivity
    have hq2 : (q:ℝ) + 2 ≠ 0 := by positivity
    have d1 : t (j+(q+1)+1) - t j = ((q:ℝ)+2) * h := by rw [hu, hu]; push_cast; ring
    have d2 : t (j+(q+1)+2) - t (j+1) = ((q:ℝ)+2) * h := by rw [hu, hu]; push_cast; ring
    have d3 : t (j+q+1) - t j = ((q:ℝ)+1) * h := by rw [hu, hu]; push_cast; ring
    have d4 : t (j+q+2) - t (j+1) = ((q:ℝ)+1) * h := by rw [hu, hu]; push_cast; ring
    have d5 : t (j+1+q+1) - t (j+1) = ((q:ℝ)+1) * h := by rw [hu, hu]; push_cast; ring
    have d6 : t (j+1+q+2) - t (j+1+1) = ((q:ℝ)+1) * h := by rw [hu, hu]; push_cast; ring
    simp only [deBoorH]
    rw [d1, d2, d3, d4, d5, d6]
    generalize deBoorH t H q j x = A
    generalize deBoorH t H q (j+1) x = B
    generalize deBoorH t H q (j+1+1) x = C
    simp only [hu]; push_cast
    field_simp
    ring

/-! ### pieces, cells -/

/-- inside a half-open knot cell the B-spline is the polynomial piece of that cell -/
theorem bspl_eq_piece (t : Nat → ℝ) (ht : StrictMono t) (k q j : Nat) (y : ℝ)
    (h1 : t k ≤ y) (h2 : y < t (k+1)) : bspl t q j y = deBoorH t (indRow k) q j y := by
  unfold bspl; rw [haar_eq_ind t ht k y h1 h2]

/-- order ≥ 1: also at the right end of the cell (continuity at the knot) -/
theorem bspl_eq_piece_closed (t : Nat → ℝ) (ht : StrictMono t) (k q j : Nat) (y : ℝ)
    (h1 : t k ≤ y) (h2 : y ≤ t (k+1)) : bspl t (q+1) j y = deBoorH t (indRow k) (q+1) j y := by
  rcases lt_or_eq_of_le h2 with h | h
  · exact bspl_eq_piece t ht k (q+1) j y h1 h
  · subst h
    rw [bspl_eq_piece t ht (k+1) (q+1) j (t (k+1)) le_rfl (ht (by omega))]
    exact (deBoorH_knot_continuity t ht k q j).symm

theorem exists_cell (t : Nat → ℝ) (ht : StrictMono t) (a : Nat) (x : ℝ) :
    ∀ b, t a ≤ x → x < t b → ∃ k, a ≤ k ∧ k < b ∧ t k ≤ x ∧ x < t (k+1) := by
  intro b
  induction b with
  | zero =>
    intro h1 h2
    have := ht.lt_iff_lt.mp (lt_of_le_of_lt h1 h2); omega
  | succ b ih =>
    intro h1 h2
    by_cases hx : x < t b
    · obtain ⟨k, ha, hb, hk⟩ := ih h1 hx
      exact ⟨k, ha, by omega, hk⟩
    · have := ht.lt_iff_lt.mp (lt_of_le_of_lt h1 h2)
      exact ⟨b, by omega, by omega, not_lt.mp hx, h2⟩

/-- first differences, index-shifted: `e_0 = e_1 = c_1 - c_0`, `e_j = c_j - c_{j-1}` -/
def firstDiff (c : Nat → ℝ) : Nat → ℝ := fun j => if j = 0 then c 1 - c 0 else c j - c (j-1)

theorem firstDiff_succ (c : Nat → ℝ) (j : Nat) : firstDiff c (j+1) = c (j+1) - c j := by
  simp [firstDiff]

theorem firstDiff_mono (c : Nat → ℝ) (N : Nat)
    (hc : ∀ j, j + 2 < N → c (j+1) - c j ≤ c (j+2) - c (j+1)) :
    ∀ j, j + 1 < N → firstDiff c j ≤ firstDiff c (j+1) := by
  intro j hj
  cases j with
  | zero => simp [firstDiff]
  | succ i => rw [firstDiff_succ, firstDiff_succ]; exact hc i (by omega)

/-- summation by parts against a row that vanishes at both ends -/
theorem sum_diff_by_parts (c B : Nat → ℝ) (N : Nat) (hN : 0 < N) (h0 : B 0 = 0) (hBN : B N = 0) :
    ∑ j ∈ range N, c j * (B j - B (j+1)) = ∑ j ∈ range N, firstDiff c j * B j := by
  obtain ⟨M, rfl⟩ : ∃ M, N = M + 1 := ⟨N - 1, by omega⟩
  have h := sum_by_parts c B h0 M
  rw [hBN, mul_zero, zero_sub] at h
  rw [sum_range_succ' (fun j => firstDiff c j * B j), h0, mul_zero, add_zero]
  simp only [firstDiff_succ]
  have : ∑ j ∈ range (M+1), c j * (B j - B (j+1)) = - ∑ j ∈ range (M+1), c j * (B (j+1) - B j) := by
    rw [← sum_neg_distrib]; apply sum_congr rfl; intro j _; ring
  rw [this, h, neg_neg]

/-! ### the augmented knots of the code -/
section aug
variable (N p : Nat) (ε : ℝ)

theorem augKnot_zero_uniform (j : Nat) :
    augKnot N p (0:ℝ) j = (-(p:ℝ) * (1 / ((N:ℝ) - (p:ℝ)))) + (j:ℝ) * (1 / ((N:ℝ) - (p:ℝ))) := by
  simp only [augKnot]; split <;> ring

theorem augKnot_eq_zero_of_lt (j : Nat) (hj : j < N + p) : augKnot N p ε j = augKnot N p 0 j := by
  simp only [augKnot, if_neg (not_le.mpr hj)]

/-- the perturbed last knot is never read with a non-zero factor by the functions `j + q ≤ N + p - 1`,
`q ≤ p`, on the cells `k < N`: the pieces are those of the uniform knots -/
theorem deBoorH_aug_eq_uniform (k : Nat) (hk : k < N) (x : ℝ) :
    ∀ q j, q ≤ p → j + q + 1 ≤ N + p →
      deBoorH (augKnot N p ε) (indRow k) q j x = deBoorH (augKnot N p 0) (indRow k) q j x := by
  intro q
  induction q with
  | zero => intro j _ _; rfl
  | succ q ih =>
    intro j hq hj
    simp only [deBoorH]
    rw [ih j (by omega) (by omega), ih (j+1) (by omega) (by omega),
      augKnot_eq_zero_of_lt N p ε j (by omega), augKnot_eq_zero_of_lt N p ε (j+q+1) (by omega),
      augKnot_eq_zero_of_lt N p ε (j+1) (by omega)]
    by_cases hl : j + q + 2 < N + p
    · rw [augKnot_eq_zero_of_lt N p ε (j+q+2) hl]
    · have hz : deBoorH (augKnot N p (0:ℝ)) (indRow k) q (j+1) x = 0 := by
        by_contra hne
        have := deBoorH_band (augKnot N p (0:ℝ)) k x q (j+1) hne
        omega
      rw [hz]; simp

end aug

/-! ### the fitted function inside the knot range -/
section inside
variable (N : Nat) (ε : ℝ)

/-- polynomial piece of the fitted function on the cell `k` -/
noncomputable def pieceVal (p : Nat) (c : Nat → ℝ) (k : Nat) (y : ℝ) : ℝ :=
  ∑ j ∈ range N, c j * deBoorH (augKnot N p ε) (indRow k) p j y

/-- the right derivative of the fitted function on `[0,1)`: the order `p-1` spline of the first
differences over the knot step `h = 1/(N-p)` -/
noncomputable def rightSlope (p : Nat) (c : Nat → ℝ) (x : ℝ) : ℝ :=
  ((N:ℝ) - (p:ℝ)) * ∑ j ∈ range N, firstDiff c j * bspl (augKnot N p ε) (p-1) j x

theorem splineVal_eq_piece (q : Nat) (hNp : q + 1 < N) (hε : 0 ≤ ε) (c : Nat → ℝ) (k : Nat)
    (hqk : q + 1 ≤ k) (hkN : k < N) (y : ℝ)
    (h1 : augKnot N (q+1) ε k ≤ y) (h2 : y ≤ augKnot N (q+1) ε (k+1)) :
    splineVal N (q+1) ε c y = pieceVal N ε (q+1) c k y := by
  have ht := augKnot_strictMono N (q+1) ε hNp hε
  have y0 : 0 ≤ y := by
    have := ht.monotone hqk
    rw [augKnot_at_p N (q+1) ε (by omega)] at this; linarith
  have y1 : y ≤ 1 := by
    have := ht.monotone (show k + 1 ≤ N by omega)
    rw [augKnot_at_N N (q+1) ε hNp (by omega)] at this; linarith
  unfold splineVal pieceVal
  rw [openRow_inner N (q+1) ε y y0 y1]
  apply sum_congr rfl; intro j _
  simp only [innerRow]
  rw [bspl_eq_piece_closed _ ht k q j y h1 h2]

theorem pieceVal_hasDerivAt (q : Nat) (hNp : q + 1 < N) (c : Nat → ℝ) (k : Nat) (hk : k < N) (x : ℝ) :
    HasDerivAt (pieceVal N ε (q+1) c k)
      (∑ j ∈ range N, c j * ((deBoorH (augKnot N (q+1) ε) (indRow k) q j x
          - deBoorH (augKnot N (q+1) ε) (indRow k) q (j+1) x) / (1 / ((N:ℝ) - ((q+1 : Nat) : ℝ))))) x := by
  have hh : (1 / ((N:ℝ) - ((q+1 : Nat) : ℝ))) ≠ 0 := (augKnot_h_pos (α := ℝ) N (q+1) hNp).ne'
  have hfun : pieceVal N ε (q+1) c k
      = fun y => ∑ j ∈ range N, c j * deBoorH (augKnot N (q+1) (0:ℝ)) (indRow k) (q+1) j y := by
    funext y; unfold pieceVal; apply sum_congr rfl; intro j hj
    rw [deBoorH_aug_eq_uniform N (q+1) ε k hk y (q+1) j le_rfl (by have := mem_range.mp hj; omega)]
  rw [hfun]
  have := HasDerivAt.fun_sum (u := range N)
    (A := fun j y => c j * deBoorH (augKnot N (q+1) (0:ℝ)) (indRow k) (q+1) j y)
    (fun j _ => (deBoorH_uniform_hasDerivAt (augKnot N (q+1) (0:ℝ)) (indRow k) _ _ hh
      (augKnot_zero_uniform N (q+1)) q j x).const_mul (c j))
  refine this.congr_deriv ?_
  apply sum_congr rfl; intro j hj
  have hj' := mem_range.mp hj
  rw [deBoorH_aug_eq_uniform N (q+1) ε k hk x q j (by omega) (by omega),
    deBoorH_aug_eq_uniform N (q+1) ε k hk x q (j+1) (by omega) (by omega)]

/-- the value of the derivative of the piece of cell `k ≥ p` is the order `p-1` spline of the first differences -/
theorem piece_slope_eq (q : Nat) (c : Nat → ℝ) (k : Nat)
    (hqk : q + 1 ≤ k) (hkN : k < N) (x : ℝ) :
    ∑ j ∈ range N, c j * ((deBoorH (augKnot N (q+1) ε) (indRow k) q j x
          - deBoorH (augKnot N (q+1) ε) (indRow k) q (j+1) x) / (1 / ((N:ℝ) - ((q+1 : Nat) : ℝ))))
      = ((N:ℝ) - ((q+1 : Nat) : ℝ))
          * ∑ j ∈ range N, firstDiff c j * deBoorH (augKnot N (q+1) ε) (indRow k) q j x := by
  have h0 : deBoorH (augKnot N (q+1) ε) (indRow k) q 0 x = 0 := by
    by_contra hne; have := deBoorH_band (augKnot N (q+1) ε) k x q 0 hne; omega
  have hN : deBoorH (augKnot N (q+1) ε) (indRow k) q N x = 0 := by
    by_contra hne; have := deBoorH_band (augKnot N (q+1) ε) k x q N hne; omega
  rw [← sum_diff_by_parts c (fun j => deBoorH (augKnot N (q+1) ε) (indRow k) q j x) N (by omega) h0 hN,
    mul_sum]
  apply sum_congr rfl; intro j _
  rw [div_div_eq_mul_div, div_one]; ring

/-- right derivative at every point of `[0,1)`, knots included -/
theorem splineVal_hasDerivWithinAt (q : Nat) (hNp : q + 1 < N) (hε : 0 ≤ ε) (c : Nat → ℝ) (x : ℝ)
    (h0 : 0 ≤ x) (h1 : x < 1) :
    HasDerivWithinAt (splineVal N (q+1) ε c) (rightSlope N ε (q+1) c x) (Ici x) x := by
  have ht := augKnot_strictMono N (q+1) ε hNp hε
  obtain ⟨k, hqk, hkN, hk1, hk2⟩ := exists_cell _ ht (q+1) x N
    (by rw [augKnot_at_p N (q+1) ε (by omega)]; exact h0)
    (by rw [augKnot_at_N N (q+1) ε hNp (by omega)]; exact h1)
  have hP := (pieceVal_hasDerivAt N ε q hNp c k hkN x).hasDerivWithinAt (s := Ici x)
  have hE : splineVal N (q+1) ε c =ᶠ[nhdsWithin x (Ici x)] pieceVal N ε (q+1) c k := by
    filter_upwards [Ico_mem_nhdsGE hk2] with y hy
    exact splineVal_eq_piece N ε q hNp hε c k hqk hkN y (le_trans hk1 hy.1) hy.2.le
  refine (hP.congr_of_eventuallyEq hE
    (splineVal_eq_piece N ε q hNp hε c k hqk hkN x hk1 hk2.le)).congr_deriv ?_
  rw [piece_slope_eq N ε q c k hqk hkN x]
  unfold rightSlope
  congr 1
  apply sum_congr rfl; intro j _
  rw [Nat.add_sub_cancel, bspl_eq_piece _ ht k q j x hk1 hk2]

/-- second differences `≥ 0` ⇒ the right derivative is non-decreasing on `[0,1)` -/
theorem rightSlope_mono (q : Nat) (hNp : q + 1 < N) (hε : 0 ≤ ε) (c : Nat → ℝ)
    (hc : ∀ j, j + 2 < N → c (j+1) - c j ≤ c (j+2) - c (j+1)) (x y : ℝ)
    (h0 : 0 ≤ x) (hxy : x ≤ y) (h1 : y < 1) :
    rightSlope N ε (q+1) c x ≤ rightSlope N ε (q+1) c y := by
  have ht := augKnot_strictMono N (q+1) ε hNp hε
  have hp0 : augKnot N (q+1) ε (q+1) = 0 := augKnot_at_p N (q+1) ε (by omega)
  have hN1 : augKnot N (q+1) ε N = 1 := augKnot_at_N N (q+1) ε hNp (by omega)
  have hq0 : augKnot N (q+1) ε q ≤ 0 := by rw [← hp0]; exact ht.monotone (by omega)
  have hpos : (0:ℝ) ≤ (N:ℝ) - ((q+1 : Nat) : ℝ) := by
    have : ((q+1 : Nat) : ℝ) < (N:ℝ) := by exact_mod_cast hNp
    linarith
  unfold rightSlope
  apply mul_le_mul_of_nonneg_left _ hpos
  rw [Nat.add_sub_cancel]
  apply spline_mono _ ht q N (firstDiff c) (firstDiff_mono c N hc) x y (by linarith) hxy
  · exact bspl_partition _ ht q N x (by linarith) (by rw [hN1]; linarith)
  · exact bspl_partition _ ht q N y (by linarith) (by rw [hN1]; exact h1)

/-- order ≥ 1: the fitted function is continuous on the closed knot range -/
theorem splineVal_continuousOn (q : Nat) (hNp : q + 1 < N) (hε : 0 ≤ ε) (c : Nat → ℝ) :
    ContinuousOn (splineVal N (q+1) ε c) (Icc 0 1) := by
  have ht := augKnot_strictMono N (q+1) ε hNp hε
  have hcell : ∀ k, q + 1 ≤ k → k < N →
      ContinuousOn (splineVal N (q+1) ε c) (Icc (augKnot N (q+1) ε k) (augKnot N (q+1) ε (k+1))) := by
    intro k hqk hkN
    have hc : ContinuousOn (pieceVal N ε (q+1) c k)
        (Icc (augKnot N (q+1) ε k) (augKnot N (q+1) ε (k+1))) :=
      fun y _ => (pieceVal_hasDerivAt N ε q hNp c k hkN y).continuousAt.continuousWithinAt
    exact hc.congr (fun y hy => splineVal_eq_piece N ε q hNp hε c k hqk hkN y hy.1 hy.2)
  have hglue : ∀ m, q + 1 + m ≤ N →
      ContinuousOn (splineVal N (q+1) ε c) (Icc (augKnot N (q+1) ε (q+1)) (augKnot N (q+1) ε (q+1+m))) := by
    intro m
    induction m with
    | zero => intro _; rw [Nat.add_zero, Set.Icc_self]; exact continuousOn_singleton _ _
    | succ m ih =>
      intro hm
      rw [← Icc_union_Icc_eq_Icc (ht.monotone (show q + 1 ≤ q + 1 + m by omega))
        (ht.monotone (show q + 1 + m ≤ q + 1 + (m+1) by omega))]
      exact (ih (by omega)).union_of_isClosed (hcell (q+1+m) (by omega) (by omega)) isClosed_Icc isClosed_Icc
  have := hglue (N - (q+1)) (by omega)
  rw [show q + 1 + (N - (q+1)) = N by omega, augKnot_at_p N (q+1) ε (by omega),
    augKnot_at_N N (q+1) ε hNp (by omega)] at this
  exact this

/-- **convex inside the knot range**: order `p ≥ 1`, second differences of the coefficients `≥ 0` ⇒ the fitted
function is convex on `[0,1]` (rescaled coordinates) -/
theorem splineVal_convexOn_Icc (p : Nat) (hNp : p < N) (hp : 0 < p) (hε : 0 ≤ ε) (c : Nat → ℝ)
    (hc : ∀ j, j + 2 < N → c (j+1) - c j ≤ c (j+2) - c (j+1)) :
    ConvexOn ℝ (Icc 0 1) (splineVal N p ε c) := by
  obtain ⟨q, rfl⟩ : ∃ q, p = q + 1 := ⟨p - 1, by omega⟩
  apply convexOn_of_rightDeriv_mono (convex_Icc 0 1) (g := rightSlope N ε (q+1) c)
    (splineVal_continuousOn N ε q hNp hε c)
  · intro x hx z hz hxz
    exact splineVal_hasDerivWithinAt N ε q hNp hε c x hx.1 (lt_of_lt_of_le hxz hz.2)
  · intro x hx y _ z hz hxy hyz
    exact rightSlope_mono N ε q hNp hε c hc x y hx.1 hxy (lt_of_lt_of_le hyz hz.2)

end inside

end PyGam
