import PyGam.Proofs.TermAlgebraInfo
/-!
# `Core.get_params / set_params` on the dictionary model; GAM keyword hand-over
-/
namespace PyGam.TA

theorem dhas_iff (d : Dict) (k : String) : dhas d k = true ↔ ∃ v, dget d k = some v := by
  unfold dhas dget
  cases List.lookup k d <;> simp

theorem mem_keys_of_dget {d : Dict} {k : String} {v : Val} (h : dget d k = some v) : k ∈ dkeys d := by
  induction d with
  | nil => simp [dget] at h
  | cons x r ih =>
    obtain ⟨a, b⟩ := x
    by_cases ha : k = a
    · subst ha; simp [dkeys]
    · simp only [dget, lookup_cons_ne _ _ _ _ ha] at h
      have := ih h
      simp only [dkeys, List.map_cons, List.mem_cons] at this ⊢
      exact Or.inr this

theorem dget_of_mem_keys {d : Dict} {k : String} (h : k ∈ dkeys d) : ∃ v, dget d k = some v := by
  induction d with
  | nil => simp [dkeys] at h
  | cons x r ih =>
    obtain ⟨a, b⟩ := x
    by_cases ha : k = a
    · subst ha; exact ⟨b, by simp [dget]⟩
    · simp only [dkeys, List.map_cons, List.mem_cons] at h
      rcases h with h | h
      · exact absurd h ha
      · obtain ⟨v, hv⟩ := ih h
        exact ⟨v, by simp only [dget, lookup_cons_ne _ _ _ _ ha]; exact hv⟩

/-- the names `get_params()` reports are attributes of the object -/
theorem getParams_keys_sub (d : Dict) (deep : Bool) (k : String) (h : k ∈ dkeys (getParams d deep)) : k ∈ dkeys d := by
  unfold getParams at h
  split at h
  · exact h
  · simp only [dkeys, List.mem_map, List.mem_filter] at h ⊢
    obtain ⟨p, ⟨hp, _⟩, rfl⟩ := h
    exact ⟨p, hp, rfl⟩

theorem getParams_pub (d : Dict) (k : String) (h : k ∈ dkeys (getParams d false)) :
    isPub k = true ∧ (excludeOf d).contains k = false := by
  unfold getParams at h
  simp only [Bool.false_eq_true, if_false, dkeys, List.mem_map, List.mem_filter, Bool.and_eq_true,
    Bool.not_eq_true'] at h
  obtain ⟨p, ⟨_, hp⟩, rfl⟩ := h
  exact hp

theorem setParamsD_nil (d : Dict) (deep force : Bool) : setParamsD d deep force [] = .ok d := rfl

/-- one step of `set_params`: an accepted name is written with `setattr`, any other name is skipped -/
theorem setParamsD_cons (d : Dict) (deep force : Bool) (k : String) (v : Tree) (ps : List (String × Tree)) :
    setParamsD d deep force ((k, v) :: ps) =
      if (dkeys (getParams d deep)).contains k || force || (dhas d k && isPub k) then
        (dsetTree d k v) >>= fun d' => setParamsG (dkeys (getParams d deep)) dhas dsetTree force d' ps
      else setParamsG (dkeys (getParams d deep)) dhas dsetTree force d ps := by
  simp only [setParamsD, setParamsG]

theorem set_known (d : Dict) (deep force : Bool) (k : String) (v : Tree) (x : Val) (hv : v.toVal? = some x)
    (hk : k ∈ dkeys (getParams d deep)) : setParamsD d deep force [(k, v)] = .ok (dset d k x) := by
  simp [setParamsD_cons, hk, dsetTree, hv, setParamsG, bind, Except.bind]

theorem set_forced (d : Dict) (deep : Bool) (k : String) (v : Tree) (x : Val) (hv : v.toVal? = some x) :
    setParamsD d deep true [(k, v)] = .ok (dset d k x) := by
  simp [setParamsD_cons, dsetTree, hv, setParamsG, bind, Except.bind]

theorem set_unknown_ignored (d : Dict) (deep : Bool) (k : String) (v : Tree) (hk : dhas d k = false) :
    setParamsD d deep false [(k, v)] = .ok d := by
  have h1 : (dkeys (getParams d deep)).contains k = false := by
    cases hc : (dkeys (getParams d deep)).contains k with
    | false => rfl
    | true =>
      have hm : k ∈ dkeys (getParams d deep) := by simpa using hc
      obtain ⟨x, hx⟩ := dget_of_mem_keys (getParams_keys_sub d deep k hm)
      have : dhas d k = true := (dhas_iff d k).mpr ⟨x, hx⟩
      rw [hk] at this; cases this
  have h1' : ¬ k ∈ dkeys (getParams d deep) := by simpa using h1
  simp [setParamsD_cons, h1', hk, setParamsG]

theorem set_private_ignored (d : Dict) (k : String) (v : Tree) (hk : isPub k = false) :
    setParamsD d false false [(k, v)] = .ok d := by
  have h1 : (dkeys (getParams d false)).contains k = false := by
    cases hc : (dkeys (getParams d false)).contains k with
    | false => rfl
    | true =>
      have hm : k ∈ dkeys (getParams d false) := by simpa using hc
      have := (getParams_pub d k hm).1
      rw [hk] at this; cases this
  have h1' : ¬ k ∈ dkeys (getParams d false) := by simpa using h1
  simp [setParamsD_cons, h1', hk, setParamsG]

theorem dget_filter_dset (d : Dict) (k : String) (x : Val) (p : String × Val → Bool) (hp : ∀ y, p (k, y) = true) :
    dget ((dset d k x).filter p) k = some x := by
  induction d with
  | nil => simp [dset, hp, dget]
  | cons y r ih =>
    obtain ⟨a, b⟩ := y
    by_cases ha : a = k
    · subst ha
      simp [dset, hp, dget]
    · have hne : k ≠ a := fun e => ha e.symm
      simp only [dset, if_neg ha, List.filter_cons]
      split
      · simp only [dget, lookup_cons_ne _ _ _ _ hne]; exact ih
      · exact ih

/-- a public, non-excluded parameter reads back as set -/
theorem get_after_set (d : Dict) (k : String) (x : Val) (hp : isPub k = true)
    (he : (excludeOf d).contains k = false) (hk : k ≠ "_exclude") :
    dget (getParams (dset d k x) false) k = some x := by
  unfold getParams
  simp only [Bool.false_eq_true, if_false, excludeOf_dset d k x hk]
  have he' : ¬ k ∈ excludeOf d := by simpa using he
  exact dget_filter_dset d k x _ (by intro y; simp [hp, he'])

theorem toVal_toTree (v : Val) : v.toTree.toVal? = some v := by
  cases v with
  | sc s => rfl
  | list l =>
    simp only [Val.toTree, Tree.toVal?]
    rw [mapM_leaf]; rfl

/-- feeding an object parameters it already holds changes nothing -/
theorem setParams_noop (d : Dict) (force : Bool) (names : List String) (ps : List (String × Tree))
    (h : ∀ p ∈ ps, ∃ v, p.2.toVal? = some v ∧ dget d p.1 = some v) :
    setParamsG names dhas dsetTree force d ps = .ok d := by
  induction ps with
  | nil => rfl
  | cons p r ih =>
    obtain ⟨k, t⟩ := p
    obtain ⟨v, hv, hd⟩ := h (k, t) List.mem_cons_self
    have ih' := ih (fun q hq => h q (List.mem_cons_of_mem _ hq))
    simp only [setParamsG]
    split
    · simp [dsetTree, hv, dset_same d k v hd, bind, Except.bind, ih']
    · exact ih'

theorem dget_of_mem_nodup (d : Dict) (hn : (dkeys d).Nodup) (k : String) (v : Val) (h : (k, v) ∈ d) :
    dget d k = some v := by
  induction d with
  | nil => cases h
  | cons y r ih =>
    obtain ⟨a, b⟩ := y
    simp only [dkeys, List.map_cons, List.nodup_cons] at hn
    rcases List.mem_cons.mp h with h1 | h2
    · cases h1; simp [dget]
    · have hne : k ≠ a := by
        intro e; subst e
        exact hn.1 (List.mem_map.mpr ⟨(k, v), h2, rfl⟩)
      simp only [dget, lookup_cons_ne _ _ _ _ hne]
      exact ih hn.2 h2

/-- `obj.set_params(**obj.get_params())` leaves the object unchanged -/
theorem set_get_identity (d : Dict) (hn : (dkeys d).Nodup) (deep force : Bool) :
    setParamsD d deep force ((getParams d deep).map (fun p => (p.1, p.2.toTree))) = .ok d := by
  unfold setParamsD
  apply setParams_noop d force
  intro p hp
  obtain ⟨q, hq, rfl⟩ := List.mem_map.mp hp
  refine ⟨q.2, toVal_toTree q.2, ?_⟩
  have hm : q ∈ d := by
    unfold getParams at hq
    split at hq
    · exact hq
    · exact (List.mem_filter.mp hq).1
  exact dget_of_mem_nodup d hn q.1 q.2 hm

/-! ## GAM keyword hand-over -/

theorem ownGet_ownSet (o : List (String × Tree)) (k : String) (v : Tree) (k' : String) :
    ownGet (ownSet o k v) k' = if k' = k then some v else ownGet o k' := by
  induction o with
  | nil =>
    simp only [ownSet, ownGet]
    by_cases h : k' = k
    · subst h; simp [List.lookup]
    · have : (k' == k) = false := by simpa using h
      simp [List.lookup, this, h]
  | cons p r ih =>
    obtain ⟨a, b⟩ := p
    simp only [ownSet]
    by_cases h1 : a = k
    · subst h1
      simp only [if_true, ownGet]
      by_cases h : k' = a
      · subst h; simp [List.lookup]
      · have : (k' == a) = false := by simpa using h
        simp [List.lookup, this, h]
    · simp only [if_neg h1, ownGet]
      by_cases h : k' = a
      · subst h
        simp [List.lookup, h1]
      · have : (k' == a) = false := by simpa using h
        simp only [List.lookup, this]
        exact ih

/-- a plural keyword given to the constructor is stored on the model and reads back unchanged before `fit`
(no other keyword of the same name follows) -/
theorem gam_init_get (terms : TermsSpec) (fi vb : Bool) (k : String) (v : Tree) (g : Gam)
    (h : Gam.init terms fi vb [(k, v)] = .ok g) : g.getattr k = .ok v := by
  unfold Gam.init at h
  split at h
  · simp at h
  · simp only [Except.ok.injEq] at h
    subst h
    simp [Gam.getattr, List.foldl, ownGet_ownSet]

theorem gam_init_rejects (terms : TermsSpec) (fi vb : Bool) (k : String) (v : Tree)
    (hk : pluralNames.contains k = false) : Gam.init terms fi vb [(k, v)] = .error .type := by
  have hk' : ¬ k ∈ pluralNames := by simpa using hk
  simp [Gam.init, hk']

theorem plural_not_listProp (name : String) (hn : pluralNames.contains name = true) :
    listPropNames.contains name = false := by
  simp only [pluralNames, List.contains_eq_mem, List.mem_cons, List.not_mem_nil, or_false, decide_eq_true_eq] at hn
  rcases hn with rfl | rfl | rfl | rfl | rfl | rfl | rfl | rfl | rfl | rfl | rfl <;> decide

/-- assigning a plural name to a non-empty term list is the distribution `setPlural` -/
theorem termList_setattr_plural (l : TermList) (name : String) (v : Tree) (hn : pluralNames.contains name = true)
    (hl : l.hasTerms = true) :
    l.setattr name v = (setPlural l.terms name v).map (fun ts => { l with terms := ts }) := by
  have h1 : ¬ name ∈ listPropNames := by simpa using plural_not_listProp name hn
  have h2 : name ∈ pluralNames := by simpa using hn
  simp [TermList.setattr, h1, h2, hl]

/-- what `fit` does with the stored keywords: the terms are rebuilt (`TermList(terms)`, plus the intercept),
every stored keyword is assigned to the term list in order, the stored keywords are deleted, the list is compiled -/
theorem gam_fit_spec (g g' : Gam) (data : List FeatData) (h : g.fit data = .ok g') :
    g'.own = [] ∧ ∃ l1 l2 l3 : TermList, g.baseTerms data = .ok l1 ∧ l1.terms ≠ [] ∧ handOver g.own l1 = .ok l2 ∧ l2.compile data = .ok l3 ∧
      g'.terms = .list l3 := by
  unfold Gam.fit at h
  simp only [bind, Except.bind] at h
  cases hb : g.baseTerms data with
  | error e => simp [hb] at h
  | ok l1 =>
    simp only [hb] at h
    split at h
    · simp at h
    · rename_i hne
      cases hh : handOver g.own l1 with
      | error e => simp [hh] at h
      | ok l2 =>
        simp only [hh] at h
        cases hc : l2.compile data with
        | error e => simp [hc] at h
        | ok l3 =>
          simp only [hc, Except.ok.injEq] at h
          subst h
          exact ⟨rfl, l1, l2, l3, rfl, by simpa using hne, hh, hc, rfl⟩

theorem handOver_nil (l : TermList) : handOver [] l = .ok l := rfl
theorem handOver_cons (k : String) (v : Tree) (r : List (String × Tree)) (l : TermList) :
    handOver ((k, v) :: r) l = l.setattr k v >>= handOver r := rfl

/-! ## compiled tensor terms -/

/-- built by a constructor -/
def Constructed (a : Atom) : Prop := ∃ k kw, construct k kw = .ok a

theorem constructed_roundTrips (a : Atom) (h : Constructed a) : RoundTrips a := by
  obtain ⟨k, kw, hk⟩ := h
  exact atomFromInfo_info .spline k kw a hk

theorem compileAtoms_info (data : List FeatData) (ms cs : List Atom) (hc : ∀ m ∈ ms, Constructed m)
    (h : compileAtoms data ms = .ok cs) : cs.map Atom.info = ms.map Atom.info := by
  induction ms generalizing cs with
  | nil => simp [compileAtoms] at h; subst h; rfl
  | cons a r ih =>
    simp only [compileAtoms, bind, Except.bind] at h
    cases h1 : compileAtom data a with
    | error e => simp [h1] at h
    | ok c =>
      simp only [h1] at h
      cases h2 : compileAtoms data r with
      | error e => simp [h2] at h
      | ok cr =>
        simp only [h2, Except.ok.injEq] at h
        subst h
        obtain ⟨k, kw, hk⟩ := hc a List.mem_cons_self
        have hkind := construct_kind k kw a hk
        have e1 := (compileAtom_info data a c (by
          intro hf
          rw [hkind] at hf; subst hf
          exact construct_factor_exclude kw a hk) h1).1
        simp [e1, ih cr (fun m hm => hc m (List.mem_cons_of_mem _ hm)) h2]

/-- tensor terms: the term rebuilt from the info of the compiled term and compiled on the same data is the
compiled term -/
theorem tensor_rebuild_compiled (args : List TeArg) (by_ : Val) (kw : List (String × Tree)) (d : Dict)
    (ms : List Atom) (data : List FeatData) (c : Term)
    (h : mkTensor args by_ (vbool false) kw = .ok (.tensor d ms)) (hm : ∀ m ∈ ms, Constructed m)
    (hc : compileTerm data (.tensor d ms) = .ok c) :
    ∃ t', Term.fromInfo c.info = .ok t' ∧ compileTerm data t' = .ok c := by
  refine ⟨.tensor d ms, ?_, hc⟩
  simp only [compileTerm, bind, Except.bind] at hc
  cases h1 : compileAtoms data ms with
  | error e => simp [h1] at hc
  | ok cs =>
    simp only [h1] at hc
    cases h2 : checkBy data ((dget d "by").getD vnone) with
    | error e => simp [h2] at hc
    | ok u =>
      simp only [h2, Except.ok.injEq] at hc
      subst hc
      have e := compileAtoms_info data ms cs hm h1
      have : (Term.tensor d cs).info = (Term.tensor d ms).info := by simp [Term.info, e]
      rw [this]
      exact tensor_roundtrip args by_ kw d ms h (fun m hmm => constructed_roundTrips m (hm m hmm))

/-- `e` succeeded with the value `x` (decidable form, for the concrete examples) -/
def okWith {α : Type} [DecidableEq α] (e : Except Err α) (x : α) : Bool :=
  match e with
  | .ok y => decide (y = x)
  | .error _ => false

end PyGam.TA
