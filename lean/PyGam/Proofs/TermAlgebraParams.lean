import PyGam.Proofs.TermAlgebraInfo
/-!
# `Core.get_params / set_params` on the dictionary model; GAM keyword hand-over
-/
namespace PyGam.TA

theorem dhas_iff (d : Dict) (k : String) : dhas d k = true ↔ ∃ v, dget d k = some v := by
  unfold dhas dget
  cases List.lookup k d <;> simp

theorem mem_keys_of_dget {d : Dict} {k : String} {v : Val} (h : dget d k = some v) : k ∈ dkeys d := by
  induction d with
  | nil => simp [dget] at h
  | cons x r ih =>
    obtain ⟨a, b⟩ := x
    by_cases ha : k = a
    · subst ha; simp [dkeys]
    · simp only [dget, lookup_cons_ne _ _ _ _ ha] at h
      have := ih h
      simp only [dkeys, List.map_cons, List.mem_cons] at this ⊢
      exact Or.inr this

theorem dget_of_mem_keys {d : Dict} {k : String} (h : k ∈ dkeys d) : ∃ v, dget d k = some v := by
  induction d with
  | nil => simp [dkeys] at h
  | cons x r ih =>
    obtain ⟨a, b⟩ := x
    by_cases ha : k = a
    · subst ha; exact ⟨b, by simp [dget]⟩
    · simp only [dkeys, List.map_cons, List.mem_cons] at h
      rcases h with h | h
      · exact absurd h ha
      · obtain ⟨v, hv⟩ := ih h
        exact ⟨v, by simp only [dget, lookup_cons_ne _ _ _ _ ha]; exact hv⟩

/-- the names `get_params()` reports are attributes of the object -/
theorem getParams_keys_sub (d : Dict) (deep : Bool) (k : String) (h : k ∈ dkeys (getParams d deep)) : k ∈ dkeys d := by
  unfold getParams at h
  split at h
  · exact h
  · simp only [dkeys, List.mem_map, List.mem_filter] at h ⊢
    obtain ⟨p, ⟨hp, _⟩, rfl⟩ := h
    exact ⟨p, hp, rfl⟩

theorem getParams_pub (d : Dict) (k : String) (h : k ∈ dkeys (getParams d false)) :
    isPub k = true ∧ (excludeOf d).contains k = false := by
  unfold getParams at h
  simp only [Bool.false_eq_true, if_false, dkeys, List.mem_map, List.mem_filter, Bool.and_eq_true,
    Bool.not_eq_true'] at h
  obtain ⟨p, ⟨_, hp⟩, rfl⟩ := h
  exact hp

theorem setParamsD_nil (d : Dict) (deep force : Bool) : setParamsD d deep force [] = .ok d := rfl

/-- one step of `set_params`: an accepted name is written with `setattr`, any other name is skipped -/
theorem setParamsD_cons (d : Dict) (deep force : Bool) (k : String) (v : Tree) (ps : List (String × Tree)) :
    setParamsD d deep force ((k, v) :: ps) =
      if (dkeys (getParams d deep)).contains k || force || (dhas d k && isPub k) then
        (dsetTree d k v) >>= fun d' => setParamsG (dkeys (getParams d deep)) dhas dsetTree force d' ps
      else setParamsG (dkeys (getParams d deep)) dhas dsetTree force d ps := by
  simp only [setParamsD, setParamsG]

theorem set_known (d : Dict) (deep force : Bool) (k : String) (v : Tree) (x : Val) (hv : v.toVal? = some x)
    (hk : k ∈ dkeys (getParams d deep)) : setParamsD d deep force [(k, v)] = .ok (dset d k x) := by
  simp [setParamsD_cons, hk, dsetTree, hv, setParamsG, bind, Except.bind]

theorem set_forced (d : Dict) (deep : Bool) (k : String) (v : Tree) (x : Val) (hv : v.toVal? = some x) :
    setParamsD d deep true [(k, v)] = .ok (dset d k x) := by
  simp [setParamsD_cons, dsetTree, hv, setParamsG, bind, Except.bind]

theorem set_unknown_ignored (d : Dict) (deep : Bool) (k : String) (v : Tree) (hk : dhas d k = false) :
    setParamsD d deep false [(k, v)] = .ok d := by
  have h1 : (dkeys (getParams d deep)).contains k = false := by
    cases hc : (dkeys (getParams d deep)).contains k with
    | false => rfl
    | true =>
      have hm : k ∈ dkeys (getParams d deep) := by simpa using hc
      obtain ⟨x, hx⟩ := dget_of_mem_keys (getParams_keys_sub d deep k hm)
      have : dhas d k = true := (dhas_iff d k).mpr ⟨x, hx⟩
      rw [hk] at this; cases this
  have h1' : ¬ k ∈ dkeys (getParams d deep) := by simpa using h1
  simp [setParamsD_cons, h1', hk, setParamsG]

theorem set_private_ignored (d : Dict) (k : String) (v : Tree) (hk : isPub k = false) :
    setParamsD d false false [(k, v)] = .ok d := by
  have h1 : (dkeys (getParams d false)).contains k = false := by
    cases hc : (dkeys (getParams d false)).contains k with
    | false => rfl
    | true =>
      have hm : k ∈ dkeys (getParams d false) := by simpa using hc
      have := (getParams_pub d k hm).1
      rw [hk] at this; cases this
  have h1' : ¬ k ∈ dkeys (getParams d false) := by simpa using h1
  simp [setParamsD_cons, h1', hk, setParamsG]

theorem dget_filter_dset (d : Dict) (k : String) (x : Val) (p : String × Val → Bool) (hp : ∀ y, p (k, y) = true) :
    dget ((dset d k x).filter p) k = some x := by
  induction d with
  | nil => simp [dset, hp, dget]
  | cons y r ih =>
    obtain ⟨a, b⟩ := y
    by_cases ha : a = k
    · subst ha
      simp [dset, hp, dget]
    · have hne : k ≠ a := fun e => ha e.symm
      simp only [dset, if_neg ha, List.filter_cons]
      split
      · simp only [dget, lookup_cons_ne _ _ _ _ hne]; exact ih
      · exact ih

/-- a public, non-excluded parameter reads back as set -/
theorem get_after_set (d : Dict) (k : String) (x : Val) (hp : isPub k = true)
    (he : (excludeOf d).contains k = false) (hk : k ≠ "_exclude") :
    dget (getParams (dset d k x) false) k = some x := by
  unfold getParams
  simp only [Bool.false_eq_true, if_false, excludeOf_dset d k x hk]
  have he' : ¬ k ∈ excludeOf d := by simpa using he
  exact dget_filter_dset d k x _ (by intro y; simp [hp, he'])

theorem toVal_toTree (v : Val) : v.toTree.toVal? = some v := by
  cases v with
  | sc s => rfl
  | list l =>
    simp only [Val.toTree, Tree.toVal?]
    rw [mapM_leaf]; rfl

/-- feeding an object parameters it already holds changes nothing -/
theorem setParams_noop (d : Dict) (force : Bool) (names : List String) (ps : List (String × Tree))
    (h : ∀ p ∈ ps, ∃ v, p.2.toVal? = some v ∧ dget d p.1 = some v) :
    setParamsG names dhas dsetTree force d ps = .ok d := by
  induction ps with
  | nil => rfl
  | cons p r ih =>
    obtain ⟨k, t⟩ := p
    obtain ⟨v, hv, hd⟩ := h (k, t) List.mem_cons_self
    have ih' := ih (fun q hq => h q (List.mem_cons_of_mem _ hq))
    simp only [setParamsG]
    split
    · simp [dsetTree, hv, dset_same d k v hd, bind, Except.bind, ih']
    · exact ih'

theorem dget_of_mem_nodup (d : Dict) (hn : (dkeys d).Nodup) (k : String) (v : Val) (h : (k, v) ∈ d) :
    dget d k = some v := by
  induction d with
  | nil => cases h
  | cons y r ih =>
    obtain ⟨a, b⟩ := y
    simp only [dkeys, List.map_cons, List.nodup_cons] at hn
    rcases List.mem_cons.mp h with h1 | h2
    · cases h1; simp [dget]
    · have hne : k ≠ a := by
        intro e; subst e
        exact hn.1 (List.mem_map.mpr ⟨(k, v), h2, rfl⟩)
      simp only [dget, lookup_cons_ne _ _ _ _ hne]
      exact ih hn.2 h2

/-- `obj.set_params(**obj.get_params())` leaves the object unchanged -/
theorem set_get_identity (d : Dict) (hn : (dkeys d).Nodup) (deep force : Bool) :
    setParamsD d deep force ((getParams d deep).map (fun p => (p.1, p.2.toTree))) = .ok d := by
  unfold setParamsD
  apply setParams_noop d force
  intro p hp
  obtain ⟨q, hq, rfl⟩ := List.mem_map.mp hp
  refine ⟨q.2, toVal_toTree q.2, ?_⟩
  have hm : q ∈ d := by
    unfold getParams at hq
    split at hq
    · exact hq
    · exact (List.mem_filter.mp hq).1
  exact dget_of_mem_nodup d hn q.1 q.2 hm

/-! ## GAM keyword hand-over -/

theorem ownGet_ownSet (o : List (String × Tree)) (k : String) (v : Tree) (k' : String) :
    ownGet (ownSet o k v) k' = if k' = k then some v else ownGet o k' := by
  induction o with
  | nil =>
    simp only [ownSet, ownGet]
    by_cases h : k' = k
    · subst h; simp [List.lookup]
    · have : (k' == k) = false := by simpa using h
      simp [List.lookup, this, h]
  | cons p r ih =>
    obtain ⟨a, b⟩ := p
    simp only [ownSet]
    by_cases h1 : a = k
    · subst h1
      simp only [if_true, ownGet]
      by_cases h : k' = a
      · subst h; simp [List.lookup]
      · have : (k' == a) = false := by simpa using h
        simp [List.lookup, this, h]
    · simp only [if_neg h1, ownGet]
      by_cases h : k' = a
      · subst h
        simp [List.lookup, h1]
      · have : (k' == a) = false := by simpa using h
        simp only [List.lookup, this]
        exact ih

/-- a plural keyword given to the constructor is stored on the model and reads back unchanged before `fit`
(no other keyword of the same name follows) -/
theorem gam_init_get (terms : TermsSpec) (fi vb : Bool) (k : String) (v : Tree) (g : Gam)
    (h : Gam.init terms fi vb [(k, v)] = .ok g) : g.getattr k = .ok v := by
  unfold Gam.init at h
  split at h
  · simp at h
  · simp only [Except.ok.injEq] at h
    subst h
    simp [Gam.getattr, List.foldl, ownGet_ownSet]

theorem gam_init_rejects (terms : TermsSpec) (fi vb : Bool) (k : String) (v : Tree)
    (hk : pluralNames.contains k = false) : Gam.init terms fi vb [(k, v)] = .error .type := by
  have hk' : ¬ k ∈ pluralNames := by simpa using hk
  simp [Gam.init, hk']

theorem plural_not_listProp (name : String) (hn : pluralNames.contains name = true) :
    listPropNames.contains name = false := by
  simp only [pluralNames, List.contains_eq_mem, List.mem_cons, List.not_mem_nil, or_false, decide_eq_true_eq] at hn
  rcases hn with rfl | rfl | rfl | rfl | rfl | rfl | rfl | rfl | rfl | rfl | rfl <;> decide

/-- assigning a plural name to a non-empty term list is the distribution `setPlural` -/
theorem termList_setattr_plural (l : TermList) (name : String) (v : Tree) (hn : pluralNames.contains name = true)
    (hl : l.hasTerms = true) :
    l.setattr name v = (setPlural l.terms name v).map (fun ts => { d := ddel l.d name, terms := ts }) := by
  have h1 : ¬ name ∈ listPropNames := by simpa using plural_not_listProp name hn
  have h2 : name ∈ pluralNames := by simpa using hn
  simp [TermList.setattr, h1, h2, hl]

/-- what `fit` does with the stored keywords: the terms are rebuilt (`TermList(terms)`, plus the intercept),
every stored keyword is assigned to the term list in order, the stored keywords are deleted, the list is compiled -/
theorem gam_fit_spec (g g' : Gam) (data : List FeatData) (h : g.fit data = .ok g') :
    g'.own = [] ∧ ∃ l1 l2 l3 : TermList, g.baseTerms data = .ok l1 ∧ l1.terms ≠ [] ∧ handOver g.own l1 = .ok l2 ∧ l2.compile data = .ok l3 ∧
      g'.terms = .list l3 := by
  unfold Gam.fit at h
  simp only [bind, Except.bind] at h
  cases hb : g.baseTerms data with
  | error e => simp [hb] at h
  | ok l1 =>
    simp only [hb] at h
    split at h
    · simp at h
    · rename_i hne
      cases hh : handOver g.own l1 with
      | error e => simp [hh] at h
      | ok l2 =>
        simp only [hh] at h
        cases hc : l2.compile data with
        | error e => simp [hc] at h
        | ok l3 =>
          simp only [hc, Except.ok.injEq] at h
          subst h
          exact ⟨rfl, l1, l2, l3, rfl, by simpa using hne, hh, hc, rfl⟩

theorem handOver_nil (l : TermList) : handOver [] l = .ok l := rfl
theorem handOver_cons (k : String) (v : Tree) (r : List (String × Tree)) (l : TermList) :
    handOver ((k, v) :: r) l = l.setattr k v >>= handOver r := rfl

/-! ## assignment on a GAM that already has terms -/

theorem distR_length {τ : Type} (skip : τ → Bool) (arity : τ → Except Err Nat) (setOne : τ → Tree → Except Err τ)
    (rs : List τ) : ∀ (vals : List Sc) (rs' : List τ), distR skip arity setOne rs vals = .ok rs' → rs'.length = rs.length := by
  induction rs with
  | nil => intro vals rs' h; simp only [distR, Except.ok.injEq] at h; subst h; rfl
  | cons t ts ih =>
    intro vals rs' h
    simp only [distR] at h
    split at h
    · simp only [bind, Except.bind] at h
      cases hr : distR skip arity setOne ts vals with
      | error e => simp [hr] at h
      | ok r => simp only [hr, Except.ok.injEq] at h; subst h; simp [ih vals r hr]
    · simp only [bind, Except.bind] at h
      cases ha : arity t with
      | error e => simp [ha] at h
      | ok n =>
        simp only [ha] at h
        split at h
        · simp at h
        · cases hso : setOne t (packVals (vals.drop (vals.length - n))) with
          | error e => simp [hso] at h
          | ok t' =>
            simp only [hso] at h
            cases hr : distR skip arity setOne ts (vals.take (vals.length - n)) with
            | error e => simp [hr] at h
            | ok r => simp only [hr, Except.ok.injEq] at h; subst h; simp [ih _ r hr]

theorem setPlural_length (ts ts' : List Term) (name : String) (v : Tree) (h : setPlural ts name v = .ok ts') :
    ts'.length = ts.length := by
  unfold setPlural setPluralSized setSeq at h
  simp only [bind, Except.bind] at h
  split at h
  · simp at h
  · rename_i vs _
    cases hr : distR Term.isIntercept (Term.arity name) (Term.setOne name) ts.reverse vs with
    | error e => simp [hr] at h
    | ok r =>
      simp only [hr, Except.ok.injEq] at h
      subst h
      simp [distR_length _ _ _ _ _ _ hr]

theorem ownGet_ownDel (o : List (String × Tree)) (k : String) : ownGet (ownDel o k) k = none := by
  induction o with
  | nil => rfl
  | cons p r ih =>
    obtain ⟨a, b⟩ := p
    simp only [ownDel, ownGet] at ih ⊢
    rw [List.filter_cons]
    by_cases h : a = k
    · subst h; simpa using ih
    · have hk : (k == a) = false := by simpa using (fun e : k = a => h e.symm)
      simp only [ne_eq, h, not_false_eq_true, decide_true, if_true, List.lookup, hk]
      exact ih

/-- assignment to a model that has terms: a keyword of that name stored by the constructor is dropped, the value
goes to the terms, and `getattr` reads it back from the terms (scalar broadcast) -/
theorem gam_setattr_spec (g g' : Gam) (l : TermList) (name : String) (v : Tree)
    (hn : pluralNames.contains name = true) (hl : g.termList? = some l) (hv : ∀ t ∈ l.terms, TermValid t)
    (h : g.setattr name v = .ok g') :
    ownGet g'.own name = none ∧
      ∃ t, g'.getattr name = .ok t ∧ t.flat = expected (getPlural l.terms name).flatSize v := by
  unfold Gam.setattr at h
  simp only [hn, Bool.not_true, Bool.false_eq_true, if_false, hl, bind, Except.bind] at h
  cases hs : setPlural l.terms name v with
  | error e => simp [hs] at h
  | ok ts =>
    simp only [hs, Except.ok.injEq] at h
    subst h
    have hlen := setPlural_length _ _ _ _ hs
    have hne : l.hasTerms = true := by
      unfold Gam.termList? at hl
      split at hl
      · split at hl
        · rename_i hh; cases hl; exact hh
        · cases hl
      · cases hl
    have hne' : ({ l with terms := ts } : TermList).hasTerms = true := by
      simp only [TermList.hasTerms, Bool.not_eq_true'] at hne ⊢
      cases hts : ts with
      | nil =>
        rw [hts] at hlen
        have : l.terms = [] := List.eq_nil_of_length_eq_zero hlen.symm
        rw [this] at hne; cases hne
      | cons x xs => rfl
    refine ⟨ownGet_ownDel _ _, getPlural ts name, ?_, (setPlural_spec name hn l.terms hv v ts hs).1⟩
    have hn' : name ∈ pluralNames := by simpa using hn
    simp [Gam.getattr, ownGet_ownDel, Gam.termList?, hne', hn']

/-! ## compiled tensor terms -/

/-- built by a constructor -/
def Constructed (a : Atom) : Prop := ∃ k kw, construct k kw = .ok a

theorem constructed_roundTrips (a : Atom) (h : Constructed a) : RoundTrips a := by
  obtain ⟨k, kw, hk⟩ := h
  exact atomFromInfo_info .spline k kw a hk

theorem compileAtoms_info (data : List FeatData) (ms cs : List Atom) (hc : ∀ m ∈ ms, Constructed m)
    (h : compileAtoms data ms = .ok cs) : cs.map Atom.info = ms.map Atom.info := by
  induction ms generalizing cs with
  | nil => simp [compileAtoms] at h; subst h; rfl
  | cons a r ih =>
    simp only [compileAtoms, bind, Except.bind] at h
    cases h1 : compileAtom data a with
    | error e => simp [h1] at h
    | ok c =>
      simp only [h1] at h
      cases h2 : compileAtoms data r with
      | error e => simp [h2] at h
      | ok cr =>
        simp only [h2, Except.ok.injEq] at h
        subst h
        obtain ⟨k, kw, hk⟩ := hc a List.mem_cons_self
        have hkind := construct_kind k kw a hk
        have e1 := (compileAtom_info data a c (by
          intro hf
          rw [hkind] at hf; subst hf
          exact construct_factor_exclude kw a hk) h1).1
        simp [e1, ih cr (fun m hm => hc m (List.mem_cons_of_mem _ hm)) h2]

/-- tensor terms: the term rebuilt from the info of the compiled term and compiled on the same data is the
compiled term -/
theorem tensor_rebuild_compiled (args : List TeArg) (by_ vb : Val) (kw : List (String × Tree)) (d : Dict)
    (ms : List Atom) (data : List FeatData) (c : Term)
    (h : mkTensor args by_ vb kw = .ok (.tensor d ms)) (hm : ∀ m ∈ ms, Constructed m)
    (hc : compileTerm data (.tensor d ms) = .ok c) :
    ∃ t', Term.fromInfo c.info = .ok t' ∧ compileTerm data t' = .ok c := by
  refine ⟨.tensor d ms, ?_, hc⟩
  simp only [compileTerm, bind, Except.bind] at hc
  cases h1 : compileAtoms data ms with
  | error e => simp [h1] at hc
  | ok cs =>
    simp only [h1] at hc
    cases h2 : checkBy data ((dget d "by").getD vnone) with
    | error e => simp [h2] at hc
    | ok u =>
      simp only [h2, Except.ok.injEq] at hc
      subst hc
      have e := compileAtoms_info data ms cs hm h1
      have : (Term.tensor d cs).info = (Term.tensor d ms).info := by simp [Term.info, e]
      rw [this]
      exact tensor_roundtrip args by_ vb kw d ms h (fun m hmm => constructed_roundTrips m (hm m hmm))

/-- a term list made by `TermList(...)` / `+` is rebuilt identically (terms, order, and `verbose`) from its info -/
theorem termList_roundtrip_full (args : List (Term ⊕ List Term)) (v : Bool)
    (h : ∀ t ∈ (TermList.mk' args v).terms, Term.fromInfo t.info = .ok t) :
    TermList.fromInfo (TermList.mk' args v).info = .ok (TermList.mk' args v) := by
  have hn : (((TermList.mk' args v).terms).map Term.key).Nodup := by
    simp only [TermList.mk', mkList, dedup_eq_keepNew]; exact keepNew_nodup Term.key [] _
  have hfix : mkList Term.key ((TermList.mk' args v).terms.map Sum.inl) = (TermList.mk' args v).terms := by
    simp only [mkList, flattenArgs_inl, dedup_eq_keepNew]
    exact keepNew_of_nodup Term.key [] _ hn (by simp)
  simp only [TermList.fromInfo, TermList.info, termsFromInfo_map _ h, bind, Except.bind]
  have hverb : (dget (TermList.mk' args v).d "verbose").getD vnone
      = vbool ((mkList Term.key args).any (fun t => ((dget t.dict "verbose").getD vnone).truthy) || v) := by
    simp +decide [TermList.mk', dget, List.lookup]
  rw [hverb]
  have : (TermList.mk' args v).terms = mkList Term.key args := rfl
  rw [this] at hfix
  have ht : ∀ b : Bool, (vbool b).truthy = b := fun b => rfl
  simp only [TermList.mk', hfix, ht]
  generalize (mkList Term.key args).any (fun t => ((dget t.dict "verbose").getD vnone).truthy) = A
  cases A <;> cases v <;> rfl

/-- `e` succeeded with the value `x` (decidable form, for the concrete examples) -/
def okWith {α : Type} [DecidableEq α] (e : Except Err α) (x : α) : Bool :=
  match e with
  | .ok y => decide (y = x)
  | .error _ => false

end PyGam.TA
