import PyGam.Proofs.Penalty
import Mathlib.Algebra.Order.Ring.Defs
import Mathlib.Algebra.Order.BigOperators.Group.Finset
import Mathlib.Algebra.Order.Field.Basic
import Mathlib.Algebra.Order.Ring.Abs
import Mathlib.Tactic.Linarith
/-!
# Soft constraints: how large can a violation be at a converged fit? (C05)

`monotonicity_(n, coef)` is `(D·mask)(D·mask)ᵀ` with `D` the `n × (n-1)` first-difference matrix and `mask` the
indicator of the violating differences of `coef`.  Its product with a vector telescopes:

  `(C x)_i = u_{i-1} - u_i`,  `u_k = mask_k² · (Δx)_k`   (`u_{-1} = u_{n-1} = 0`),

so the *violating differences are the negated partial sums of `C x`* (`maskedPen1_partial_sum`).  At a fixed point of
PIRLS the rows of the penalised normal equations belonging to the term read
`lamC · (C β)_i + ρ β_i = r_i` with `r` the penalised score residual of the unconstrained criterion
(`Bᵀ W² (z - B β) - (S + P) β`, the "working residual" in coefficient space), `lamC = 1e9` the constraint strength
and `ρ` the conditioning ridge.  Hence every violating difference is bounded by
`(Σ_i |r_i| + ρ Σ_i |β_i|) / lamC` — the bound "of order n × |working residual| / 1e9" of the property.
-/
open Finset
namespace PyGam
variable {α : Type}

section ring
variable [CommRing α]

/-- the first-difference matrix: `D_{i,k} = δ_{i,k+1} - δ_{i,k}` -/
theorem diffMat_one (i k : Nat) :
    diffMat (α := α) 1 i k = (if i = k + 1 then 1 else 0) - (if i = k then 1 else 0) := by
  simp [diffMat, iterDiffLast, diffLast, ident]

/-- the masked violations `u_k = mask_k² (Δx)_k` -/
def maskedViol (mask x : Nat → α) : Nat → α := fun k => mask k * (mask k * diffVec x k)

/-- `C x = D · u` : the product of the masked first-difference penalty with a vector -/
theorem mulVec_maskedPen1 (n : Nat) (mask x : Nat → α) (i : Nat) :
    mulVec n (maskedPen n 1 mask) x i
      = ∑ k ∈ range (n - 1), diffMat (α := α) 1 i k * maskedViol mask x k := by
  simp only [mulVec, maskedPen, sumTo_eq]
  have hcomb : ∀ k, k < n - 1 →
      ∑ j ∈ range n, x j * (diffMat (α := α) 1 j k * mask k) = diffVec x k * mask k := by
    intro k hk
    have := comb_masked n 1 x mask k hk
    simpa [comb, iterDiffVec] using this
  calc ∑ j ∈ range n, (∑ k ∈ range (n - 1),
          (diffMat (α := α) 1 i k * mask k) * (diffMat (α := α) 1 j k * mask k)) * x j
      = ∑ k ∈ range (n - 1), (diffMat (α := α) 1 i k * mask k) *
          ∑ j ∈ range n, x j * (diffMat (α := α) 1 j k * mask k) := by
        simp only [sum_mul, mul_sum]; rw [sum_comm]
        apply sum_congr rfl; intro k _; apply sum_congr rfl; intro j _; ring
    _ = _ := by
        apply sum_congr rfl; intro k hk
        rw [hcomb k (mem_range.mp hk)]; simp only [maskedViol]; ring

/-- telescoped form: `(C x)_i = [1 ≤ i] u_{i-1} - [i < n-1] u_i` for `i < n` -/
theorem mulVec_maskedPen1_telescoped (n : Nat) (mask x : Nat → α) (i : Nat) (hi : i < n) :
    mulVec n (maskedPen n 1 mask) x i
      = (if 0 < i then maskedViol mask x (i - 1) else 0)
        - (if i < n - 1 then maskedViol mask x i else 0) := by
  rw [mulVec_maskedPen1]
  simp only [diffMat_one, sub_mul, sum_sub_distrib, ite_mul, one_mul, zero_mul]
  congr 1
  · by_cases h0 : 0 < i
    · rw [if_pos h0, sum_eq_single (i - 1)]
      · rw [if_pos (by omega)]
      · intro k _ hk; rw [if_neg (by omega)]
      · intro h; exact absurd (mem_range.mpr (by omega)) h
    · rw [if_neg h0]; apply sum_eq_zero; intro k _; rw [if_neg (by omega)]
  · by_cases h1 : i < n - 1
    · rw [if_pos h1, sum_eq_single i]
      · rw [if_pos rfl]
      · intro k _ hk; rw [if_neg (by omega)]
      · intro h; exact absurd (mem_range.mpr h1) h
    · rw [if_neg h1]; apply sum_eq_zero; intro k hk
      rw [if_neg (by have := mem_range.mp hk; omega)]

/-- **the violating differences are the negated partial sums of `C x`** -/
theorem maskedPen1_partial_sum (n : Nat) (mask x : Nat → α) (j : Nat) (hj : j < n - 1) :
    ∑ i ∈ range (j + 1), mulVec n (maskedPen n 1 mask) x i = - maskedViol mask x j := by
  induction j with
  | zero =>
    rw [sum_range_one, mulVec_maskedPen1_telescoped n mask x 0 (by omega)]
    simp [hj]
  | succ j ih =>
    rw [sum_range_succ, ih (by omega), mulVec_maskedPen1_telescoped n mask x (j+1) (by omega)]
    rw [if_pos (by omega), if_pos hj]
    simp only [Nat.add_sub_cancel]; ring

/-! ### second differences (convex / concave) -/

/-- the second-difference matrix: `D_{i,k} = δ_{i,k+2} - 2 δ_{i,k+1} + δ_{i,k}` -/
theorem diffMat_two (i k : Nat) :
    diffMat (α := α) 2 i k
      = (if i = k + 2 then 1 else 0) - 2 * (if i = k + 1 then 1 else 0) + (if i = k then 1 else 0) := by
  simp only [diffMat, iterDiffLast, diffLast, ident]; ring

/-- the masked second-order violations `u_k = mask_k² (Δ²x)_k` -/
def maskedViol2 (mask x : Nat → α) : Nat → α := fun k => mask k * (mask k * iterDiffVec 2 x k)

theorem mulVec_maskedPen2 (n : Nat) (mask x : Nat → α) (i : Nat) :
    mulVec n (maskedPen n 2 mask) x i
      = ∑ k ∈ range (n - 2), diffMat (α := α) 2 i k * maskedViol2 mask x k := by
  simp only [mulVec, maskedPen, sumTo_eq]
  have hcomb : ∀ k, k < n - 2 →
      ∑ j ∈ range n, x j * (diffMat (α := α) 2 j k * mask k) = iterDiffVec 2 x k * mask k := by
    intro k hk
    have := comb_masked n 2 x mask k hk
    simpa [comb] using this
  calc ∑ j ∈ range n, (∑ k ∈ range (n - 2),
          (diffMat (α := α) 2 i k * mask k) * (diffMat (α := α) 2 j k * mask k)) * x j
      = ∑ k ∈ range (n - 2), (diffMat (α := α) 2 i k * mask k) *
          ∑ j ∈ range n, x j * (diffMat (α := α) 2 j k * mask k) := by
        simp only [sum_mul, mul_sum]; rw [sum_comm]
        apply sum_congr rfl; intro k _; apply sum_congr rfl; intro j _; ring
    _ = _ := by
        apply sum_congr rfl; intro k hk
        rw [hcomb k (mem_range.mp hk)]; simp only [maskedViol2]; ring

/-- `u` extended by zero outside `0 ≤ k < m` (integer index) -/
def extZ (m : Nat) (u : Nat → α) (k : Int) : α := if 0 ≤ k ∧ k < m then u k.toNat else 0

theorem sum_ite_shift (m : Nat) (u : Nat → α) (i s : Nat) :
    ∑ k ∈ range m, (if i = k + s then u k else 0) = extZ m u ((i : Int) - s) := by
  unfold extZ
  by_cases h : s ≤ i ∧ i - s < m
  · rw [sum_eq_single (i - s)]
    · rw [if_pos (by omega), if_pos (by omega)]; congr 1; omega
    · intro k _ hk; rw [if_neg (by omega)]
    · intro hh; exact absurd (mem_range.mpr h.2) hh
  · rw [if_neg (by omega)]; apply sum_eq_zero; intro k hk
    have := mem_range.mp hk; rw [if_neg (by omega)]

/-- telescoped form: `(C x)_i = u_{i-2} - 2 u_{i-1} + u_i` with `u` extended by zero outside `0 ≤ k < n-2` -/
theorem mulVec_maskedPen2_telescoped (n : Nat) (mask x : Nat → α) (i : Nat) :
    mulVec n (maskedPen n 2 mask) x i
      = extZ (n - 2) (maskedViol2 mask x) ((i : Int) - 2)
        - 2 * extZ (n - 2) (maskedViol2 mask x) ((i : Int) - 1)
        + extZ (n - 2) (maskedViol2 mask x) (i : Int) := by
  rw [mulVec_maskedPen2]
  simp only [diffMat_two, add_mul, sub_mul, sum_add_distrib, sum_sub_distrib, mul_assoc, ← mul_sum,
    ite_mul, one_mul, zero_mul]
  have h0 := sum_ite_shift (n - 2) (maskedViol2 mask x) i 0
  have h1 := sum_ite_shift (n - 2) (maskedViol2 mask x) i 1
  have h2 := sum_ite_shift (n - 2) (maskedViol2 mask x) i 2
  simp only [Nat.add_zero, Nat.cast_zero, sub_zero, Nat.cast_one, Nat.cast_ofNat] at h0 h1 h2
  rw [h0, h1, h2]

/-- first partial sums: `Σ_{i ≤ j} (C x)_i = u_j - u_{j-1}` -/
theorem maskedPen2_partial_sum (n : Nat) (mask x : Nat → α) (j : Nat) :
    ∑ i ∈ range (j + 1), mulVec n (maskedPen n 2 mask) x i
      = extZ (n - 2) (maskedViol2 mask x) (j : Int) - extZ (n - 2) (maskedViol2 mask x) ((j : Int) - 1) := by
  induction j with
  | zero =>
    rw [sum_range_one, mulVec_maskedPen2_telescoped]
    have e1 : extZ (n - 2) (maskedViol2 mask x) (((0:Nat) : Int) - 2) = 0 := by unfold extZ; rw [if_neg (by omega)]
    have e2 : extZ (n - 2) (maskedViol2 mask x) (((0:Nat) : Int) - 1) = 0 := by unfold extZ; rw [if_neg (by omega)]
    rw [e1, e2]; ring
  | succ j ih =>
    rw [sum_range_succ, ih, mulVec_maskedPen2_telescoped]
    have a1 : ((j + 1 : Nat) : Int) - 2 = (j : Int) - 1 := by push_cast; ring
    have a2 : ((j + 1 : Nat) : Int) - 1 = (j : Int) := by push_cast; ring
    rw [a1, a2]; ring

/-- **second-order violations are the double partial sums of `C x`** -/
theorem maskedPen2_double_partial_sum (n : Nat) (mask x : Nat → α) (j : Nat) (hj : j < n - 2) :
    ∑ l ∈ range (j + 1), ∑ i ∈ range (l + 1), mulVec n (maskedPen n 2 mask) x i = maskedViol2 mask x j := by
  have key : ∀ j : Nat, ∑ l ∈ range (j + 1), ∑ i ∈ range (l + 1), mulVec n (maskedPen n 2 mask) x i
      = extZ (n - 2) (maskedViol2 mask x) (j : Int) := by
    intro j
    induction j with
    | zero =>
      rw [sum_range_one, maskedPen2_partial_sum]
      have e1 : extZ (n - 2) (maskedViol2 mask x) (((0:Nat) : Int) - 1) = 0 := by unfold extZ; rw [if_neg (by omega)]
      rw [e1, sub_zero]
    | succ j ih =>
      rw [sum_range_succ, ih, maskedPen2_partial_sum]
      have a2 : ((j + 1 : Nat) : Int) - 1 = (j : Int) := by push_cast; ring
      rw [a2]; ring
  rw [key j]; unfold extZ; rw [if_pos (by omega)]; simp

end ring

section ordered
variable [Field α] [LinearOrder α] [IsStrictOrderedRing α]

/-- the violating part of a difference: `min (Δc_k) 0` (increasing) or `max (Δc_k) 0` (decreasing) -/
def violPart (incr : Bool) (c : Nat → α) (k : Nat) : α :=
  if incr then min (diffVec c k) 0 else max (diffVec c k) 0

omit [IsStrictOrderedRing α] in
theorem maskedViol_monoMask (incr : Bool) (c : Nat → α) (k : Nat) :
    maskedViol (monoMask incr c) c k = violPart incr c k := by
  cases incr
  · simp only [maskedViol, monoMask, violPart, Bool.false_eq_true, if_false]
    by_cases h : 0 < diffVec c k
    · simp [h, le_of_lt h]
    · simp [h, not_lt.mp h]
  · simp only [maskedViol, monoMask, violPart, if_true]
    by_cases h : diffVec c k < 0
    · simp [h, le_of_lt h]
    · simp [h, not_lt.mp h]

/-- **bound on the violations at a fixed point**: if the rows of the penalised normal equations that belong to
the constrained term read `lamC (C(c) c)_i + ρ c_i = r_i` (`r` = penalised score residual of the unconstrained
criterion), then each violating difference is `-(1/lamC) Σ_{i ≤ j} (r_i - ρ c_i)`. -/
theorem mono_violation_eq (incr : Bool) (n : Nat) (c r : Nat → α) (lamC ρ : α) (hl : 0 < lamC)
    (hfix : ∀ i < n, lamC * mulVec n (monoPen incr n c) c i + ρ * c i = r i)
    (j : Nat) (hj : j < n - 1) :
    violPart incr c j = - (∑ i ∈ range (j + 1), (r i - ρ * c i)) / lamC := by
  have hps := maskedPen1_partial_sum n (monoMask incr c) c j hj
  rw [maskedViol_monoMask] at hps
  have : ∑ i ∈ range (j + 1), (r i - ρ * c i)
       = lamC * ∑ i ∈ range (j + 1), mulVec n (monoPen incr n c) c i := by
    rw [mul_sum]; apply sum_congr rfl; intro i hi
    have := hfix i (by have := mem_range.mp hi; omega)
    linarith
  rw [this]; unfold monoPen; rw [hps, mul_neg, neg_neg, mul_div_cancel_left₀ _ (ne_of_gt hl)]

/-- **the bound of the property**: `|violation_j| ≤ (Σ_i |r_i| + ρ Σ_i |c_i|) / lamC` — with `lamC = 1e9` and `n`
coefficients this is "of order n × |working residual| / 1e9". -/
theorem mono_violation_bound (incr : Bool) (n : Nat) (c r : Nat → α) (lamC ρ : α) (hl : 0 < lamC) (hρ : 0 ≤ ρ)
    (hfix : ∀ i < n, lamC * mulVec n (monoPen incr n c) c i + ρ * c i = r i)
    (j : Nat) (hj : j < n - 1) :
    |violPart incr c j| ≤ (∑ i ∈ range n, |r i| + ρ * ∑ i ∈ range n, |c i|) / lamC := by
  rw [mono_violation_eq incr n c r lamC ρ hl hfix j hj, abs_div, abs_neg, abs_of_pos hl]
  apply div_le_div_of_nonneg_right _ (le_of_lt hl)
  calc |∑ i ∈ range (j + 1), (r i - ρ * c i)|
      ≤ ∑ i ∈ range (j + 1), |r i - ρ * c i| := abs_sum_le_sum_abs _ _
    _ ≤ ∑ i ∈ range (j + 1), (|r i| + ρ * |c i|) := by
        apply sum_le_sum; intro i _
        calc |r i - ρ * c i| ≤ |r i| + |ρ * c i| := abs_sub _ _
          _ = |r i| + ρ * |c i| := by rw [abs_mul, abs_of_nonneg hρ]
    _ ≤ ∑ i ∈ range n, (|r i| + ρ * |c i|) := by
        apply sum_le_sum_of_subset_of_nonneg
        · intro i hi; rw [mem_range] at *; omega
        · intro i _ _; have := abs_nonneg (r i); have := mul_nonneg hρ (abs_nonneg (c i)); linarith
    _ = _ := by rw [sum_add_distrib, mul_sum]

/-! ### convex / concave -/

/-- the violating part of a second difference: `min (Δ²c_k) 0` (convex) or `max (Δ²c_k) 0` (concave) -/
def violPart2 (convex : Bool) (c : Nat → α) (k : Nat) : α :=
  if convex then min (iterDiffVec 2 c k) 0 else max (iterDiffVec 2 c k) 0

omit [IsStrictOrderedRing α] in
theorem maskedViol2_convMask (convex : Bool) (c : Nat → α) (k : Nat) :
    maskedViol2 (convMask convex c) c k = violPart2 convex c k := by
  cases convex
  · simp only [maskedViol2, convMask, violPart2, Bool.false_eq_true, if_false]
    by_cases h : 0 < iterDiffVec 2 c k
    · simp [h, le_of_lt h]
    · simp [h, not_lt.mp h]
  · simp only [maskedViol2, convMask, violPart2, if_true]
    by_cases h : iterDiffVec 2 c k < 0
    · simp [h, le_of_lt h]
    · simp [h, not_lt.mp h]

/-- at a fixed point each violating second difference is the double partial sum of `(r - ρ c) / lamC` -/
theorem conv_violation_eq (convex : Bool) (n : Nat) (c r : Nat → α) (lamC ρ : α) (hl : 0 < lamC)
    (hfix : ∀ i < n, lamC * mulVec n (convPen convex n c) c i + ρ * c i = r i)
    (j : Nat) (hj : j < n - 2) :
    violPart2 convex c j = (∑ l ∈ range (j + 1), ∑ i ∈ range (l + 1), (r i - ρ * c i)) / lamC := by
  have hps := maskedPen2_double_partial_sum n (convMask convex c) c j hj
  rw [maskedViol2_convMask] at hps
  have : ∑ l ∈ range (j + 1), ∑ i ∈ range (l + 1), (r i - ρ * c i)
       = lamC * ∑ l ∈ range (j + 1), ∑ i ∈ range (l + 1), mulVec n (convPen convex n c) c i := by
    rw [mul_sum]; apply sum_congr rfl; intro l hl'
    rw [mul_sum]; apply sum_congr rfl; intro i hi
    have := hfix i (by have := mem_range.mp hi; have := mem_range.mp hl'; omega)
    linarith
  rw [this]; unfold convPen; rw [hps, mul_div_cancel_left₀ _ (ne_of_gt hl)]

/-- **the bound for convex / concave constraints**: `|violation_j| ≤ n (Σ_i |r_i| + ρ Σ_i |c_i|) / lamC` -/
theorem conv_violation_bound (convex : Bool) (n : Nat) (c r : Nat → α) (lamC ρ : α) (hl : 0 < lamC) (hρ : 0 ≤ ρ)
    (hfix : ∀ i < n, lamC * mulVec n (convPen convex n c) c i + ρ * c i = r i)
    (j : Nat) (hj : j < n - 2) :
    |violPart2 convex c j| ≤ (n : α) * (∑ i ∈ range n, |r i| + ρ * ∑ i ∈ range n, |c i|) / lamC := by
  rw [conv_violation_eq convex n c r lamC ρ hl hfix j hj, abs_div, abs_of_pos hl]
  apply div_le_div_of_nonneg_right _ (le_of_lt hl)
  have inner : ∀ l ∈ range (j + 1), |∑ i ∈ range (l + 1), (r i - ρ * c i)|
      ≤ ∑ i ∈ range n, |r i| + ρ * ∑ i ∈ range n, |c i| := by
    intro l hl'
    calc |∑ i ∈ range (l + 1), (r i - ρ * c i)|
        ≤ ∑ i ∈ range (l + 1), |r i - ρ * c i| := abs_sum_le_sum_abs _ _
      _ ≤ ∑ i ∈ range (l + 1), (|r i| + ρ * |c i|) := by
          apply sum_le_sum; intro i _
          calc |r i - ρ * c i| ≤ |r i| + |ρ * c i| := abs_sub _ _
            _ = |r i| + ρ * |c i| := by rw [abs_mul, abs_of_nonneg hρ]
      _ ≤ ∑ i ∈ range n, (|r i| + ρ * |c i|) := by
          apply sum_le_sum_of_subset_of_nonneg
          · intro i hi; have := mem_range.mp hl'; rw [mem_range] at *; omega
          · intro i _ _; have := abs_nonneg (r i); have := mul_nonneg hρ (abs_nonneg (c i)); linarith
      _ = _ := by rw [sum_add_distrib, mul_sum]
  calc |∑ l ∈ range (j + 1), ∑ i ∈ range (l + 1), (r i - ρ * c i)|
      ≤ ∑ l ∈ range (j + 1), |∑ i ∈ range (l + 1), (r i - ρ * c i)| := abs_sum_le_sum_abs _ _
    _ ≤ ∑ _l ∈ range (j + 1), (∑ i ∈ range n, |r i| + ρ * ∑ i ∈ range n, |c i|) := sum_le_sum inner
    _ = ((j + 1 : Nat) : α) * (∑ i ∈ range n, |r i| + ρ * ∑ i ∈ range n, |c i|) := by
        rw [sum_const, card_range, nsmul_eq_mul]
    _ ≤ (n : α) * (∑ i ∈ range n, |r i| + ρ * ∑ i ∈ range n, |c i|) := by
        apply mul_le_mul_of_nonneg_right
        · exact_mod_cast (by omega : j + 1 ≤ n)
        · have h1 : 0 ≤ ∑ i ∈ range n, |r i| := sum_nonneg (fun i _ => abs_nonneg _)
          have h2 : 0 ≤ ρ * ∑ i ∈ range n, |c i| := mul_nonneg hρ (sum_nonneg (fun i _ => abs_nonneg _))
          linarith

end ordered
end PyGam
