import PyGam.Model.XR
import PyGam.Proofs.Links
import Mathlib.Algebra.Order.Field.Basic
import Mathlib.Tactic.Linarith
/-!
# Decision lemmas over the IEEE special-value algebra `XR α`

All statements hold over every linearly ordered field `α` and **every** `ExpLog α` instance: the NaN-class
of `link(y)` does not depend on the finite values `exp / log / sqrt` return.
-/
set_option linter.unusedSectionVars false
set_option linter.unusedSimpArgs false
open Set
namespace PyGam
open LinkKind XR

section
variable {α : Type} [Field α] [LinearOrder α] [IsStrictOrderedRing α] [ExpLog α]

theorem XR.one_def : (1 : XR α) = fin 1 := rfl
theorem XR.zero_def : (0 : XR α) = fin 0 := rfl
theorem XR.sub_fin (a b : α) : (fin a - fin b : XR α) = fin (a - b) := rfl
theorem XR.mul_fin (a b : α) : (fin a * fin b : XR α) = fin (a * b) := rfl
theorem XR.expLog_log (x : XR α) : ExpLog.log x = XR.log x := rfl
theorem XR.expLog_exp (x : XR α) : ExpLog.exp x = XR.exp x := rfl
theorem XR.expLog_sqrt (x : XR α) : ExpLog.sqrt x = XR.sqrt x := rfl

theorem XR.div_fin_fin (a b : α) : XR.div (fin a) (fin b) =
    if 0 < b then fin (a / b) else if b < 0 then fin (a / b) else XR.infTimes a := rfl
theorem XR.log_fin (a : α) : XR.log (fin a) =
    if 0 < a then fin (ExpLog.log a) else if a < 0 then nan else negInf := rfl
theorem XR.log_fin_pos {a : α} (h : 0 < a) : XR.log (fin a) = fin (ExpLog.log a) := by
  rw [XR.log_fin, if_pos h]
theorem XR.log_fin_neg {a : α} (h : a < 0) : XR.log (fin a) = nan := by
  rw [XR.log_fin, if_neg (not_lt.mpr h.le), if_pos h]
theorem XR.log_fin_zero : XR.log (fin (0 : α)) = negInf := by
  rw [XR.log_fin, if_neg (lt_irrefl _), if_neg (lt_irrefl _)]
theorem XR.sub_nan_left (x : XR α) : XR.sub nan x = nan := rfl
theorem XR.sub_nan_right (x : XR α) : XR.sub x nan = nan := by cases x <;> rfl

/-- `1 / y` is never NaN for a finite `y` (`1 / 0 = +inf`) -/
theorem XR.one_div_fin_isNaN (y : α) : ((1 : XR α) / fin y).isNaN = false := by
  show (XR.div (fin 1) (fin y)).isNaN = false
  rw [XR.div_fin_fin]
  split_ifs <;> simp [XR.isNaN, XR.infTimes]

theorem XR.log_fin_isNaN (y : α) : (XR.log (fin y)).isNaN = true ↔ y < 0 := by
  rw [XR.log_fin]
  split_ifs with h1 h2
  · simp [XR.isNaN, not_lt.mpr h1.le]
  · simp [XR.isNaN, h2]
  · simp [XR.isNaN, h2]

theorem linkIsNaN_identity (L y : α) : linkIsNaN identity L (fin y) = false := rfl

theorem linkIsNaN_log (L y : α) : linkIsNaN LinkKind.log L (fin y) = true ↔ y < 0 :=
  XR.log_fin_isNaN y

theorem linkIsNaN_inverse (L y : α) : linkIsNaN inverse L (fin y) = false :=
  XR.one_div_fin_isNaN y

theorem linkIsNaN_invSquared (L y : α) : linkIsNaN invSquared L (fin y) = false :=
  XR.one_div_fin_isNaN (y * y)

theorem linkIsNaN_logit (L y : α) (hL : 0 < L) :
    linkIsNaN logit L (fin y) = true ↔ (y < 0 ∨ L < y) := by
  show (XR.sub (XR.log (fin y)) (XR.log (fin (L - y)))).isNaN = true ↔ _
  rcases lt_trichotomy y 0 with h | h | h
  · rw [XR.log_fin_neg h, XR.sub_nan_left]; simp [XR.isNaN, h]
  · subst h
    rw [XR.log_fin_zero, sub_zero, XR.log_fin_pos hL]
    simp [XR.sub, XR.isNaN, not_lt.mpr hL.le]
  · have h' : ¬ y < 0 := not_lt.mpr h.le
    rw [XR.log_fin_pos h]
    rcases lt_trichotomy y L with g | g | g
    · rw [XR.log_fin_pos (sub_pos.mpr g)]
      simp [XR.sub, XR.isNaN, h', not_lt.mpr g.le]
    · subst g
      rw [sub_self, XR.log_fin_zero]
      simp [XR.sub, XR.isNaN, h']
    · rw [XR.log_fin_neg (sub_neg.mpr g), XR.sub_nan_right]
      simp [XR.isNaN, g]

/-- the scalar decision of `check_y` on a finite target: NaN exactly outside the closed domain -/
theorem linkIsNaN_fin_iff (k : LinkKind) (L y : α) (hL : 0 < L) :
    linkIsNaN k L (fin y) = true ↔ y ∉ closedDomain k L := by
  cases k
  · simp [linkIsNaN_identity, closedDomain]
  · rw [linkIsNaN_log]; simp [closedDomain]
  · rw [linkIsNaN_logit L y hL]; simp only [closedDomain, mem_ofPred_eq, not_and_or, not_le]
  · simp [linkIsNaN_inverse, closedDomain]
  · simp [linkIsNaN_invSquared, closedDomain]

theorem XR.isFinite_iff (y : XR α) : y.isFinite = true ↔ ∃ z, y = fin z := by
  cases y <;> simp [XR.isFinite]

/-- `check_y` accepts exactly the non-empty arrays of finite targets inside the closed domain -/
theorem checkY_accept_iff' (k : LinkKind) (L : α) (hL : 0 < L) (ys : List (XR α)) :
    checkY k L ys = Verdict.accept ↔
      ys ≠ [] ∧ ∀ y ∈ ys, ∃ z, y = fin z ∧ z ∈ closedDomain k L := by
  unfold checkY
  split_ifs with h1 h2 h3
  · simp only [reduceCtorEq, false_iff, not_and]
    intro _ hall
    obtain ⟨y, hy, hfin⟩ := List.any_eq_true.mp h1
    obtain ⟨z, hz, _⟩ := hall y hy
    subst hz; simp [XR.isFinite] at hfin
  · simp only [reduceCtorEq, false_iff, not_and]
    intro hne
    have : ys = [] := List.eq_nil_of_length_eq_zero (by omega)
    exact absurd this hne
  · simp only [reduceCtorEq, false_iff, not_and]
    intro _ hall
    obtain ⟨y, hy, hnan⟩ := List.any_eq_true.mp h3
    obtain ⟨z, hz, hdom⟩ := hall y hy
    subst hz
    exact absurd hdom ((linkIsNaN_fin_iff k L z hL).mp hnan)
  · simp only [true_iff]
    refine ⟨fun h => by simp [h] at h2, fun y hy => ?_⟩
    have hf : y.isFinite = true := by
      by_contra hc
      exact h1 (List.any_eq_true.mpr ⟨y, hy, by simpa using hc⟩)
    obtain ⟨z, hz⟩ := (XR.isFinite_iff y).mp hf
    subst hz
    refine ⟨z, rfl, ?_⟩
    by_contra hc
    exact h3 (List.any_eq_true.mpr ⟨fin z, hy, (linkIsNaN_fin_iff k L z hL).mpr hc⟩)

/-! ### `get_link_domain` evaluated -/
theorem linkIsNaN_negInf_identity (L : α) : linkIsNaN identity L negInf = false := rfl
theorem linkIsNaN_posInf_identity (L : α) : linkIsNaN identity L posInf = false := rfl
theorem linkIsNaN_negInf_log (L : α) : linkIsNaN LinkKind.log L negInf = true := rfl
theorem linkIsNaN_posInf_log (L : α) : linkIsNaN LinkKind.log L posInf = false := rfl
theorem linkIsNaN_negInf_logit (L : α) : linkIsNaN logit L negInf = true := rfl
theorem linkIsNaN_posInf_logit (L : α) : linkIsNaN logit L posInf = true := rfl
theorem linkIsNaN_negInf_inverse (L : α) : linkIsNaN inverse L negInf = false := rfl
theorem linkIsNaN_posInf_inverse (L : α) : linkIsNaN inverse L posInf = false := rfl
theorem linkIsNaN_negInf_invSquared (L : α) : linkIsNaN invSquared L negInf = false := rfl
theorem linkIsNaN_posInf_invSquared (L : α) : linkIsNaN invSquared L posInf = false := rfl

theorem getLinkDomain_identity (L : α) : getLinkDomain identity L = some (negInf, posInf) := by
  simp [getLinkDomain, domainProbes, List.filter, linkIsNaN_identity, linkIsNaN_negInf_identity,
    linkIsNaN_posInf_identity]

theorem getLinkDomain_inverse (L : α) : getLinkDomain inverse L = some (negInf, posInf) := by
  simp [getLinkDomain, domainProbes, List.filter, linkIsNaN_inverse, linkIsNaN_negInf_inverse,
    linkIsNaN_posInf_inverse]

theorem getLinkDomain_invSquared (L : α) : getLinkDomain invSquared L = some (negInf, posInf) := by
  simp [getLinkDomain, domainProbes, List.filter, linkIsNaN_invSquared,
    linkIsNaN_negInf_invSquared, linkIsNaN_posInf_invSquared]

theorem getLinkDomain_log (L : α) : getLinkDomain LinkKind.log L = some (fin 0, posInf) := by
  have h1 : linkIsNaN LinkKind.log L (fin (-1)) = true := (linkIsNaN_log L (-1)).mpr (by simp)
  have h2 : linkIsNaN LinkKind.log L (fin 0) = false := by
    rw [Bool.eq_false_iff, ne_eq, linkIsNaN_log]; simp
  have h3 : linkIsNaN LinkKind.log L (fin 1) = false := by
    rw [Bool.eq_false_iff, ne_eq, linkIsNaN_log]; simp
  simp [getLinkDomain, domainProbes, List.filter, h1, h2, h3, linkIsNaN_negInf_log,
    linkIsNaN_posInf_log]

theorem getLinkDomain_logit (L : α) (hL : 0 < L) :
    getLinkDomain logit L = some (fin 0, if 1 ≤ L then fin 1 else fin 0) := by
  have h1 : linkIsNaN logit L (fin (-1)) = true := (linkIsNaN_logit L (-1) hL).mpr (by simp)
  have h2 : linkIsNaN logit L (fin 0) = false := by
    rw [Bool.eq_false_iff, ne_eq, linkIsNaN_logit L 0 hL]; simp [hL.le]
  by_cases h : 1 ≤ L
  · have h3 : linkIsNaN logit L (fin 1) = false := by
      rw [Bool.eq_false_iff, ne_eq, linkIsNaN_logit L 1 hL]; simp [h]
    simp [getLinkDomain, domainProbes, List.filter, h1, h2, h3, h, linkIsNaN_negInf_logit,
      linkIsNaN_posInf_logit]
  · have h3 : linkIsNaN logit L (fin 1) = true :=
      (linkIsNaN_logit L 1 hL).mpr (Or.inr (not_le.mp h))
    simp [getLinkDomain, domainProbes, List.filter, h1, h2, h3, h, linkIsNaN_negInf_logit,
      linkIsNaN_posInf_logit]

end
end PyGam
