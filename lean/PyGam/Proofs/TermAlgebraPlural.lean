import PyGam.Proofs.TermAlgebraValidate
/-!
# Plural attributes: the right-to-left distribution loop reads back what was assigned

Generic part (`distR_collect`, `setSeq_collect`) over an abstract term type with a per-term contract; then the
instances: marginals of a tensor term (`tensorSet_spec`), terms of a term list (`setPlural_spec`).
-/
namespace PyGam.TA

section dist
variable {τ : Type} (skip : τ → Bool) (arity : τ → Except Err Nat) (setOne : τ → Tree → Except Err τ)
  (get : τ → List Sc) (Inv : τ → Prop)

/-- the values read back from a *reversed* list of terms (non-skipped terms, in the original order) -/
def collectR : List τ → List Sc
  | [] => []
  | t :: r => collectR r ++ (if skip t then [] else get t)

/-- the values read back from a list of terms: what `flatten(getattr(obj, name))` returns -/
def collectN : List τ → List Sc
  | [] => []
  | t :: r => (if skip t then [] else get t) ++ collectN r

theorem collectR_append (a b : List τ) : collectR skip get (a ++ b) = collectR skip get b ++ collectR skip get a := by
  induction a with
  | nil => simp [collectR]
  | cons t r ih => simp [collectR, ih, List.append_assoc]

theorem collectR_reverse (ts : List τ) : collectR skip get ts.reverse = collectN skip get ts := by
  induction ts with
  | nil => rfl
  | cons t r ih => simp [collectR_append, collectR, collectN, ih]

theorem distR_collect
    (H : ∀ t v t', Inv t → skip t = false → arity t = .ok v.length → setOne t (packVals v) = .ok t' →
          get t' = v ∧ skip t' = false ∧ Inv t')
    (Hsize : ∀ t n, Inv t → skip t = false → arity t = .ok n → (get t).length = n)
    (rs : List τ) : ∀ (vals : List Sc) (rs' : List τ), (∀ t ∈ rs, Inv t) →
      distR skip arity setOne rs vals = .ok rs' → (collectR skip get rs).length = vals.length →
      collectR skip get rs' = vals ∧ (∀ t ∈ rs', Inv t) := by
  induction rs with
  | nil =>
    intro vals rs' _ h ht
    simp only [distR] at h
    cases h
    simp only [collectR, List.length_nil] at ht
    have : vals = [] := List.eq_nil_of_length_eq_zero ht.symm
    simp [collectR, this]
  | cons t ts ih =>
    intro vals rs' hinv h ht
    have hinvt : Inv t := hinv t List.mem_cons_self
    have hinvts : ∀ u ∈ ts, Inv u := fun u hu => hinv u (List.mem_cons_of_mem _ hu)
    by_cases hs : skip t = true
    · simp only [distR, hs, if_true] at h
      simp only [collectR, hs, if_true, List.append_nil] at ht
      cases hr : distR skip arity setOne ts vals with
      | error e => simp [hr, bind, Except.bind] at h
      | ok r =>
        simp [hr, bind, Except.bind] at h
        cases h
        simp only [collectR, hs, if_true, List.append_nil]
        have := ih vals r hinvts hr ht
        refine ⟨this.1, ?_⟩
        intro u hu
        rcases List.mem_cons.mp hu with rfl | hu
        · exact hinvt
        · exact this.2 u hu
    · have hs' : skip t = false := by simpa using hs
      simp only [distR, hs', Bool.false_eq_true, if_false] at h
      simp only [collectR, hs', Bool.false_eq_true, if_false, List.length_append] at ht
      cases ha : arity t with
      | error e => simp [ha, bind, Except.bind] at h
      | ok n =>
        simp only [ha, bind, Except.bind] at h
        have hgn := Hsize t n hinvt hs' ha
        by_cases hl : vals.length < n
        · simp [hl] at h
        · simp only [hl, if_false] at h
          cases hso : setOne t (packVals (vals.drop (vals.length - n))) with
          | error e => simp [hso] at h
          | ok t' =>
            simp only [hso] at h
            cases hr : distR skip arity setOne ts (vals.take (vals.length - n)) with
            | error e => simp [hr] at h
            | ok r =>
              simp only [hr] at h
              cases h
              have hlen : (vals.drop (vals.length - n)).length = n := by simp; omega
              have h1 := H t (vals.drop (vals.length - n)) t' hinvt hs' (by rw [hlen]; exact ha) hso
              have h2 := ih (vals.take (vals.length - n)) r hinvts hr (by simp; omega)
              refine ⟨?_, ?_⟩
              · simp only [collectR, h1.2.1, Bool.false_eq_true, if_false, h1.1, h2.1]
                exact List.take_append_drop _ _
              · intro u hu
                rcases List.mem_cons.mp hu with rfl | hu
                · exact h1.2.2
                · exact h2.2 u hu

/-- the flattened value that a successful plural assignment stores: a scalar is broadcast to the current size -/
def expected (size : Nat) : Tree → List Sc
  | .leaf s => List.replicate size s
  | .node l => flatL l

theorem setSeq_collect
    (H : ∀ t v t', Inv t → skip t = false → arity t = .ok v.length → setOne t (packVals v) = .ok t' →
          get t' = v ∧ skip t' = false ∧ Inv t')
    (Hsize : ∀ t n, Inv t → skip t = false → arity t = .ok n → (get t).length = n)
    (ts : List τ) (hinv : ∀ t ∈ ts, Inv t) (value : Tree) (ts' : List τ)
    (h : setSeq skip arity setOne (collectN skip get ts).length value ts = .ok ts') :
    collectN skip get ts' = expected (collectN skip get ts).length value ∧ (∀ t ∈ ts', Inv t) := by
  unfold setSeq at h
  simp only [bind, Except.bind] at h
  have key : ∀ vs : List Sc, vs.length = (collectN skip get ts).length →
      ∀ r, distR skip arity setOne ts.reverse vs = .ok r →
        collectN skip get r.reverse = vs ∧ (∀ t ∈ r.reverse, Inv t) := by
    intro vs hvs r hr
    have := distR_collect skip arity setOne get Inv H Hsize ts.reverse vs r
      (fun t ht => hinv t (List.mem_reverse.mp ht)) hr (by rw [collectR_reverse, hvs])
    refine ⟨?_, fun t ht => this.2 t (List.mem_reverse.mp ht)⟩
    rw [← collectR_reverse, List.reverse_reverse]; exact this.1
  cases value with
  | leaf s =>
    simp only at h
    cases hr : distR skip arity setOne ts.reverse (List.replicate (collectN skip get ts).length s) with
    | error e => simp [hr] at h
    | ok r =>
      simp only [hr, Except.ok.injEq] at h
      subst h
      exact key (List.replicate _ s) List.length_replicate r hr
  | node l =>
    by_cases hlen : (flatL l).length = (collectN skip get ts).length
    · simp only [hlen, ne_eq, not_true_eq_false, if_false] at h
      cases hr : distR skip arity setOne ts.reverse (flatL l) with
      | error e => simp [hr] at h
      | ok r =>
        simp only [hr, Except.ok.injEq] at h
        subst h
        exact key _ hlen r hr
    · simp [hlen] at h

theorem setSeq_wrong_length (size : Nat) (l : List Tree) (ts : List τ) (h : (flatL l).length ≠ size) :
    setSeq skip arity setOne size (.node l) ts = .error .value := by
  simp [setSeq, h, bind, Except.bind]

theorem flatL_replicate_leaf (n : Nat) (s : Sc) : flatL (List.replicate n (Tree.leaf s)) = List.replicate n s := by
  induction n with
  | zero => rfl
  | succ n ih => simp [List.replicate_succ, flatL, Tree.flat, ih]

theorem setSeq_broadcast (size : Nat) (s : Sc) (ts : List τ) :
    setSeq skip arity setOne size (.leaf s) ts
      = setSeq skip arity setOne size (.node (List.replicate size (.leaf s))) ts := by
  simp [setSeq, flatL_replicate_leaf]

end dist

theorem flatL_filter_map {τ : Type} (skip : τ → Bool) (g : τ → Tree) (ts : List τ) :
    flatL ((ts.filter (fun t => !skip t)).map g) = collectN skip (fun t => (g t).flat) ts := by
  induction ts with
  | nil => rfl
  | cons t r ih =>
    by_cases h : skip t = true
    · simp [h, collectN, ih]
    · have h' : skip t = false := by simpa using h
      simp [h', collectN, flatL, ih]

theorem expected_packVals (v : List Sc) : expected v.length (packVals v) = v := by
  unfold packVals
  split
  · simp [expected]
  · simp [expected, flatL_leaf]

theorem isIntercept_false_iff (a : Atom) : a.isIntercept = false ↔ a.kind ≠ .intercept := by
  simp [Atom.isIntercept]

/-- flattened read-back of the marginals of a tensor term -/
theorem tensorGet_flat (ms : List Atom) (name : String) :
    (tensorGet ms name).flat = collectN Atom.isIntercept (fun a => (a.getD name).flat) ms := by
  simp only [tensorGet, Tree.flat]
  exact flatL_filter_map Atom.isIntercept (fun a => a.getD name) ms

theorem atom_arity_len (name : String) (a : Atom) (n : Nat) (h : a.arity name = .ok n) :
    ((a.getD name).flat).length = n := by
  unfold Atom.arity at h
  simp only [attr, bind, Except.bind] at h
  unfold Atom.getD
  cases hd : dget a.d name with
  | none => simp [hd] at h
  | some v =>
    simp only [hd, Except.ok.injEq, Tree.flatSize] at h
    simpa using h

/-- `setattr(tensor, name, value)` on valid marginals: the flattened read-back is the assigned value
(a scalar broadcast to the current size), and the marginals stay valid -/
theorem tensorSet_spec (name : String) (ms : List Atom) (hv : ∀ m ∈ ms, AtomValid m) (value : Tree)
    (ms' : List Atom) (h : tensorSet ms name value = .ok ms') :
    (tensorGet ms' name).flat = expected (tensorGet ms name).flatSize value ∧ (∀ m ∈ ms', AtomValid m) := by
  unfold tensorSet at h
  rw [Tree.flatSize, tensorGet_flat] at h
  have := setSeq_collect Atom.isIntercept (Atom.arity name) (Atom.setOne name) (fun a => (a.getD name).flat) AtomValid
    (by
      intro t v t' hinv hs har hset
      have hk := (isIntercept_false_iff t).mp hs
      obtain ⟨h1, h2, h3⟩ := atom_setOne_spec name t hinv hk v t' har hset
      exact ⟨h1, (isIntercept_false_iff t').mpr (h2 ▸ hk), h3⟩)
    (by
      intro t n _ _ har
      exact atom_arity_len name t n har)
    ms hv value ms' h
  rw [tensorGet_flat, Tree.flatSize, tensorGet_flat]
  exact this

/-- validity of a term: valid atoms; a tensor term holds no plural name in its own dictionary -/
def TermValid : Term → Prop
  | .atom a => AtomValid a
  | .tensor d ms => (∀ m ∈ ms, AtomValid m) ∧ (∀ n, pluralNames.contains n = true → dget d n = none)

theorem validateAtoms_valid (ms : List Atom) (hv : ∀ m ∈ ms, AtomValid m) : validateAtoms ms = .ok ms := by
  induction ms with
  | nil => rfl
  | cons a r ih =>
    have ha : a.validate = .ok a := by
      have := hv a List.mem_cons_self
      unfold AtomValid at this
      simp [Atom.validate, this, Except.map]
    simp [validateAtoms, ha, ih (fun m hm => hv m (List.mem_cons_of_mem _ hm)), bind, Except.bind]

theorem plural_not_prop (name : String) (hn : pluralNames.contains name = true) : propNames.contains name = false := by
  simp only [pluralNames, List.contains_eq_mem, List.mem_cons, List.not_mem_nil, or_false, decide_eq_true_eq] at hn
  rcases hn with rfl | rfl | rfl | rfl | rfl | rfl | rfl | rfl | rfl | rfl | rfl <;> decide

theorem getPlural_flat (ts : List Term) (name : String) :
    (getPlural ts name).flat = collectN Term.isIntercept (fun t => (t.getD name).flat) ts := by
  simp only [getPlural, Tree.flat]
  exact flatL_filter_map Term.isIntercept (fun t => t.getD name) ts

theorem term_arity_len (name : String) (t : Term) (n : Nat) (h : t.arity name = .ok n) :
    ((t.getD name).flat).length = n := by
  cases t with
  | atom a => exact atom_arity_len name a n h
  | tensor d ms =>
    simp only [Term.arity] at h
    simp only [Term.getD]
    cases hd : dget d name with
    | some v =>
      simp only [hd, Except.ok.injEq, Tree.flatSize] at h
      simpa using h
    | none =>
      simp only [hd] at h ⊢
      split at h
      · rename_i hp
        simp only [hp, if_true]
        simpa [Tree.flatSize] using h
      · simp at h

theorem term_setOne_spec (name : String) (hn : pluralNames.contains name = true) (t : Term) (hv : TermValid t)
    (hs : t.isIntercept = false) (v : List Sc) (t' : Term) (har : t.arity name = .ok v.length)
    (hset : t.setOne name (packVals v) = .ok t') :
    (t'.getD name).flat = v ∧ t'.isIntercept = false ∧ TermValid t' := by
  unfold Term.setOne Term.setattr at hset
  simp only [plural_not_prop name hn, Bool.false_eq_true, if_false, bind, Except.bind] at hset
  cases t with
  | atom a =>
    have hk := (isIntercept_false_iff a).mp hs
    simp only [dsetTree, packVals_toVal, Except.map, Term.validate, Atom.validate] at hset
    cases hd : validateK a.kind (dset a.d name (valOf v)) with
    | error e => simp [hd] at hset
    | ok d2 =>
      simp only [hd, Except.ok.injEq] at hset
      subst hset
      have hset' : a.setOne name (packVals v) = .ok { kind := a.kind, d := d2 } := by
        simp [Atom.setOne, dsetTree, packVals_toVal, bind, Except.bind, Atom.validate, hd, Except.map]
      obtain ⟨h1, h2, h3⟩ := atom_setOne_spec name a hv hk v _ har hset'
      exact ⟨h1, (isIntercept_false_iff _).mpr hk, h3⟩
  | tensor d ms =>
    simp only [hn, if_true, Except.map] at hset
    cases hts : tensorSet ms name (packVals v) with
    | error e => simp [hts] at hset
    | ok ms1 =>
      simp only [hts, Term.validate, Except.map] at hset
      obtain ⟨hg, hv1⟩ := tensorSet_spec name ms hv.1 (packVals v) ms1 hts
      rw [validateAtoms_valid ms1 hv1] at hset
      simp only [Except.ok.injEq] at hset
      subst hset
      have hd : dget d name = none := hv.2 name hn
      rw [ddel_of_none d name hd]
      refine ⟨?_, rfl, ⟨hv1, hv.2⟩⟩
      simp only [Term.arity, hd, hn, if_true, Except.ok.injEq] at har
      simp only [Term.getD, hd, hn, if_true]
      rw [hg, har, expected_packVals]

/-- `setattr(termlist, name, value)` on valid terms: the flattened read-back is the assigned value
(a scalar broadcast to the current size); validity is preserved -/
theorem setPlural_spec (name : String) (hn : pluralNames.contains name = true) (ts : List Term)
    (hv : ∀ t ∈ ts, TermValid t) (value : Tree) (ts' : List Term) (h : setPlural ts name value = .ok ts') :
    (getPlural ts' name).flat = expected (getPlural ts name).flatSize value ∧ (∀ t ∈ ts', TermValid t) := by
  unfold setPlural setPluralSized at h
  rw [Tree.flatSize, getPlural_flat] at h
  have := setSeq_collect Term.isIntercept (Term.arity name) (Term.setOne name) (fun t => (t.getD name).flat) TermValid
    (fun t v t' hinv hs har hset => term_setOne_spec name hn t hinv hs v t' har hset)
    (fun t n _ _ har => term_arity_len name t n har)
    ts hv value ts' h
  rw [getPlural_flat, Tree.flatSize, getPlural_flat]
  exact this

end PyGam.TA
