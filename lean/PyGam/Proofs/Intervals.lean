import PyGam.Model.Intervals
import PyGam.Proofs.Vec
import PyGam.Proofs.Links
import Mathlib.Algebra.Order.Field.Basic
import Mathlib.Tactic.Linarith
import Mathlib.Tactic.FieldSimp
/-!
# Helper lemmas for C09 (`Model/Intervals.lean`)

* the quantile checks over any linearly ordered field;
* `lineVar` as a quadratic form and the zero-padding lemmas (block of a term = zero-padded full row);
* over `ℝ`: monotonicity of `linkBound` in the multiplier and in the variance, the contract of a SciPy quantile
  function (`PpfContract`), monotonicity of the inverse links of the named model classes.
-/
open Finset
set_option linter.unusedSectionVars false
namespace PyGam

/-! ## quantile checks -/

/-- the rule of the code, in *any* comparison structure (no order axioms: it also reads correctly for IEEE doubles,
where every comparison with NaN is false): a level is accepted iff both `0 < q` and `q < 1` hold -/
theorem badQuantile_eq_false_iff_lt {β : Type} [Zero β] [One β] [Add β] [Sub β] [Mul β] [Div β] [LE β] [DecidableLE β]
    [LT β] [DecidableLT β] (q : β) : badQuantile q = false ↔ ((0 : β) < q ∧ q < (1 : β)) := by
  simp [badQuantile]

section field
variable {α : Type} [Field α] [LinearOrder α] [IsStrictOrderedRing α]

theorem quantilesOfWidth_eq (w : α) : quantilesOfWidth w = [(1 - w) / 2, (1 + w) / 2] := by
  have h2 : (1 + 1 : α) = 2 := by norm_num
  simp only [quantilesOfWidth, h2]
  congr 2
  field_simp; ring

theorem badQuantile_iff (q : α) : badQuantile q = true ↔ (1 ≤ q ∨ q ≤ 0) := by
  simp only [badQuantile, Bool.not_eq_true', Bool.and_eq_false_iff, decide_eq_false_iff_not, not_lt]
  exact Or.comm

theorem badQuantile_eq_false_iff (q : α) : badQuantile q = false ↔ (0 < q ∧ q < 1) := by
  rw [← Bool.not_eq_true, badQuantile_iff]; constructor
  · intro h; exact ⟨not_le.mp (fun h' => h (Or.inr h')), not_le.mp (fun h' => h (Or.inl h'))⟩
  · rintro ⟨h0, h1⟩ (h | h)
    · exact absurd h1 (not_lt.mpr h)
    · exact absurd h0 (not_lt.mpr h)

theorem quantilesRejected_iff (qs : List α) :
    quantilesRejected qs = true ↔ (qs = [] ∨ ∃ q ∈ qs, (q ≤ 0 ∨ 1 ≤ q)) := by
  simp only [quantilesRejected, Bool.or_eq_true, List.any_eq_true, List.isEmpty_iff, badQuantile_iff]
  constructor
  · rintro (⟨q, hq, h⟩ | h)
    · exact Or.inr ⟨q, hq, h.symm⟩
    · exact Or.inl h
  · rintro (h | ⟨q, hq, h⟩)
    · exact Or.inr h
    · exact Or.inl ⟨q, hq, h.symm⟩

theorem quantilesRejected_eq_false_iff (qs : List α) :
    quantilesRejected qs = false ↔ (qs ≠ [] ∧ ∀ q ∈ qs, (0 < q ∧ q < 1)) := by
  rw [← Bool.not_eq_true, quantilesRejected_iff]
  constructor
  · intro h
    refine ⟨fun h' => h (Or.inl h'), fun q hq => ?_⟩
    by_contra hc
    apply h; right
    refine ⟨q, hq, ?_⟩
    by_contra hn
    rw [not_or, not_le, not_le] at hn
    exact hc hn
  · rintro ⟨hne, hall⟩ (h | ⟨q, hq, h⟩)
    · exact hne h
    · obtain ⟨h0, h1⟩ := hall q hq
      rcases h with h | h
      · exact absurd h0 (not_lt.mpr h)
      · exact absurd h1 (not_lt.mpr h)

/-- which widths the code rejects: exactly `|w| ≥ 1` -/
theorem width_rejected_iff (w : α) :
    quantilesRejected (quantilesOfWidth w) = true ↔ (w ≤ -1 ∨ 1 ≤ w) := by
  rw [quantilesRejected_iff, quantilesOfWidth_eq]
  constructor
  · rintro (h | ⟨q, hq, h⟩)
    · simp at h
    · simp only [List.mem_cons, List.not_mem_nil, or_false] at hq
      rcases hq with rfl | rfl
      · rcases h with h | h
        · right; rw [div_le_iff₀ (by norm_num)] at h; linarith
        · left; rw [le_div_iff₀ (by norm_num)] at h; linarith
      · rcases h with h | h
        · left; rw [div_le_iff₀ (by norm_num)] at h; linarith
        · right; rw [le_div_iff₀ (by norm_num)] at h; linarith
  · rintro (h | h)
    · right; refine ⟨(1 + w) / 2, by simp, Or.inl ?_⟩
      rw [div_le_iff₀ (by norm_num)]; linarith
    · right; refine ⟨(1 - w) / 2, by simp, Or.inl ?_⟩
      rw [div_le_iff₀ (by norm_num)]; linarith

end field

/-! ## the variance of a line as a quadratic form; blocks and zero padding -/
section ring
variable {α : Type} [CommRing α]

/-- `(modelmat.dot(cov) * modelmat).sum(axis=1)` is `rowᵀ cov row` -/
theorem lineVar_eq_quadForm (m : Nat) (row : Nat → α) (cov : Nat → Nat → α) :
    lineVar m row cov = quadForm m cov row := by
  simp only [lineVar, quadForm, sumTo_eq, sum_mul]
  rw [sum_comm]

/-- summing a function supported on the block `[start, start+len)` -/
theorem sum_range_block (start len m : Nat) (h : start + len ≤ m) (g : Nat → α) :
    ∑ j ∈ range m, (if start ≤ j ∧ j < start + len then g j else 0)
      = ∑ i ∈ range len, g (start + i) := by
  rw [← sum_filter]
  have hf : (range m).filter (fun j => start ≤ j ∧ j < start + len) = Ico start (start + len) := by
    ext j; simp only [mem_filter, mem_range, mem_Ico]; omega
  rw [hf, sum_Ico_eq_sum_range]
  simp

theorem dot_padRow (start len m : Nat) (h : start + len ≤ m) (r v : Nat → α) :
    dot m (padRow start len r) v = dot len r (blockVec start v) := by
  simp only [dot, sumTo_eq, padRow, blockVec, ite_mul, zero_mul]
  rw [sum_range_block start len m h (fun j => r (j - start) * v j)]
  apply sum_congr rfl; intro i _; simp

/-- the variance computed from the term's own block of the covariance = the variance of the zero-padded full row -/
theorem lineVar_padRow (start len m : Nat) (h : start + len ≤ m) (r : Nat → α) (cov : Nat → Nat → α) :
    lineVar m (padRow start len r) cov = lineVar len r (blockCov start cov) := by
  simp only [lineVar, sumTo_eq, padRow, blockCov, ite_mul, zero_mul, mul_ite, mul_zero]
  rw [sum_range_block start len m h
    (fun k => (∑ j ∈ range m, if start ≤ j ∧ j < start + len then r (j - start) * cov j k else 0)
      * r (k - start))]
  apply sum_congr rfl; intro k _
  rw [sum_range_block start len m h (fun j => r (j - start) * cov j (start + k))]
  simp

theorem blockVec_zero (v : Nat → α) : blockVec 0 v = v := by
  funext j; simp [blockVec]

theorem blockCov_zero (c : Nat → Nat → α) : blockCov 0 c = c := by
  funext j k; simp [blockCov]

end ring

/-! ## ℝ: monotonicity of the bound, contracts of the quantile functions, the increasing inverse links -/

theorem linkBound_real (z lp var : ℝ) : linkBound z lp var = lp + z * Real.sqrt var := rfl

theorem linkBound_mono_z {z z' : ℝ} (lp var : ℝ) (h : z ≤ z') : linkBound z lp var ≤ linkBound z' lp var := by
  rw [linkBound_real, linkBound_real]
  have := mul_le_mul_of_nonneg_right h (Real.sqrt_nonneg var)
  linarith

theorem linkBound_strictMono_z {z z' : ℝ} (lp : ℝ) {var : ℝ} (hv : 0 < var) (h : z < z') :
    linkBound z lp var < linkBound z' lp var := by
  rw [linkBound_real, linkBound_real]
  have := mul_lt_mul_of_pos_right h (Real.sqrt_pos.mpr hv)
  linarith

/-- a larger variance pushes a bound outwards: down when the multiplier is `≤ 0` … -/
theorem linkBound_anti_var_of_nonpos {z : ℝ} (hz : z ≤ 0) (lp : ℝ) {v v' : ℝ} (h : v ≤ v') :
    linkBound z lp v' ≤ linkBound z lp v := by
  rw [linkBound_real, linkBound_real]
  have := mul_le_mul_of_nonpos_left (Real.sqrt_le_sqrt h) hz
  linarith

/-- … and up when it is `≥ 0` -/
theorem linkBound_mono_var_of_nonneg {z : ℝ} (hz : 0 ≤ z) (lp : ℝ) {v v' : ℝ} (h : v ≤ v') :
    linkBound z lp v ≤ linkBound z lp v' := by
  rw [linkBound_real, linkBound_real]
  have := mul_le_mul_of_nonneg_left (Real.sqrt_le_sqrt h) hz
  linarith

/-- the contract of a SciPy quantile function (`norm.ppf`, `t.ppf(·, df)`) on the open unit interval: strictly
increasing and antisymmetric about ½.  A hypothesis of the interval theorems (SciPy is trusted); the harness
validates both clauses on a grid for every reference distribution it uses, on every run. -/
structure PpfContract (z : ℝ → ℝ) : Prop where
  strictMono : StrictMonoOn z (Set.Ioo 0 1)
  antisymm : ∀ q ∈ Set.Ioo (0 : ℝ) 1, z (1 - q) = - z q

namespace PpfContract
variable {z : ℝ → ℝ} (hz : PpfContract z)
include hz

theorem half : z (1 / 2) = 0 := by
  have h := hz.antisymm (1 / 2) ⟨by norm_num, by norm_num⟩
  have e : (1 : ℝ) - 1 / 2 = 1 / 2 := by norm_num
  rw [e] at h; linarith

theorem mono {q q' : ℝ} (hq : q ∈ Set.Ioo (0 : ℝ) 1) (hq' : q' ∈ Set.Ioo (0 : ℝ) 1) (h : q ≤ q') :
    z q ≤ z q' := hz.strictMono.monotoneOn hq hq' h

theorem nonpos_of_le_half {q : ℝ} (hq : q ∈ Set.Ioo (0 : ℝ) 1) (h : q ≤ 1 / 2) : z q ≤ 0 := by
  rw [← hz.half]; exact hz.mono hq ⟨by norm_num, by norm_num⟩ h

theorem nonneg_of_half_le {q : ℝ} (hq : q ∈ Set.Ioo (0 : ℝ) 1) (h : 1 / 2 ≤ q) : 0 ≤ z q := by
  rw [← hz.half]; exact hz.mono ⟨by norm_num, by norm_num⟩ hq h

end PpfContract

/-- the multiplier the model uses satisfies the contract when both SciPy functions do -/
theorem zOf_contract {normPpf : ℝ → ℝ} {tPpf : ℝ → ℝ → ℝ} (hn : PpfContract normPpf)
    (ht : ∀ df, PpfContract (tPpf df)) (ref : RefDist ℝ) : PpfContract (zOf normPpf tPpf ref) := by
  cases ref
  · exact hn
  · exact ht _

/-- the inverse link of identity / log / logit (`levels > 0`) is strictly increasing on all of `ℝ` -/
theorem linkInv_strictMono (k : LinkKind) (levels : ℝ) (hk : k.increasing = true) (hL : 0 < levels) :
    StrictMono (linkInv k levels) := by
  cases k
  · intro a b h; exact h
  · intro a b h; exact Real.exp_lt_exp.mpr h
  · intro a b h
    rw [linkInv_logit, linkInv_logit]
    have ha : 0 < Real.exp a := Real.exp_pos a
    have hb : 0 < Real.exp b := Real.exp_pos b
    have hab : Real.exp a < Real.exp b := Real.exp_lt_exp.mpr h
    rw [div_lt_div_iff₀ (by positivity) (by positivity)]
    nlinarith [mul_pos hL ha, mul_pos hL hb, mul_lt_mul_of_pos_left hab hL]
  · simp [LinkKind.increasing] at hk
  · simp [LinkKind.increasing] at hk

/-- the transformation applied to the link-scale bounds is strictly increasing: nothing for `xform=False`, an
increasing inverse link otherwise -/
theorem applyXform_strictMono (xform : Option (LinkKind × ℝ))
    (h : ∀ k levels, xform = some (k, levels) → k.increasing = true ∧ 0 < levels) :
    StrictMono (applyXform xform) := by
  match xform, h with
  | none, _ => intro a b hab; exact hab
  | some (k, levels), h =>
      obtain ⟨hk, hL⟩ := h k levels rfl
      exact linkInv_strictMono k levels hk hL

end PyGam
