import PyGam.Proofs.Solve
import PyGam.Proofs.Vec
import PyGam.Model.Stats
import Mathlib.LinearAlgebra.Matrix.Trace
import Mathlib.LinearAlgebra.Matrix.NonsingularInverse
import Mathlib.Algebra.Order.BigOperators.Ring.Finset
import Mathlib.Algebra.Order.Field.Basic
import Mathlib.Tactic.Ring
import Mathlib.Tactic.Linarith
/-!
Matrix algebra behind `statistics_['edof']`, `['cov']` (C08): consequences of the LAPACK / Cholesky contracts
`Solve.Factor` for the code's `U1` and `B = V D⁻¹ U₁ᵀ Qᵀ`, and the bridge from `Matrix (Fin _) (Fin _)` to the
function-form definitions `Stats.edofOf`, `Stats.covOf` that the driver executes.
-/
open Matrix Finset
namespace PyGam.Solve
variable {α : Type} [Field α] {n k m : ℕ}

/-- the normal matrix `N = WBᵀWB + A` -/
def Factor.N (F : Factor α n k m) : Matrix (Fin m) (Fin m) α := F.WBᵀ * F.WB + F.A

/-- `V D⁻¹ D⁻¹ Vᵀ`, the inverse of the normal matrix -/
def Factor.Ninv (F : Factor α n k m) : Matrix (Fin m) (Fin m) α :=
  F.V * diagonal (fun i => (F.d i)⁻¹) * diagonal (fun i => (F.d i)⁻¹) * F.Vᵀ

theorem vorth' (F : Factor α n k m) : F.V * F.Vᵀ = 1 := mul_eq_one_comm.mp F.vorth

/-- the influence (hat) matrix of the weighted penalised regression: `WB · B = Q (U₁U₁ᵀ) Qᵀ` -/
theorem influence_eq (F : Factor α n k m) : F.WB * F.Bmat = F.Q * (F.U1 * F.U1ᵀ) * F.Qᵀ := by
  rw [F.qr, F.svdR, Factor.Bmat]
  have h1 : F.Q * (F.U1 * diagonal F.d * F.Vᵀ) * (F.V * diagonal (fun i => (F.d i)⁻¹) * F.U1ᵀ * F.Qᵀ)
      = F.Q * F.U1 * diagonal F.d * (F.Vᵀ * F.V) * diagonal (fun i => (F.d i)⁻¹) * F.U1ᵀ * F.Qᵀ := by
    simp only [Matrix.mul_assoc]
  rw [h1, F.vorth, Matrix.mul_one]
  have h2 : F.Q * F.U1 * diagonal F.d * diagonal (fun i => (F.d i)⁻¹) * F.U1ᵀ * F.Qᵀ
      = F.Q * F.U1 * (diagonal F.d * diagonal (fun i => (F.d i)⁻¹)) * F.U1ᵀ * F.Qᵀ := by
    simp only [Matrix.mul_assoc]
  rw [h2, diag_inv_mul _ F.dne, Matrix.mul_one]
  simp only [Matrix.mul_assoc]

theorem trace_influence (F : Factor α n k m) : trace (F.WB * F.Bmat) = trace (F.U1 * F.U1ᵀ) := by
  rw [influence_eq, Matrix.mul_assoc, trace_mul_comm, Matrix.mul_assoc, F.qorth, Matrix.mul_one]

theorem N_symm (F : Factor α n k m) : F.Nᵀ = F.N := by
  unfold Factor.N
  rw [← F.chol]
  simp only [transpose_add, transpose_mul, transpose_transpose]

theorem N_mul_Bmat (F : Factor α n k m) : F.N * F.Bmat = F.WBᵀ := normal_mul_Bmat F

theorem BmatT_mul_N (F : Factor α n k m) : F.Bmatᵀ * F.N = F.WB := by
  have h := congrArg Matrix.transpose (N_mul_Bmat F)
  rw [transpose_mul, N_symm, transpose_transpose] at h
  exact h

/-- inverse-free sandwich: `N (B Bᵀ) N = WBᵀ WB` -/
theorem sandwich (F : Factor α n k m) : F.N * (F.Bmat * F.Bmatᵀ) * F.N = F.WBᵀ * F.WB := by
  have : F.N * (F.Bmat * F.Bmatᵀ) * F.N = (F.N * F.Bmat) * (F.Bmatᵀ * F.N) := by
    simp only [Matrix.mul_assoc]
  rw [this, N_mul_Bmat, BmatT_mul_N]

theorem Ninv_mul_N (F : Factor α n k m) : F.Ninv * F.N = 1 := by
  unfold Factor.N Factor.Ninv
  rw [normal_matrix F]
  have e : F.V * diagonal (fun i => (F.d i)⁻¹) * diagonal (fun i => (F.d i)⁻¹) * F.Vᵀ
        * (F.V * diagonal F.d * diagonal F.d * F.Vᵀ)
      = F.V * diagonal (fun i => (F.d i)⁻¹) * (diagonal (fun i => (F.d i)⁻¹) * ((F.Vᵀ * F.V) * diagonal F.d))
          * diagonal F.d * F.Vᵀ := by
    simp only [Matrix.mul_assoc]
  rw [e, F.vorth, Matrix.one_mul, diag_inv_mul' _ F.dne, Matrix.mul_one]
  have e2 : F.V * diagonal (fun i => (F.d i)⁻¹) * diagonal F.d * F.Vᵀ
      = F.V * (diagonal (fun i => (F.d i)⁻¹) * diagonal F.d) * F.Vᵀ := by
    simp only [Matrix.mul_assoc]
  rw [e2, diag_inv_mul' _ F.dne, Matrix.mul_one, vorth' F]

theorem N_mul_Ninv (F : Factor α n k m) : F.N * F.Ninv = 1 := mul_eq_one_comm.mp (Ninv_mul_N F)

/-- the code's `B` is the only solution of `N X = WBᵀ` -/
theorem Bmat_unique (F : Factor α n k m) (X : Matrix (Fin m) (Fin n) α) (h : F.N * X = F.WBᵀ) :
    X = F.Bmat := by
  calc X = (F.Ninv * F.N) * X := by rw [Ninv_mul_N, Matrix.one_mul]
    _ = F.Ninv * (F.N * X) := by rw [Matrix.mul_assoc]
    _ = F.Ninv * (F.N * F.Bmat) := by rw [h, N_mul_Bmat]
    _ = (F.Ninv * F.N) * F.Bmat := by rw [Matrix.mul_assoc]
    _ = F.Bmat := by rw [Ninv_mul_N, Matrix.one_mul]

/-- sandwich with the explicit inverse -/
theorem sandwich_inv (F : Factor α n k m) :
    F.Bmat * F.Bmatᵀ = F.Ninv * (F.WBᵀ * F.WB) * F.Ninv := by
  rw [← sandwich F]
  have : F.Ninv * (F.N * (F.Bmat * F.Bmatᵀ) * F.N) * F.Ninv
      = (F.Ninv * F.N) * (F.Bmat * F.Bmatᵀ) * (F.N * F.Ninv) := by
    simp only [Matrix.mul_assoc]
  rw [this, Ninv_mul_N, N_mul_Ninv, Matrix.one_mul, Matrix.mul_one]

end PyGam.Solve

namespace PyGam.Solve
variable {α : Type} [Field α] [LinearOrder α] [IsStrictOrderedRing α] {n k m : ℕ}

theorem gram_diag_nonneg {a b : ℕ} (M : Matrix (Fin a) (Fin b) α) (i : Fin a) : 0 ≤ (M * Mᵀ) i i := by
  rw [Matrix.mul_apply]
  exact sum_nonneg (fun j _ => by rw [transpose_apply]; exact mul_self_nonneg _)

theorem gram_diag_nonneg' {a b : ℕ} (M : Matrix (Fin a) (Fin b) α) (j : Fin b) : 0 ≤ (Mᵀ * M) j j := by
  rw [Matrix.mul_apply]
  exact sum_nonneg (fun i _ => by rw [transpose_apply]; exact mul_self_nonneg _)

theorem trace_gram_nonneg {a b : ℕ} (M : Matrix (Fin a) (Fin b) α) : 0 ≤ trace (M * Mᵀ) := by
  unfold trace; exact sum_nonneg (fun i _ => by rw [diag_apply]; exact gram_diag_nonneg M i)

/-- each diagonal entry of `U₁ᵀU₁` lies in `[0, 1]` because `U₁ᵀU₁ + U₂ᵀU₂ = 1` -/
theorem u1_col_le_one (F : Factor α n k m) (j : Fin m) : (F.U1ᵀ * F.U1) j j ≤ 1 := by
  have h := congrFun (congrFun F.uorth j) j
  rw [Matrix.add_apply, Matrix.one_apply_eq] at h
  linarith [gram_diag_nonneg' F.U2 j]

theorem trace_u1_le_m (F : Factor α n k m) : trace (F.U1 * F.U1ᵀ) ≤ (m : α) := by
  rw [trace_mul_comm]
  unfold trace
  calc ∑ j, diag (F.U1ᵀ * F.U1) j ≤ ∑ _j : Fin m, (1 : α) :=
        sum_le_sum (fun j _ => by rw [diag_apply]; exact u1_col_le_one F j)
    _ = (m : α) := by simp

/-- each diagonal entry of `U₁U₁ᵀ` (`statistics_['edof_per_coef']`) is at most 1 when the rows of `U` are
orthonormal: `U₁U₁ᵀ + U₁ᵇU₁ᵇᵀ = 1`, `U₁ᵇ` the remaining `k` columns of the first `k` rows of `U` -/
theorem u1_row_le_one (F : Factor α n k m) (U1b : Matrix (Fin k) (Fin k) α)
    (hrow : F.U1 * F.U1ᵀ + U1b * U1bᵀ = 1) (i : Fin k) : (F.U1 * F.U1ᵀ) i i ≤ 1 := by
  have h := congrFun (congrFun hrow i) i
  rw [Matrix.add_apply, Matrix.one_apply_eq] at h
  linarith [gram_diag_nonneg U1b i]

theorem trace_u1_le_k (F : Factor α n k m) (U1b : Matrix (Fin k) (Fin k) α)
    (hrow : F.U1 * F.U1ᵀ + U1b * U1bᵀ = 1) : trace (F.U1 * F.U1ᵀ) ≤ (k : α) := by
  unfold trace
  calc ∑ i, diag (F.U1 * F.U1ᵀ) i ≤ ∑ _i : Fin k, (1 : α) :=
        sum_le_sum (fun i _ => by rw [diag_apply]; exact u1_row_le_one F U1b hrow i)
    _ = (k : α) := by simp

/-- `tr(U₁U₁ᵀ) = 0` forces `U₁ = 0` -/
theorem u1_zero_of_trace_zero (F : Factor α n k m) (h : trace (F.U1 * F.U1ᵀ) = 0) : F.U1 = 0 := by
  unfold trace at h
  have h1 := (sum_eq_zero_iff_of_nonneg (fun i _ => by rw [diag_apply]; exact gram_diag_nonneg F.U1 i)).mp h
  ext i j
  have hi := h1 i (mem_univ i)
  rw [diag_apply, Matrix.mul_apply] at hi
  have h2 := (sum_eq_zero_iff_of_nonneg (fun j _ => by rw [transpose_apply]; exact mul_self_nonneg _)).mp hi j (mem_univ j)
  rw [transpose_apply] at h2
  simpa using mul_self_eq_zero.mp h2

theorem trace_u1_pos (F : Factor α n k m) (hWB : F.WB ≠ 0) : 0 < trace (F.U1 * F.U1ᵀ) := by
  rcases lt_or_eq_of_le (trace_gram_nonneg F.U1) with h | h
  · exact h
  · exfalso
    apply hWB
    have hU := u1_zero_of_trace_zero F h.symm
    rw [F.qr, F.svdR, hU]; simp

end PyGam.Solve

/-! ### bridge to the function-form definitions of `Model/Stats.lean` -/
namespace PyGam.Stats
variable {α : Type}

/-- a `Fin`-indexed matrix as a function on naturals (zero outside) -/
def ofMat [Zero α] {a b : ℕ} (M : Matrix (Fin a) (Fin b) α) : Nat → Nat → α :=
  fun i j => if h : i < a ∧ j < b then M ⟨i, h.1⟩ ⟨j, h.2⟩ else 0

theorem ofMat_apply [Zero α] {a b : ℕ} (M : Matrix (Fin a) (Fin b) α) (i : Fin a) (j : Fin b) :
    ofMat M i j = M i j := by
  simp [ofMat, i.isLt, j.isLt]

theorem edofOf_ofMat [Field α] {n m : ℕ} (WB : Matrix (Fin n) (Fin m) α) (Bm : Matrix (Fin m) (Fin n) α) :
    edofOf n m (ofMat WB) (ofMat Bm) = trace (WB * Bm) := by
  unfold edofOf trace
  rw [sumTo_eq, Finset.sum_range]
  apply sum_congr rfl; intro r _
  rw [sumTo_eq, Finset.sum_range, diag_apply, Matrix.mul_apply]
  apply sum_congr rfl; intro j _
  rw [ofMat_apply, ofMat_apply]

theorem covOf_ofMat [Field α] {n m : ℕ} (φ : α) (Bm : Matrix (Fin m) (Fin n) α) (i j : Fin m) :
    covOf n φ (ofMat Bm) i j = φ * (Bm * Bmᵀ) i j := by
  unfold covOf
  rw [sumTo_eq, Finset.sum_range, Matrix.mul_apply, mul_comm]
  congr 1
  apply sum_congr rfl; intro r _
  rw [ofMat_apply, ofMat_apply, transpose_apply]

end PyGam.Stats
