import PyGam.Model.Vec
import Mathlib.Algebra.BigOperators.Ring.Finset
import Mathlib.Algebra.BigOperators.Intervals
import Mathlib.Algebra.Order.BigOperators.Ring.Finset
import Mathlib.Tactic.Ring
/-!
Bridging lemmas between the Mathlib-free `sumTo` and Mathlib's big operators.
-/
open Finset
namespace PyGam

theorem sumTo_eq {α : Type} [AddCommMonoid α] (n : Nat) (f : Nat → α) :
    sumTo n f = ∑ i ∈ range n, f i := by
  induction n with
  | zero => simp [sumTo]
  | succ n ih => simp [sumTo, ih, sum_range_succ]

theorem sumTo_congr {α : Type} [AddCommMonoid α] (n : Nat) (f g : Nat → α)
    (h : ∀ i < n, f i = g i) : sumTo n f = sumTo n g := by
  rw [sumTo_eq, sumTo_eq]; exact sum_congr rfl (fun i hi => h i (mem_range.mp hi))

section
variable {α : Type} [CommRing α]

/-- `comb n c M k = Σ_{i<n} c i * M i k` : the row vector `cᵀ M` -/
def comb (n : Nat) (c : Nat → α) (M : Nat → Nat → α) : Nat → α :=
  fun k => ∑ i ∈ range n, c i * M i k

theorem comb_ident (n : Nat) (c : Nat → α) (k : Nat) (hk : k < n) :
    comb n c (ident (α := α)) k = c k := by
  simp [comb, ident, hk]

/-- `cᵀ (D Dᵀ) c = Σ_k (cᵀ D)_k²` for any `D` with `m` columns -/
theorem quadForm_gram (n m : Nat) (D : Nat → Nat → α) (c : Nat → α) :
    quadForm n (fun i j => sumTo m (fun k => D i k * D j k)) c
      = ∑ k ∈ range m, (comb n c D k) ^ 2 := by
  simp only [quadForm, sumTo_eq]
  symm
  calc ∑ k ∈ range m, (comb n c D k) ^ 2
      = ∑ k ∈ range m, ∑ i ∈ range n, ∑ j ∈ range n, (c i * D i k) * (c j * D j k) := by
        apply sum_congr rfl; intro k _; simp only [comb, pow_two, sum_mul_sum]
    _ = ∑ i ∈ range n, ∑ j ∈ range n, ∑ k ∈ range m, (c i * D i k) * (c j * D j k) := by
        rw [sum_comm]; apply sum_congr rfl; intro i _; rw [sum_comm]
    _ = _ := by
        apply sum_congr rfl; intro i _; apply sum_congr rfl; intro j _
        rw [mul_sum, sum_mul]; apply sum_congr rfl; intro k _; ring

/-- bilinear version: `xᵀ (D Dᵀ) y = Σ_k (xᵀD)_k (yᵀD)_k` -/
theorem bilin_gram (n m : Nat) (D : Nat → Nat → α) (x y : Nat → α) :
    bilin n (fun i j => sumTo m (fun k => D i k * D j k)) x y
      = ∑ k ∈ range m, comb n x D k * comb n y D k := by
  simp only [bilin, sumTo_eq]
  symm
  calc ∑ k ∈ range m, comb n x D k * comb n y D k
      = ∑ k ∈ range m, ∑ i ∈ range n, ∑ j ∈ range n, (x i * D i k) * (y j * D j k) := by
        apply sum_congr rfl; intro k _; simp only [comb, sum_mul_sum]
    _ = ∑ i ∈ range n, ∑ j ∈ range n, ∑ k ∈ range m, (x i * D i k) * (y j * D j k) := by
        rw [sum_comm]; apply sum_congr rfl; intro i _; rw [sum_comm]
    _ = _ := by
        apply sum_congr rfl; intro i _; apply sum_congr rfl; intro j _
        rw [mul_sum, sum_mul]; apply sum_congr rfl; intro k _; ring

theorem quadForm_eq_bilin (n : Nat) (P : Nat → Nat → α) (c : Nat → α) :
    quadForm n P c = bilin n P c c := rfl

/-- quadratic forms are additive in the matrix -/
theorem quadForm_add (n : Nat) (P Q : Nat → Nat → α) (c : Nat → α) :
    quadForm n (fun i j => P i j + Q i j) c = quadForm n P c + quadForm n Q c := by
  simp only [quadForm, sumTo_eq, ← sum_add_distrib]
  apply sum_congr rfl; intro i _; apply sum_congr rfl; intro j _; ring

theorem quadForm_smul (n : Nat) (a : α) (P : Nat → Nat → α) (c : Nat → α) :
    quadForm n (fun i j => a * P i j) c = a * quadForm n P c := by
  simp only [quadForm, sumTo_eq, mul_sum]
  apply sum_congr rfl; intro i _; apply sum_congr rfl; intro j _; ring

theorem quadForm_zero (n : Nat) (c : Nat → α) :
    quadForm n (fun _ _ => (0:α)) c = 0 := by
  simp [quadForm, sumTo_eq]

end
end PyGam
