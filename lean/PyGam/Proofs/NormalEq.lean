import PyGam.Model.Pirls
import PyGam.Proofs.Vec
import Mathlib.Algebra.Order.Field.Basic
import Mathlib.Tactic.Ring
import Mathlib.Tactic.FieldSimp
import Mathlib.Tactic.Linarith
import Mathlib.Tactic.LinearCombination
/-!
Penalised weighted least squares: a solution of the normal equations is the global minimiser (C01, C13, C18),
and the fixed point of the PIRLS step satisfies the score equation (C01).
Vectors and matrices are functions on `Fin`.
-/
open Finset
namespace PyGam.NormalEq
variable {α : Type} [Field α] {n m : ℕ}

/-- `(Bβ)_r` -/
def lp (B : Fin n → Fin m → α) (β : Fin m → α) (r : Fin n) : α := ∑ j, B r j * β j

/-- `βᵀ A δ` -/
def bil (A : Fin m → Fin m → α) (β δ : Fin m → α) : α := ∑ i, ∑ j, β i * A i j * δ j

/-- penalised weighted least-squares criterion `Σ w (y - Bβ)² + βᵀAβ` -/
def crit (B : Fin n → Fin m → α) (A : Fin m → Fin m → α) (w y : Fin n → α) (β : Fin m → α) : α :=
  ∑ r, w r * (y r - lp B β r) ^ 2 + bil A β β

theorem lp_add (B : Fin n → Fin m → α) (β δ : Fin m → α) (r : Fin n) :
    lp B (fun j => β j + δ j) r = lp B β r + lp B δ r := by
  simp only [lp, mul_add, sum_add_distrib]

theorem bil_add_add (A : Fin m → Fin m → α) (β δ : Fin m → α) :
    bil A (fun j => β j + δ j) (fun j => β j + δ j) = bil A β β + bil A δ β + bil A β δ + bil A δ δ := by
  simp only [bil, ← sum_add_distrib]
  apply sum_congr rfl; intro i _; apply sum_congr rfl; intro j _; ring

theorem bil_symm (A : Fin m → Fin m → α) (hA : ∀ i j, A i j = A j i) (β δ : Fin m → α) :
    bil A β δ = bil A δ β := by
  simp only [bil]; rw [sum_comm]
  apply sum_congr rfl; intro i _; apply sum_congr rfl; intro j _; rw [hA j i]; ring

/-- the cross term vanishes by the normal equations `Bᵀ W (y - Bβ) = Aβ` -/
theorem cross_term (B : Fin n → Fin m → α) (A : Fin m → Fin m → α) (w y : Fin n → α) (β δ : Fin m → α)
    (hN : ∀ i, ∑ r, B r i * w r * (y r - lp B β r) = ∑ j, A i j * β j) :
    ∑ r, w r * (y r - lp B β r) * lp B δ r = bil A δ β := by
  simp only [lp, bil, mul_sum]
  rw [sum_comm]
  apply sum_congr rfl; intro i _
  have := hN i
  simp only [lp] at this
  calc ∑ r, w r * (y r - ∑ j, B r j * β j) * (B r i * δ i)
      = δ i * ∑ r, B r i * w r * (y r - ∑ j, B r j * β j) := by
        rw [mul_sum]; apply sum_congr rfl; intro r _; ring
    _ = δ i * ∑ j, A i j * β j := by rw [this]
    _ = ∑ j, δ i * A i j * β j := by rw [mul_sum]; apply sum_congr rfl; intro j _; ring

/-- exact excess of the criterion over its value at a solution of the normal equations -/
theorem crit_excess (B : Fin n → Fin m → α) (A : Fin m → Fin m → α) (hA : ∀ i j, A i j = A j i)
    (w y : Fin n → α) (β δ : Fin m → α)
    (hN : ∀ i, ∑ r, B r i * w r * (y r - lp B β r) = ∑ j, A i j * β j) :
    crit B A w y (fun j => β j + δ j) - crit B A w y β
      = ∑ r, w r * (lp B δ r) ^ 2 + bil A δ δ := by
  have h1 : ∑ r, w r * (y r - lp B (fun j => β j + δ j) r) ^ 2
      = ∑ r, w r * (y r - lp B β r) ^ 2 - 2 * ∑ r, w r * (y r - lp B β r) * lp B δ r
        + ∑ r, w r * (lp B δ r) ^ 2 := by
    rw [mul_sum, ← sum_sub_distrib, ← sum_add_distrib]
    apply sum_congr rfl; intro r _; rw [lp_add]; ring
  have h3 := cross_term B A w y β δ hN
  have h4 := bil_symm A hA β δ
  simp only [crit]
  rw [h1, bil_add_add]
  linear_combination (-2) * h3 + h4

end PyGam.NormalEq
