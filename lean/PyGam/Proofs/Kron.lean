import PyGam.Model.Terms
import PyGam.Proofs.Vec
/-!
Quadratic forms of Kronecker products and block-diagonal matrices (C04, C05).
-/
open Finset
namespace PyGam
variable {α : Type} [CommRing α]

/-- `Σ_{k < a b} f k = Σ_{i<a} Σ_{j<b} f (i b + j)` -/
theorem sum_range_mul_split (a b : Nat) (f : Nat → α) :
    ∑ k ∈ range (a * b), f k = ∑ i ∈ range a, ∑ j ∈ range b, f (i * b + j) := by
  induction a with
  | zero => simp
  | succ a ih =>
    rw [Nat.succ_mul, sum_range_add, ih, sum_range_succ]

theorem kron_div (b i j : Nat) (hj : j < b) : (i * b + j) / b = i := by
  have hpos : 0 < b := by omega
  rw [Nat.add_comm, Nat.add_mul_div_right _ _ hpos, Nat.div_eq_of_lt hj, Nat.zero_add]

theorem kron_mod (b i j : Nat) (hj : j < b) : (i * b + j) % b = j := by
  rw [Nat.add_comm, Nat.add_mul_mod_self_right, Nat.mod_eq_of_lt hj]

/-- quadratic form of a Kronecker product in the row-major index `i nb + j` -/
theorem quadForm_kron (na nb : Nat) (A B : Nat → Nat → α) (c : Nat → α) :
    quadForm (na * nb) (kronMat A nb B) c
      = ∑ i ∈ range na, ∑ j ∈ range nb, ∑ i' ∈ range na, ∑ j' ∈ range nb,
          c (i * nb + j) * (A i i' * B j j') * c (i' * nb + j') := by
  simp only [quadForm, sumTo_eq]
  rw [sum_range_mul_split]
  apply sum_congr rfl; intro i _; apply sum_congr rfl; intro j hj
  rw [sum_range_mul_split]
  apply sum_congr rfl; intro i' _; apply sum_congr rfl; intro j' hj'
  simp only [kronMat, kron_div nb i j (mem_range.mp hj), kron_mod nb i j (mem_range.mp hj),
    kron_div nb i' j' (mem_range.mp hj'), kron_mod nb i' j' (mem_range.mp hj')]

/-- `P ⊗ I` : the sum over the fibres along the first axis -/
theorem quadForm_kron_left (na nb : Nat) (A : Nat → Nat → α) (c : Nat → α) :
    quadForm (na * nb) (kronMat A nb (ident (α := α))) c
      = ∑ j ∈ range nb, quadForm na A (fun i => c (i * nb + j)) := by
  rw [quadForm_kron]
  simp only [quadForm, sumTo_eq]
  rw [sum_comm]
  apply sum_congr rfl; intro j hj; apply sum_congr rfl; intro i _
  apply sum_congr rfl; intro i' _
  rw [sum_eq_single j]
  · simp [ident]
  · intro j' _ hne; simp [ident, Ne.symm hne]
  · intro h; exact absurd hj h

/-- `I ⊗ P` : the sum over the fibres along the last axis -/
theorem quadForm_kron_right (na nb : Nat) (B : Nat → Nat → α) (c : Nat → α) :
    quadForm (na * nb) (kronMat (ident (α := α)) nb B) c
      = ∑ i ∈ range na, quadForm nb B (fun j => c (i * nb + j)) := by
  rw [quadForm_kron]
  simp only [quadForm, sumTo_eq]
  apply sum_congr rfl; intro i hi; apply sum_congr rfl; intro j _
  rw [sum_eq_single i]
  · simp [ident]
  · intro i' _ hne; simp [ident, Ne.symm hne]
  · intro h; exact absurd hi h

/-- block-diagonal assembly: the quadratic form is the sum over the blocks -/
theorem quadForm_blockDiag_cons (n r : Nat) (B : Nat → Nat → α) (rest : List (Nat × (Nat → Nat → α)))
    (c : Nat → α) :
    quadForm (n + r) (blockDiag ((n, B) :: rest)) c
      = quadForm n B c + quadForm r (blockDiag rest) (fun k => c (n + k)) := by
  simp only [quadForm, sumTo_eq]
  rw [sum_range_add]
  congr 1
  · apply sum_congr rfl; intro i hi
    rw [sum_range_add]
    have hi' := mem_range.mp hi
    have : ∑ x ∈ range r, c i * blockDiag ((n, B) :: rest) i (n + x) * c (n + x) = 0 := by
      apply sum_eq_zero; intro x _
      have h1 : ¬ (i < n ∧ n + x < n) := by omega
      simp [blockDiag, h1, hi']
    rw [this, add_zero]
    apply sum_congr rfl; intro j hj
    simp [blockDiag, hi', mem_range.mp hj]
  · apply sum_congr rfl; intro i _
    rw [sum_range_add]
    have : ∑ x ∈ range n, c (n + i) * blockDiag ((n, B) :: rest) (n + i) x * c x = 0 := by
      apply sum_eq_zero; intro x hx
      have h1 : ¬ (n + i < n ∧ x < n) := by omega
      simp [blockDiag, h1, mem_range.mp hx]
    rw [this, zero_add]
    apply sum_congr rfl; intro j _
    have h1 : ¬ (n + i < n ∧ n + j < n) := by omega
    have h2 : ¬ (n + i < n ∨ n + j < n) := by omega
    simp [blockDiag, h1, h2]

/-- lam-weighted sums of penalty matrices: the quadratic forms add up with the same weights -/
theorem quadForm_weightedPenSum (n : Nat) (mats : List (α × (Nat → Nat → α))) (c : Nat → α) :
    quadForm n (weightedPenSum mats) c = (mats.map (fun lp => lp.1 * quadForm n lp.2 c)).sum := by
  induction mats with
  | nil =>
    have : weightedPenSum ([] : List (α × (Nat → Nat → α))) = fun _ _ => (0:α) := by
      funext i j; simp [weightedPenSum]
    rw [this, quadForm_zero]; simp
  | cons a mats ih =>
    have : weightedPenSum (a :: mats) = fun i j => a.1 * a.2 i j + weightedPenSum mats i j := by
      funext i j; simp [weightedPenSum]
    rw [this, quadForm_add, quadForm_smul, ih]; simp

end PyGam
