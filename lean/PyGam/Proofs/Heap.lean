import PyGam.Model.Heap
/-!
# Lemmas about the heap model (`Model/Heap.lean`): separation invariant and frame rules

* `Inv w` — every reference of every model / expression is in range, and no two models share a term object,
  a distribution object or a log dictionary, and no model shares a term object with an expression.
* `Frame w w' T D L` — `w'` has at least the cells of `w`, and every cell of `w` outside `T` / `D` / `L` is unchanged.
* per primitive `P`: `P_frame`, `P_models` (which records change), `P_inv`.
-/
namespace PyGam.Heap
variable {α : Type}

/-! ## `upd`, `updMany` -/

@[simp] theorem length_upd (l : List α) (i : Nat) (f : α → α) : (upd l i f).length = l.length := by
  unfold upd; split <;> simp

theorem getElem?_upd_ne (l : List α) {i j : Nat} (f : α → α) (h : j ≠ i) : (upd l i f)[j]? = l[j]? := by
  unfold upd; split
  · simp [Ne.symm h]
  · rfl

theorem getElem?_upd_self (l : List α) (i : Nat) (f : α → α) : (upd l i f)[i]? = l[i]?.map f := by
  unfold upd; split
  · next x hx =>
    obtain ⟨hi, rfl⟩ := List.getElem?_eq_some_iff.mp hx
    simp [hi]
  · next hx => simp [hx]

@[simp] theorem length_updManyFrom (f : Nat → α → α) (l : List α) (ids : List Nat) (k : Nat) :
    (updManyFrom f l ids k).length = l.length := by
  induction ids generalizing l k with
  | nil => rfl
  | cons i is ih => simp [updManyFrom, ih]

theorem getElem?_updManyFrom_of_not_mem (f : Nat → α → α) (l : List α) (ids : List Nat) (k : Nat) {j : Nat}
    (h : j ∉ ids) : (updManyFrom f l ids k)[j]? = l[j]? := by
  induction ids generalizing l k with
  | nil => rfl
  | cons i is ih =>
    simp only [List.mem_cons, not_or] at h
    simp [updManyFrom, ih _ _ h.2, getElem?_upd_ne _ _ h.1]

@[simp] theorem length_updMany (l : List α) (ids : List Nat) (f : Nat → α → α) :
    (updMany l ids f).length = l.length := length_updManyFrom ..

theorem getElem?_updMany_of_not_mem (l : List α) (ids : List Nat) (f : Nat → α → α) {j : Nat}
    (h : j ∉ ids) : (updMany l ids f)[j]? = l[j]? := getElem?_updManyFrom_of_not_mem _ _ _ _ h

theorem mem_freshIds {s n t : Nat} : t ∈ freshIds s n ↔ s ≤ t ∧ t < s + n := by
  simp [freshIds, List.mem_range'_1]

@[simp] theorem length_freshIds (s n : Nat) : (freshIds s n).length = n := by simp [freshIds]

/-! ## the separation invariant -/

/-- all references of `m` are in range -/
def Model.okIn (m : Model) (nt nd nl : Nat) : Prop :=
  (∀ t ∈ m.terms, t < nt) ∧ m.dist < nd ∧ (∀ l, m.logs = some l → l < nl)

/-- `a` and `b` share no mutable object -/
def Model.sep (a b : Model) : Prop :=
  (∀ t ∈ a.terms, t ∉ b.terms) ∧ a.dist ≠ b.dist ∧ (∀ l, a.logs = some l → b.logs ≠ some l)

/-- the invariant on the *shape* of a world (heap sizes, model records, expressions) -/
structure InvS (nt nd nl : Nat) (models : List Model) (exprs : List (List Nat)) : Prop where
  ok : ∀ (i : Nat) (m : Model), models[i]? = some m → m.okIn nt nd nl
  sep : ∀ (i j : Nat) (a b : Model), models[i]? = some a → models[j]? = some b → i ≠ j → a.sep b
  exprOk : ∀ e ∈ exprs, ∀ t ∈ e, t < nt
  exprSep : ∀ e ∈ exprs, ∀ t ∈ e, ∀ (i : Nat) (m : Model), models[i]? = some m → t ∉ m.terms

/-- **the isolation invariant**: references in range; no two live models share a term object, a distribution
object or a log dictionary; no model shares a term object with a caller-held expression -/
def Inv (w : World) : Prop := InvS w.terms.length w.dists.length w.logs.length w.models w.exprs

/-- `m'` refers only to objects of `m` or to objects allocated between the old sizes and the new sizes -/
def Model.freshOr (m' m : Model) (nt nd nl nt' nd' nl' : Nat) : Prop :=
  (∀ t ∈ m'.terms, t ∈ m.terms ∨ (nt ≤ t ∧ t < nt')) ∧
  (m'.dist = m.dist ∨ (nd ≤ m'.dist ∧ m'.dist < nd')) ∧
  (∀ l, m'.logs = some l → m.logs = some l ∨ (nl ≤ l ∧ l < nl'))

/-- all references of `m'` are to objects allocated between the old sizes and the new sizes -/
def Model.allFresh (m' : Model) (nt nd nl nt' nd' nl' : Nat) : Prop :=
  (∀ t ∈ m'.terms, nt ≤ t ∧ t < nt') ∧ (nd ≤ m'.dist ∧ m'.dist < nd') ∧
  (∀ l, m'.logs = some l → nl ≤ l ∧ l < nl')

theorem InvS.mono {nt nd nl nt' nd' nl' : Nat} {ms : List Model} {es : List (List Nat)}
    (h : InvS nt nd nl ms es) (ht : nt ≤ nt') (hd : nd ≤ nd') (hl : nl ≤ nl') : InvS nt' nd' nl' ms es := by
  refine ⟨fun i m hm => ?_, h.sep, fun e he t hte => Nat.lt_of_lt_of_le (h.exprOk e he t hte) ht, h.exprSep⟩
  obtain ⟨h1, h2, h3⟩ := h.ok i m hm
  exact ⟨fun t htm => Nat.lt_of_lt_of_le (h1 t htm) ht, Nat.lt_of_lt_of_le h2 hd,
    fun l hl' => Nat.lt_of_lt_of_le (h3 l hl') hl⟩

/-- replacing record `i` by one that keeps its own objects or takes newly allocated ones -/
theorem InvS.set {nt nd nl nt' nd' nl' : Nat} {ms : List Model} {es : List (List Nat)} {i : Nat} {m m' : Model}
    (h : InvS nt nd nl ms es) (ht : nt ≤ nt') (hd : nd ≤ nd') (hl : nl ≤ nl')
    (hm : ms[i]? = some m) (hf : m'.freshOr m nt nd nl nt' nd' nl') :
    InvS nt' nd' nl' (ms.set i m') es := by
  have hi : i < ms.length := (List.getElem?_eq_some_iff.mp hm).1
  obtain ⟨hmo1, hmo2, hmo3⟩ := h.ok i m hm
  obtain ⟨f1, f2, f3⟩ := hf
  -- facts about the new record against any other old record
  have key : ∀ (j : Nat) (b : Model), ms[j]? = some b → i ≠ j → m'.sep b ∧ b.sep m' := by
    intro j b hb hij
    obtain ⟨s1, s2, s3⟩ := h.sep i j m b hm hb hij
    obtain ⟨bo1, bo2, bo3⟩ := h.ok j b hb
    have t1 : ∀ t ∈ m'.terms, t ∉ b.terms := by
      intro t ht' hb'
      rcases f1 t ht' with h1 | h1
      · exact s1 t h1 hb'
      · exact absurd (bo1 t hb') (by omega)
    have d1 : m'.dist ≠ b.dist := by
      rcases f2 with h2 | h2
      · rw [h2]; exact s2
      · omega
    have l1 : ∀ l, m'.logs = some l → b.logs ≠ some l := by
      intro l hl' hb'
      rcases f3 l hl' with h3 | h3
      · exact s3 l h3 hb'
      · exact absurd (bo3 l hb') (by omega)
    exact ⟨⟨t1, d1, l1⟩, ⟨fun t hb' ht' => t1 t ht' hb', fun e => d1 e.symm, fun l hb' hl' => l1 l hl' hb'⟩⟩
  refine ⟨?_, ?_, fun e he t hte => Nat.lt_of_lt_of_le (h.exprOk e he t hte) ht, ?_⟩
  · intro j b hb
    by_cases hij : i = j
    · subst hij
      simp [hi] at hb
      subst hb
      refine ⟨fun t ht' => ?_, ?_, fun l hl' => ?_⟩
      · rcases f1 t ht' with h1 | h1
        · exact Nat.lt_of_lt_of_le (hmo1 t h1) ht
        · exact h1.2
      · rcases f2 with h2 | h2
        · rw [h2]; exact Nat.lt_of_lt_of_le hmo2 hd
        · exact h2.2
      · rcases f3 l hl' with h3 | h3
        · exact Nat.lt_of_lt_of_le (hmo3 l h3) hl
        · exact h3.2
    · rw [List.getElem?_set_ne hij] at hb
      obtain ⟨h1, h2, h3⟩ := h.ok j b hb
      exact ⟨fun t htm => Nat.lt_of_lt_of_le (h1 t htm) ht, Nat.lt_of_lt_of_le h2 hd,
        fun l hl' => Nat.lt_of_lt_of_le (h3 l hl') hl⟩
  · intro j k a b ha hb hjk
    by_cases hij : i = j
    · subst hij
      simp [hi] at ha
      subst ha
      rw [List.getElem?_set_ne hjk] at hb
      exact (key k b hb hjk).1
    · rw [List.getElem?_set_ne hij] at ha
      by_cases hik : i = k
      · subst hik
        simp [hi] at hb
        subst hb
        exact (key j a ha hij).2
      · rw [List.getElem?_set_ne hik] at hb
        exact h.sep j k a b ha hb hjk
  · intro e he t hte j b hb
    by_cases hij : i = j
    · subst hij
      simp [hi] at hb
      subst hb
      intro ht'
      rcases f1 t ht' with h1 | h1
      · exact h.exprSep e he t hte i m hm h1
      · exact absurd (h.exprOk e he t hte) (by omega)
    · rw [List.getElem?_set_ne hij] at hb
      exact h.exprSep e he t hte j b hb

/-- appending a record made of newly allocated objects only -/
theorem InvS.push {nt nd nl nt' nd' nl' : Nat} {ms : List Model} {es : List (List Nat)} {m' : Model}
    (h : InvS nt nd nl ms es) (ht : nt ≤ nt') (hd : nd ≤ nd') (hl : nl ≤ nl')
    (hf : m'.allFresh nt nd nl nt' nd' nl') :
    InvS nt' nd' nl' (ms ++ [m']) es := by
  obtain ⟨f1, f2, f3⟩ := hf
  have key : ∀ (j : Nat) (b : Model), ms[j]? = some b → m'.sep b ∧ b.sep m' := by
    intro j b hb
    obtain ⟨bo1, bo2, bo3⟩ := h.ok j b hb
    have t1 : ∀ t ∈ m'.terms, t ∉ b.terms := fun t ht' hb' => absurd (bo1 t hb') (by have := f1 t ht'; omega)
    have d1 : m'.dist ≠ b.dist := by omega
    have l1 : ∀ l, m'.logs = some l → b.logs ≠ some l :=
      fun l hl' hb' => absurd (bo3 l hb') (by have := f3 l hl'; omega)
    exact ⟨⟨t1, d1, l1⟩, ⟨fun t hb' ht' => t1 t ht' hb', fun e => d1 e.symm, fun l hb' hl' => l1 l hl' hb'⟩⟩
  have hget : ∀ (j : Nat) (b : Model), (ms ++ [m'])[j]? = some b → (j < ms.length ∧ ms[j]? = some b) ∨ (j = ms.length ∧ b = m') := by
    intro j b hb
    rcases Nat.lt_or_ge j ms.length with hj | hj
    · left; rw [List.getElem?_append_left hj] at hb; exact ⟨hj, hb⟩
    · right
      rw [List.getElem?_append_right hj] at hb
      rcases hk : j - ms.length with _ | k
      · rw [hk] at hb; simp at hb; exact ⟨by omega, hb.symm⟩
      · rw [hk] at hb; simp at hb
  refine ⟨?_, ?_, fun e he t hte => Nat.lt_of_lt_of_le (h.exprOk e he t hte) ht, ?_⟩
  · intro j b hb
    rcases hget j b hb with ⟨_, hb'⟩ | ⟨_, rfl⟩
    · obtain ⟨h1, h2, h3⟩ := h.ok j b hb'
      exact ⟨fun t htm => Nat.lt_of_lt_of_le (h1 t htm) ht, Nat.lt_of_lt_of_le h2 hd,
        fun l hl' => Nat.lt_of_lt_of_le (h3 l hl') hl⟩
    · exact ⟨fun t ht' => (f1 t ht').2, f2.2, fun l hl' => (f3 l hl').2⟩
  · intro j k a b ha hb hjk
    rcases hget j a ha with ⟨hj, ha'⟩ | ⟨hj, rfl⟩
    · rcases hget k b hb with ⟨_, hb'⟩ | ⟨_, rfl⟩
      · exact h.sep j k a b ha' hb' hjk
      · exact (key j a ha').2
    · rcases hget k b hb with ⟨_, hb'⟩ | ⟨hk, rfl⟩
      · exact (key k b hb').1
      · omega
  · intro e he t hte j b hb
    rcases hget j b hb with ⟨_, hb'⟩ | ⟨_, rfl⟩
    · exact h.exprSep e he t hte j b hb'
    · intro ht'
      exact absurd (h.exprOk e he t hte) (by have := f1 t ht'; omega)

/-- dropping models keeps the invariant -/
theorem InvS.take {nt nd nl : Nat} {ms : List Model} {es : List (List Nat)} (h : InvS nt nd nl ms es) (n : Nat) :
    InvS nt nd nl (ms.take n) es := by
  have hget : ∀ (j : Nat) (b : Model), (ms.take n)[j]? = some b → ms[j]? = some b := by
    intro j b hb
    rw [List.getElem?_take] at hb
    split at hb
    · exact hb
    · cases hb
  exact ⟨fun i m hm => h.ok i m (hget i m hm),
    fun i j a b ha hb hij => h.sep i j a b (hget i a ha) (hget j b hb) hij,
    h.exprOk, fun e he t hte i m hm => h.exprSep e he t hte i m (hget i m hm)⟩

/-- a new expression over newly allocated term objects and term objects of existing expressions -/
theorem InvS.pushExpr {nt nd nl nt' : Nat} {ms : List Model} {es : List (List Nat)} {e' : List Nat}
    (h : InvS nt nd nl ms es) (ht : nt ≤ nt')
    (he' : ∀ t ∈ e', (nt ≤ t ∧ t < nt') ∨ ∃ e ∈ es, t ∈ e) :
    InvS nt' nd nl ms (es ++ [e']) := by
  have h' := h.mono ht (Nat.le_refl nd) (Nat.le_refl nl)
  refine ⟨h'.ok, h'.sep, ?_, ?_⟩
  · intro e he t hte
    rcases List.mem_append.mp he with he | he
    · exact h'.exprOk e he t hte
    · simp at he; subst he
      rcases he' t hte with h1 | ⟨e0, he0, ht0⟩
      · exact h1.2
      · exact h'.exprOk e0 he0 t ht0
  · intro e he t hte j b hb
    rcases List.mem_append.mp he with he | he
    · exact h'.exprSep e he t hte j b hb
    · simp at he; subst he
      rcases he' t hte with h1 | ⟨e0, he0, ht0⟩
      · intro hb'
        exact absurd ((h.ok j b hb).1 t hb') (by omega)
      · exact h'.exprSep e0 he0 t ht0 j b hb

end PyGam.Heap
