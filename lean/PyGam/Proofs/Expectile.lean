import PyGam.Model.Expectile
import PyGam.Proofs.Vec
import Mathlib.Algebra.Order.Field.Basic
import Mathlib.Algebra.Order.AbsoluteValue.Basic
import Mathlib.Tactic.Ring
import Mathlib.Tactic.Linarith
import Mathlib.Tactic.LinearCombination
/-!
Helper lemmas for C18 (ExpectileGAM): the intercept row of the normal equations, the split of the
asymmetric weight by the sign of the residual, and the invariants of the `fit_quantile` bisection.
-/
set_option linter.unusedSectionVars false
open Finset
namespace PyGam.Expectile
variable {α : Type} [Field α] [LinearOrder α] [IsStrictOrderedRing α]

omit [LinearOrder α] [IsStrictOrderedRing α] in
theorem sum_single_row (m j0 : Nat) (hj : j0 < m) (a beta : Nat → α)
    (ha : ∀ k < m, k ≠ j0 → a k = 0) :
    ∑ k ∈ range m, a k * beta k = a j0 * beta j0 := by
  rw [Finset.sum_eq_single j0]
  · intro k hk hne; rw [ha k (mem_range.mp hk) hne, zero_mul]
  · intro h; exact absurd (mem_range.mpr hj) h

/-- the row of an all-ones column whose penalty row has only its diagonal entry:
`Σ d_i (y_i − μ_i) = A_{j0 j0} β_{j0}` -/
theorem intercept_row (n m : Nat) (B : Nat → Nat → α) (d : Nat → α) (A : Nat → Nat → α)
    (y beta : Nat → α) (j0 : Nat) (hj : j0 < m) (hB : ∀ i < n, B i j0 = 1)
    (hA : ∀ k < m, k ≠ j0 → A j0 k = 0) (h : NormalEq n m B d A y beta) :
    ∑ i ∈ range n, d i * (y i - linPred m B beta i) = A j0 j0 * beta j0 := by
  have row := h j0 hj
  simp only [gramW, rhsW, sumTo_eq] at row
  have e1 : ∑ i ∈ range n, B i j0 * d i * y i = ∑ i ∈ range n, d i * y i :=
    sum_congr rfl (fun i hi => by rw [hB i (mem_range.mp hi), one_mul])
  have e2 : ∑ k ∈ range m, (∑ i ∈ range n, B i j0 * d i * B i k + A j0 k) * beta k
      = ∑ i ∈ range n, d i * linPred m B beta i + A j0 j0 * beta j0 := by
    simp only [add_mul, sum_add_distrib]
    rw [sum_single_row m j0 hj (A j0) beta hA]
    congr 1
    simp only [linPred, sumTo_eq, sum_mul, mul_sum]
    rw [sum_comm]
    apply sum_congr rfl; intro i hi; apply sum_congr rfl; intro k _
    rw [hB i (mem_range.mp hi)]; ring
  rw [e1, e2] at row
  simp only [mul_sub, sum_sub_distrib]
  rw [← row]; ring

/-- `w · asym · r` split by the sign of the residual `r = y − μ` -/
theorem asym_split (tau w y mu : α) :
    w * asym tau y mu * (y - mu)
      = tau * (if 0 < y - mu then w * (y - mu) else 0)
        - (1 - tau) * (if 0 < y - mu then 0 else w * (0 - (y - mu))) := by
  unfold asym
  by_cases h : mu < y
  · have h' : 0 < y - mu := sub_pos.mpr h
    rw [if_pos h, if_pos h', if_pos h']; ring
  · have h' : ¬ 0 < y - mu := fun hh => h (sub_pos.mp hh)
    rw [if_neg h, if_neg h', if_neg h']; ring

theorem asym_half (y mu : α) : asym (1 / 2 : α) y mu = 1 / 2 := by
  unfold asym; split
  · rfl
  · norm_num

theorem asym_pos (tau y mu : α) (h0 : 0 < tau) (h1 : tau < 1) : 0 < asym tau y mu := by
  unfold asym; split
  · exact h0
  · linarith

theorem withinTol_iff (a b tol : α) : withinTol a b tol = true ↔ |a - b| ≤ tol := by
  unfold withinTol
  simp only
  by_cases h : a - b < 0
  · rw [if_pos h, abs_of_neg h, zero_sub]
    by_cases h2 : -(a - b) ≤ tol <;> simp_all
  · rw [if_neg h, abs_of_nonneg (not_lt.mp h)]
    by_cases h2 : a - b ≤ tol <;> simp [h2]

/-- the bracket invariant of the binary search -/
def Inv (s : BState α) : Prop := 0 ≤ s.lo ∧ s.lo < s.e ∧ s.e < s.hi ∧ s.hi ≤ 1

theorem midpoint_between (a b : α) (h : a < b) : a < (b + a) / (1 + 1) ∧ (b + a) / (1 + 1) < b := by
  have h2 : (1 : α) + 1 = 2 := one_add_one_eq_two
  rw [h2]
  constructor
  · rw [lt_div_iff₀ (by norm_num : (0 : α) < 2)]; linarith
  · rw [div_lt_iff₀ (by norm_num : (0 : α) < 2)]; linarith

omit [IsStrictOrderedRing α] in
/-- what a non-breaking loop iteration does, spelled out -/
theorem bisectStep_some (q tol r : α) (s s' : BState α) (h : bisectStep q tol r s = some s') :
    withinTol r q tol = false ∧
    s'.nIter = s.nIter + 1 ∧
    (r < q → s'.lo = s.e ∧ s'.hi = s.hi ∧ s'.e = (s.hi + s.e) / (1 + 1)) ∧
    (¬ r < q → s'.lo = s.lo ∧ s'.hi = s.e ∧ s'.e = (s.e + s.lo) / (1 + 1)) := by
  unfold bisectStep at h
  by_cases hw : withinTol r q tol = true
  · rw [if_pos hw] at h; exact absurd h (by simp)
  · rw [if_neg hw] at h
    have hs := Option.some.inj h
    subst hs
    refine ⟨by simpa using hw, rfl, ?_, ?_⟩
    · intro hr; simp [hr]
    · intro hr; simp [hr]

omit [IsStrictOrderedRing α] in
theorem bisectStep_none (q tol r : α) (s : BState α) (h : bisectStep q tol r s = none) :
    withinTol r q tol = true := by
  unfold bisectStep at h
  by_cases hw : withinTol r q tol = true
  · exact hw
  · rw [if_neg hw] at h; exact absurd h (by simp)

theorem bisectStep_inv (q tol r : α) (s s' : BState α) (hI : Inv s)
    (h : bisectStep q tol r s = some s') : Inv s' := by
  obtain ⟨h0, h1, h2, h3⟩ := hI
  obtain ⟨_, _, hlt, hge⟩ := bisectStep_some q tol r s s' h
  by_cases hr : r < q
  · obtain ⟨e1, e2, e3⟩ := hlt hr
    have hm := midpoint_between s.e s.hi h2
    refine ⟨?_, ?_, ?_, ?_⟩
    · rw [e1]; exact le_of_lt (lt_of_le_of_lt h0 h1)
    · rw [e1, e3]; exact hm.1
    · rw [e2, e3]; exact hm.2
    · rw [e2]; exact h3
  · obtain ⟨e1, e2, e3⟩ := hge hr
    have hm := midpoint_between s.lo s.e h1
    refine ⟨?_, ?_, ?_, ?_⟩
    · rw [e1]; exact h0
    · rw [e1, e3]; exact hm.1
    · rw [e2, e3]; exact hm.2
    · rw [e2]; exact le_trans (le_of_lt h2) h3

theorem bisectLoop_inv (ratio : Nat → α → α) (q tol : α) (fuel : Nat) (s : BState α) (hI : Inv s) :
    Inv (bisectLoop ratio q tol fuel s).1 := by
  induction fuel generalizing s with
  | zero => simpa [bisectLoop] using hI
  | succ fuel ih =>
    unfold bisectLoop
    cases hst : bisectStep q tol (ratio s.nIter s.e) s with
    | none => simpa using hI
    | some s' => simpa using ih s' (bisectStep_inv q tol _ s s' hI hst)

theorem bisectLoop_nIter_le (ratio : Nat → α → α) (q tol : α) (fuel : Nat) (s : BState α) :
    s.nIter ≤ (bisectLoop ratio q tol fuel s).1.nIter ∧
    (bisectLoop ratio q tol fuel s).1.nIter ≤ s.nIter + fuel := by
  induction fuel generalizing s with
  | zero => simp [bisectLoop]
  | succ fuel ih =>
    unfold bisectLoop
    cases hst : bisectStep q tol (ratio s.nIter s.e) s with
    | none => simp
    | some s' =>
      have hn := (bisectStep_some q tol _ s s' hst).2.1
      have := ih s'
      simp only
      omega

theorem bisectLoop_post (ratio : Nat → α → α) (q tol : α) (fuel : Nat) (s : BState α) :
    ((bisectLoop ratio q tol fuel s).2 = true →
        withinTol (ratio (bisectLoop ratio q tol fuel s).1.nIter (bisectLoop ratio q tol fuel s).1.e) q tol = true) ∧
    ((bisectLoop ratio q tol fuel s).2 = false →
        (bisectLoop ratio q tol fuel s).1.nIter = s.nIter + fuel) := by
  induction fuel generalizing s with
  | zero => simp [bisectLoop]
  | succ fuel ih =>
    unfold bisectLoop
    cases hst : bisectStep q tol (ratio s.nIter s.e) s with
    | none =>
      simp only
      exact ⟨fun _ => bisectStep_none q tol _ s hst, fun h => absurd h (by simp)⟩
    | some s' =>
      have hn := (bisectStep_some q tol _ s s' hst).2.1
      have := ih s'
      simp only
      refine ⟨this.1, fun h => ?_⟩
      rw [this.2 h, hn]; omega

theorem bisectTrace_length (ratio : Nat → α → α) (q tol : α) (fuel : Nat) (s : BState α) :
    s.nIter + (bisectTrace ratio q tol fuel s).length = (bisectLoop ratio q tol fuel s).1.nIter := by
  induction fuel generalizing s with
  | zero => simp [bisectTrace, bisectLoop]
  | succ fuel ih =>
    unfold bisectTrace bisectLoop
    cases hst : bisectStep q tol (ratio s.nIter s.e) s with
    | none => simp
    | some s' =>
      have hn := (bisectStep_some q tol _ s s' hst).2.1
      have := ih s'
      simp only [List.length_cons]
      omega

theorem bisectTrace_inside (ratio : Nat → α → α) (q tol : α) (fuel : Nat) (s : BState α) (hI : Inv s) :
    ∀ e ∈ bisectTrace ratio q tol fuel s, 0 < e ∧ e < 1 := by
  induction fuel generalizing s with
  | zero => simp [bisectTrace]
  | succ fuel ih =>
    unfold bisectTrace
    cases hst : bisectStep q tol (ratio s.nIter s.e) s with
    | none => simp
    | some s' =>
      have hI' := bisectStep_inv q tol _ s s' hI hst
      intro e he
      simp only [List.mem_cons] at he
      rcases he with rfl | he
      · exact ⟨lt_of_le_of_lt hI'.1 hI'.2.1, lt_of_lt_of_le hI'.2.2.1 hI'.2.2.2⟩
      · exact ih s' hI' e he

end PyGam.Expectile
