import PyGam.Model.Invariance
import PyGam.Proofs.Vec
import PyGam.Props.C03
import Mathlib.Algebra.BigOperators.Group.Finset.Basic
import Mathlib.Algebra.BigOperators.Ring.Finset
import Mathlib.Algebra.Order.Field.Basic
import Mathlib.Order.MinMax
import Mathlib.Tactic.Ring
import Mathlib.Tactic.Linarith
import Mathlib.Tactic.FieldSimp
/-!
Helper lemmas for C12 (invariances): sums over permuted / replicated rows, `min`/`max` under an increasing
affine map, model-matrix columns under a change of units of spline-only features.
-/
open Finset
namespace PyGam.Inv
open PyGam

/-! ### sums over permuted rows -/

theorem sumTo_perm {α : Type} [AddCommMonoid α] (n : Nat) (σ : Equiv.Perm ℕ) (hσ : ∀ r, r < n ↔ σ r < n)
    (f : Nat → α) : sumTo n (fun r => f (σ r)) = sumTo n f := by
  rw [sumTo_eq, sumTo_eq]
  exact Finset.sum_equiv σ (by simpa using hσ) (fun _ _ => rfl)

/-! ### sums over replicated rows -/

theorem replIdx_succ (n : Nat) (w : Nat → Nat) :
    replIdx (n+1) w = replIdx n w ++ List.replicate (w n) n := by
  simp [replIdx, List.range_succ, List.flatMap_append]

theorem sum_replIdx {α : Type} [Semiring α] (n : Nat) (w : Nat → Nat) (f : Nat → α) :
    ((replIdx n w).map f).sum = ∑ i ∈ range n, (w i : α) * f i := by
  induction n with
  | zero => simp [replIdx]
  | succ n ih =>
    rw [replIdx_succ, List.map_append, List.sum_append, ih, sum_range_succ, List.map_replicate,
      List.sum_replicate, nsmul_eq_mul]

theorem length_replIdx (n : Nat) (w : Nat → Nat) : (replIdx n w).length = ∑ i ∈ range n, w i := by
  induction n with
  | zero => simp [replIdx]
  | succ n ih => rw [replIdx_succ, List.length_append, ih, sum_range_succ, List.length_replicate]

/-- a `sumTo` over the positions of a list is the sum of the list -/
theorem sumTo_list {α : Type} [AddCommMonoid α] (l : List Nat) (f : Nat → α) :
    sumTo l.length (fun k => f (replSrc l k)) = (l.map f).sum := by
  induction l using List.reverseRecOn with
  | nil => simp [sumTo]
  | append_singleton l a ih =>
    rw [List.length_append, List.length_singleton, sumTo, List.map_append, List.sum_append, ← ih]
    congr 1
    · apply sumTo_congr; intro k hk
      simp [replSrc, List.getElem?_append_left hk, hk]
    · simp [replSrc]

/-- the central identity: a sum over the replicated rows is the weighted sum over the original rows -/
theorem sumTo_repl {α : Type} [Semiring α] (n : Nat) (w : Nat → Nat) (f : Nat → α) :
    sumTo (replIdx n w).length (fun k => f (replSrc (replIdx n w) k)) = sumTo n (fun i => (w i : α) * f i) := by
  rw [sumTo_list, sum_replIdx, sumTo_eq]

/-! ### minimum and maximum under an increasing affine map (`gen_edge_knots` commutes with a change of units) -/
section minmax
variable {α : Type} [Field α] [LinearOrder α] [IsStrictOrderedRing α]

theorem affine_mono (a b : α) (ha : 0 ≤ a) : Monotone (fun t => a * t + b) := by
  intro u v h
  have := mul_le_mul_of_nonneg_left h ha
  simp only; linarith

theorem dataMin_affine (a b : α) (ha : 0 ≤ a) (x : Nat → α) (k : Nat) :
    dataMin (fun r => a * x r + b) k = a * dataMin x k + b := by
  induction k with
  | zero => rfl
  | succ k ih =>
    simp only [dataMin]; rw [ih]
    exact ((affine_mono a b ha).map_min).symm

theorem dataMax_affine (a b : α) (ha : 0 ≤ a) (x : Nat → α) (k : Nat) :
    dataMax (fun r => a * x r + b) k = a * dataMax x k + b := by
  induction k with
  | zero => rfl
  | succ k ih =>
    simp only [dataMax]; rw [ih]
    exact ((affine_mono a b ha).map_max).symm

theorem dataMin_le (x : Nat → α) (k r : Nat) (hr : r ≤ k) : dataMin x k ≤ x r := by
  induction k with
  | zero => have : r = 0 := by omega
            subst this; exact le_rfl
  | succ k ih =>
    simp only [dataMin]
    rcases Nat.lt_or_ge r (k+1) with h | h
    · exact le_trans (min_le_left _ _) (ih (by omega))
    · have : r = k+1 := by omega
      subst this; exact min_le_right _ _

theorem le_dataMax (x : Nat → α) (k r : Nat) (hr : r ≤ k) : x r ≤ dataMax x k := by
  induction k with
  | zero => have : r = 0 := by omega
            subst this; exact le_rfl
  | succ k ih =>
    simp only [dataMax]
    rcases Nat.lt_or_ge r (k+1) with h | h
    · exact le_trans (ih (by omega)) (le_max_left _ _)
    · have : r = k+1 := by omega
      subst this; exact le_max_right _ _

end minmax

/-! ### model-matrix columns under a change of units -/
section columns
variable {α : Type} [Field α] [LinearOrder α] [IsStrictOrderedRing α] [HasFract α]

/-- the change of units `(a, b)` is admissible for a marginal: the feature of a spline is rescaled by a positive
factor (and its knots are distinct); every feature that enters raw (linear term, factor codes, by-variable) is
left alone -/
def MargOK (a b : Nat → α) (m : Marg α) : Prop :=
  (m.kind = .spline → 0 < a m.feature ∧ m.e0 ≠ m.e1) ∧
  (m.kind ≠ .spline → a m.feature = 1 ∧ b m.feature = 0) ∧
  (∀ k, m.byVar = some k → a k = 1 ∧ b k = 0)

def ByOK (a b : Nat → α) (by_ : Option Nat) : Prop := ∀ k, by_ = some k → a k = 1 ∧ b k = 0

def TermOK (a b : Nat → α) : Term α → Prop
  | .intercept => True
  | .single m => MargOK a b m
  | .tensor ms by_ => (∀ m ∈ ms, MargOK a b m) ∧ ByOK a b by_

theorem byValue_mapRow (a b : Nat → α) (by_ : Option Nat) (h : ByOK a b by_) (x : Nat → α) :
    byValue by_ (mapRow a b x) = byValue by_ x := by
  cases by_ with
  | none => rfl
  | some k =>
    obtain ⟨h1, h2⟩ := h k rfl
    simp [byValue, mapRow, h1, h2]

theorem nCoefs_affineKnots (a b : Nat → α) (m : Marg α) : (m.affineKnots a b).nCoefs = m.nCoefs := by
  unfold Marg.affineKnots; split <;> simp_all [Marg.nCoefs]

theorem marg_columns_affine (ε : α) (a b : Nat → α) (m : Marg α) (h : MargOK a b m) (x : Nat → α) :
    (m.affineKnots a b).columns ε (mapRow a b x) = m.columns ε x := by
  obtain ⟨hs, hn, hb⟩ := h
  cases hk : m.kind with
  | linear =>
    obtain ⟨h1, h2⟩ := hn (by rw [hk]; decide)
    funext j
    simp [Marg.affineKnots, Marg.columns, hk, mapRow, h1, h2]
  | factor =>
    obtain ⟨h1, h2⟩ := hn (by rw [hk]; decide)
    funext j
    simp [Marg.affineKnots, Marg.columns, hk, mapRow, h1, h2]
  | spline =>
    obtain ⟨ha, hne⟩ := hs hk
    funext j
    have hby := byValue_mapRow a b m.byVar hb x
    simp only [Marg.affineKnots, Marg.columns, hk]
    rw [hby]
    have := C03.affine_invariant ε m.nSplines m.order m.cyclic m.e0 m.e1 (a m.feature) (b m.feature)
      (x m.feature) ha hne
    simp only [mapRow]
    rw [this]

theorem tensorColumns_affine (ε : α) (a b : Nat → α) (x : Nat → α) (ms : List (Marg α))
    (h : ∀ m ∈ ms, MargOK a b m) (acc : Nat → α) :
    tensorColumns ε (mapRow a b x) acc (ms.map (Marg.affineKnots a b)) = tensorColumns ε x acc ms := by
  induction ms generalizing acc with
  | nil => rfl
  | cons m ms ih =>
    simp only [List.map_cons, tensorColumns]
    rw [nCoefs_affineKnots, marg_columns_affine ε a b m (h m (by simp)) x]
    exact ih (fun m' hm' => h m' (by simp [hm'])) _

theorem term_nCoefs_affineKnots (a b : Nat → α) (t : Term α) : (t.affineKnots a b).nCoefs = t.nCoefs := by
  cases t with
  | intercept => rfl
  | single m => exact nCoefs_affineKnots a b m
  | tensor ms by_ =>
    simp only [Term.affineKnots, Term.nCoefs, List.map_map]
    congr 1
    apply List.map_congr_left
    intro m _; exact nCoefs_affineKnots a b m

theorem term_columns_affine (ε : α) (a b : Nat → α) (t : Term α) (h : TermOK a b t) (x : Nat → α) :
    (t.affineKnots a b).columns ε (mapRow a b x) = t.columns ε x := by
  cases t with
  | intercept => rfl
  | single m => exact marg_columns_affine ε a b m h x
  | tensor ms by_ =>
    obtain ⟨hm, hb⟩ := h
    cases ms with
    | nil => rfl
    | cons m ms =>
      funext j
      simp only [Term.affineKnots, List.map_cons, Term.columns]
      rw [byValue_mapRow a b by_ hb x, marg_columns_affine ε a b m (hm m (by simp)) x,
        tensorColumns_affine ε a b x ms (fun m' hm' => hm m' (by simp [hm']))]

theorem columnsAll_affine (ε : α) (a b : Nat → α) (ts : List (Term α)) (h : ∀ t ∈ ts, TermOK a b t)
    (x : Nat → α) :
    columnsAll ε (mapRow a b x) (ts.map (Term.affineKnots a b)) = columnsAll ε x ts := by
  induction ts with
  | nil => rfl
  | cons t ts ih =>
    funext j
    simp only [List.map_cons, columnsAll]
    rw [term_nCoefs_affineKnots, term_columns_affine ε a b t (h t (by simp)) x,
      ih (fun t' ht' => h t' (by simp [ht']))]

theorem nCoefsAll_affine (a b : Nat → α) (ts : List (Term α)) :
    nCoefsAll (ts.map (Term.affineKnots a b)) = nCoefsAll ts := by
  simp only [nCoefsAll, List.map_map]
  congr 1
  apply List.map_congr_left
  intro t _; exact term_nCoefs_affineKnots a b t

end columns

/-! ### penalties do not see the units -/
section penalty
variable {α : Type} [Field α]

theorem marg_penalty_affine (pp : Nat → Nat → Nat → α) (a b : Nat → α) (m : Marg α) :
    (m.affineKnots a b).penalty pp = m.penalty pp := by
  unfold Marg.affineKnots
  split <;> simp_all [Marg.penalty, Marg.nCoefs, Marg.resolvePen]

end penalty
end PyGam.Inv
