import PyGam.Model.TermAlgebra
/-!
# Lemmas about the structural term model (`PyGam.Model.TermAlgebra`), core Lean only

* `keepNew` : recursive specification of the de-duplicating fold, and its algebra (append, absorption)
* dictionary lemmas (`dget_dset`, `dset_same`)
-/
namespace PyGam.TA

section dedup
variable {τ κ : Type} [DecidableEq κ] (key : τ → κ)

/-- recursive specification of `foldl addUnique`: walk the list, keep an element iff its key has not been seen -/
def keepNew (seen : List κ) : List τ → List τ
  | [] => []
  | t :: r => if key t ∈ seen then keepNew seen r else t :: keepNew (seen ++ [key t]) r

theorem any_key_iff (acc : List τ) (t : τ) :
    (acc.any (fun u => decide (key u = key t))) = true ↔ key t ∈ acc.map key := by
  simp only [List.any_eq_true, decide_eq_true_eq, List.mem_map]

theorem foldl_addUnique (acc l : List τ) :
    l.foldl (addUnique key) acc = acc ++ keepNew key (acc.map key) l := by
  induction l generalizing acc with
  | nil => simp [keepNew]
  | cons t r ih =>
    simp only [List.foldl_cons, keepNew]
    by_cases h : key t ∈ acc.map key
    · have : addUnique key acc t = acc := by
        unfold addUnique; rw [if_pos ((any_key_iff key acc t).mpr h)]
      rw [this, ih, if_pos h]
    · have : addUnique key acc t = acc ++ [t] := by
        unfold addUnique
        rw [if_neg (fun hc => h ((any_key_iff key acc t).mp hc))]
      rw [this, ih, if_neg h]
      simp

theorem dedup_eq_keepNew (l : List τ) : dedup key l = keepNew key [] l := by
  unfold dedup; rw [foldl_addUnique]; simp

theorem keepNew_append (seen : List κ) (a b : List τ) :
    keepNew key seen (a ++ b)
      = keepNew key seen a ++ keepNew key (seen ++ (keepNew key seen a).map key) b := by
  induction a generalizing seen with
  | nil => simp [keepNew]
  | cons t r ih =>
    simp only [List.cons_append, keepNew]
    by_cases h : key t ∈ seen
    · simp only [if_pos h]; exact ih seen
    · simp only [if_neg h, List.cons_append, List.map_cons]
      rw [ih (seen ++ [key t])]
      simp [List.append_assoc]

/-- absorption: de-duplicating an already de-duplicated list against a larger `seen` set -/
theorem keepNew_keepNew (S S' : List κ) (h : ∀ k ∈ S', k ∈ S) (b : List τ) :
    keepNew key S (keepNew key S' b) = keepNew key S b := by
  induction b generalizing S S' with
  | nil => simp [keepNew]
  | cons t r ih =>
    by_cases h1 : key t ∈ S'
    · have h2 : key t ∈ S := h _ h1
      simp only [keepNew, if_pos h1, if_pos h2]
      exact ih S S' h
    · by_cases h2 : key t ∈ S
      · simp only [keepNew, if_neg h1, if_pos h2]
        exact ih S (S' ++ [key t]) (by
          intro k hk
          rcases List.mem_append.mp hk with hk | hk
          · exact h k hk
          · have : k = key t := by simpa using hk
            exact this ▸ h2)
      · simp only [keepNew, if_neg h1, if_neg h2]
        congr 1
        exact ih (S ++ [key t]) (S' ++ [key t]) (by
          intro k hk
          rcases List.mem_append.mp hk with hk | hk
          · exact List.mem_append.mpr (Or.inl (h k hk))
          · exact List.mem_append.mpr (Or.inr hk))

theorem keepNew_idem (S : List κ) (b : List τ) : keepNew key S (keepNew key S b) = keepNew key S b :=
  keepNew_keepNew key S S (fun _ h => h) b

theorem dedup_append_left (a b : List τ) : dedup key (dedup key a ++ b) = dedup key (a ++ b) := by
  simp only [dedup_eq_keepNew]
  rw [keepNew_append, keepNew_idem, keepNew_append]

theorem dedup_append_right (a b : List τ) : dedup key (a ++ dedup key b) = dedup key (a ++ b) := by
  simp only [dedup_eq_keepNew]
  rw [keepNew_append, keepNew_append, keepNew_keepNew key _ [] (by simp)]

theorem dedup_idem (a : List τ) : dedup key (dedup key a) = dedup key a := by
  simp only [dedup_eq_keepNew]; exact keepNew_idem key [] a

theorem keepNew_sublist (S : List κ) (l : List τ) : (keepNew key S l).Sublist l := by
  induction l generalizing S with
  | nil => simp [keepNew]
  | cons t r ih =>
    simp only [keepNew]
    split
    · exact (ih S).cons t
    · exact (ih _).cons_cons t

theorem keepNew_key_not_seen (S : List κ) (l : List τ) : ∀ u ∈ keepNew key S l, key u ∉ S := by
  induction l generalizing S with
  | nil => simp [keepNew]
  | cons t r ih =>
    intro u hu
    simp only [keepNew] at hu
    split at hu
    · exact ih S u hu
    · rename_i h
      rcases List.mem_cons.mp hu with rfl | hu
      · exact h
      · have := ih _ u hu
        exact fun hc => this (List.mem_append.mpr (Or.inl hc))

theorem keepNew_nodup (S : List κ) (l : List τ) : ((keepNew key S l).map key).Nodup := by
  induction l generalizing S with
  | nil => simp [keepNew]
  | cons t r ih =>
    simp only [keepNew]
    split
    · exact ih S
    · simp only [List.map_cons, List.nodup_cons]
      refine ⟨?_, ih _⟩
      intro hc
      obtain ⟨u, hu, hk⟩ := List.mem_map.mp hc
      have := keepNew_key_not_seen key _ r u hu
      exact this (List.mem_append.mpr (Or.inr (by simp [hk])))

theorem keepNew_complete (S : List κ) (l : List τ) :
    ∀ t ∈ l, key t ∈ S ∨ ∃ u ∈ keepNew key S l, key u = key t := by
  induction l generalizing S with
  | nil => simp
  | cons a r ih =>
    intro t ht
    simp only [keepNew]
    rcases List.mem_cons.mp ht with rfl | ht
    · split
      · left; assumption
      · right; exact ⟨t, List.mem_cons_self, rfl⟩
    · split
      · exact ih S t ht
      · rcases ih (S ++ [key a]) t ht with h | ⟨u, hu, hk⟩
        · rcases List.mem_append.mp h with h | h
          · left; exact h
          · right
            have h' : key t = key a := by simpa using h
            exact ⟨a, List.mem_cons_self, h'.symm⟩
        · right; exact ⟨u, List.mem_cons_of_mem _ hu, hk⟩

/-- the kept representative of a key is its first occurrence -/
theorem keepNew_find (S : List κ) (l : List τ) (k : κ) (hk : k ∉ S) :
    (keepNew key S l).find? (fun u => decide (key u = k)) = l.find? (fun u => decide (key u = k)) := by
  induction l generalizing S with
  | nil => simp [keepNew]
  | cons a r ih =>
    simp only [keepNew]
    by_cases ha : key a = k
    · subst ha
      rw [if_neg hk]
      simp
    · split
      · rw [List.find?_cons_of_neg (by simpa using ha)]
        exact ih S hk
      · rw [List.find?_cons_of_neg (by simpa using ha), List.find?_cons_of_neg (by simpa using ha)]
        exact ih _ (by
          intro hc
          rcases List.mem_append.mp hc with hc | hc
          · exact hk hc
          · have h' : k = key a := by simpa using hc
            exact ha h'.symm)

theorem keepNew_of_nodup (S : List κ) (l : List τ) (hn : (l.map key).Nodup) (hs : ∀ t ∈ l, key t ∉ S) :
    keepNew key S l = l := by
  induction l generalizing S with
  | nil => simp [keepNew]
  | cons a r ih =>
    simp only [keepNew]
    rw [if_neg (hs a List.mem_cons_self)]
    congr 1
    simp only [List.map_cons, List.nodup_cons] at hn
    apply ih _ hn.2
    intro t ht hc
    rcases List.mem_append.mp hc with hc | hc
    · exact hs t (List.mem_cons_of_mem _ ht) hc
    · have : key t = key a := by simpa using hc
      exact hn.1 (this ▸ List.mem_map_of_mem ht)

end dedup

theorem flattenArgs_append {τ : Type} (a b : List (τ ⊕ List τ)) :
    flattenArgs (a ++ b) = flattenArgs a ++ flattenArgs b := by
  induction a with
  | nil => simp [flattenArgs]
  | cons x r ih => cases x <;> simp [flattenArgs, ih]

/-! ## dictionaries -/

theorem lookup_cons_eq (k : String) (b : Val) (r : Dict) : List.lookup k ((k, b) :: r) = some b := by
  simp [List.lookup]
theorem lookup_cons_ne (k a : String) (b : Val) (r : Dict) (h : k ≠ a) : List.lookup k ((a, b) :: r) = List.lookup k r := by
  have : (k == a) = false := by simpa using h
  simp [List.lookup, this]

theorem dget_dset (d : Dict) (k : String) (v : Val) (k' : String) :
    dget (dset d k v) k' = if k' = k then some v else dget d k' := by
  induction d with
  | nil =>
    simp only [dset, dget]
    by_cases h : k' = k
    · subst h; simp
    · simp [lookup_cons_ne _ _ _ _ h, h]
  | cons p r ih =>
    obtain ⟨a, b⟩ := p
    simp only [dset]
    by_cases h1 : a = k
    · subst h1
      simp only [if_true, dget]
      by_cases h : k' = a
      · subst h; simp
      · simp [lookup_cons_ne _ _ _ _ h, h]
    · simp only [if_neg h1, dget]
      by_cases h : k' = a
      · subst h
        simp [h1]
      · rw [lookup_cons_ne _ _ _ _ h, lookup_cons_ne _ _ _ _ h]
        exact ih

theorem dget_dset_eq (d : Dict) (k : String) (v : Val) : dget (dset d k v) k = some v := by
  rw [dget_dset]; simp
theorem dget_dset_ne (d : Dict) (k : String) (v : Val) (k' : String) (h : k' ≠ k) :
    dget (dset d k v) k' = dget d k' := by
  rw [dget_dset]; simp [h]

theorem attr_dset_ne (d : Dict) (k : String) (v : Val) (k' : String) (h : k' ≠ k) :
    attr (dset d k v) k' = attr d k' := by
  simp [attr, dget_dset_ne _ _ _ _ h]
theorem attr_dset_eq (d : Dict) (k : String) (v : Val) : attr (dset d k v) k = .ok v := by
  simp [attr, dget_dset_eq]

theorem attr_ok (d : Dict) (k : String) (v : Val) : attr d k = .ok v ↔ dget d k = some v := by
  unfold attr; split <;> simp_all

theorem dset_dset (d : Dict) (k : String) (v w : Val) : dset (dset d k v) k w = dset d k w := by
  induction d with
  | nil => simp [dset]
  | cons p r ih =>
    obtain ⟨a, b⟩ := p
    by_cases h : a = k
    · subst h; simp [dset]
    · simp [dset, h, ih]

theorem dset_same (d : Dict) (k : String) (v : Val) (h : dget d k = some v) : dset d k v = d := by
  induction d with
  | nil => simp [dget] at h
  | cons p r ih =>
    obtain ⟨a, b⟩ := p
    simp only [dset]
    by_cases h1 : a = k
    · subst h1
      simp only [dget, lookup_cons_eq, Option.some.injEq] at h
      simp [h]
    · simp only [if_neg h1]
      simp only [dget, lookup_cons_ne _ _ _ _ (fun e => h1 e.symm)] at h
      rw [ih h]

theorem ddel_of_none (d : Dict) (k : String) (h : dget d k = none) : ddel d k = d := by
  induction d with
  | nil => rfl
  | cons x r ih =>
    obtain ⟨a, b⟩ := x
    by_cases ha : k = a
    · subst ha; simp [dget] at h
    · simp only [dget, lookup_cons_ne _ _ _ _ ha] at h
      have hne : a ≠ k := fun e => ha e.symm
      have ih' := ih h
      simp only [ddel] at ih' ⊢
      rw [List.filter_cons]
      simp only [ne_eq, hne, not_false_eq_true, decide_true, if_true]
      rw [ih']

theorem ddel_dset (d : Dict) (k : String) (v : Val) : ddel (dset d k v) k = ddel d k := by
  induction d with
  | nil => simp [dset, ddel]
  | cons x r ih =>
    obtain ⟨a, b⟩ := x
    by_cases ha : a = k
    · subst ha; simp [dset, ddel]
    · simp only [dset, if_neg ha]
      simp only [ddel] at ih ⊢
      rw [List.filter_cons, List.filter_cons]
      simp only [ne_eq, ha, not_false_eq_true, decide_true, if_true]
      rw [ih]

end PyGam.TA
