import PyGam.Model.BSpline
import PyGam.Proofs.Vec
import Mathlib.Algebra.Order.Field.Basic
import Mathlib.Algebra.Order.Floor.Ring
import Mathlib.Tactic.Ring
import Mathlib.Tactic.FieldSimp
import Mathlib.Tactic.Linarith
import Mathlib.Tactic.Positivity
/-!
Helper lemmas for C03 (and C05, C12, C16): Cox–de Boor recursion on a strictly increasing knot sequence.
-/
open Finset
namespace PyGam
variable {α : Type} [Field α] [LinearOrder α] [IsStrictOrderedRing α]

theorem bspl_zero (t : Nat → α) (i : Nat) (x : α) :
    bspl t 0 i x = if t i ≤ x ∧ x < t (i+1) then 1 else 0 := rfl

theorem bspl_succ (t : Nat → α) (p i : Nat) (x : α) :
    bspl t (p+1) i x = (x - t i) / (t (i+p+1) - t i) * bspl t p i x
      + (t (i+p+2) - x) / (t (i+p+2) - t (i+1)) * bspl t p (i+1) x := rfl

theorem bspl_support (t : Nat → α) (ht : StrictMono t) :
    ∀ p i x, bspl t p i x ≠ 0 → t i ≤ x ∧ x < t (i+p+1) := by
  intro p
  induction p with
  | zero => intro i x h; rw [bspl_zero] at h; split at h <;> simp_all
  | succ p ih =>
    intro i x h
    rw [bspl_succ] at h
    by_cases h1 : bspl t p i x = 0
    · by_cases h2 : bspl t p (i+1) x = 0
      · simp [h1, h2] at h
      · have := ih (i+1) x h2
        refine ⟨le_trans (ht.monotone (by omega)) this.1, ?_⟩
        have e : i + 1 + p + 1 = i + (p+1) + 1 := by omega
        rw [← e]; exact this.2
    · have := ih i x h1
      exact ⟨this.1, lt_trans this.2 (ht (by omega))⟩

theorem bspl_zero_of_lt (t : Nat → α) (ht : StrictMono t) (p i : Nat) (x : α) (h : x < t i) :
    bspl t p i x = 0 := by
  by_contra hne; exact absurd (bspl_support t ht p i x hne).1 (not_le.mpr h)

theorem bspl_zero_of_ge (t : Nat → α) (ht : StrictMono t) (p i : Nat) (x : α) (h : t (i+p+1) ≤ x) :
    bspl t p i x = 0 := by
  by_contra hne; exact absurd (bspl_support t ht p i x hne).2 (not_lt.mpr h)

theorem bspl_nonneg (t : Nat → α) (ht : StrictMono t) : ∀ p i x, 0 ≤ bspl t p i x := by
  intro p
  induction p with
  | zero => intro i x; rw [bspl_zero]; split <;> simp
  | succ p ih =>
    intro i x
    rw [bspl_succ]
    apply add_nonneg
    · by_cases h1 : bspl t p i x = 0
      · simp [h1]
      · have s := bspl_support t ht p i x h1
        apply mul_nonneg _ (ih i x)
        apply div_nonneg (by linarith [s.1])
        have : t i < t (i+p+1) := ht (by omega)
        linarith
    · by_cases h1 : bspl t p (i+1) x = 0
      · simp [h1]
      · have s := bspl_support t ht p (i+1) x h1
        apply mul_nonneg _ (ih (i+1) x)
        have e : i + 1 + p + 1 = i + p + 2 := by omega
        rw [e] at s
        apply div_nonneg (by linarith [s.2])
        have : t (i+1) < t (i+p+2) := ht (by omega)
        linarith

theorem haar_sum (t : Nat → α) (ht : StrictMono t) (N : Nat) (x : α) (h0 : t 0 ≤ x) (hN : x < t N) :
    ∑ i ∈ range N, bspl t 0 i x = 1 := by
  induction N with
  | zero => exact absurd (lt_of_le_of_lt h0 hN) (lt_irrefl _)
  | succ N ih =>
    rw [sum_range_succ]
    by_cases hx : x < t N
    · rw [ih hx, bspl_zero, if_neg]; · simp
      intro h; exact absurd h.1 (not_le.mpr hx)
    · have hx' : t N ≤ x := not_lt.mp hx
      have : ∑ i ∈ range N, bspl t 0 i x = 0 := by
        apply sum_eq_zero; intro i hi
        apply bspl_zero_of_ge t ht 0 i x
        exact le_trans (ht.monotone (by have := mem_range.mp hi; omega)) hx'
      rw [this, bspl_zero, if_pos ⟨hx', hN⟩]; simp

/-- partition of unity on `[t_p, t_N)` -/
theorem bspl_partition (t : Nat → α) (ht : StrictMono t) :
    ∀ p N x, t p ≤ x → x < t N → ∑ i ∈ range N, bspl t p i x = 1 := by
  intro p
  induction p with
  | zero => intro N x h0 hN; exact haar_sum t ht N x h0 hN
  | succ p ih =>
    intro N x h0 hN
    set a : Nat → α := fun i => (x - t i) / (t (i+p+1) - t i) with ha
    have hb : ∀ i, (t (i+p+2) - x) / (t (i+p+2) - t (i+1)) = 1 - a (i+1) := by
      intro i
      have : t (i+1) < t (i+p+2) := ht (by omega)
      have hne : t (i+p+2) - t (i+1) ≠ 0 := by linarith [sub_pos.mpr this] |> ne_of_gt
      simp only [ha]
      have e : i + 1 + p + 1 = i + p + 2 := by omega
      rw [e]; field_simp; ring
    have step : ∀ i, bspl t (p+1) i x
        = bspl t p (i+1) x + (a i * bspl t p i x - a (i+1) * bspl t p (i+1) x) := by
      intro i; rw [bspl_succ, hb i]; simp only [ha]; ring
    simp only [step]
    rw [sum_add_distrib, sum_range_sub']
    have hB0 : bspl t p 0 x = 0 := bspl_zero_of_ge t ht p 0 x (by simpa using h0)
    have hBN : bspl t p N x = 0 := bspl_zero_of_lt t ht p N x hN
    have hsum : ∑ i ∈ range N, bspl t p (i+1) x = 1 := by
      have := ih (N+1) x (le_trans (ht.monotone (by omega)) h0) (lt_trans hN (ht (by omega)))
      rw [sum_range_succ'] at this
      rw [hB0] at this; simpa using this
    rw [hsum, hB0, hBN]; simp

/-- a B-spline of order `≥ 1` vanishes at the left end of its support -/
theorem bspl_left_knot (t : Nat → α) (ht : StrictMono t) (p i : Nat) :
    bspl t (p+1) i (t i) = 0 := by
  rw [bspl_succ]
  have : bspl t p (i+1) (t i) = 0 := bspl_zero_of_lt t ht p (i+1) (t i) (ht (by omega))
  simp [this]

/-- partition of unity on the *closed* range `[t_p, t_N]` for order `≥ 1` -/
theorem bspl_partition_closed (t : Nat → α) (ht : StrictMono t) (p N : Nat) (x : α)
    (h0 : t (p+1) ≤ x) (hN : x ≤ t N) : ∑ i ∈ range N, bspl t (p+1) i x = 1 := by
  rcases lt_or_eq_of_le hN with h | h
  · exact bspl_partition t ht (p+1) N x h0 h
  · have := bspl_partition t ht (p+1) (N+1) x h0 (by rw [h]; exact ht (by omega))
    rw [sum_range_succ, h, bspl_left_knot t ht p N] at this
    rw [h]; simpa using this

/-- bandwidth: two non-zero functions at the same point are at most `p` apart -/
theorem bspl_band (t : Nat → α) (ht : StrictMono t) (p i j : Nat) (x : α)
    (hi : bspl t p i x ≠ 0) (hj : bspl t p j x ≠ 0) : j ≤ i + p := by
  have a := (bspl_support t ht p i x hi).2
  have b := (bspl_support t ht p j x hj).1
  by_contra h
  have : t (i+p+1) ≤ t j := ht.monotone (by omega)
  linarith

/-! ### recursion started from the indicator of one cell (the forced-symmetric boundary row) -/

/-- indicator row of cell `c` -/
def indRow (c : Nat) : Nat → α := fun j => if j = c then 1 else 0

theorem haar_eq_ind (t : Nat → α) (ht : StrictMono t) (c : Nat) (x : α)
    (h1 : t c ≤ x) (h2 : x < t (c+1)) : haar t x = indRow c := by
  funext j
  simp only [haar, indRow]
  by_cases hj : j = c
  · subst hj; simp [h1, h2]
  · rw [if_neg hj, if_neg]
    rintro ⟨a, b⟩
    rcases Nat.lt_or_gt_of_ne hj with h | h
    · have : t (j+1) ≤ t c := ht.monotone (by omega)
      linarith
    · have : t (c+1) ≤ t j := ht.monotone (by omega)
      linarith

theorem deBoorH_band (t : Nat → α) (c : Nat) (x : α) :
    ∀ q j, deBoorH t (indRow (α := α) c) q j x ≠ 0 → j ≤ c ∧ c ≤ j + q := by
  intro q
  induction q with
  | zero =>
    intro j h; simp only [deBoorH, indRow] at h
    by_cases hj : j = c
    · subst hj; simp
    · simp [hj] at h
  | succ q ih =>
    intro j h
    simp only [deBoorH] at h
    by_cases h1 : deBoorH t (indRow (α := α) c) q j x = 0
    · by_cases h2 : deBoorH t (indRow (α := α) c) q (j+1) x = 0
      · simp [h1, h2] at h
      · have := ih (j+1) h2; omega
    · have := ih j h1; omega

/-- the polynomial pieces of cell `c` sum to one identically in `x` -/
theorem deBoorH_sum (t : Nat → α) (ht : StrictMono t) (c : Nat) (x : α) :
    ∀ q N, q ≤ c → c < N → ∑ i ∈ range N, deBoorH t (indRow (α := α) c) q i x = 1 := by
  intro q
  induction q with
  | zero =>
    intro N _ hc
    simp only [deBoorH, indRow]
    rw [sum_eq_single c]
    · simp
    · intro j _ hj; simp [hj]
    · intro h; exact absurd (mem_range.mpr hc) h
  | succ q ih =>
    intro N hq hc
    set a : Nat → α := fun i => (x - t i) / (t (i+q+1) - t i) with ha
    have hb : ∀ i, (t (i+q+2) - x) / (t (i+q+2) - t (i+1)) = 1 - a (i+1) := by
      intro i
      have : t (i+1) < t (i+q+2) := ht (by omega)
      have hne : t (i+q+2) - t (i+1) ≠ 0 := by linarith [sub_pos.mpr this] |> ne_of_gt
      simp only [ha]
      have e : i + 1 + q + 1 = i + q + 2 := by omega
      rw [e]; field_simp; ring
    have step : ∀ i, deBoorH t (indRow (α := α) c) (q+1) i x
        = deBoorH t (indRow (α := α) c) q (i+1) x
          + (a i * deBoorH t (indRow (α := α) c) q i x
             - a (i+1) * deBoorH t (indRow (α := α) c) q (i+1) x) := by
      intro i; simp only [deBoorH]; rw [hb i]; simp only [ha]; ring
    simp only [step]
    rw [sum_add_distrib, sum_range_sub']
    have hB0 : deBoorH t (indRow (α := α) c) q 0 x = 0 := by
      by_contra hne; have := deBoorH_band t c x q 0 hne; omega
    have hBN : deBoorH t (indRow (α := α) c) q N x = 0 := by
      by_contra hne; have := deBoorH_band t c x q N hne; omega
    have hsum : ∑ i ∈ range N, deBoorH t (indRow (α := α) c) q (i+1) x = 1 := by
      have := ih (N+1) (by omega) (by omega)
      rw [sum_range_succ'] at this
      rw [hB0] at this; simpa using this
    rw [hsum, hB0, hBN]; simp

end PyGam
