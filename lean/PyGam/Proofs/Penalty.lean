import PyGam.Model.Penalty
import PyGam.Proofs.Vec
import Mathlib.Algebra.Group.ForwardDiff
/-!
Helper lemmas for C04 / C05: difference operators commute with taking `cᵀ D`.
-/
open Finset
namespace PyGam
variable {α : Type} [CommRing α]

theorem comb_diffLast (n : Nat) (c : Nat → α) (M : Nat → Nat → α) :
    comb n c (diffLast M) = diffVec (comb n c M) := by
  funext k; simp [comb, diffLast, diffVec, mul_sub, sum_sub_distrib]

theorem comb_iterDiffLast (n d : Nat) (c : Nat → α) (M : Nat → Nat → α) :
    comb n c (iterDiffLast d M) = iterDiffVec d (comb n c M) := by
  induction d with
  | zero => rfl
  | succ d ih => simp [iterDiffLast, iterDiffVec, comb_diffLast, ih]

theorem iterDiffVec_congr (d : Nat) (f g : Nat → α) (n : Nat) (h : ∀ k < n, f k = g k) :
    ∀ k, k + d < n → iterDiffVec d f k = iterDiffVec d g k := by
  induction d with
  | zero => intro k hk; exact h k (by omega)
  | succ d ih =>
    intro k hk
    simp only [iterDiffVec, diffVec]
    rw [ih (k+1) (by omega), ih k (by omega)]

/-- `(cᵀ D)_k = (Δ^d c)_k` for the `n × (n-d)` difference matrix -/
theorem comb_diffMat (n d : Nat) (c : Nat → α) (k : Nat) (hk : k < n - d) :
    comb n c (diffMat (α := α) d) k = iterDiffVec d c k := by
  rw [diffMat, comb_iterDiffLast]
  exact iterDiffVec_congr d _ _ n (fun k hk => comb_ident n c k hk) k (by omega)

theorem comb_cycDiffLast (n m : Nat) (c : Nat → α) (M : Nat → Nat → α) :
    comb n c (cycDiffLast m M) = cycDiffVec m (comb n c M) := by
  funext k; simp [comb, cycDiffLast, cycDiffVec, mul_sub, sum_sub_distrib]

theorem comb_iterCycDiffLast (n m d : Nat) (c : Nat → α) (M : Nat → Nat → α) :
    comb n c (iterCycDiffLast m d M) = iterCycDiffVec m d (comb n c M) := by
  induction d with
  | zero => rfl
  | succ d ih => simp [iterCycDiffLast, iterCycDiffVec, comb_cycDiffLast, ih]

theorem iterCycDiffVec_congr (n d : Nat) (f g : Nat → α) (h : ∀ k < n, f k = g k) :
    ∀ k, k < n → iterCycDiffVec n d f k = iterCycDiffVec n d g k := by
  induction d with
  | zero => intro k hk; exact h k hk
  | succ d ih =>
    intro k hk
    simp only [iterCycDiffVec, cycDiffVec]
    rw [ih ((k+1) % n) (Nat.mod_lt _ (by omega)), ih k hk]

theorem comb_cycDiffMat (n d : Nat) (c : Nat → α) (k : Nat) (hk : k < n) :
    comb n c (cycDiffMat (α := α) n d) k = iterCycDiffVec n d c k := by
  rw [cycDiffMat, comb_iterCycDiffLast]
  exact iterCycDiffVec_congr n d _ _ (fun k hk => comb_ident n c k hk) k hk

/-- masked difference matrix: `(cᵀ (D·mask))_k = (Δ^d c)_k · mask_k` -/
theorem comb_masked (n d : Nat) (c mask : Nat → α) (k : Nat) (hk : k < n - d) :
    comb n c (fun i k => diffMat (α := α) d i k * mask k) k = iterDiffVec d c k * mask k := by
  have : comb n c (fun i k => diffMat (α := α) d i k * mask k) k
       = comb n c (diffMat (α := α) d) k * mask k := by
    simp only [comb, sum_mul]; apply sum_congr rfl; intro i _; ring
  rw [this, comb_diffMat n d c k hk]

/-- bridge to Mathlib's forward difference operator -/
theorem iterDiffVec_eq_fwdDiff (d : Nat) (p : α → α) (k : Nat) :
    iterDiffVec d (fun k : Nat => p (k : α)) k = (fwdDiff (1:α))^[d] p (k : α) := by
  induction d generalizing k with
  | zero => rfl
  | succ d ih =>
    simp only [iterDiffVec, diffVec, Function.iterate_succ_apply']
    rw [ih, ih]; simp [fwdDiff]

theorem iterDiffVec_const (d : Nat) (hd : 0 < d) (a : α) (k : Nat) :
    iterDiffVec d (fun _ => a) k = 0 := by
  induction d generalizing k with
  | zero => omega
  | succ d ih =>
    simp only [iterDiffVec, diffVec]
    rcases Nat.eq_zero_or_pos d with h | h
    · subst h; simp [iterDiffVec]
    · rw [ih h, ih h]; simp

theorem iterCycDiffVec_const (n d : Nat) (hd : 0 < d) (a : α) (k : Nat) :
    iterCycDiffVec n d (fun _ => a) k = 0 := by
  induction d generalizing k with
  | zero => omega
  | succ d ih =>
    simp only [iterCycDiffVec, cycDiffVec]
    rcases Nat.eq_zero_or_pos d with h | h
    · subst h; simp [iterCycDiffVec]
    · rw [ih h, ih h]; simp

end PyGam
