import PyGam.Model.ExposureStats
import PyGam.Proofs.Exposure
import PyGam.Proofs.Search
import Mathlib.Tactic.Ring
import Mathlib.Tactic.NormNum
import Mathlib.Tactic.FieldSimp
/-!
Helper lemmas for the statistics part of C19: the literals `two`, `natTo n`, `gammaDefault` in a field, the closed forms
of `Stats.aic / aicc / ubre` for a known scale, what `fitRates / fitWeights` are for an idempotent cast, and the fact
that the candidate loop of `gridsearch` ends with a best model as soon as one candidate has a score below `inf`.
-/
set_option linter.unusedSectionVars false
namespace PyGam.Exposure
open PyGam

theorem two_eq' {α : Type} [Field α] : (two : α) = 2 := by unfold two; norm_num

section field
variable {α : Type} [Field α] [LinearOrder α] [IsStrictOrderedRing α]

theorem natTo_eq_cast' (n : Nat) : (natTo n : α) = (n : α) := by
  induction n with
  | zero => simp [natTo]
  | succ k ih => simp [natTo, ih]

theorem aic_known (ll edof : α) : Stats.aic ll edof false = -2 * ll + 2 * edof := by
  unfold Stats.aic; rw [two_eq']; simp

theorem aicc_eq (a edof : α) (n : Nat) :
    Stats.aicc a edof n = a + 2 * (edof + 1) * (edof + 2) / ((n : α) - edof - 2) := by
  unfold Stats.aicc; rw [two_eq', natTo_eq_cast']

theorem ubre_known (n : Nat) (D edof : α) :
    Stats.ubre Stats.gammaDefault true n D edof 1 = D / (n : α) + 2 * (14 / 10) * edof / (n : α) := by
  unfold Stats.ubre Stats.gammaDefault
  rw [two_eq']; simp only [natTo_eq_cast']
  push_cast
  ring

end field

section conv
variable {α : Type} [Field α]

/-- the rates do not depend on the sample weights -/
theorem fitRates_some (cast : α → α) (y e : Nat → α) (w : Option (Nat → α)) (i : Nat) :
    fitRates cast y (some e) w i = y i / cast (e i) := rfl

/-- for an idempotent cast the second float32 cast of `GAM.fit` changes nothing -/
theorem fitWeights_some_some (cast : α → α) (hc : ∀ x, cast (cast x) = cast x) (y e w : Nat → α) (i : Nat) :
    fitWeights cast y (some e) (some w) i = cast (cast (w i) * cast (e i)) := by
  simp [fitWeights, exposureToWeights, optVec, hc]

theorem fitWeights_some_none (cast : α → α) (hc : ∀ x, cast (cast x) = cast x) (y e : Nat → α) (i : Nat) :
    fitWeights cast y (some e) none i = cast (e i) := by
  simp [fitWeights, exposureToWeights, optVec, hc]

end conv

section search
open PyGam.Search
variable {α : Type} [LinearOrder α]

/-- a candidate that was fitted (`some s`) is recorded by the loop, under its own position -/
theorem mem_models_of_mem_outs (inf : α) (outs : List (Option α)) (s : α) (hs : some s ∈ outs) :
    ∃ i, (Ref.cand i, s) ∈ (loop inf none outs).models := by
  obtain ⟨i, hi, hget⟩ := List.getElem_of_mem hs
  refine ⟨i, ?_⟩
  unfold loop
  rw [loopFrom_models]
  simp only [initState, List.nil_append, List.mem_filterMap]
  refine ⟨(some s, i), ?_, by simp⟩
  rw [List.mem_zipIdx_iff_getElem?]
  simp [List.getElem?_eq_getElem hi, hget]

/-- `gridsearch` on a model that is not yet fitted: if at least one candidate is fitted with a score `< inf`, the loop
ends with a best model, its score is the minimum of all recorded scores, and it is one of the recorded models -/
theorem loop_best_of_finite (inf : α) (outs : List (Option α)) (s : α) (hs : some s ∈ outs) (hlt : s < inf) :
    ∃ r, (loop inf none outs).best = some r
      ∧ (r, (loop inf none outs).bestScore) ∈ (loop inf none outs).models
      ∧ ∀ x ∈ (loop inf none outs).models, (loop inf none outs).bestScore ≤ x.2 := by
  have inv : LoopInv inf (loop inf none outs) :=
    loopInv_loopFrom inf (initState inf none) 0 outs (loopInv_init inf none)
  obtain ⟨h1, h2⟩ := inv
  obtain ⟨i, hi⟩ := mem_models_of_mem_outs inf outs s hs
  cases hb : (loop inf none outs).best with
  | none =>
    rw [hb] at h2
    have := h1 _ hi
    simp only at this h2
    rw [h2] at this
    exact absurd hlt (not_lt.mpr this)
  | some r =>
    rw [hb] at h2
    obtain ⟨pre, post, hm, _⟩ := h2
    exact ⟨r, rfl, by rw [hm]; simp, h1⟩

end search
end PyGam.Exposure
