import PyGam.Model.Links
import Mathlib.Analysis.SpecialFunctions.Log.Deriv
import Mathlib.Analysis.SpecialFunctions.ExpDeriv
import Mathlib.Analysis.Real.Sqrt
import Mathlib.Tactic.FieldSimp
import Mathlib.Tactic.Ring
import Mathlib.Tactic.Linarith
import Mathlib.Tactic.Positivity
/-!
# Real-number semantics of the link model (`Model/Links.lean`)

* the `ExpLog ℝ` instance (`Real.exp`, `Real.log`, `Real.sqrt`) used by every calculus theorem
  (C01, C06, C07, C08, C09 import this file);
* the open domain `linkDomain` of means and the range `linkRange` of linear predictors of every link;
* unfolding lemmas and the per-link calculus facts used by `Props/C07.lean`.
-/
open Set
namespace PyGam

noncomputable instance instExpLogReal : ExpLog ℝ := ⟨Real.exp, Real.log, Real.sqrt⟩

@[simp] theorem expLog_exp_real (x : ℝ) : ExpLog.exp x = Real.exp x := rfl
@[simp] theorem expLog_log_real (x : ℝ) : ExpLog.log x = Real.log x := rfl
@[simp] theorem expLog_sqrt_real (x : ℝ) : ExpLog.sqrt x = Real.sqrt x := rfl

open LinkKind

/-- the open domain of means on which the link is a smooth strictly monotone bijection
(`levels` = number of binomial trials) -/
def linkDomain (k : LinkKind) (levels : ℝ) : Set ℝ :=
  match k with
  | identity => univ
  | LinkKind.log => Ioi 0
  | logit => Ioo 0 levels
  | inverse => Ioi 0
  | invSquared => Ioi 0

/-- the range of the link on `linkDomain` = the set of admissible linear predictors -/
def linkRange (k : LinkKind) (_levels : ℝ) : Set ℝ :=
  match k with
  | identity => univ
  | LinkKind.log => univ
  | logit => univ
  | inverse => Ioi 0
  | invSquared => Ioi 0

/-- the closed domain of targets accepted by `check_y` (where `link(y)` is not NaN; it may be ±inf) -/
def closedDomain {α : Type} [Zero α] [LE α] (k : LinkKind) (levels : α) : Set α :=
  match k with
  | identity => univ
  | LinkKind.log => {y | 0 ≤ y}
  | logit => {y | 0 ≤ y ∧ y ≤ levels}
  | inverse => univ
  | invSquared => univ

/-- increasing links -/
def LinkKind.increasing : LinkKind → Bool
  | identity => true | LinkKind.log => true | logit => true
  | inverse => false | invSquared => false

section unfold
variable (L x : ℝ)
theorem linkFn_identity : linkFn identity L x = x := rfl
theorem linkFn_log : linkFn LinkKind.log L x = Real.log x := rfl
theorem linkFn_logit : linkFn logit L x = Real.log x - Real.log (L - x) := rfl
theorem linkFn_inverse : linkFn inverse L x = 1 / x := rfl
theorem linkFn_invSquared : linkFn invSquared L x = 1 / (x * x) := rfl
theorem linkInv_identity : linkInv identity L x = x := rfl
theorem linkInv_log : linkInv LinkKind.log L x = Real.exp x := rfl
theorem linkInv_logit : linkInv logit L x = L * Real.exp x / (Real.exp x + 1) := rfl
theorem linkInv_inverse : linkInv inverse L x = 1 / x := rfl
theorem linkInv_invSquared : linkInv invSquared L x = 1 / Real.sqrt x := rfl
theorem linkGrad_identity : linkGrad identity L x = 1 := rfl
theorem linkGrad_log : linkGrad LinkKind.log L x = 1 / x := rfl
theorem linkGrad_logit : linkGrad logit L x = L / (x * (L - x)) := rfl
theorem linkGrad_inverse : linkGrad inverse L x = (-1) * (1 / (x * x)) := rfl
theorem linkGrad_invSquared : linkGrad invSquared L x = (-(1 + 1)) * (1 / (x * x * x)) := rfl
end unfold

/-! ### logit -/
theorem logit_mu_link (L m : ℝ) (h0 : 0 < m) (h1 : m < L) :
    linkInv logit L (linkFn logit L m) = m := by
  rw [linkFn_logit, linkInv_logit]
  have hn : 0 < L - m := by linarith
  rw [Real.exp_sub, Real.exp_log h0, Real.exp_log hn]; field_simp; ring

theorem logit_sub_mu (L lp : ℝ) :
    L - L * Real.exp lp / (Real.exp lp + 1) = L / (Real.exp lp + 1) := by
  have he : 0 < Real.exp lp := Real.exp_pos lp
  field_simp; ring

theorem logit_link_mu (L lp : ℝ) (hL : 0 < L) : linkFn logit L (linkInv logit L lp) = lp := by
  rw [linkInv_logit, linkFn_logit, logit_sub_mu]
  have he : 0 < Real.exp lp := Real.exp_pos lp
  rw [Real.log_div (by positivity) (by positivity), Real.log_div (by positivity) (by positivity),
      Real.log_mul (by positivity) (by positivity), Real.log_exp]; ring

theorem logit_mu_mem (L lp : ℝ) (hL : 0 < L) : linkInv logit L lp ∈ Ioo 0 L := by
  rw [linkInv_logit]
  have he : 0 < Real.exp lp := Real.exp_pos lp
  constructor
  · positivity
  · rw [div_lt_iff₀ (by positivity)]; nlinarith

theorem logit_hasDerivAt (L m : ℝ) (h0 : 0 < m) (h1 : m < L) :
    HasDerivAt (linkFn logit L) (linkGrad logit L m) m := by
  have hn : L - m ≠ 0 := by linarith
  have h2 : HasDerivAt (fun x : ℝ => L - x) (0 - 1) m :=
    (hasDerivAt_const m L).sub (hasDerivAt_id' m)
  have h3 : HasDerivAt (fun x : ℝ => Real.log x - Real.log (L - x)) (m⁻¹ - (0 - 1) / (L - m)) m :=
    (Real.hasDerivAt_log h0.ne').sub (h2.log hn)
  have h4 : HasDerivAt (linkFn logit L) (m⁻¹ - (0 - 1) / (L - m)) m := h3
  exact h4.congr_deriv (by rw [linkGrad_logit]; field_simp; ring)

theorem logit_strictMonoOn (L : ℝ) : StrictMonoOn (linkFn logit L) (Ioo 0 L) := by
  intro a ha b hb hab
  rw [linkFn_logit, linkFn_logit]
  have h1 : Real.log a < Real.log b := Real.log_lt_log ha.1 hab
  have h2 : Real.log (L - b) < Real.log (L - a) :=
    Real.log_lt_log (by linarith [hb.2]) (by linarith)
  linarith

/-! ### inverse squared -/
theorem invSquared_mu_link (L m : ℝ) (h0 : 0 < m) :
    linkInv invSquared L (linkFn invSquared L m) = m := by
  rw [linkFn_invSquared, linkInv_invSquared]
  have e : 1 / (m * m) = (1 / m) * (1 / m) := by field_simp
  rw [e, Real.sqrt_mul_self (by positivity)]; field_simp

theorem invSquared_link_mu (L lp : ℝ) (h0 : 0 < lp) :
    linkFn invSquared L (linkInv invSquared L lp) = lp := by
  rw [linkInv_invSquared, linkFn_invSquared]
  have hs : 0 < Real.sqrt lp := Real.sqrt_pos.mpr h0
  have e : 1 / Real.sqrt lp * (1 / Real.sqrt lp) = 1 / (Real.sqrt lp * Real.sqrt lp) := by
    field_simp
  rw [e, Real.mul_self_sqrt h0.le]; field_simp

theorem invSquared_hasDerivAt (L m : ℝ) (h0 : m ≠ 0) :
    HasDerivAt (linkFn invSquared L) (linkGrad invSquared L m) m := by
  have h2 : HasDerivAt (fun x : ℝ => x * x) (1 * m + m * 1) m :=
    (hasDerivAt_id' m).fun_mul (hasDerivAt_id' m)
  have h3 : HasDerivAt (fun x : ℝ => 1 / (x * x))
      ((0 * (m * m) - 1 * (1 * m + m * 1)) / (m * m) ^ 2) m :=
    (hasDerivAt_const m (1 : ℝ)).fun_div h2 (mul_ne_zero h0 h0)
  have h4 : HasDerivAt (linkFn invSquared L) _ m := h3
  exact h4.congr_deriv (by rw [linkGrad_invSquared]; field_simp; ring)

theorem invSquared_strictAntiOn (L : ℝ) : StrictAntiOn (linkFn invSquared L) (Ioi 0) := by
  intro a ha b hb hab
  rw [linkFn_invSquared, linkFn_invSquared]
  have ha' : 0 < a := ha
  exact one_div_lt_one_div_of_lt (by positivity) (by nlinarith)

/-! ### inverse -/
theorem inverse_hasDerivAt (L m : ℝ) (h0 : m ≠ 0) :
    HasDerivAt (linkFn inverse L) (linkGrad inverse L m) m := by
  have h3 : HasDerivAt (fun x : ℝ => 1 / x) ((0 * m - 1 * 1) / m ^ 2) m :=
    (hasDerivAt_const m (1 : ℝ)).fun_div (hasDerivAt_id' m) h0
  have h4 : HasDerivAt (linkFn inverse L) _ m := h3
  exact h4.congr_deriv (by rw [linkGrad_inverse]; field_simp; ring)

theorem inverse_strictAntiOn (L : ℝ) : StrictAntiOn (linkFn inverse L) (Ioi 0) := by
  intro a ha b _ hab
  rw [linkFn_inverse, linkFn_inverse]
  exact one_div_lt_one_div_of_lt ha hab

/-! ### log -/
theorem log_hasDerivAt (L m : ℝ) (h0 : m ≠ 0) :
    HasDerivAt (linkFn LinkKind.log L) (linkGrad LinkKind.log L m) m := by
  have h4 : HasDerivAt (linkFn LinkKind.log L) m⁻¹ m := Real.hasDerivAt_log h0
  exact h4.congr_deriv (by rw [linkGrad_log, one_div])

end PyGam
