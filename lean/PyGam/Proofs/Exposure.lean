import PyGam.Model.Exposure
import PyGam.Proofs.Vec
import Mathlib.Analysis.SpecialFunctions.Log.Basic
import Mathlib.Algebra.Order.Floor.Ring
import Mathlib.Data.Rat.Floor
import Mathlib.Tactic.FieldSimp
import Mathlib.Tactic.Linarith
/-!
Helper lemmas for C19 (Poisson exposure): the real logarithm as `LogOp ℝ`, `np.round` of an integer,
and the elementary field identities behind the exposure ↔ weights conversion.
-/
namespace PyGam.Exposure

noncomputable instance : LogOp ℝ := ⟨Real.log⟩

theorem logOp_real (x : ℝ) : LogOp.log x = Real.log x := rfl

/-- `np.round` leaves integers alone -/
theorem roundHalfEven_intCast (n : ℤ) : roundHalfEven (n : ℚ) = n := by
  unfold roundHalfEven
  have h : (n : ℚ).floor = n := Int.floor_intCast (R := ℚ) n
  simp only [h, sub_self]
  norm_num

section field
variable {α : Type} [Field α]

theorem rate_mul_weight (y e w : α) (he : e ≠ 0) : y / e * (w * e) = y * w := by
  field_simp

theorem rate_mul_exposure (y e : α) (he : e ≠ 0) : y / e * (1 * e) = y := by
  field_simp

end field

section ordered
variable {α : Type} [Field α] [LinearOrder α] [LogOp α]

theorem xlogy_of_ne (k m : α) (hk : k ≠ 0) : xlogy k m = k * LogOp.log m := by
  unfold xlogy; rw [if_pos (lt_or_gt_of_ne hk)]

theorem xlogy_zero (m : α) : xlogy (0 : α) m = 0 := by
  unfold xlogy; rw [if_neg]; simp

theorem ylogydu_of_ne (y u : α) (hy : y ≠ 0) : ylogydu y u = y * LogOp.log (y / u) := by
  unfold ylogydu; rw [if_pos (lt_or_gt_of_ne hy)]

theorem ylogydu_zero (u : α) : ylogydu (0 : α) u = 0 := by
  unfold ylogydu; rw [if_neg]; simp

/-- `e · ylogydu(y/e, r) = ylogydu(y, e r)` for `e ≠ 0` (any `log`) -/
theorem mul_ylogydu_rate (e y r : α) (he : e ≠ 0) :
    e * ylogydu (y / e) r = ylogydu y (e * r) := by
  by_cases hy : y = 0
  · subst hy; simp [ylogydu_zero]
  · have hye : y / e ≠ 0 := div_ne_zero hy he
    rw [ylogydu_of_ne _ _ hye, ylogydu_of_ne _ _ hy, div_div, ← mul_assoc, mul_div_cancel₀ y he]

end ordered
end PyGam.Exposure
