import PyGam.Proofs.SplineShape
/-!
Row-level monotonicity of the non-periodic basis `openRow` (inside the knot range and on the linear continuation).
-/
open Finset
namespace PyGam
variable {α : Type} [Field α] [LinearOrder α] [IsStrictOrderedRing α]

section
variable (N p : Nat) (ε : α)

/-- the fitted function of a spline term at rescaled position `y` -/
def splineVal (c : Nat → α) (y : α) : α := ∑ j ∈ range N, c j * openRow N p ε y j

theorem openRow_inner (y : α) (h0 : 0 ≤ y) (h1 : y ≤ 1) : openRow N p ε y = innerRow N p ε y := by
  unfold openRow
  rw [if_neg (by intro h; exact absurd h.1 (not_lt.mpr h0)), if_neg (by intro h; exact absurd h.1 (not_lt.mpr h1))]

/-- inside the knot range: non-decreasing coefficients give a non-decreasing function -/
theorem splineVal_mono_inside (hNp : p < N) (hε : 0 ≤ ε) (hε0 : p = 0 → 0 < ε) (c : Nat → α)
    (hc : ∀ j, j + 1 < N → c j ≤ c (j+1)) (y y' : α) (h0 : 0 ≤ y) (hyy : y ≤ y') (h1 : y' ≤ 1) :
    splineVal N p ε c y ≤ splineVal N p ε c y' := by
  have ht := augKnot_strictMono N p ε hNp hε
  simp only [splineVal, openRow_inner N p ε y h0 (le_trans hyy h1),
    openRow_inner N p ε y' (le_trans h0 hyy) h1, innerRow]
  apply spline_mono _ ht p N c hc y y' _ hyy
  · have := innerRow_sum N p ε hNp hε hε0 y h0 (le_trans hyy h1); simpa [innerRow] using this
  · have := innerRow_sum N p ε hNp hε hε0 y' (le_trans h0 hyy) h1; simpa [innerRow] using this
  · rw [augKnot_at_p N p ε (by omega)]; exact h0

/-- slope of the continuation: `Σ c_j grad_j = p Σ (c_{j+1} - c_j) a_{j+1} ≥ 0` when the boundary row of
order `p-1` is non-negative and vanishes at both ends -/
theorem slope_nonneg (hNp : p < N) (hε : 0 ≤ ε) (c : Nat → α) (hc : ∀ j, j + 1 < N → c j ≤ c (j+1))
    (prev : Nat → α) (hnn : ∀ j, 0 ≤ prev j) (h0 : prev 0 = 0) (hN : prev N = 0) :
    0 ≤ ∑ j ∈ range N, c j * gradOf N p ε prev j := by
  have ht := augKnot_strictMono N p ε hNp hε
  cases N with
  | zero => simp
  | succ M =>
    set a : Nat → α := fun j => prev j / (augKnot (M+1) p ε (j+p) - augKnot (M+1) p ε j) with ha
    have ha_nn : ∀ j, 0 ≤ a j := by
      intro j; simp only [ha]
      rcases Nat.eq_zero_or_pos p with hp | hp
      · subst hp; simp
      · apply div_nonneg (hnn j); have := ht (show j < j + p by omega); linarith
    have hgrad : ∀ j, gradOf (M+1) p ε prev j = (p:α) * ((0 - a (j+1)) - (0 - a j)) := by
      intro j; simp only [gradOf, ha]
      have e : j + p + 1 = j + 1 + p := by omega
      rw [e]; ring
    have e1 : ∑ j ∈ range (M+1), c j * gradOf (M+1) p ε prev j
        = (p:α) * ∑ j ∈ range (M+1), c j * ((0 - a (j+1)) - (0 - a j)) := by
      rw [mul_sum]; apply sum_congr rfl; intro j _; rw [hgrad]; ring
    rw [e1, sum_by_parts c (fun j => 0 - a j) (by simp [ha, h0]) M]
    have haN : a (M+1) = 0 := by simp [ha, hN]
    rw [haN]
    apply mul_nonneg (Nat.cast_nonneg p)
    have : 0 ≤ ∑ j ∈ range M, (c (j+1) - c j) * a (j+1) :=
      sum_nonneg (fun j hj => mul_nonneg (by have := hc j (by have := mem_range.mp hj; omega); linarith) (ha_nn (j+1)))
    have e2 : ∑ j ∈ range M, (c (j+1) - c j) * (0 - a (j+1)) = - ∑ j ∈ range M, (c (j+1) - c j) * a (j+1) := by
      rw [← sum_neg_distrib]; apply sum_congr rfl; intro j _; ring
    rw [e2]; linarith

theorem prev0_nonneg (hNp : p < N) (hε : 0 ≤ ε) (j : Nat) : 0 ≤ prev0 N p ε j :=
  bspl_nonneg _ (augKnot_strictMono N p ε hNp hε) (p-1) j 0

theorem prev1_nonneg (hNp : p < N) (hp : 0 < p) (hε : 0 ≤ ε) (j : Nat) : 0 ≤ prev1 N p ε j := by
  have ht := augKnot_strictMono N p ε hNp hε
  simp only [prev1, haarMirror_eq N p ε hNp hε]
  apply deBoorH_ind_nonneg _ ht (N-1) 1
  · have := ht.monotone (show N - 1 ≤ N by omega)
    rw [augKnot_at_N N p ε hNp hp] at this; exact this
  · have e : N - 1 + 1 = N := by omega
    rw [e, augKnot_at_N N p ε hNp hp]

/-- the boundary row at `x = 1` (mirror Haar) is the value of the basis at `1` (order ≥ 1) -/
theorem row1_eq_inner (hNp : p < N) (hp : 0 < p) (hε : 0 ≤ ε) : row1 N p ε = innerRow N p ε 1 := by
  have ht := augKnot_strictMono N p ε hNp hε
  funext j
  simp only [row1, innerRow, bspl, haarMirror_eq N p ε hNp hε]
  have hcell : haar (augKnot N p ε) (1:α) = indRow N := by
    apply haar_eq_ind _ ht N 1
    · rw [augKnot_at_N N p ε hNp hp]
    · have := ht (show N < N + 1 by omega)
      rw [augKnot_at_N N p ε hNp hp] at this; exact this
  rw [hcell]
  obtain ⟨q, rfl⟩ : ∃ q, p = q + 1 := ⟨p - 1, by omega⟩
  have h := deBoorH_knot_continuity (augKnot N (q+1) ε) ht (N-1) q j
  have e : N - 1 + 1 = N := by omega
  rw [e, augKnot_at_N N (q+1) ε hNp hp] at h
  exact h

/-- order ≥ 1: non-decreasing coefficients give a function that is non-decreasing on the whole real line
(inside the knot range and on both linear continuations) -/
theorem splineVal_mono (hNp : p < N) (hp : 0 < p) (hε : 0 ≤ ε) (c : Nat → α)
    (hc : ∀ j, j + 1 < N → c j ≤ c (j+1)) (y y' : α) (hyy : y ≤ y') :
    splineVal N p ε c y ≤ splineVal N p ε c y' := by
  have hε0 : p = 0 → 0 < ε := fun h => by omega
  set s0 := ∑ j ∈ range N, c j * gradOf N p ε (prev0 N p ε) j with hs0
  set s1 := ∑ j ∈ range N, c j * gradOf N p ε (prev1 N p ε) j with hs1
  have hs0nn : 0 ≤ s0 := slope_nonneg N p ε hNp hε c hc _ (prev0_nonneg N p ε hNp hε)
    (prev0_zero N p ε hNp hp hε) (prev0_N N p ε hNp hp hε)
  have hs1nn : 0 ≤ s1 := slope_nonneg N p ε hNp hε c hc _ (prev1_nonneg N p ε hNp hp hε)
    (prev1_zero N p ε hNp hp hε) (prev1_N N p ε hNp hε)
  -- closed forms on the three regions
  have hleft : ∀ z, z < 0 → splineVal N p ε c z = s0 * z + splineVal N p ε c 0 := by
    intro z hz
    have e0 : openRow N p ε (0:α) = row0 N p ε := by
      rw [openRow_inner N p ε 0 le_rfl zero_le_one]; rfl
    simp only [splineVal, e0, hs0]
    unfold openRow; rw [if_pos ⟨hz, hp⟩]
    rw [sum_mul, ← sum_add_distrib]; apply sum_congr rfl; intro j _; ring
  have hright : ∀ z, 1 < z → splineVal N p ε c z = s1 * (z - 1) + splineVal N p ε c 1 := by
    intro z hz
    have e1 : openRow N p ε (1:α) = row1 N p ε := by
      rw [openRow_inner N p ε 1 zero_le_one le_rfl, row1_eq_inner N p ε hNp hp hε]
    have hn : ¬ (z < 0 ∧ 0 < p) := fun h => by linarith [h.1]
    simp only [splineVal, e1, hs1]
    unfold openRow; rw [if_neg hn, if_pos ⟨hz, hp⟩]
    rw [sum_mul, ← sum_add_distrib]; apply sum_congr rfl; intro j _; ring
  have hin := splineVal_mono_inside N p ε hNp hε hε0 c hc
  -- case analysis on the positions of y ≤ y'
  rcases lt_or_ge y 0 with hy0 | hy0
  · rw [hleft y hy0]
    rcases lt_or_ge y' 0 with hy'0 | hy'0
    · rw [hleft y' hy'0]; nlinarith
    · rcases le_or_gt y' 1 with hy'1 | hy'1
      · have := hin 0 y' le_rfl hy'0 hy'1; nlinarith
      · rw [hright y' hy'1]
        have := hin 0 1 le_rfl zero_le_one le_rfl
        nlinarith
  · rcases le_or_gt y 1 with hy1 | hy1
    · rcases le_or_gt y' 1 with hy'1 | hy'1
      · exact hin y y' hy0 hyy hy'1
      · rw [hright y' hy'1]
        have := hin y 1 hy0 hy1 le_rfl
        nlinarith
    · have hy'1 : 1 < y' := lt_of_lt_of_le hy1 hyy
      rw [hright y hy1, hright y' hy'1]; nlinarith

end
end PyGam
