import PyGam.Props.C06
import PyGam.Props.C07
import Mathlib.Analysis.SpecialFunctions.Sqrt
import Mathlib.Analysis.Calculus.Deriv.Add
/-!
The score residual is (−½ ×) the gradient of the penalised deviance (C01): chain rule through the inverse link and
the unit deviance, summed over the observations, plus the quadratic penalty.  Over `ℝ`.
-/
open Finset Real
namespace PyGam.Stationary
open PyGam

/-- derivative of the inverse link: `∂μ/∂η = 1 / g'(μ)` -/
theorem linkInv_hasDerivAt (k : LinkKind) (L lp : ℝ) (hL : 0 < L) (hlp : lp ∈ linkRange k L) :
    HasDerivAt (linkInv k L) (1 / linkGrad k L (linkInv k L lp)) lp := by
  cases k
  · -- identity
    have h : HasDerivAt (fun x : ℝ => x) 1 lp := hasDerivAt_id' lp
    have e : (1:ℝ) / linkGrad LinkKind.identity L (linkInv LinkKind.identity L lp) = 1 := by simp [linkGrad]
    rw [e]; exact h
  · -- log
    have h := Real.hasDerivAt_exp lp
    simp only [linkInv, linkGrad, expLog_exp_real]
    exact h.congr_deriv (by have := Real.exp_pos lp; field_simp)
  · -- logit
    have he := Real.hasDerivAt_exp lp
    have hpos : 0 < Real.exp lp := Real.exp_pos lp
    have h1 : HasDerivAt (fun x => L * Real.exp x) (L * Real.exp lp) lp := he.const_mul L
    have h2 : HasDerivAt (fun x => Real.exp x + 1) (Real.exp lp) lp := he.add_const 1
    have h3 := h1.fun_div h2 (by positivity)
    simp only [linkInv, linkGrad, expLog_exp_real]
    refine h3.congr_deriv ?_
    have hne : L - L * Real.exp lp / (Real.exp lp + 1) = L / (Real.exp lp + 1) := by field_simp; ring
    rw [hne]; field_simp; ring
  · -- inverse
    have hlp' : (0:ℝ) < lp := hlp
    have h := (hasDerivAt_const lp (1:ℝ)).fun_div (hasDerivAt_id' lp) (ne_of_gt hlp')
    simp only [linkInv, linkGrad]
    exact h.congr_deriv (by field_simp; ring)
  · -- inverse squared
    have hlp' : (0:ℝ) < lp := hlp
    have hs := Real.hasDerivAt_sqrt (ne_of_gt hlp')
    have hsp : 0 < Real.sqrt lp := Real.sqrt_pos.mpr hlp'
    have h := (hasDerivAt_const lp (1:ℝ)).fun_div hs (ne_of_gt hsp)
    simp only [linkInv, linkGrad, expLog_sqrt_real]
    refine h.congr_deriv ?_
    have hsq : Real.sqrt lp * Real.sqrt lp = lp := Real.mul_self_sqrt (le_of_lt hlp')
    field_simp
    nlinarith [hsq, hsp]

/-- one observation along the line `η + t b`: `d/dt dev(y, g⁻¹(η + t b)) = −2 (y − μ)/(V(μ) g'(μ)) · b` -/
theorem obs_hasDerivAt (fam : Family) (k : LinkKind) (L y η b : ℝ) (hL : 0 < L) (hη : η ∈ linkRange k L)
    (hdom : validDom fam L y (linkInv k L η)) :
    HasDerivAt (fun t => unitDeviance fam L y (linkInv k L (η + t * b)))
      (-2 * (y - linkInv k L η) / varFn fam L (linkInv k L η) * (1 / linkGrad k L (linkInv k L η)) * b) 0 := by
  have hlin : HasDerivAt (fun t : ℝ => η + t * b) b 0 := by
    simpa using ((hasDerivAt_id' (0:ℝ)).mul_const b).const_add η
  have e0 : η + (0:ℝ) * b = η := by ring
  have hmu : HasDerivAt (linkInv k L) (1 / linkGrad k L (linkInv k L η)) (η + 0 * b) := by
    rw [e0]; exact linkInv_hasDerivAt k L η hL hη
  have hdev : HasDerivAt (fun m => unitDeviance fam L y m)
      (-2 * (y - linkInv k L η) / varFn fam L (linkInv k L η)) (linkInv k L (η + 0 * b)) := by
    rw [e0]; exact C06.dev_hasDerivAt fam L y _ hdom
  have h := hdev.comp (0:ℝ) (hmu.comp (0:ℝ) hlin)
  exact h.congr_deriv (by ring)

/-- the penalised deviance `Σ_r w_r dev(y_r, g⁻¹((Bβ)_r)) + βᵀAβ` (unscaled; the criterion PIRLS minimises) -/
noncomputable def penDev (fam : Family) (k : LinkKind) (L : ℝ) (n m : ℕ) (B A : ℕ → ℕ → ℝ) (y w β : ℕ → ℝ) : ℝ :=
  ∑ r ∈ range n, w r * unitDeviance fam L (y r) (linkInv k L (∑ i ∈ range m, B r i * β i))
    + ∑ i ∈ range m, ∑ l ∈ range m, β i * A i l * β l

/-- move along the `j`-th coordinate direction -/
def bump (β : ℕ → ℝ) (j : ℕ) (t : ℝ) : ℕ → ℝ := fun i => β i + t * (if i = j then 1 else 0)

theorem lp_bump (m : ℕ) (Brow β : ℕ → ℝ) (j : ℕ) (hj : j < m) (t : ℝ) :
    ∑ i ∈ range m, Brow i * bump β j t i = ∑ i ∈ range m, Brow i * β i + t * Brow j := by
  simp only [bump, mul_add, sum_add_distrib]
  congr 1
  have : ∀ i ∈ range m, Brow i * (t * (if i = j then 1 else 0)) = if i = j then t * Brow j else 0 := by
    intro i _; by_cases h : i = j
    · subst h; simp; ring
    · simp [h]
  rw [sum_congr rfl this, sum_ite_eq' (range m) j]
  simp [mem_range.mpr hj]

theorem quad_hasDerivAt (m : ℕ) (A : ℕ → ℕ → ℝ) (β : ℕ → ℝ) (j : ℕ) (hj : j < m)
    (hA : ∀ i l, A i l = A l i) :
    HasDerivAt (fun t => ∑ i ∈ range m, ∑ l ∈ range m, bump β j t i * A i l * bump β j t l)
      (2 * ∑ l ∈ range m, A j l * β l) 0 := by
  have hterm : ∀ i l, HasDerivAt (fun t : ℝ => bump β j t i * A i l * bump β j t l)
      ((if i = j then 1 else 0) * A i l * β l + β i * A i l * (if l = j then 1 else 0)) 0 := by
    intro i l
    have h1 : HasDerivAt (fun t : ℝ => bump β j t i) (if i = j then 1 else 0) 0 := by
      simpa [bump] using ((hasDerivAt_id' (0:ℝ)).mul_const (if i = j then (1:ℝ) else 0)).const_add (β i)
    have h2 : HasDerivAt (fun t : ℝ => bump β j t l) (if l = j then 1 else 0) 0 := by
      simpa [bump] using ((hasDerivAt_id' (0:ℝ)).mul_const (if l = j then (1:ℝ) else 0)).const_add (β l)
    have h := (h1.mul_const (A i l)).mul h2
    refine h.congr_deriv ?_
    simp [bump]
  have hsum := HasDerivAt.fun_sum (u := range m) (fun i _ => HasDerivAt.fun_sum (u := range m) (fun l _ => hterm i l))
  refine hsum.congr_deriv ?_
  -- Σ_i Σ_l (δ_ij A_il β_l + β_i A_il δ_lj) = Σ_l A_jl β_l + Σ_i β_i A_ij = 2 Σ_l A_jl β_l
  have e1 : ∑ i ∈ range m, ∑ l ∈ range m, ((if i = j then (1:ℝ) else 0) * A i l * β l) = ∑ l ∈ range m, A j l * β l := by
    have : ∀ i ∈ range m, ∑ l ∈ range m, ((if i = j then (1:ℝ) else 0) * A i l * β l)
        = if i = j then ∑ l ∈ range m, A j l * β l else 0 := by
      intro i _; by_cases h : i = j
      · subst h; simp
      · simp [h]
    rw [sum_congr rfl this, sum_ite_eq' (range m) j]; simp [mem_range.mpr hj]
  have e2 : ∑ i ∈ range m, ∑ l ∈ range m, (β i * A i l * (if l = j then (1:ℝ) else 0)) = ∑ i ∈ range m, A j i * β i := by
    apply sum_congr rfl; intro i _
    have : ∀ l ∈ range m, β i * A i l * (if l = j then (1:ℝ) else 0) = if l = j then β i * A i j else 0 := by
      intro l _; by_cases h : l = j
      · subst h; simp
      · simp [h]
    rw [sum_congr rfl this, sum_ite_eq' (range m) j]; simp [mem_range.mpr hj]; rw [hA i j]; ring
  simp only [sum_add_distrib]
  rw [e1, e2]; ring

/-- linear predictor and mean of row `r` -/
noncomputable def etaR (m : ℕ) (B : ℕ → ℕ → ℝ) (β : ℕ → ℝ) (r : ℕ) : ℝ := ∑ i ∈ range m, B r i * β i
noncomputable def muR (k : LinkKind) (L : ℝ) (m : ℕ) (B : ℕ → ℕ → ℝ) (β : ℕ → ℝ) (r : ℕ) : ℝ :=
  linkInv k L (etaR m B β r)

/-- `j`-th component of the score residual `Bᵀ[w (y − μ)/(V(μ) g'(μ))] − Aβ` -/
noncomputable def scoreJ (fam : Family) (k : LinkKind) (L : ℝ) (n m : ℕ) (B A : ℕ → ℕ → ℝ) (y w β : ℕ → ℝ)
    (j : ℕ) : ℝ :=
  (∑ r ∈ range n, B r j * (w r * (y r - muR k L m B β r)
      / (varFn fam L (muR k L m B β r) * linkGrad k L (muR k L m B β r))))
    - ∑ l ∈ range m, A j l * β l

/-- **the gradient of the penalised deviance**: along every coordinate `j`,
`∂/∂β_j [Σ w dev + βᵀAβ] = −2 ( Σ_r B_rj w_r (y_r − μ_r)/(V(μ_r) g'(μ_r)) − (Aβ)_j )`, i.e. `−2 ×` the score residual -/
theorem penDev_hasDerivAt (fam : Family) (k : LinkKind) (L : ℝ) (hL : 0 < L) (n m : ℕ) (B A : ℕ → ℕ → ℝ)
    (hA : ∀ i l, A i l = A l i) (y w β : ℕ → ℝ) (j : ℕ) (hj : j < m)
    (hdom : ∀ r, r < n → etaR m B β r ∈ linkRange k L ∧ validDom fam L (y r) (muR k L m B β r)) :
    HasDerivAt (fun t => penDev fam k L n m B A y w (bump β j t))
      (-2 * scoreJ fam k L n m B A y w β j) 0 := by
  unfold penDev
  have hobs : ∀ r ∈ range n, HasDerivAt
      (fun t => w r * unitDeviance fam L (y r) (linkInv k L (∑ i ∈ range m, B r i * bump β j t i)))
      (w r * (-2 * (y r - muR k L m B β r) / varFn fam L (muR k L m B β r)
          * (1 / linkGrad k L (muR k L m B β r)) * B r j)) 0 := by
    intro r hr
    obtain ⟨h1, h2⟩ := hdom r (mem_range.mp hr)
    have h := (obs_hasDerivAt fam k L (y r) (etaR m B β r) (B r j) hL h1 h2).const_mul (w r)
    have e : (fun t => w r * unitDeviance fam L (y r) (linkInv k L (∑ i ∈ range m, B r i * bump β j t i)))
        = (fun t => w r * unitDeviance fam L (y r) (linkInv k L (etaR m B β r + t * B r j))) := by
      funext t; rw [lp_bump m (B r) β j hj t]; rfl
    rw [e]; exact h
  have hsum := HasDerivAt.fun_sum (u := range n) hobs
  have hq := quad_hasDerivAt m A β j hj hA
  refine (hsum.add hq).congr_deriv ?_
  have hS : ∑ r ∈ range n, w r * (-2 * (y r - muR k L m B β r) / varFn fam L (muR k L m B β r)
          * (1 / linkGrad k L (muR k L m B β r)) * B r j)
      = -2 * ∑ r ∈ range n, B r j * (w r * (y r - muR k L m B β r)
                / (varFn fam L (muR k L m B β r) * linkGrad k L (muR k L m B β r))) := by
    rw [mul_sum]; apply sum_congr rfl; intro r _
    simp only [div_eq_mul_inv, mul_inv, one_mul]; ring
  rw [hS]; simp only [scoreJ]; ring

end PyGam.Stationary
