import PyGam.Model.Validate
import Mathlib.Algebra.Order.Ring.Rat
import Mathlib.Tactic.Linarith
import Mathlib.Tactic.SplitIfs
import Mathlib.Tactic.NormNum
/-!
# Helper lemmas for the validation model (`Model/Validate.lean`)

Array lemmas hold for arrays of any length (induction over lists); the entry-point lemmas reduce a
statement about `outcome` to the failure of one step that occurs in the table row.
-/
namespace PyGam.Validate

/-! ## finiteness of arrays -/

theorem allFinite_eq_true {a : List Val} : allFinite a = true ↔ ∀ v ∈ a, v.isFinite = true := by
  simp [allFinite, List.all_eq_true]

theorem allFinite_false_of_mem {a : List Val} {v : Val} (hv : v ∈ a) (hf : v.isFinite = false) :
    allFinite a = false := by
  cases h : allFinite a with
  | false => rfl
  | true => have := allFinite_eq_true.mp h v hv; simp [hf] at this

theorem allFinite2_eq_true {X : List (List Val)} :
    allFinite2 X = true ↔ ∀ row ∈ X, ∀ v ∈ row, v.isFinite = true := by
  simp [allFinite2, List.all_eq_true, allFinite_eq_true]

theorem allFinite2_false_of_mem {X : List (List Val)} {row : List Val} {v : Val}
    (hr : row ∈ X) (hv : v ∈ row) (hf : v.isFinite = false) : allFinite2 X = false := by
  cases h : allFinite2 X with
  | false => rfl
  | true => have := allFinite2_eq_true.mp h row hr v hv; simp [hf] at this

theorem checkArray1_eq_true {a : List Val} {k : Nat} :
    checkArray1 a k = true ↔ (∀ v ∈ a, v.isFinite = true) ∧ k ≤ a.length := by
  simp [checkArray1, allFinite_eq_true]

theorem checkArray1_false_of_mem {a : List Val} {v : Val} (k : Nat) (hv : v ∈ a)
    (hf : v.isFinite = false) : checkArray1 a k = false := by
  simp [checkArray1, allFinite_false_of_mem hv hf]

theorem checkArray2_false_of_mem {X : List (List Val)} {row : List Val} {v : Val} (nf : Option Nat) (k : Nat)
    (hr : row ∈ X) (hv : v ∈ row) (hf : v.isFinite = false) : checkArray2 X nf k = false := by
  simp [checkArray2, allFinite2_false_of_mem hr hv hf]

theorem checkArray2_false_of_width {X : List (List Val)} {n : Nat} (k : Nat) (hne : X ≠ [])
    (hw : width X ≠ n) : checkArray2 X (some n) k = false := by
  have : X.isEmpty = false := by cases X <;> simp_all
  simp [checkArray2, this, hw]

theorem checkArray2_false_of_short {X : List (List Val)} (nf : Option Nat) {k : Nat}
    (h : X.length < k) : checkArray2 X nf k = false := by
  have : ¬ k ≤ X.length := by omega
  simp [checkArray2, this]

/-! ## float32 cast -/

theorem castBound_nonfinite (b : Rat) {v : Val} (hf : v.isFinite = false) :
    (castBound b v).isFinite = false := by
  cases v <;> simp_all [castBound, Val.isFinite]

theorem castF32_nonfinite {v : Val} (hf : v.isFinite = false) : (castF32 v).isFinite = false :=
  castBound_nonfinite _ hf

theorem castVec_nonfinite {w : List Val} {v : Val} (hv : v ∈ w) (hf : v.isFinite = false) :
    checkArray1 (castVec w) = false :=
  checkArray1_false_of_mem 1 (List.mem_map.mpr ⟨v, hv, rfl⟩) (castF32_nonfinite hf)

theorem castVec_length (w : List Val) : (castVec w).length = w.length := by simp [castVec]

/-! ## division by the exposure keeps a non-finite target non-finite -/

theorem div_nonfinite_left {v : Val} (u : Val) (hf : v.isFinite = false) : (Val.div v u).isFinite = false := by
  cases v with
  | fin r => simp [Val.isFinite] at hf
  | nan => cases u <;> simp [Val.div, Val.isFinite]
  | posInf =>
      cases u with
      | fin b => simp only [Val.div]; split <;> rfl
      | _ => simp [Val.div, Val.isFinite]
  | negInf =>
      cases u with
      | fin b => simp only [Val.div]; split <;> rfl
      | _ => simp [Val.div, Val.isFinite]

theorem zipWith_div_nonfinite : ∀ (y e : List Val), y.length ≤ e.length →
    (∃ v ∈ y, v.isFinite = false) → ∃ v ∈ List.zipWith Val.div y e, v.isFinite = false
  | [], _, _, h => by simp at h
  | _ :: _, [], hl, _ => by simp at hl
  | v :: y, u :: e, hl, h => by
      obtain ⟨x, hx, hxf⟩ := h
      rcases List.mem_cons.mp hx with rfl | hx'
      · exact ⟨Val.div x u, by simp, div_nonfinite_left u hxf⟩
      · obtain ⟨z, hz, hzf⟩ := zipWith_div_nonfinite y e (by simpa using hl) ⟨x, hx', hxf⟩
        exact ⟨z, by simp [hz], hzf⟩

/-! ## link domain -/

theorem checkYDomain_false_of_mem {l : Link} {lv : Rat} {y : List Val} {v : Val} (hv : v ∈ y)
    (hn : linkIsNaN l lv v = true) : checkYDomain l lv y = false := by
  cases h : checkYDomain l lv y with
  | false => rfl
  | true =>
      have h' : ∀ x ∈ y, linkIsNaN l lv x = false := by simpa [checkYDomain] using h
      have := h' v hv
      simp [hn] at this

/-! ## categories and width of a fitted model -/

theorem catOk_false_of_mem {X : List (List Val)} {c : Cat} {row : List Val} {r : Rat} (hr : row ∈ X)
    (hc : cell row c.feature = .fin r) (hout : r < c.lo ∨ c.hi < r) : catOk X c = false := by
  cases h : catOk X c with
  | false => rfl
  | true =>
      have := (List.all_eq_true.mp (by simpa [catOk] using h)) row hr
      rw [hc] at this
      rcases hout with h1 | h1 <;> simp [valInRange, h1] at this

theorem checkXFitted_false_of_cat {f : Fit} {X : List (List Val)} {c : Cat} {row : List Val} {r : Rat}
    (hcat : c ∈ f.cats) (hr : row ∈ X) (hc : cell row c.feature = .fin r) (hout : r < c.lo ∨ c.hi < r) :
    checkXFitted f X = false := by
  have h1 : f.cats.all (catOk X) = false := by
    cases h : f.cats.all (catOk X) with
    | false => rfl
    | true =>
        have := List.all_eq_true.mp h c hcat
        simp [catOk_false_of_mem hr hc hout] at this
  simp [checkXFitted, h1]

theorem checkXFitted_false_of_width {f : Fit} {X : List (List Val)} (hne : X ≠ [])
    (hw : width X ≠ f.nFeats) : checkXFitted f X = false := by
  simp [checkXFitted, checkArray2_false_of_width 1 hne hw]

theorem checkXFitted_false_of_mem {f : Fit} {X : List (List Val)} {row : List Val} {v : Val}
    (hr : row ∈ X) (hv : v ∈ row) (hf : v.isFinite = false) : checkXFitted f X = false := by
  simp [checkXFitted, checkArray2_false_of_mem (some f.nFeats) 1 hr hv hf]

theorem checkXFittedTerm_false_of_mem {f : Fit} {t : Nat} {X : List (List Val)} {row : List Val} {v : Val}
    (hr : row ∈ X) (hv : v ∈ row) (hf : v.isFinite = false) : checkXFittedTerm f t X = false := by
  simp [checkXFittedTerm, checkArray2_false_of_mem (some f.nFeats) 1 hr hv hf]

theorem checkXFittedTerm_false_of_width {f : Fit} {t : Nat} {X : List (List Val)} (hne : X ≠ [])
    (hw : width X ≠ f.nFeats) : checkXFittedTerm f t X = false := by
  simp [checkXFittedTerm, checkArray2_false_of_width 1 hne hw]

theorem checkXFittedTerm_false_of_cat {f : Fit} {t : Nat} {X : List (List Val)} {c : Cat} {row : List Val} {r : Rat}
    (hcat : c ∈ f.termCats.getD t []) (hr : row ∈ X) (hc : cell row c.feature = .fin r)
    (hout : r < c.lo ∨ c.hi < r) : checkXFittedTerm f t X = false := by
  have h1 : (f.termCats.getD t []).all (catOk X) = false := by
    cases h : (f.termCats.getD t []).all (catOk X) with
    | false => rfl
    | true =>
        have := List.all_eq_true.mp h c hcat
        simp [catOk_false_of_mem hr hc hout] at this
  unfold checkXFittedTerm
  rw [h1, Bool.and_false]

theorem checkXFresh_false_of_mem {X : List (List Val)} {row : List Val} {v : Val}
    (hr : row ∈ X) (hv : v ∈ row) (hf : v.isFinite = false) : checkXFresh X = false := by
  simp [checkXFresh, checkArray2_false_of_mem none 1 hr hv hf]

theorem foldl_max_le {n : Nat} : ∀ (fs : List Nat) (acc : Nat), acc ≤ n → (∀ j ∈ fs, j ≤ n) → fs.foldl max acc ≤ n
  | [], acc, h, _ => by simpa using h
  | j :: fs, acc, h, hj => by
      simp only [List.foldl_cons]
      exact foldl_max_le fs (max acc j) (Nat.max_le.mpr ⟨h, hj j (by simp)⟩) (fun k hk => hj k (by simp [hk]))

/-- when every term feature is a column of the training data, `check_X` asks for exactly `m_features` columns -/
theorem Fit.nFeats_eq {f : Fit} (h : ∀ j ∈ f.features, j < f.mFeatures) : f.nFeats = f.mFeatures := by
  unfold Fit.nFeats
  split
  · rfl
  · rename_i fs hne
    have : f.features.foldl max 0 ≤ f.mFeatures :=
      foldl_max_le f.features 0 (Nat.zero_le _) (fun j hj => Nat.le_of_lt (h j hj))
    exact Nat.max_eq_left this

/-! ## running a table row -/

/-- if the only steps that can raise something else than `ValueError` pass, and some step of the row fails,
the call ends in `ValueError` -/
theorem runSteps_valueError {m : Model} {a : Args} : ∀ (l : List Step),
    (∀ s ∈ l, s.exc ≠ .valueError → s.passes m a = true) →
    (∃ s ∈ l, s.passes m a = false) → runSteps m a l = .valueError
  | [], _, h => by simp at h
  | s :: l, hattr, h => by
      simp only [runSteps]
      by_cases hp : s.passes m a = true
      · rw [if_pos hp]
        obtain ⟨t, ht, htf⟩ := h
        rcases List.mem_cons.mp ht with rfl | ht'
        · rw [hp] at htf; cases htf
        · exact runSteps_valueError l (fun u hu => hattr u (by simp [hu])) ⟨t, ht', htf⟩
      · rw [if_neg hp]
        by_cases he : s.exc = .valueError
        · exact he
        · exact absurd (hattr s (by simp) he) hp

theorem runSteps_ne_other {m : Model} {a : Args} : ∀ (l : List Step), runSteps m a l ≠ .other
  | [] => by simp [runSteps]
  | s :: l => by
      simp only [runSteps]
      split
      · exact runSteps_ne_other l
      · cases s <;> simp [Step.exc]

theorem runSteps_ok_iff {m : Model} {a : Args} : ∀ (l : List Step),
    runSteps m a l = .ok ↔ ∀ s ∈ l, s.passes m a = true
  | [] => by simp [runSteps]
  | s :: l => by
      simp only [runSteps, List.mem_cons, forall_eq_or_imp]
      by_cases hp : s.passes m a = true
      · simp [hp, runSteps_ok_iff l]
      · simp [hp]; cases s <;> simp [Step.exc]

/-- on a fitted model whose parameters have been validated, the two guards pass -/
theorem guards_pass {m : Model} {a : Args} (hf : m.isFitted = true) (hv : m.validated = true) :
    ∀ s : Step, s.exc ≠ .valueError → s.passes m a = true := by
  intro s hs
  cases s <;> simp_all [Step.exc, Step.passes]

/-- a failing step that occurs in the row of a fitted, validated model gives `ValueError` -/
theorem outcome_valueError_of_step {e : Entry} {m : Model} {a : Args} (hf : m.isFitted = true)
    (hv : m.validated = true) (s : Step) (hmem : s ∈ table e true a.converged)
    (hfail : s.passes m a = false) : outcome e m a = .valueError := by
  unfold outcome
  rw [hf]
  exact runSteps_valueError _ (fun t _ ht => guards_pass hf hv t ht) ⟨s, hmem, hfail⟩

/-! ## facts about the table (finite case splits) -/

/-- rows of entry points that do not need a fit contain no guard: every failure there is a `ValueError` -/
theorem noGuard_of_not_needsFit : ∀ (e : Entry) (b c : Bool), e.needsFit = false →
    ∀ t ∈ table e b c, t.exc = .valueError := by
  intro e b c h
  cases e <;> simp [Entry.needsFit] at h <;> cases b <;> cases c <;> decide

theorem guards_ok {e : Entry} {m : Model} {a : Args} (hr : Ready e m) :
    ∀ t ∈ table e m.isFitted a.converged, t.exc ≠ .valueError → t.passes m a = true := by
  intro t ht hne
  cases hn : e.needsFit with
  | true => obtain ⟨hf, hv⟩ := hr hn; exact guards_pass hf hv t hne
  | false => exact absurd (noGuard_of_not_needsFit e _ _ hn t ht) hne

/-- a failing step of the row gives `ValueError` whenever the model can serve the entry point -/
theorem entry_rejects_of_step {e : Entry} {m : Model} {a : Args} (hr : Ready e m) (s : Step)
    (hs : s ∈ table e m.isFitted a.converged) (hfail : s.passes m a = false) :
    outcome e m a = .valueError :=
  runSteps_valueError _ (guards_ok hr) ⟨s, hs, hfail⟩

theorem mem_xStep : ∀ (e : Entry) (b c : Bool),
    Step.xFresh ∈ table e b c ∨ Step.xFitted ∈ table e b c ∨ Step.xFittedTerm ∈ table e b c
      ∨ Step.xFittedWidth ∈ table e b c := by
  intro e b c; cases e <;> cases b <;> cases c <;> decide

theorem mem_yFinite : ∀ (e : Entry) (b c : Bool), DataArg.y ∈ e.args →
    Step.yFinite false ∈ table e b c ∨
      (Step.yFinite true ∈ table e b c ∧ Step.lenEq .y .exposure ∈ table e b c) := by
  intro e b c; cases e <;> cases b <;> cases c <;> decide

theorem mem_weights : ∀ (e : Entry) (b c : Bool), DataArg.weights ∈ e.args →
    Step.vecFinite .weights ∈ table e b c ∧ Step.lenEq .y .weights ∈ table e b c := by
  intro e b c; cases e <;> cases b <;> cases c <;> decide

theorem mem_exposure : ∀ (e : Entry) (b c : Bool), DataArg.exposure ∈ e.args →
    Step.vecFinite .exposure ∈ table e b c ∧
      ((e ≠ .poissonPredict ∧ Step.lenEq .y .exposure ∈ table e b c) ∨
        (e = .poissonPredict ∧ Step.lenEq .X .exposure ∈ table e b c)) := by
  intro e b c; cases e <;> cases b <;> cases c <;> decide

theorem mem_lenXY : ∀ (e : Entry) (b c : Bool), DataArg.y ∈ e.args → Step.lenXY ∈ table e b c := by
  intro e b c; cases e <;> cases b <;> cases c <;> decide

theorem mem_xFitted : ∀ (e : Entry) (b c : Bool), (e.needsFit = true ∨ (e = .fitQuantile ∧ b = true)) →
    Step.xFitted ∈ table e b c ∨ (e = .partialDependence ∧ Step.xFittedTerm ∈ table e b c) := by
  intro e b c; cases e <;> cases b <;> cases c <;> decide

theorem mem_xFittedWidth : ∀ (e : Entry) (c : Bool), (e = .gridsearch ∨ e = .poissonGridsearch) →
    Step.xFittedWidth ∈ table e true c := by
  intro e c; cases e <;> cases c <;> decide

theorem mem_compile : ∀ (e : Entry) (b c : Bool),
    (e = .fit ∨ e = .poissonFit ∨ ((e = .gridsearch ∨ e = .poissonGridsearch) ∧ b = false)
      ∨ (e = .fitQuantile ∧ (b = false ∨ c = false))) →
    Step.compile ∈ table e b c := by
  intro e b c; cases e <;> cases b <;> cases c <;> decide

theorem mem_yDomain : ∀ (e : Entry) (b c : Bool), DataArg.y ∈ e.args →
    Step.yDomain false ∈ table e b c ∨
      ((e = .poissonFit ∨ e = .poissonGridsearch) ∧ Step.yDomain true ∈ table e b c) := by
  intro e b c; cases e <;> cases b <;> cases c <;> decide

theorem mem_sampleAtX : ∀ (b c : Bool), Step.sampleAtXFitted ∈ table .sample b c := by
  intro b c; cases b <;> cases c <;> decide

/-! ## the shifted boundary targets of `_initial_estimate` -/

theorem adjust_eq (lv y : Rat) (hlv : 1 ≤ lv) :
    initialAdjust lv y =
      if y = 0 then 1 / 100 else if y = 1 then 99 / 100 else if lv ≠ 1 ∧ y = lv then lv - 1 / 100 else y := by
  unfold initialAdjust
  by_cases h0 : y = 0
  · subst h0
    have h1 : ¬ ((0 : Rat) + 1 / 100 = 1) := by norm_num
    have h2 : ¬ (lv ≠ 1 ∧ (0 : Rat) + 1 / 100 = lv) := by
      rintro ⟨_, h⟩; rw [← h] at hlv; norm_num at hlv
    simp only [if_true, h1, if_false, h2]; norm_num
  · by_cases h1 : y = 1
    · subst h1
      have h2 : ¬ (lv ≠ 1 ∧ (1 : Rat) - 1 / 100 = lv) := by
        rintro ⟨_, h⟩; rw [← h] at hlv; norm_num at hlv
      simp only [h0, if_false, if_true, h2]; norm_num
    · simp only [h0, h1, if_false]
      split_ifs with h2
      · rw [h2.2]
      · rfl

/-- the guard comes first for every entry point that needs a fit, except `loglikelihood` (which looks at `y` first) -/
theorem head_fitted : ∀ (e : Entry) (b c : Bool), e.needsFit = true → e ≠ .loglikelihood → e ≠ .poissonLoglikelihood →
    (table e b c).head? = some .fitted := by
  intro e b c; cases e <;> cases b <;> cases c <;> decide

end PyGam.Validate
