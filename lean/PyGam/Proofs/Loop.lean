import PyGam.Model.Loop
/-!
# Lemmas about `PyGam.Model.Loop` (core Lean only: induction over the fuel, `List` lemmas, `omega`)
-/
namespace PyGam.Loop

variable {C D V : Type}

/-! ## `stopCount` -/
section stop
variable [LT D] [DecidableLT D] (tol : D) (ds : Nat → D)

theorem stopCount_le : ∀ fuel k, stopCount tol ds fuel k ≤ fuel
  | 0, _ => by simp [stopCount]
  | fuel + 1, k => by
      have := stopCount_le fuel (k + 1)
      unfold stopCount; split <;> omega

theorem stopCount_pos : ∀ fuel k, 0 < fuel → 1 ≤ stopCount tol ds fuel k
  | 0, _, h => by omega
  | fuel + 1, k, _ => by unfold stopCount; split <;> omega

/-- no pass before the last one had a diff below `tol` -/
theorem stopCount_not_below :
    ∀ fuel k i, i + 1 < stopCount tol ds fuel k → ¬ ds (k + i) < tol
  | 0, _, _, h => by simp [stopCount] at h
  | fuel + 1, k, i, h => by
      unfold stopCount at h
      split at h
      · omega
      · rename_i hk
        cases i with
        | zero => simpa using hk
        | succ i =>
            have := stopCount_not_below fuel (k + 1) i (by omega)
            have e : k + (i + 1) = k + 1 + i := by omega
            rw [e]; exact this

/-- the loop only ends before the fuel is used up on a diff below `tol` -/
theorem stopCount_lt_fuel :
    ∀ fuel k, stopCount tol ds fuel k < fuel → ds (k + stopCount tol ds fuel k - 1) < tol
  | 0, _, h => by omega
  | fuel + 1, k, h => by
      unfold stopCount at h ⊢
      split
      · rename_i hk; simpa using hk
      · rename_i hk
        rw [if_neg hk] at h
        have h1 := stopCount_pos tol ds fuel (k + 1) (by have := stopCount_le tol ds fuel (k+1); omega)
        have := stopCount_lt_fuel fuel (k + 1) (by omega)
        have e : k + (1 + stopCount tol ds fuel (k + 1)) - 1
            = k + 1 + stopCount tol ds fuel (k + 1) - 1 := by omega
        rw [e]; exact this

/-- the last recorded diff is below `tol` iff some diff within the fuel is -/
theorem stopCount_last_below_iff :
    ∀ fuel k, 0 < fuel →
      (ds (k + stopCount tol ds fuel k - 1) < tol ↔ ∃ i, i < fuel ∧ ds (k + i) < tol)
  | 0, _, h => by omega
  | fuel + 1, k, _ => by
      unfold stopCount
      split
      · rename_i hk
        constructor
        · intro _; exact ⟨0, by omega, by simpa using hk⟩
        · intro _; simpa using hk
      · rename_i hk
        have e : k + (1 + stopCount tol ds fuel (k + 1)) - 1
            = k + 1 + stopCount tol ds fuel (k + 1) - 1 + 0 := by
          have := stopCount_le tol ds fuel (k + 1); omega
        cases fuel with
        | zero =>
            simp only [stopCount]
            constructor
            · intro h; exact absurd (by simpa using h) hk
            · rintro ⟨i, hi, h⟩
              have : i = 0 := by omega
              subst this; exact absurd (by simpa using h) hk
        | succ fuel =>
            have ih := stopCount_last_below_iff (fuel + 1) (k + 1) (by omega)
            rw [e, Nat.add_zero, ih]
            constructor
            · rintro ⟨i, hi, h⟩
              refine ⟨i + 1, by omega, ?_⟩
              have e2 : k + (i + 1) = k + 1 + i := by omega
              rw [e2]; exact h
            · rintro ⟨i, hi, h⟩
              cases i with
              | zero => exact absurd (by simpa using h) hk
              | succ i =>
                  refine ⟨i, by omega, ?_⟩
                  have e2 : k + 1 + i = k + (i + 1) := by omega
                  rw [e2]; exact h

/-- the number of passes is the index of the first diff below `tol`, plus one -/
theorem stopCount_eq_of_first (fuel k i : Nat) (hi : i < fuel) (hb : ds (k + i) < tol)
    (hn : ∀ i', i' < i → ¬ ds (k + i') < tol) : stopCount tol ds fuel k = i + 1 := by
  induction fuel generalizing k i with
  | zero => omega
  | succ fuel ih =>
      unfold stopCount
      cases i with
      | zero => simp at hb; simp [hb]
      | succ i =>
          have h0 : ¬ ds k < tol := by simpa using hn 0 (by omega)
          rw [if_neg h0]
          have := ih (k + 1) i (by omega)
            (by have e : k + 1 + i = k + (i + 1) := by omega
                rw [e]; exact hb)
            (fun i' hi' => by
                have e : k + 1 + i' = k + (i' + 1) := by omega
                rw [e]; exact hn (i' + 1) (by omega))
          omega

/-- without a diff below `tol` the fuel is used up -/
theorem stopCount_eq_fuel (fuel k : Nat) (hn : ∀ i, i < fuel → ¬ ds (k + i) < tol) :
    stopCount tol ds fuel k = fuel := by
  induction fuel generalizing k with
  | zero => rfl
  | succ fuel ih =>
      unfold stopCount
      have h0 : ¬ ds k < tol := by simpa using hn 0 (by omega)
      rw [if_neg h0]
      have := ih (k + 1) (fun i hi => by
        have e : k + 1 + i = k + (i + 1) := by omega
        rw [e]; exact hn (i + 1) (by omega))
      omega

end stop

/-! ## trajectory -/

theorem traj_succ (step : C → C) (init : C) (k : Nat) :
    traj step init (k + 1) = step (traj step init k) := rfl

/-! ## the loop in closed form -/
section loop
variable [LT D] [DecidableLT D] (step : C → C) (diff : C → C → D) (tol : D)
  (cbs : List (Callback C D V)) (init : C)

/-- closed form of the state after `loop fuel s` when `s` lies on the trajectory of `init` -/
theorem loop_spec : ∀ (fuel : Nat) (s : St C D V), s.coef = traj step init s.iters →
    loop step diff tol cbs fuel s =
      { coef := traj step init (s.iters + stopCount tol (dseq step diff init) fuel s.iters)
        iters := s.iters + stopCount tol (dseq step diff init) fuel s.iters
        last := if stopCount tol (dseq step diff init) fuel s.iters = 0 then s.last
                else some (dseq step diff init
                  (s.iters + stopCount tol (dseq step diff init) fuel s.iters - 1))
        diffs := s.diffs ++ (List.range' s.iters
                  (stopCount tol (dseq step diff init) fuel s.iters)).map (dseq step diff init)
        events := s.events ++ (List.range' s.iters
                  (stopCount tol (dseq step diff init) fuel s.iters)).flatMap
                    (iterEvents step diff cbs init) }
  | 0, s, h => by
      obtain ⟨c, k, l, ds, ev⟩ := s
      simp only at h
      simp [loop, stopCount, h]
  | fuel + 1, s, h => by
      obtain ⟨c, k, l, dl, ev⟩ := s
      simp only at h
      subst h
      have hd : diff (traj step init k) (step (traj step init k)) = dseq step diff init k := rfl
      unfold loop stopCount
      simp only [iterate, below, hd]
      by_cases hb : dseq step diff init k < tol
      · have hb' : diff (traj step init k) (step (traj step init k)) < tol := hb
        simp [hb', iterEvents, traj_succ, dseq]
      · simp only [hb, decide_false, Bool.false_eq_true, if_false]
        rw [loop_spec fuel _ (by simp [traj_succ])]
        simp only
        have e1 : k + 1 + stopCount tol (dseq step diff init) fuel (k + 1)
            = k + (1 + stopCount tol (dseq step diff init) fuel (k + 1)) := by omega
        have e2 : (1 + stopCount tol (dseq step diff init) fuel (k + 1))
            = stopCount tol (dseq step diff init) fuel (k + 1) + 1 := by omega
        congr 1
        · rw [e1]
        · by_cases hz : stopCount tol (dseq step diff init) fuel (k + 1) = 0
          · simp [hz]
          · have : ¬ (1 + stopCount tol (dseq step diff init) fuel (k + 1) = 0) := by omega
            simp only [hz, this, if_false]
            congr 2; omega
        · rw [e2, List.range'_succ]
          simp [List.append_assoc]
        · rw [e2, List.range'_succ]
          simp [List.append_assoc, iterEvents, traj_succ, dseq]

/-- closed form of `_pirls` for `max_iter ≥ 1` -/
theorem pirls_eq (maxIter : Nat) (h : 1 ≤ maxIter) (old : List (String × V)) :
    pirls step diff tol cbs maxIter init old =
      some { iters := stopCount tol (dseq step diff init) maxIter 0
             coef := traj step init (stopCount tol (dseq step diff init) maxIter 0)
             diffs := (List.range (stopCount tol (dseq step diff init) maxIter 0)).map
                        (dseq step diff init)
             events := old ++ (List.range (stopCount tol (dseq step diff init) maxIter 0)).flatMap
                        (iterEvents step diff cbs init)
             stats := true
             printed := !decide (dseq step diff init
                          (stopCount tol (dseq step diff init) maxIter 0 - 1) < tol) } := by
  have hp := stopCount_pos tol (dseq step diff init) maxIter 0 (by omega)
  unfold pirls
  rw [loop_spec step diff tol cbs init maxIter _ rfl]
  have hz : ¬ stopCount tol (dseq step diff init) maxIter 0 = 0 := by omega
  simp [hz, List.range_eq_range']

end loop

/-! ## filtering the event list by key -/
section logs

theorem filter_startEvents (n : String) (cbs : List (Callback C D V)) (k : Nat) (c : C) :
    (startEvents cbs k c).filter (fun e => e.1 == n)
      = startEvents (cbs.filter (fun cb => cb.name == n)) k c := by
  induction cbs with
  | nil => rfl
  | cons cb cbs ih =>
      unfold startEvents at ih ⊢
      cases hs : cb.onStart with
      | none =>
          by_cases hn : (cb.name == n) = true
          · simp [hs, hn, ih]
          · simp [hs, hn, ih]
      | some h =>
          by_cases hn : (cb.name == n) = true
          · simp [hs, hn, ih]
          · simp [hs, hn, ih]

theorem filter_endEvents (n : String) (cbs : List (Callback C D V)) (k : Nat) (c c' : C) (d : D) :
    (endEvents cbs k c c' d).filter (fun e => e.1 == n)
      = endEvents (cbs.filter (fun cb => cb.name == n)) k c c' d := by
  induction cbs with
  | nil => rfl
  | cons cb cbs ih =>
      unfold endEvents at ih ⊢
      cases hs : cb.onEnd with
      | none =>
          by_cases hn : (cb.name == n) = true
          · simp [hs, hn, ih]
          · simp [hs, hn, ih]
      | some h =>
          by_cases hn : (cb.name == n) = true
          · simp [hs, hn, ih]
          · simp [hs, hn, ih]

theorem length_startEvents (cbs : List (Callback C D V)) (k : Nat) (c : C) :
    (startEvents cbs k c).length = (cbs.filter (fun cb => cb.onStart.isSome)).length := by
  induction cbs with
  | nil => rfl
  | cons cb cbs ih =>
      unfold startEvents at ih ⊢
      cases hs : cb.onStart <;> simp [hs, ih]

theorem length_endEvents (cbs : List (Callback C D V)) (k : Nat) (c c' : C) (d : D) :
    (endEvents cbs k c c' d).length = (cbs.filter (fun cb => cb.onEnd.isSome)).length := by
  induction cbs with
  | nil => rfl
  | cons cb cbs ih =>
      unfold endEvents at ih ⊢
      cases hs : cb.onEnd <;> simp [hs, ih]

theorem logsOf_append (n : String) (a b : List (String × V)) :
    logsOf n (a ++ b) = logsOf n a ++ logsOf n b := by
  simp [logsOf]

theorem logsOf_iterEvents (step : C → C) (diff : C → C → D) (cbs : List (Callback C D V))
    (init : C) (n : String) (k : Nat) :
    logsOf n (iterEvents step diff cbs init k)
      = (iterEvents step diff (cbs.filter (fun cb => cb.name == n)) init k).map (fun e => e.2) := by
  simp [logsOf, iterEvents, filter_startEvents, filter_endEvents]

theorem logsOf_flatMap (n : String) (f : Nat → List (String × V)) (l : List Nat) :
    logsOf n (l.flatMap f) = l.flatMap (fun k => logsOf n (f k)) := by
  induction l with
  | nil => rfl
  | cons a l ih => simp [List.flatMap_cons, logsOf_append, ih]

theorem length_flatMap_const (l : List Nat) (f : Nat → List V) (m : Nat)
    (h : ∀ k, (f k).length = m) : (l.flatMap f).length = l.length * m := by
  induction l with
  | nil => simp
  | cons a l ih => simp [List.flatMap_cons, h, ih, Nat.add_mul, Nat.add_comm]

theorem length_logsOf_iterEvents (step : C → C) (diff : C → C → D) (cbs : List (Callback C D V))
    (init : C) (n : String) (k : Nat) :
    (logsOf n (iterEvents step diff cbs init k)).length = hookCount n cbs := by
  rw [logsOf_iterEvents]
  simp [iterEvents, length_startEvents, length_endEvents, hookCount]

end logs

end PyGam.Loop

namespace PyGam.Loop
variable {C D V : Type}

theorem flatMap_single {α β : Type} (f : α → β) (l : List α) :
    l.flatMap (fun k => [f k]) = l.map f := by
  induction l with
  | nil => rfl
  | cons a l ih => simp [List.flatMap_cons, ih]

theorem hookCount_cons (n : String) (cb : Callback C D V) (cbs : List (Callback C D V)) :
    hookCount n (cb :: cbs)
      = (if cb.name == n then (if cb.onStart.isSome then 1 else 0) + (if cb.onEnd.isSome then 1 else 0)
         else 0) + hookCount n cbs := by
  unfold hookCount
  by_cases hn : (cb.name == n) = true
  · cases hs : cb.onStart <;> cases he : cb.onEnd <;> simp [hn, hs, he] <;> omega
  · simp [hn]

/-- a duplicate-free list of built-in callbacks has exactly one hook under each of its keys -/
theorem hookCount_builtin (o : Obs C D V) (bs : List Builtin) (hnd : bs.Nodup) (b : Builtin) :
    hookCount b.name (bs.map (builtin o)) = if b ∈ bs then 1 else 0 := by
  induction bs with
  | nil => simp [hookCount]
  | cons a bs ih =>
      have hnd' := List.nodup_cons.mp hnd
      rw [List.map_cons, hookCount_cons, ih hnd'.2]
      by_cases hab : a = b
      · subst hab
        have hnot : a ∉ bs := hnd'.1
        cases a <;> simp [builtin, Builtin.name, hnot]
      · have hne : ((builtin o a).name == b.name) = false := by
          cases a <;> cases b <;> simp_all [builtin, Builtin.name]
        have hmem : (b ∈ a :: bs) ↔ b ∈ bs := by
          simp [List.mem_cons, Ne.symm hab]
        simp [hne, hmem]

end PyGam.Loop
