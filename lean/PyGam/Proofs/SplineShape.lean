import PyGam.Proofs.BSplineRows
/-!
Monotone coefficients give a monotone spline (C05, function level).

`headSum t q j x = Σ_{i<j} B_{q,i}(x)` is non-increasing in `x` on `x ≥ t_q` (induction on the order through
`H^{q+1}_j = ã_j H^q_j + (1 - ã_j) H^q_{j+1}` with a clamped, non-decreasing weight), and summation by parts
turns `Σ c_j B_j` into `c_{N-1} H_N - Σ (c_{j+1} - c_j) H_{j+1}`.
-/
open Finset
namespace PyGam
variable {α : Type} [Field α] [LinearOrder α] [IsStrictOrderedRing α]

/-- head sums of the order-`q` B-splines -/
def headSum (t : Nat → α) (q j : Nat) (x : α) : α := ∑ i ∈ range j, bspl t q i x

theorem headSum_succ (t : Nat → α) (q j : Nat) (x : α) :
    headSum t q (j+1) x = headSum t q j x + bspl t q j x := by
  simp [headSum, sum_range_succ]

theorem headSum_le_succ (t : Nat → α) (ht : StrictMono t) (q j : Nat) (x : α) :
    headSum t q j x ≤ headSum t q (j+1) x := by
  rw [headSum_succ]; linarith [bspl_nonneg t ht q j x]

/-- order 0: `H_j(x) = [x < t_j]` for `x ≥ t_0` -/
theorem headSum_zero (t : Nat → α) (ht : StrictMono t) (j : Nat) (x : α) (hx : t 0 ≤ x) :
    headSum t 0 j x = if x < t j then 1 else 0 := by
  induction j with
  | zero => simp [headSum, not_lt.mpr hx]
  | succ j ih =>
    rw [headSum_succ, ih, bspl_zero]
    by_cases h1 : x < t j
    · have h2 : x < t (j+1) := lt_trans h1 (ht (by omega))
      have h3 : ¬ (t j ≤ x ∧ x < t (j+1)) := fun h => absurd h.1 (not_le.mpr h1)
      simp [h1, h2, h3]
    · by_cases h2 : x < t (j+1)
      · have h3 : t j ≤ x ∧ x < t (j+1) := ⟨not_lt.mp h1, h2⟩
        simp [h1, h2, h3]
      · have h3 : ¬ (t j ≤ x ∧ x < t (j+1)) := fun h => h2 h.2
        simp [h1, h2, h3]

/-- one step of the recursion for head sums, with the clamped weight (valid for `x ≥ t_{q+1}`) -/
theorem headSum_step (t : Nat → α) (ht : StrictMono t) (q j : Nat) (x : α) (hx : t (q+1) ≤ x) :
    headSum t (q+1) j x
      = headSum t q j x
        + (1 - max 0 (min 1 ((x - t j) / (t (j+q+1) - t j)))) * bspl t q j x := by
  -- unclamped telescoping identity first
  have hB0 : bspl t q 0 x = 0 := bspl_zero_of_ge t ht q 0 x (by simpa using hx)
  have key : ∀ j, headSum t (q+1) j x
      = headSum t q j x - bspl t q 0 x
        + (if j = 0 then bspl t q 0 x else (1 - (x - t j) / (t (j+q+1) - t j)) * bspl t q j x) := by
    intro j
    induction j with
    | zero => simp [headSum]
    | succ j ih =>
      rw [headSum_succ, ih, headSum_succ, bspl_succ]
      have hb : (t (j+q+2) - x) / (t (j+q+2) - t (j+1)) = 1 - (x - t (j+1)) / (t (j+1+q+1) - t (j+1)) := by
        have : t (j+1) < t (j+q+2) := ht (by omega)
        have hne : t (j+q+2) - t (j+1) ≠ 0 := by linarith [sub_pos.mpr this] |> ne_of_gt
        have e : j + 1 + q + 1 = j + q + 2 := by omega
        rw [e]; field_simp; ring
      rw [hb]
      by_cases hj : j = 0
      · subst hj; simp [headSum, hB0]
      · simp [hj]; ring
  rw [key j]
  by_cases hj : j = 0
  · subst hj; simp [hB0]
  · rw [if_neg hj, hB0, sub_zero]
    -- clamp: where the weight leaves [0,1] the B-spline vanishes
    congr 1
    by_cases hb : bspl t q j x = 0
    · simp [hb]
    · have s := bspl_support t ht q j x hb
      have hpos : 0 < t (j+q+1) - t j := by linarith [ht (show j < j+q+1 by omega)]
      have h0 : 0 ≤ (x - t j) / (t (j+q+1) - t j) := div_nonneg (by linarith [s.1]) (le_of_lt hpos)
      have h1 : (x - t j) / (t (j+q+1) - t j) ≤ 1 := by rw [div_le_one hpos]; linarith [s.2]
      rw [min_eq_right h1, max_eq_right h0]

/-- the clamped weight is non-decreasing in `x` and lies in `[0,1]` -/
theorem clampW_mono (a b x x' : α) (hab : a < b) (hxx : x ≤ x') :
    max 0 (min 1 ((x - a) / (b - a))) ≤ max 0 (min 1 ((x' - a) / (b - a))) := by
  have hpos : 0 < b - a := by linarith
  have : (x - a) / (b - a) ≤ (x' - a) / (b - a) := div_le_div_of_nonneg_right (by linarith) (le_of_lt hpos)
  exact max_le_max le_rfl (min_le_min le_rfl this)

theorem clampW_mem (v : α) : 0 ≤ max 0 (min 1 v) ∧ max 0 (min 1 v) ≤ 1 :=
  ⟨le_max_left _ _, max_le zero_le_one (min_le_left _ _)⟩

/-- head sums are non-increasing in `x` to the right of `t_q` -/
theorem headSum_antitone (t : Nat → α) (ht : StrictMono t) :
    ∀ q j x x', t q ≤ x → x ≤ x' → headSum t q j x' ≤ headSum t q j x := by
  intro q
  induction q with
  | zero =>
    intro j x x' hx hxx
    rw [headSum_zero t ht j x hx, headSum_zero t ht j x' (le_trans hx hxx)]
    by_cases h : x' < t j
    · have : x < t j := lt_of_le_of_lt hxx h
      simp [h, this]
    · by_cases h2 : x < t j
      · simp [h, h2]
      · simp [h, h2]
  | succ q ih =>
    intro j x x' hx hxx
    have hxq : t q ≤ x := le_trans (ht.monotone (by omega)) hx
    rw [headSum_step t ht q j x hx, headSum_step t ht q j x' (le_trans hx hxx)]
    set a := max 0 (min 1 ((x - t j) / (t (j+q+1) - t j))) with ha
    set a' := max 0 (min 1 ((x' - t j) / (t (j+q+1) - t j))) with ha'
    have haa : a ≤ a' := clampW_mono (t j) (t (j+q+1)) x x' (ht (by omega)) hxx
    obtain ⟨h0, h1⟩ := clampW_mem ((x' - t j) / (t (j+q+1) - t j))
    have hD : 0 ≤ bspl t q j x := bspl_nonneg t ht q j x
    have hj := ih j x x' hxq hxx
    have hj1 := ih (j+1) x x' hxq hxx
    rw [headSum_succ, headSum_succ] at hj1
    -- H' + (1-a')B' = a' H' + (1-a')(H'+B') ≤ a' H + (1-a')(H+B) = H + (1-a')B ≤ H + (1-a)B
    have e1 : headSum t q j x' + (1 - a') * bspl t q j x'
        = a' * headSum t q j x' + (1 - a') * (headSum t q j x' + bspl t q j x') := by ring
    have e2 : a' * headSum t q j x + (1 - a') * (headSum t q j x + bspl t q j x)
        = headSum t q j x + (1 - a') * bspl t q j x := by ring
    have step1 : a' * headSum t q j x' + (1 - a') * (headSum t q j x' + bspl t q j x')
        ≤ a' * headSum t q j x + (1 - a') * (headSum t q j x + bspl t q j x) :=
      add_le_add (mul_le_mul_of_nonneg_left hj h0) (mul_le_mul_of_nonneg_left hj1 (by linarith))
    have step2 : (1 - a') * bspl t q j x ≤ (1 - a) * bspl t q j x :=
      mul_le_mul_of_nonneg_right (by linarith) hD
    linarith

/-- summation by parts -/
theorem sum_by_parts (c d : Nat → α) (hd0 : d 0 = 0) :
    ∀ N, ∑ j ∈ range (N+1), c j * (d (j+1) - d j)
      = c N * d (N+1) - ∑ j ∈ range N, (c (j+1) - c j) * d (j+1) := by
  intro N
  induction N with
  | zero => simp [hd0]
  | succ N ih => rw [sum_range_succ, ih, sum_range_succ]; ring

/-- non-decreasing coefficients ⇒ non-decreasing spline, between any two points where the first `N`
functions sum to one (the whole closed knot range) -/
theorem spline_mono (t : Nat → α) (ht : StrictMono t) (p N : Nat) (c : Nat → α)
    (hc : ∀ j, j + 1 < N → c j ≤ c (j+1)) (x x' : α) (hx : t p ≤ x) (hxx : x ≤ x')
    (h1 : ∑ i ∈ range N, bspl t p i x = 1) (h1' : ∑ i ∈ range N, bspl t p i x' = 1) :
    ∑ j ∈ range N, c j * bspl t p j x ≤ ∑ j ∈ range N, c j * bspl t p j x' := by
  cases N with
  | zero => simp
  | succ N =>
    set d : Nat → α := fun j => headSum t p j x' - headSum t p j x with hd
    have hd0 : d 0 = 0 := by simp [hd, headSum]
    have hdiff : ∀ j, bspl t p j x' - bspl t p j x = d (j+1) - d j := by
      intro j; simp only [hd, headSum_succ]; ring
    have hle : ∀ j, d j ≤ 0 := by
      intro j; simp only [hd]; linarith [headSum_antitone t ht p j x x' hx hxx]
    have hdN : d (N+1) = 0 := by simp only [hd, headSum]; rw [h1, h1']; ring
    have : ∑ j ∈ range (N+1), c j * bspl t p j x' - ∑ j ∈ range (N+1), c j * bspl t p j x
        = ∑ j ∈ range (N+1), c j * (d (j+1) - d j) := by
      rw [← sum_sub_distrib]; apply sum_congr rfl; intro j _; rw [← hdiff]; ring
    rw [sum_by_parts c d hd0 N, hdN, mul_zero, zero_sub] at this
    have hnn : 0 ≤ - ∑ j ∈ range N, (c (j+1) - c j) * d (j+1) := by
      rw [neg_nonneg]
      apply sum_nonpos; intro j hj
      have := hc j (by have := mem_range.mp hj; omega)
      exact mul_nonpos_of_nonneg_of_nonpos (by linarith) (hle (j+1))
    linarith

end PyGam

namespace PyGam
open Finset
variable {α : Type} [Field α] [LinearOrder α] [IsStrictOrderedRing α]

/-! ### the forced-symmetric boundary row: non-negativity and continuity at the knot -/

/-- pieces of cell `c` are non-negative on the closed cell `[t_c, t_{c+1}]` -/
theorem deBoorH_ind_nonneg (t : Nat → α) (ht : StrictMono t) (c : Nat) (x : α)
    (h0 : t c ≤ x) (h1 : x ≤ t (c+1)) : ∀ q j, 0 ≤ deBoorH t (indRow (α := α) c) q j x := by
  intro q
  induction q with
  | zero => intro j; simp only [deBoorH, indRow]; split <;> simp
  | succ q ih =>
    intro j
    simp only [deBoorH]
    apply add_nonneg
    · by_cases hz : deBoorH t (indRow (α := α) c) q j x = 0
      · simp [hz]
      · have b := deBoorH_band t c x q j hz
        apply mul_nonneg _ (ih j)
        apply div_nonneg
        · have : t j ≤ t c := ht.monotone b.1
          linarith
        · have : t j < t (j+q+1) := ht (by omega)
          linarith
    · by_cases hz : deBoorH t (indRow (α := α) c) q (j+1) x = 0
      · simp [hz]
      · have b := deBoorH_band t c x q (j+1) hz
        apply mul_nonneg _ (ih (j+1))
        apply div_nonneg
        · have : t (c+1) ≤ t (j+q+2) := ht.monotone (by omega)
          linarith
        · have : t (j+1) < t (j+q+2) := ht (by omega)
          linarith

/-- continuity of B-splines of order ≥ 1 at a knot: the pieces of the two adjacent cells agree there -/
theorem deBoorH_knot_continuity (t : Nat → α) (ht : StrictMono t) (c : Nat) :
    ∀ q j, deBoorH t (indRow (α := α) c) (q+1) j (t (c+1))
          = deBoorH t (indRow (α := α) (c+1)) (q+1) j (t (c+1)) := by
  intro q
  induction q with
  | zero =>
    intro j
    have hpos : ∀ i, t (i+1) - t i ≠ 0 := fun i => by
      have : t i < t (i+1) := ht (by omega)
      exact ne_of_gt (by linarith)
    simp only [deBoorH, indRow]
    by_cases h1 : j = c
    · subst h1
      have e1 : ¬ (j + 1 = j) := by omega
      have e2 : ¬ (j = j + 1) := by omega
      simp [e1, e2, hpos j, hpos (j+1)]
    · by_cases h2 : j + 1 = c
      · subst h2
        have e1 : ¬ (j = j + 1) := by omega
        have e2 : ¬ (j = j + 1 + 1) := by omega
        simp [e1, e2]
      · by_cases h3 : j = c + 1
        · subst h3
          have e1 : ¬ (c + 1 = c) := by omega
          have e2 : ¬ (c + 1 + 1 = c) := by omega
          have e3 : ¬ (c + 1 + 1 = c + 1) := by omega
          simp [e1, e2, e3]
        · have e4 : ¬ (j + 1 = c + 1) := by omega
          simp [h1, h2, h3, e4]
  | succ q ih =>
    intro j
    simp only [deBoorH] at ih ⊢
    rw [ih j, ih (j+1)]

end PyGam
