import Mathlib.Data.Matrix.Mul
import Mathlib.LinearAlgebra.Matrix.Trace
import Mathlib.LinearAlgebra.Matrix.NonsingularInverse
import Mathlib.Algebra.Order.BigOperators.Ring.Finset
import Mathlib.Tactic.Linarith
/-!
# Effective degrees of freedom never increase with lam (C13) — without diagonalisation

`edof(λ) = tr((G + R + λP)⁻¹ G)` with `G = AᵀA` (`A = W B`, the weighted model matrix), `R` the fixed part of the
penalty (the `√ε` ridge and every penalty held fixed) and `P` the penalty whose `lam` grows.  For symmetric
`M₁ ≤ M₂` (Loewner order: `M₂ - M₁` has a non-negative quadratic form) with inverses `N₁, N₂` and `M₁` PSD,

  `N₁ - N₂ = N₂ Δ N₂ + N₂ Δ N₁ Δ N₂`,  `Δ = M₂ - M₁`,

so `N₁ - N₂` has a non-negative quadratic form (both terms are congruences of PSD forms), and
`tr((N₁ - N₂) AᵀA) = Σ_r a_rᵀ (N₁ - N₂) a_r ≥ 0` over the rows `a_r` of `A`.  Elementary matrix algebra over any linear
ordered field; no spectral theorem, no simultaneous diagonalisation.
-/
open Matrix Finset
namespace PyGam.Edof
variable {α : Type} [Field α] [LinearOrder α] [IsStrictOrderedRing α] {k n : ℕ}

/-- non-negative quadratic form -/
def QNonneg (M : Matrix (Fin k) (Fin k) α) : Prop := ∀ x : Fin k → α, 0 ≤ x ⬝ᵥ M *ᵥ x

omit [LinearOrder α] [IsStrictOrderedRing α] in
/-- the inverse of a symmetric matrix is symmetric -/
theorem inv_symm (M N : Matrix (Fin k) (Fin k) α) (hs : Mᵀ = M) (h : M * N = 1) : Nᵀ = N := by
  have ht : Nᵀ * M = 1 := by rw [← hs, ← transpose_mul, h, transpose_one]
  calc Nᵀ = Nᵀ * (M * N) := by rw [h, Matrix.mul_one]
    _ = (Nᵀ * M) * N := by rw [Matrix.mul_assoc]
    _ = N := by rw [ht, Matrix.one_mul]

omit [LinearOrder α] [IsStrictOrderedRing α] in
/-- congruence: `xᵀ (S B S) x = (S x)ᵀ B (S x)` for symmetric `S` -/
theorem quad_congr (S B : Matrix (Fin k) (Fin k) α) (hS : Sᵀ = S) (x : Fin k → α) :
    x ⬝ᵥ (S * B * S) *ᵥ x = (S *ᵥ x) ⬝ᵥ B *ᵥ (S *ᵥ x) := by
  rw [Matrix.mul_assoc, ← mulVec_mulVec, dotProduct_mulVec, ← mulVec_transpose, hS, ← mulVec_mulVec]

/-- the inverse of a symmetric PSD matrix has a non-negative quadratic form -/
theorem inv_qnonneg (M N : Matrix (Fin k) (Fin k) α) (hs : Mᵀ = M) (h : M * N = 1) (hp : QNonneg M) :
    QNonneg N := by
  intro x
  have hN := inv_symm M N hs h
  have h' : N * M = 1 := mul_eq_one_comm.mp h
  have e : N = N * M * N := by rw [h', Matrix.one_mul]
  rw [e, quad_congr N M hN x]
  exact hp _

omit [LinearOrder α] [IsStrictOrderedRing α] in
/-- `N₁ - N₂ = N₂ Δ N₂ + N₂ Δ N₁ Δ N₂` with `Δ = M₂ - M₁` -/
theorem inv_sub_identity (M₁ M₂ N₁ N₂ : Matrix (Fin k) (Fin k) α) (h1 : M₁ * N₁ = 1) (h2 : M₂ * N₂ = 1) :
    N₁ - N₂ = N₂ * (M₂ - M₁) * N₂ + N₂ * ((M₂ - M₁) * N₁ * (M₂ - M₁)) * N₂ := by
  have h1' : N₁ * M₁ = 1 := mul_eq_one_comm.mp h1
  have h2' : N₂ * M₂ = 1 := mul_eq_one_comm.mp h2
  have a : N₂ * (M₂ - M₁) * N₁ = N₁ - N₂ := by
    rw [Matrix.mul_sub, Matrix.sub_mul, h2', Matrix.one_mul, Matrix.mul_assoc, h1, Matrix.mul_one]
  have b : N₁ * (M₂ - M₁) * N₂ = N₁ - N₂ := by
    rw [Matrix.mul_sub, Matrix.sub_mul, h1', Matrix.one_mul, Matrix.mul_assoc N₁ M₂, h2, Matrix.mul_one]
  calc N₁ - N₂ = N₂ * (M₂ - M₁) * N₁ := a.symm
    _ = N₂ * (M₂ - M₁) * (N₂ + (N₁ - N₂)) := by rw [add_sub_cancel]
    _ = N₂ * (M₂ - M₁) * N₂ + N₂ * (M₂ - M₁) * (N₁ * (M₂ - M₁) * N₂) := by rw [Matrix.mul_add, b]
    _ = _ := by simp only [Matrix.mul_assoc]

/-- **the inverse is antitone in the Loewner order** -/
theorem inv_antitone (M₁ M₂ N₁ N₂ : Matrix (Fin k) (Fin k) α) (hs1 : M₁ᵀ = M₁) (hs2 : M₂ᵀ = M₂)
    (h1 : M₁ * N₁ = 1) (h2 : M₂ * N₂ = 1) (hp1 : QNonneg M₁) (hΔ : QNonneg (M₂ - M₁)) :
    QNonneg (N₁ - N₂) := by
  intro x
  have hN2 := inv_symm M₂ N₂ hs2 h2
  have hΔs : (M₂ - M₁)ᵀ = M₂ - M₁ := by rw [transpose_sub, hs1, hs2]
  rw [inv_sub_identity M₁ M₂ N₁ N₂ h1 h2, add_mulVec, dotProduct_add,
    quad_congr N₂ _ hN2, quad_congr N₂ _ hN2, quad_congr (M₂ - M₁) N₁ hΔs]
  exact add_nonneg (hΔ _) (inv_qnonneg M₁ N₁ hs1 h1 hp1 _)

omit [LinearOrder α] [IsStrictOrderedRing α] in
/-- `tr(N AᵀA) = Σ_r a_rᵀ N a_r` over the rows of `A` -/
theorem trace_gram (N : Matrix (Fin k) (Fin k) α) (A : Matrix (Fin n) (Fin k) α) :
    trace (N * (Aᵀ * A)) = ∑ r, (A r) ⬝ᵥ N *ᵥ (A r) := by
  simp only [trace, diag_apply, Matrix.mul_apply, transpose_apply, dotProduct, mulVec, mul_sum]
  calc ∑ y, ∑ x, ∑ i, N y x * (A i x * A i y)
      = ∑ y, ∑ i, ∑ x, N y x * (A i x * A i y) := sum_congr rfl (fun y _ => sum_comm)
    _ = ∑ i, ∑ y, ∑ x, N y x * (A i x * A i y) := sum_comm
    _ = _ := by
        apply sum_congr rfl; intro r _
        apply sum_congr rfl; intro x _; apply sum_congr rfl; intro y _; ring

/-- **edof is antitone along a Loewner-increasing path of normal matrices** -/
theorem trace_inv_gram_antitone (M₁ M₂ N₁ N₂ : Matrix (Fin k) (Fin k) α) (A : Matrix (Fin n) (Fin k) α)
    (hs1 : M₁ᵀ = M₁) (hs2 : M₂ᵀ = M₂) (h1 : M₁ * N₁ = 1) (h2 : M₂ * N₂ = 1) (hp1 : QNonneg M₁)
    (hΔ : QNonneg (M₂ - M₁)) :
    trace (N₂ * (Aᵀ * A)) ≤ trace (N₁ * (Aᵀ * A)) := by
  have key := inv_antitone M₁ M₂ N₁ N₂ hs1 hs2 h1 h2 hp1 hΔ
  have : 0 ≤ trace ((N₁ - N₂) * (Aᵀ * A)) := by
    rw [trace_gram]; exact sum_nonneg (fun r _ => key (A r))
  rw [Matrix.sub_mul, trace_sub] at this
  linarith

omit [LinearOrder α] [IsStrictOrderedRing α] in
theorem gram_symm (A : Matrix (Fin n) (Fin k) α) : (Aᵀ * A)ᵀ = Aᵀ * A := by
  rw [transpose_mul, transpose_transpose]

theorem gram_qnonneg (A : Matrix (Fin n) (Fin k) α) : QNonneg (Aᵀ * A) := by
  intro x
  have : x ⬝ᵥ (Aᵀ * A) *ᵥ x = (A *ᵥ x) ⬝ᵥ (A *ᵥ x) := by
    rw [← mulVec_mulVec, dotProduct_mulVec, ← mulVec_transpose, transpose_transpose]
  rw [this]; exact sum_nonneg (fun i _ => mul_self_nonneg _)

/-- **edof(λ) = tr((G + R + λP)⁻¹ G) is non-increasing in λ ≥ 0**: `G = AᵀA`, `R`, `P` symmetric with non-negative
quadratic forms, `N_i` the inverses of the normal matrices at `l₁ ≤ l₂` -/
theorem edof_antitone (A : Matrix (Fin n) (Fin k) α) (R P N₁ N₂ : Matrix (Fin k) (Fin k) α)
    (hRs : Rᵀ = R) (hPs : Pᵀ = P) (hR : QNonneg R) (hP : QNonneg P) (l₁ l₂ : α) (h0 : 0 ≤ l₁) (hle : l₁ ≤ l₂)
    (h1 : (Aᵀ * A + R + l₁ • P) * N₁ = 1) (h2 : (Aᵀ * A + R + l₂ • P) * N₂ = 1) :
    trace (N₂ * (Aᵀ * A)) ≤ trace (N₁ * (Aᵀ * A)) := by
  apply trace_inv_gram_antitone _ _ N₁ N₂ A _ _ h1 h2
  · intro x
    rw [add_mulVec, add_mulVec, dotProduct_add, dotProduct_add, smul_mulVec, dotProduct_smul, smul_eq_mul]
    have := gram_qnonneg A x; have := hR x; have := mul_nonneg h0 (hP x)
    linarith
  · intro x
    have e : Aᵀ * A + R + l₂ • P - (Aᵀ * A + R + l₁ • P) = (l₂ - l₁) • P := by
      rw [sub_smul]; abel
    rw [e, smul_mulVec, dotProduct_smul, smul_eq_mul]
    exact mul_nonneg (by linarith) (hP x)
  · rw [transpose_add, transpose_add, transpose_smul, gram_symm, hRs, hPs]
  · rw [transpose_add, transpose_add, transpose_smul, gram_symm, hRs, hPs]

end PyGam.Edof
