import PyGam.Model.Dists
import PyGam.Proofs.Vec
import Mathlib.Analysis.SpecialFunctions.Log.Deriv
import Mathlib.Analysis.Real.Sqrt
import Mathlib.Tactic.FieldSimp
import Mathlib.Tactic.Ring
import Mathlib.Tactic.Linarith
import Mathlib.Tactic.Positivity
/-!
# Helper lemmas for C06 (distributions) over `ℝ`

`HasLogSqrt ℝ` is `Real.log` / `Real.sqrt`.  Per-family lemmas about `unitDeviance`, `varFn`, `logKernel`;
the property theorems proper are in `Props/C06.lean`.
-/
open Real
namespace PyGam

noncomputable instance : HasLogSqrt ℝ := ⟨Real.log, Real.sqrt⟩

@[simp] theorem hlog_real (x : ℝ) : HasLogSqrt.log x = Real.log x := rfl
@[simp] theorem hsqrt_real (x : ℝ) : HasLogSqrt.sqrt x = Real.sqrt x := rfl
@[simp] theorem two_real : (two : ℝ) = 2 := by unfold two; norm_num

theorem isZero_iff (x : ℝ) : isZero x ↔ x = 0 :=
  ⟨fun h => le_antisymm h.2 h.1, fun h => by subst h; exact ⟨le_refl _, le_refl _⟩⟩

/-- the mean domain / support of each family (the "valid (y, mu)" of the property) -/
def validDom : Family → ℝ → ℝ → ℝ → Prop
  | .normal, _, _, _ => True
  | .binomial, n, y, mu => 0 ≤ y ∧ y ≤ n ∧ 0 < mu ∧ mu < n
  | .poisson, _, y, mu => 0 ≤ y ∧ 0 < mu
  | .gamma, _, y, mu => 0 < y ∧ 0 < mu
  | .invGauss, _, y, mu => 0 < y ∧ 0 < mu

/-! ### `ylogydu`, `xlogy` -/

theorem ylogydu_zero (u : ℝ) : ylogydu 0 u = 0 := by
  unfold ylogydu; rw [if_pos ((isZero_iff 0).2 rfl)]

theorem ylogydu_of_ne {y : ℝ} (h : y ≠ 0) (u : ℝ) : ylogydu y u = y * Real.log (y / u) := by
  unfold ylogydu; rw [if_neg (fun hz => h ((isZero_iff y).1 hz))]; rfl

/-- over `ℝ` the branch is absorbed by `0 * _ = 0` -/
theorem ylogydu_eq (y u : ℝ) : ylogydu y u = y * Real.log (y / u) := by
  by_cases h : y = 0
  · subst h; rw [ylogydu_zero]; ring
  · exact ylogydu_of_ne h u

theorem xlogy_eq (y u : ℝ) : xlogy y u = y * Real.log u := by
  unfold xlogy
  by_cases h : y = 0
  · subst h; rw [if_pos ((isZero_iff 0).2 rfl)]; ring
  · rw [if_neg (fun hz => h ((isZero_iff y).1 hz))]; rfl

/-- `y log(y/u) ≥ y - u` on `y ≥ 0`, `u > 0` (with the `y = 0` convention) -/
theorem ylogydu_ge {y u : ℝ} (hy : 0 ≤ y) (hu : 0 < u) : y - u ≤ ylogydu y u := by
  by_cases h0 : y = 0
  · subst h0; rw [ylogydu_zero]; linarith
  · rw [ylogydu_of_ne h0]
    have hy' : 0 < y := lt_of_le_of_ne hy (Ne.symm h0)
    have h1 := Real.log_le_sub_one_of_pos (show 0 < u / y by positivity)
    have e : Real.log (y / u) = - Real.log (u / y) := by
      rw [← Real.log_inv]; congr 1; field_simp
    rw [e]
    have h2 : y * Real.log (u / y) ≤ u - y := by
      calc y * Real.log (u / y) ≤ y * (u / y - 1) := mul_le_mul_of_nonneg_left h1 hy
        _ = u - y := by field_simp
    linarith

/-- equality in `ylogydu_ge` only at `y = u` -/
theorem ylogydu_eq_iff {y u : ℝ} (hy : 0 ≤ y) (hu : 0 < u) : ylogydu y u = y - u ↔ y = u := by
  constructor
  · intro heq
    by_contra hne
    by_cases h0 : y = 0
    · subst h0; rw [ylogydu_zero] at heq; linarith
    · rw [ylogydu_of_ne h0] at heq
      have hy' : 0 < y := lt_of_le_of_ne hy (Ne.symm h0)
      have hne1 : u / y ≠ 1 := by
        intro h; apply hne; field_simp at h; linarith
      have h1 := Real.log_lt_sub_one_of_pos (show 0 < u / y by positivity) hne1
      have e : Real.log (y / u) = - Real.log (u / y) := by
        rw [← Real.log_inv]; congr 1; field_simp
      rw [e] at heq
      have h2 : y * Real.log (u / y) < u - y := by
        calc y * Real.log (u / y) < y * (u / y - 1) := mul_lt_mul_of_pos_left h1 hy'
          _ = u - y := by field_simp
      linarith
  · intro h; subst h
    rw [ylogydu_eq, div_self hu.ne', Real.log_one]; ring

/-- `d/du ylogydu y u = -y/u` for every `y` (also on the `y = 0` branch) -/
theorem ylogydu_hasDerivAt (y u : ℝ) (hu : u ≠ 0) :
    HasDerivAt (fun m => ylogydu y m) (-y / u) u := by
  have hf : (fun m => ylogydu y m) = fun m => y * Real.log (y / m) := by
    funext m; exact ylogydu_eq y m
  rw [hf]
  by_cases h0 : y = 0
  · subst h0
    have : HasDerivAt (fun _ : ℝ => (0 : ℝ)) 0 u := hasDerivAt_const u 0
    simpa using this
  · have h1 : HasDerivAt (fun m : ℝ => y / m) ((0 * u - y * 1) / u ^ 2) u :=
      (hasDerivAt_const u y).fun_div (hasDerivAt_id' u) hu
    have h2 : HasDerivAt (fun m : ℝ => Real.log (y / m)) (((0 * u - y * 1) / u ^ 2) / (y / u)) u :=
      h1.log (div_ne_zero h0 hu)
    exact (h2.const_mul y).congr_deriv (by field_simp; ring)

/-! ### normal -/

theorem normal_dev_nonneg (n y mu : ℝ) : 0 ≤ unitDeviance .normal n y mu := by
  simp only [unitDeviance]; exact mul_self_nonneg _

theorem normal_dev_eq_zero_iff (n y mu : ℝ) : unitDeviance .normal n y mu = 0 ↔ y = mu := by
  simp only [unitDeviance, mul_self_eq_zero, sub_eq_zero]

theorem normal_dev_hasDerivAt (n y mu : ℝ) :
    HasDerivAt (fun m => unitDeviance .normal n y m) (-2 * (y - mu) / varFn .normal n mu) mu := by
  simp only [unitDeviance, varFn]
  have h : HasDerivAt (fun m : ℝ => y - m) (0 - 1) mu := (hasDerivAt_const mu y).sub (hasDerivAt_id' mu)
  exact (h.mul h).congr_deriv (by ring)

/-! ### poisson -/

theorem poisson_dev_nonneg (n : ℝ) {y mu : ℝ} (hy : 0 ≤ y) (hmu : 0 < mu) :
    0 ≤ unitDeviance .poisson n y mu := by
  simp only [unitDeviance, two_real]
  have := ylogydu_ge hy hmu
  linarith

theorem poisson_dev_eq_zero_iff (n : ℝ) {y mu : ℝ} (hy : 0 ≤ y) (hmu : 0 < mu) :
    unitDeviance .poisson n y mu = 0 ↔ y = mu := by
  simp only [unitDeviance, two_real]
  rw [← ylogydu_eq_iff hy hmu]
  constructor <;> intro h <;> linarith

theorem poisson_dev_hasDerivAt (n y : ℝ) {mu : ℝ} (hmu : 0 < mu) :
    HasDerivAt (fun m => unitDeviance .poisson n y m) (-2 * (y - mu) / varFn .poisson n mu) mu := by
  simp only [unitDeviance, varFn, two_real]
  have h := ((ylogydu_hasDerivAt y mu hmu.ne').sub
    ((hasDerivAt_const mu y).sub (hasDerivAt_id' mu))).const_mul 2
  exact h.congr_deriv (by field_simp; ring)

/-! ### binomial -/

theorem binomial_dev_nonneg {n y mu : ℝ} (hy0 : 0 ≤ y) (hyn : y ≤ n) (hmu0 : 0 < mu) (hmun : mu < n) :
    0 ≤ unitDeviance .binomial n y mu := by
  simp only [unitDeviance, two_real]
  have h1 := ylogydu_ge hy0 hmu0
  have h2 := ylogydu_ge (show 0 ≤ n - y by linarith) (show 0 < n - mu by linarith)
  linarith

theorem binomial_dev_eq_zero_iff {n y mu : ℝ} (hy0 : 0 ≤ y) (hyn : y ≤ n) (hmu0 : 0 < mu) (hmun : mu < n) :
    unitDeviance .binomial n y mu = 0 ↔ y = mu := by
  simp only [unitDeviance, two_real]
  have hn0 : 0 ≤ n - y := by linarith
  have hnm : 0 < n - mu := by linarith
  have h1 := ylogydu_ge hy0 hmu0
  have h2 := ylogydu_ge hn0 hnm
  constructor
  · intro h
    have : ylogydu y mu = y - mu := by linarith
    exact (ylogydu_eq_iff hy0 hmu0).1 this
  · intro h
    have e1 := (ylogydu_eq_iff hy0 hmu0).2 h
    have e2 := (ylogydu_eq_iff hn0 hnm).2 (by rw [h])
    rw [e1, e2]; ring

theorem binomial_dev_hasDerivAt (y : ℝ) {n mu : ℝ} (hmu0 : 0 < mu) (hmun : mu < n) :
    HasDerivAt (fun m => unitDeviance .binomial n y m) (-2 * (y - mu) / varFn .binomial n mu) mu := by
  simp only [unitDeviance, varFn, two_real]
  have hnm : n - mu ≠ 0 := by linarith
  have hn : n ≠ 0 := by linarith
  have hin : HasDerivAt (fun m : ℝ => n - m) (0 - 1) mu := (hasDerivAt_const mu n).sub (hasDerivAt_id' mu)
  have h2 : HasDerivAt (fun m : ℝ => ylogydu (n - y) (n - m)) (-(n - y) / (n - mu) * (0 - 1)) mu :=
    (ylogydu_hasDerivAt (n - y) (n - mu) hnm).comp mu hin
  have h := ((ylogydu_hasDerivAt y mu hmu0.ne').add h2).const_mul 2
  exact h.congr_deriv (by field_simp; ring)

/-! ### gamma -/

theorem gamma_dev_nonneg (n : ℝ) {y mu : ℝ} (hy : 0 < y) (hmu : 0 < mu) :
    0 ≤ unitDeviance .gamma n y mu := by
  simp only [unitDeviance, two_real, hlog_real]
  have h1 := Real.log_le_sub_one_of_pos (show 0 < y / mu by positivity)
  have e : (y - mu) / mu = y / mu - 1 := by field_simp
  rw [e]; linarith

theorem gamma_dev_eq_zero_iff (n : ℝ) {y mu : ℝ} (hy : 0 < y) (hmu : 0 < mu) :
    unitDeviance .gamma n y mu = 0 ↔ y = mu := by
  simp only [unitDeviance, two_real, hlog_real]
  have e : (y - mu) / mu = y / mu - 1 := by field_simp
  rw [e]
  constructor
  · intro h
    by_contra hne
    have hne1 : y / mu ≠ 1 := by
      intro h1; apply hne; field_simp at h1; linarith
    have := Real.log_lt_sub_one_of_pos (show 0 < y / mu by positivity) hne1
    linarith
  · intro h; subst h; rw [div_self hy.ne', Real.log_one]; ring

theorem gamma_dev_hasDerivAt (n : ℝ) {y mu : ℝ} (hy : 0 < y) (hmu : 0 < mu) :
    HasDerivAt (fun m => unitDeviance .gamma n y m) (-2 * (y - mu) / varFn .gamma n mu) mu := by
  simp only [unitDeviance, varFn, two_real, hlog_real]
  have hsub : HasDerivAt (fun m : ℝ => y - m) (0 - 1) mu := (hasDerivAt_const mu y).sub (hasDerivAt_id' mu)
  have h0 : HasDerivAt (fun m : ℝ => (y - m) / m) (((0 - 1) * mu - (y - mu) * 1) / mu ^ 2) mu :=
    hsub.fun_div (hasDerivAt_id' mu) hmu.ne'
  have h1 : HasDerivAt (fun m : ℝ => y / m) ((0 * mu - y * 1) / mu ^ 2) mu :=
    (hasDerivAt_const mu y).fun_div (hasDerivAt_id' mu) hmu.ne'
  have h2 : HasDerivAt (fun m : ℝ => Real.log (y / m)) (((0 * mu - y * 1) / mu ^ 2) / (y / mu)) mu :=
    h1.log (by positivity)
  exact ((h0.sub h2).const_mul 2).congr_deriv (by field_simp; ring)

/-! ### inverse gaussian -/

theorem invGauss_dev_nonneg (n : ℝ) {y mu : ℝ} (hy : 0 < y) (hmu : 0 < mu) :
    0 ≤ unitDeviance .invGauss n y mu := by
  simp only [unitDeviance]
  exact div_nonneg (mul_self_nonneg _) (by positivity)

theorem invGauss_dev_eq_zero_iff (n : ℝ) {y mu : ℝ} (hy : 0 < y) (hmu : 0 < mu) :
    unitDeviance .invGauss n y mu = 0 ↔ y = mu := by
  simp only [unitDeviance]
  have hd : mu * mu * y ≠ 0 := by positivity
  rw [div_eq_zero_iff, mul_self_eq_zero, sub_eq_zero]
  constructor
  · rintro (h | h)
    · exact h
    · exact absurd h hd
  · intro h; exact Or.inl h

theorem invGauss_dev_hasDerivAt (n : ℝ) {y mu : ℝ} (hy : 0 < y) (hmu : 0 < mu) :
    HasDerivAt (fun m => unitDeviance .invGauss n y m) (-2 * (y - mu) / varFn .invGauss n mu) mu := by
  simp only [unitDeviance, varFn]
  have hsub : HasDerivAt (fun m : ℝ => y - m) (0 - 1) mu := (hasDerivAt_const mu y).sub (hasDerivAt_id' mu)
  have hnum : HasDerivAt (fun m : ℝ => (y - m) * (y - m)) ((0 - 1) * (y - mu) + (y - mu) * (0 - 1)) mu :=
    hsub.mul hsub
  have hden : HasDerivAt (fun m : ℝ => m * m * y) ((1 * mu + mu * 1) * y) mu :=
    ((hasDerivAt_id' mu).mul (hasDerivAt_id' mu)).mul_const y
  have hd : mu * mu * y ≠ 0 := by positivity
  exact (hnum.fun_div hden hd).congr_deriv (by field_simp; ring)

/-! ### saturated-likelihood identity, per family -/

theorem normal_kernel_identity (n : ℝ) {scale w : ℝ} (hs : 0 < scale) (hw : 0 < w) (y mu : ℝ) :
    w * unitDeviance .normal n y mu
      = 2 * scale * (logKernel .normal n scale w y y - logKernel .normal n scale w y mu) := by
  simp only [unitDeviance, logKernel, two_real, hsqrt_real]
  have hv : 0 < scale / w := by positivity
  have hsq : Real.sqrt (scale / w) * Real.sqrt (scale / w) = scale / w := Real.mul_self_sqrt hv.le
  have hs0 : Real.sqrt (scale / w) ≠ 0 := (Real.sqrt_pos.2 hv).ne'
  have e : (y - mu) / Real.sqrt (scale / w) * ((y - mu) / Real.sqrt (scale / w))
      = (y - mu) * (y - mu) / (scale / w) := by
    rw [div_mul_div_comm, hsq]
  rw [e, sub_self, zero_div]
  field_simp
  ring

theorem binomial_kernel_identity {n y mu : ℝ} (hy0 : 0 ≤ y) (hyn : y ≤ n) (hmu0 : 0 < mu) (hmun : mu < n)
    (scale w : ℝ) :
    unitDeviance .binomial n y mu
      = 2 * 1 * (logKernel .binomial n scale w y y - logKernel .binomial n scale w y mu) := by
  simp only [unitDeviance, logKernel, two_real]
  have hn : 0 < n := by linarith
  have hnm : 0 < n - mu := by linarith
  have e1 : (1 : ℝ) - y / n = (n - y) / n := by field_simp
  have e2 : (1 : ℝ) - mu / n = (n - mu) / n := by field_simp
  rw [e1, e2]
  -- first pair
  have hA : ylogydu y mu = xlogy y (y / n) - xlogy y (mu / n) := by
    by_cases h0 : y = 0
    · subst h0; rw [ylogydu_zero, xlogy_eq, xlogy_eq]; ring
    · have hy' : 0 < y := lt_of_le_of_ne hy0 (Ne.symm h0)
      rw [ylogydu_eq, xlogy_eq, xlogy_eq, Real.log_div hy'.ne' hmu0.ne',
        Real.log_div hy'.ne' hn.ne', Real.log_div hmu0.ne' hn.ne']
      ring
  have hB : ylogydu (n - y) (n - mu) = xlogy (n - y) ((n - y) / n) - xlogy (n - y) ((n - mu) / n) := by
    by_cases h0 : n - y = 0
    · rw [h0, ylogydu_zero, xlogy_eq, xlogy_eq]; ring
    · have hy' : 0 < n - y := lt_of_le_of_ne (by linarith) (Ne.symm h0)
      rw [ylogydu_eq, xlogy_eq, xlogy_eq, Real.log_div hy'.ne' hnm.ne',
        Real.log_div hy'.ne' hn.ne', Real.log_div hnm.ne' hn.ne']
      ring
  rw [hA, hB]; ring

theorem poisson_kernel_identity (n : ℝ) {y mu : ℝ} (hy : 0 ≤ y) (hmu : 0 < mu) (scale : ℝ) :
    unitDeviance .poisson n y mu
      = 2 * 1 * (logKernel .poisson n scale 1 y y - logKernel .poisson n scale 1 y mu) := by
  simp only [unitDeviance, logKernel, two_real, mul_one]
  have hA : ylogydu y mu = xlogy y y - xlogy y mu := by
    by_cases h0 : y = 0
    · subst h0; rw [ylogydu_zero, xlogy_eq, xlogy_eq]; ring
    · rw [ylogydu_eq, xlogy_eq, xlogy_eq, Real.log_div h0 hmu.ne']; ring
  rw [hA]; ring

theorem gamma_kernel_identity (n : ℝ) {scale w y mu : ℝ} (hs : 0 < scale) (hw : 0 < w) (hy : 0 < y)
    (hmu : 0 < mu) :
    w * unitDeviance .gamma n y mu
      = 2 * scale * (logKernel .gamma n scale w y y - logKernel .gamma n scale w y mu) := by
  simp only [unitDeviance, logKernel, two_real, hlog_real]
  have hnu : 0 < w / scale := by positivity
  rw [Real.log_div hy.ne' hmu.ne', Real.log_div hy.ne' hnu.ne', Real.log_div hmu.ne' hnu.ne']
  field_simp
  ring

theorem invGauss_kernel_identity (n : ℝ) {scale w y mu : ℝ} (hs : 0 < scale) (_hw : 0 < w) (hy : 0 < y)
    (hmu : 0 < mu) :
    w * unitDeviance .invGauss n y mu
      = 2 * scale * (logKernel .invGauss n scale w y y - logKernel .invGauss n scale w y mu) := by
  simp only [unitDeviance, logKernel, two_real]
  field_simp
  ring

end PyGam
