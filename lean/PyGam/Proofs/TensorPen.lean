import PyGam.Proofs.Kron
/-!
Tensor penalties for any number of marginals: appending a marginal `m` to the marginals `ms` gives
`P(ms ++ [m]) = P(ms) ⊗ I + I ⊗ P_m`  (C04).
-/
open Finset
namespace PyGam
variable {α : Type} [CommRing α]

theorem kron_ident_ident (nb : Nat) (hnb : 0 < nb) (i j : Nat) :
    kronMat (ident (α := α)) nb (ident (α := α)) i j = ident i j := by
  simp only [kronMat, ident]
  by_cases h : i = j
  · subst h; simp
  · have : ¬ (i / nb = j / nb ∧ i % nb = j % nb) := by
      rintro ⟨h1, h2⟩
      apply h
      calc i = nb * (i / nb) + i % nb := (Nat.div_add_mod i nb).symm
        _ = nb * (j / nb) + j % nb := by rw [h1, h2]
        _ = j := Nat.div_add_mod j nb
    by_cases h1 : i / nb = j / nb
    · have h2 : ¬ (i % nb = j % nb) := fun q => this ⟨h1, q⟩
      simp [h, h1, h2]
    · simp [h, h1]

theorem margPenLift_append (per : Nat → Nat → Nat → α) (i : Nat) (ms : List (Marg α)) (m : Marg α) :
    ∀ (acc : Nat → Nat → α) (pos : Nat),
      margPenLift per i acc pos (ms ++ [m])
        = kronMat (margPenLift per i acc pos ms) m.nCoefs
            (if pos + ms.length = i then m.penalty per else ident) := by
  induction ms with
  | nil => intro acc pos; simp [margPenLift]
  | cons a ms ih =>
    intro acc pos
    simp only [List.cons_append, margPenLift, List.length_cons]
    rw [ih]
    have : pos + 1 + ms.length = pos + (ms.length + 1) := by omega
    rw [this]

theorem foldr_add_mul_const (L : List Nat) (f : Nat → α) (k : α) :
    (L.map (fun i => f i * k)).foldr (· + ·) 0 = (L.map f).foldr (· + ·) 0 * k := by
  induction L with
  | nil => simp
  | cons x xs ih => simp only [List.map_cons, List.foldr_cons]; rw [ih]; ring

/-- lifting with no active slot keeps the identity -/
theorem margPenLift_ident (per : Nat → Nat → Nat → α) (i : Nat) (ms : List (Marg α))
    (hpos : ∀ m ∈ ms, 0 < m.nCoefs) :
    ∀ pos, (∀ k, k < ms.length → pos + k ≠ i) →
      margPenLift per i (ident (α := α)) pos ms = ident := by
  induction ms with
  | nil => intro pos _; rfl
  | cons a ms ih =>
    intro pos hne
    simp only [margPenLift]
    have h0 : pos ≠ i := by simpa using hne 0 (by simp)
    rw [if_neg h0]
    have : kronMat (ident (α := α)) a.nCoefs (ident (α := α)) = ident := by
      funext x y; exact kron_ident_ident a.nCoefs (hpos a (List.mem_cons_self ..)) x y
    rw [this]
    apply ih (fun m hm => hpos m (List.mem_cons_of_mem _ hm)) (pos+1)
    intro k hk
    have := hne (k+1) (by simp; omega)
    omega

theorem foldr_add_range_succ (n : Nat) (f : Nat → α) :
    ((List.range (n+1)).map f).foldr (· + ·) 0 = ((List.range n).map f).foldr (· + ·) 0 + f n := by
  rw [List.range_succ, List.map_append, List.foldr_append]
  simp only [List.map_cons, List.map_nil, List.foldr_cons, List.foldr_nil, add_zero]
  induction (List.range n).map f with
  | nil => simp
  | cons x xs ih => simp only [List.foldr_cons]; rw [ih]; ring

/-- **appending a marginal**: `P(a :: ms ++ [m]) = P(a :: ms) ⊗ I + I ⊗ P_m` -/
theorem tensorPenalty_append (per : Nat → Nat → Nat → α) (a : Marg α) (ms : List (Marg α)) (m : Marg α)
    (hpos : ∀ x ∈ a :: ms, 0 < x.nCoefs) (r c : Nat) :
    tensorPenalty per (a :: (ms ++ [m])) r c
      = kronMat (tensorPenalty per (a :: ms)) m.nCoefs (ident (α := α)) r c
        + kronMat (ident (α := α)) m.nCoefs (m.penalty per) r c := by
  have hlen : (a :: (ms ++ [m])).length = (a :: ms).length + 1 := by simp
  simp only [tensorPenalty]
  rw [hlen, foldr_add_range_succ]
  congr 1
  · -- the old marginals: each lifted once more by ⊗ I
    have hterm : ∀ i, i < (a :: ms).length →
        tensorPenaltyAt per i (a :: (ms ++ [m])) r c
          = tensorPenaltyAt per i (a :: ms) (r / m.nCoefs) (c / m.nCoefs) * ident (r % m.nCoefs) (c % m.nCoefs) := by
      intro i hi
      simp only [tensorPenaltyAt]
      rw [margPenLift_append]
      have : ¬ (1 + ms.length = i) := by simp at hi; omega
      rw [if_neg this]; rfl
    have e : (List.range (a :: ms).length).map (fun i => tensorPenaltyAt per i (a :: (ms ++ [m])) r c)
        = (List.range (a :: ms).length).map (fun i =>
            tensorPenaltyAt per i (a :: ms) (r / m.nCoefs) (c / m.nCoefs) * ident (r % m.nCoefs) (c % m.nCoefs)) := by
      apply List.map_congr_left; intro i hi; exact hterm i (List.mem_range.mp hi)
    rw [e, foldr_add_mul_const]
    rfl
  · -- the new marginal: identities in every old slot
    simp only [tensorPenaltyAt]
    rw [margPenLift_append]
    have h1 : (1 + ms.length = (a :: ms).length) := by simp; omega
    have h0 : ¬ ((a :: ms).length = 0) := by simp
    rw [if_pos h1, if_neg h0]
    rw [margPenLift_ident per (a :: ms).length ms (fun x hx => hpos x (List.mem_cons_of_mem _ hx)) 1
      (by intro k hk; simp; omega)]

end PyGam
