import PyGam.Model.Search
import Mathlib.Data.List.Basic
import Mathlib.Data.List.Forall2
import Mathlib.Data.List.Nodup
import Mathlib.Algebra.BigOperators.Group.List.Basic
import Mathlib.Order.Defs.LinearOrder
import Mathlib.Order.Basic
/-!
# Helper lemmas for `PyGam.Model.Search` (combine, the candidate loop)
-/
namespace PyGam.Search
variable {β γ δ : Type}

theorem combineRev_length (rgs : List (List β)) (h : rgs ≠ []) :
    (combineRev rgs).length = (rgs.map List.length).prod := by
  fun_induction combineRev rgs with
  | case1 => exact absurd rfl h
  | case2 g => simp
  | case3 g g' rest ih =>
    have := ih (by simp)
    simp only [List.length_flatMap, List.length_map, List.map_const', List.sum_replicate, this]
    simp [Nat.mul_comm]

theorem mem_combineRev (rgs : List (List β)) (h : rgs ≠ []) (rc : List β) :
    rc.reverse ∈ combineRev rgs ↔ List.Forall₂ (fun x g => x ∈ g) rc rgs := by
  fun_induction combineRev rgs generalizing rc with
  | case1 => exact absurd rfl h
  | case2 g =>
    simp only [List.mem_map, List.forall₂_cons_right_iff, List.forall₂_nil_right_iff]
    constructor
    · rintro ⟨a, ha, hrc⟩
      refine ⟨a, [], ha, rfl, ?_⟩
      have := congrArg List.reverse hrc
      simpa using this.symm
    · rintro ⟨a, u, ha, rfl, rfl⟩
      exact ⟨a, ha, by simp⟩
  | case3 g g' rest ih =>
    rw [List.forall₂_cons_right_iff]
    simp only [List.mem_flatMap, List.mem_map]
    constructor
    · rintro ⟨leaf, hleaf, node, hnode, hrc⟩
      refine ⟨node, leaf.reverse, hnode, ?_, ?_⟩
      · rw [← ih (by simp)]; simpa using hleaf
      · have := congrArg List.reverse hrc
        simpa using this.symm
    · rintro ⟨a, u, ha, hu, rfl⟩
      refine ⟨u.reverse, (ih (by simp) u).mpr hu, a, ha, by simp⟩

theorem combine_single (g : List β) : combine [g] = g.map (fun a => [a]) := by
  simp [combine, combineRev]

theorem combine_snoc (gs : List (List β)) (h : gs ≠ []) (g : List β) :
    combine (gs ++ [g]) = (combine gs).flatMap (fun leaf => g.map (fun node => leaf ++ [node])) := by
  unfold combine
  rw [List.reverse_append]
  cases hr : gs.reverse with
  | nil => exact absurd (by simpa using hr) h
  | cons g' rest => simp [combineRev]

theorem combineRev_nodup (rgs : List (List β)) (h : ∀ g ∈ rgs, g.Nodup) : (combineRev rgs).Nodup := by
  fun_induction combineRev rgs with
  | case1 => simp
  | case2 g =>
    exact (h g (by simp)).map (fun a b hab => by simpa using hab)
  | case3 g g' rest ih =>
    rw [List.nodup_flatMap]
    refine ⟨fun leaf _ => ?_, ?_⟩
    · exact (h g (by simp)).map (fun a b hab => by simpa using hab)
    · have hnd := ih (fun x hx => h x (by simp [List.mem_cons] at hx ⊢; tauto))
      refine hnd.imp ?_
      intro a b hab
      simp only [Function.onFun, List.disjoint_left, List.mem_map]
      rintro x ⟨n1, _, rfl⟩ ⟨n2, _, h2⟩
      exact hab (List.append_inj_left' h2 rfl).symm

theorem flatMap_getElem?_const (l : List γ) (f : γ → List δ) (k : Nat) (hk : ∀ x ∈ l, (f x).length = k)
    (i j : Nat) (hi : i < l.length) (hj : j < k) :
    (l.flatMap f)[i * k + j]? = (f l[i])[j]? := by
  induction l generalizing i with
  | nil => simp at hi
  | cons x xs ih =>
    rw [List.flatMap_cons]
    cases i with
    | zero =>
      simp only [Nat.zero_mul, Nat.zero_add, List.getElem_cons_zero]
      exact List.getElem?_append_left (by rw [hk x (by simp)]; exact hj)
    | succ i' =>
      have hlen : (f x).length = k := hk x (by simp)
      rw [List.getElem?_append_right (by rw [hlen, Nat.succ_mul]; omega)]
      have : (i' + 1) * k + j - (f x).length = i' * k + j := by rw [hlen, Nat.succ_mul]; omega
      rw [this, ih (fun y hy => hk y (by simp [hy])) i' (by simpa using hi)]
      simp

section loop
variable {α : Type} [LinearOrder α]

/-- invariant of the candidate loop -/
def LoopInv (inf : α) (st : LoopState α) : Prop :=
  (∀ x ∈ st.models, st.bestScore ≤ x.2) ∧
  (match st.best with
   | some r => ∃ pre post, st.models = pre ++ (r, st.bestScore) :: post ∧ ∀ x ∈ pre, st.bestScore < x.2
   | none => st.bestScore = inf)

theorem loopInv_init (inf : α) (ss : Option α) : LoopInv inf (initState inf ss) := by
  cases ss with
  | none => simp [LoopInv, initState]
  | some s => exact ⟨by simp [initState], [], [], by simp [initState], by simp⟩

theorem loopInv_step (inf : α) (st : LoopState α) (i : Nat) (o : Option α) (h : LoopInv inf st) :
    LoopInv inf (step st i o) := by
  cases o with
  | none => exact h
  | some s =>
    obtain ⟨h1, h2⟩ := h
    unfold step
    by_cases hlt : s < st.bestScore
    · simp only [hlt, if_true]
      refine ⟨?_, st.models, [], rfl, ?_⟩
      · intro x hx
        rcases List.mem_append.mp hx with hx | hx
        · exact le_trans (le_of_lt hlt) (h1 x hx)
        · simp at hx; subst hx; exact le_refl _
      · intro x hx; exact lt_of_lt_of_le hlt (h1 x hx)
    · simp only [hlt, if_false]
      refine ⟨?_, ?_⟩
      · intro x hx
        rcases List.mem_append.mp hx with hx | hx
        · exact h1 x hx
        · simp at hx; subst hx; exact not_lt.mp hlt
      · cases hb : st.best with
        | none => simp only [hb] at h2 ⊢; exact h2
        | some r =>
          simp only [hb] at h2 ⊢
          obtain ⟨pre, post, hm, hpre⟩ := h2
          exact ⟨pre, post ++ [(Ref.cand i, s)], by simp [hm], hpre⟩

theorem loopInv_loopFrom (inf : α) (st : LoopState α) (i : Nat) (outs : List (Option α)) (h : LoopInv inf st) :
    LoopInv inf (loopFrom st i outs) := by
  induction outs generalizing st i with
  | nil => exact h
  | cons o os ih => exact ih _ _ (loopInv_step inf st i o h)

theorem step_bestScore_le (st : LoopState α) (i : Nat) (o : Option α) : (step st i o).bestScore ≤ st.bestScore := by
  cases o with
  | none => exact le_refl _
  | some s =>
    unfold step
    by_cases hlt : s < st.bestScore
    · simp [hlt, le_of_lt hlt]
    · simp [hlt]

theorem loopFrom_bestScore_le (st : LoopState α) (i : Nat) (outs : List (Option α)) :
    (loopFrom st i outs).bestScore ≤ st.bestScore := by
  induction outs generalizing st i with
  | nil => exact le_refl _
  | cons o os ih => exact le_trans (ih _ _) (step_bestScore_le st i o)

theorem step_models (st : LoopState α) (i : Nat) (o : Option α) :
    (step st i o).models = st.models ++ (o.map (fun s => (Ref.cand i, s))).toList := by
  cases o with
  | none => simp [step]
  | some s => unfold step; by_cases hlt : s < st.bestScore <;> simp [hlt]

theorem loopFrom_models (st : LoopState α) (i : Nat) (outs : List (Option α)) :
    (loopFrom st i outs).models =
      st.models ++ (outs.zipIdx i).filterMap (fun p => p.1.map (fun s => (Ref.cand p.2, s))) := by
  induction outs generalizing st i with
  | nil => simp [loopFrom]
  | cons o os ih =>
    simp only [loopFrom, ih, step_models, List.zipIdx_cons, List.append_assoc]
    cases o <;> simp

theorem step_best_isSome (st : LoopState α) (i : Nat) (o : Option α) (h : st.best.isSome = true) :
    (step st i o).best.isSome = true := by
  cases o with
  | none => exact h
  | some s => unfold step; by_cases hlt : s < st.bestScore <;> simp [hlt, h]

theorem loopFrom_best_isSome (st : LoopState α) (i : Nat) (outs : List (Option α)) (h : st.best.isSome = true) :
    (loopFrom st i outs).best.isSome = true := by
  induction outs generalizing st i with
  | nil => exact h
  | cons o os ih => exact ih _ _ (step_best_isSome st i o h)

theorem loopFrom_models_length (st : LoopState α) (i : Nat) (outs : List (Option α)) :
    (loopFrom st i outs).models.length = st.models.length + (outs.filter Option.isSome).length := by
  induction outs generalizing st i with
  | nil => simp [loopFrom]
  | cons o os ih =>
    simp only [loopFrom, ih, step_models]
    cases o with
    | none => simp
    | some s => simp; omega

end loop
end PyGam.Search
