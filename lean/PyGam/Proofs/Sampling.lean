import PyGam.Model.Sampling
import PyGam.Proofs.Vec
import PyGam.Proofs.Links
import PyGam.Proofs.Dists
import Mathlib.Tactic.Linarith
import Mathlib.Tactic.NormNum
import Mathlib.Algebra.BigOperators.Group.List.Lemmas
import Mathlib.Data.List.Dedup
/-!
# Helper lemmas for C17 (`Model/Sampling.lean`)

* `allSome`: shape and entries of a successful result;
* the grouping of draws by bootstrap index when every index is `0` (`n_bootstraps = 1`);
* `loadDiagonal`, `sqrtEpsMach` over a field.
-/
set_option linter.unnecessarySeqFocus false
namespace PyGam

/-! ## `allSome` -/

theorem allSome_eq_some {β : Type} : ∀ (l : List (Option β)) (v : List β), allSome l = some v → l = v.map some
  | [], v, h => by
      simp only [allSome, Option.some.injEq] at h; subst h; rfl
  | none :: l, v, h => by simp [allSome] at h
  | some a :: l, v, h => by
      simp only [allSome, Option.map_eq_some_iff] at h
      obtain ⟨w, hw, rfl⟩ := h
      rw [allSome_eq_some l w hw]; rfl

theorem allSome_length {β : Type} (l : List (Option β)) (v : List β) (h : allSome l = some v) :
    v.length = l.length := by
  rw [allSome_eq_some l v h, List.length_map]

/-! ## grouping of the draws when there is one bootstrap -/

theorem firstAppearance_cons (b : Nat) (l : List Nat) :
    firstAppearance (b :: l) = b :: (firstAppearance l).filter (· != b) := rfl

/-- the contract of `np.random.choice(np.arange(1), size=n)`: `n` values, all `< 1` — i.e. all zero -/
theorem choice_one_eq_replicate (idx : List Nat) (n : Nat) (hlen : idx.length = n) (hlt : ∀ b ∈ idx, b < 1) :
    idx = List.replicate n 0 := by
  subst hlen
  exact List.eq_replicate_of_mem (fun b hb => by have := hlt b hb; omega)

theorem drawCount_replicate (n : Nat) : drawCount (List.replicate n 0) 0 = n := by
  simp [drawCount]

theorem mvnCalls_replicate (n : Nat) (hn : 0 < n) : mvnCalls (List.replicate n 0) = [(0, n)] := by
  obtain ⟨k, rfl⟩ : ∃ k, n = k + 1 := ⟨n - 1, by omega⟩
  have hfa : firstAppearance (List.replicate (k + 1) 0) = [0] := by
    induction k with
    | zero => rfl
    | succ k ih =>
        rw [List.replicate_succ, firstAppearance_cons, ih (by omega)]; rfl
  simp only [mvnCalls, hfa, List.map_cons, List.map_nil, drawCount_replicate]

/-! ## every draw is accounted for -/

theorem mem_firstAppearance (l : List Nat) (b : Nat) : b ∈ firstAppearance l ↔ b ∈ l := by
  induction l with
  | nil => simp [firstAppearance]
  | cons a l ih =>
    rw [firstAppearance_cons]
    simp only [List.mem_cons, List.mem_filter, ih, bne_iff_ne, ne_eq]
    constructor
    · rintro (h | ⟨h, _⟩)
      · exact Or.inl h
      · exact Or.inr h
    · rintro (h | h)
      · exact Or.inl h
      · by_cases hb : b = a
        · exact Or.inl hb
        · exact Or.inr ⟨h, hb⟩

theorem nodup_firstAppearance (l : List Nat) : (firstAppearance l).Nodup := by
  induction l with
  | nil => simp [firstAppearance]
  | cons a l ih =>
    rw [firstAppearance_cons, List.nodup_cons]
    refine ⟨?_, ih.filter _⟩
    simp [List.mem_filter]

theorem mvnCalls_sizes_sum (idx : List Nat) : ((mvnCalls idx).map (·.2)).sum = idx.length := by
  have hperm : (firstAppearance idx).Perm idx.dedup :=
    (List.perm_ext_iff_of_nodup (nodup_firstAppearance idx) (List.nodup_dedup idx)).mpr
      (fun b => by rw [mem_firstAppearance, List.mem_dedup])
  have : (mvnCalls idx).map (·.2) = (firstAppearance idx).map (fun b => idx.count b) := by
    simp only [mvnCalls, List.map_map]
    apply List.map_congr_left; intro b _
    simp [drawCount, List.count_eq_length_filter]
  rw [this, (hperm.map _).sum_eq, List.sum_map_count_dedup_eq_length]

section draws
variable {α : Type} [Zero α]

/-- with every index `0`, draw `d` is row `d` of the single MVN call (call number `0`, `size = n`) made with the
first bootstrap -/
theorem coefDraw_replicate (g : Gens α) (bt : Boot α) (rest : List (Boot α)) (n d : Nat) (hd : d < n) :
    coefDraw g (bt :: rest) (List.replicate n 0) d = g.mvn 0 bt n d := by
  obtain ⟨k, rfl⟩ : ∃ k, n = k + 1 := ⟨n - 1, by omega⟩
  have hb : (List.replicate (k + 1) 0).getD d 0 = 0 := by
    have : d ≤ k := by omega
    simp [List.getD, this]
  have hfa : (firstAppearance (List.replicate (k + 1) 0)).idxOf 0 = 0 := by
    rw [List.replicate_succ, firstAppearance_cons]; simp
  have hp : (((List.replicate (k + 1) 0).take d).filter (· == 0)).length = d := by
    rw [List.take_replicate]; simp; omega
  simp only [coefDraw, hb, hfa, hp, drawCount_replicate]
  rfl

end draws

/-! ## diagonal loading -/
section load
variable {α : Type} [Field α]

theorem loadDiagonal_apply (load : α) (cov : Nat → Nat → α) (i j : Nat) :
    loadDiagonal load cov i j = cov i j + if i = j then load else 0 := by
  unfold loadDiagonal ident
  split <;> simp

theorem loadDiagonalVec_apply (load : Nat → α) (cov : Nat → Nat → α) (i j : Nat) :
    loadDiagonalVec load cov i j = cov i j + if i = j then load j else 0 := by
  unfold loadDiagonalVec ident
  split <;> simp

theorem loadedCov_apply (cov : Nat → Nat → α) (i j : Nat) :
    loadedCov cov i j = cov i j + if i = j then sqrtEpsMach * cov i i else 0 := by
  unfold loadedCov relLoad
  rw [loadDiagonalVec_apply]
  split
  · next h => subst h; rfl
  · rfl

theorem pow2_eq (n : Nat) : (pow2 n : α) = 2 ^ n := by
  induction n with
  | zero => simp [pow2]
  | succ n ih => simp only [pow2, ih, pow_succ]; ring

/-- `sqrtEpsMach = 2^-26`, whose square is the machine epsilon `2^-52` of IEEE doubles -/
theorem sqrtEpsMach_eq : (sqrtEpsMach : α) = 1 / 2 ^ 26 := by
  unfold sqrtEpsMach; rw [pow2_eq]

end load

theorem sqrtEpsMach_sq_real : (sqrtEpsMach : ℝ) * sqrtEpsMach = 1 / 2 ^ 52 := by
  rw [sqrtEpsMach_eq]; norm_num

theorem sqrtEpsMach_pos_real : (0 : ℝ) < sqrtEpsMach := by
  rw [sqrtEpsMach_eq]; positivity

open Finset in
/-- `xᵀ (cov + √ε diag cov) x = xᵀ cov x + √ε Σ_i x_i² cov_ii` -/
theorem quadForm_loadedCov (m : Nat) (cov : Nat → Nat → ℝ) (x : Nat → ℝ) :
    quadForm m (loadedCov cov) x = quadForm m cov x + sqrtEpsMach * ∑ i ∈ range m, x i ^ 2 * cov i i := by
  simp only [quadForm, sumTo_eq, loadedCov_apply]
  rw [mul_sum, ← sum_add_distrib]
  apply sum_congr rfl; intro i hi
  have h : ∀ j, x i * (cov i j + if i = j then sqrtEpsMach * cov i i else 0) * x j
      = x i * cov i j * x j + (if i = j then x i * (sqrtEpsMach * cov i i) * x j else 0) := by
    intro j; split <;> ring
  simp only [h, sum_add_distrib, sum_ite_eq, hi, if_true]
  ring

open Finset in
/-- a positive semi-definite matrix has a non-negative diagonal -/
theorem diag_nonneg_of_psd (m : Nat) (cov : Nat → Nat → ℝ) (hpsd : ∀ x : Nat → ℝ, 0 ≤ quadForm m cov x)
    (i : Nat) (hi : i < m) : 0 ≤ cov i i := by
  have h := hpsd (fun k => if k = i then 1 else 0)
  have e : quadForm m cov (fun k => if k = i then (1 : ℝ) else 0) = cov i i := by
    simp only [quadForm, sumTo_eq]
    simp [ite_mul, mul_ite, mem_range.mpr hi]
  rwa [e] at h

/-! ## validation -/

theorem validateSample_eq_none_iff (quantity : Option Quantity) (fitted : Bool) (nBoot nDraws : Int)
    (dataOk : Bool) :
    validateSample quantity fitted nBoot nDraws dataOk = none ↔
      (quantity.isSome = true ∧ fitted = true ∧ 1 ≤ nBoot ∧ 1 ≤ nDraws ∧ dataOk = true) := by
  unfold validateSample
  cases quantity <;> cases fitted <;> cases dataOk <;>
    by_cases h1 : nBoot < 1 <;> by_cases h2 : nDraws < 1 <;> simp [h1, h2] <;> omega

end PyGam
