import PyGam.Proofs.Heap
/-!
# Frame rules of the primitive calls of the heap model

For every primitive `P` (with target model `i`): which cells it may write (`P_frame`), which model records it
may change (`P_models`), and that it keeps the separation invariant (`P_inv`).
-/
namespace PyGam.Heap

/-- heaps only grow, and every cell of `w` outside `T` / `D` / `L` is unchanged in `w'` -/
structure Frame (w w' : World) (T D L : List Nat) : Prop where
  tlen : w.terms.length ≤ w'.terms.length
  dlen : w.dists.length ≤ w'.dists.length
  llen : w.logs.length ≤ w'.logs.length
  term : ∀ t, t < w.terms.length → t ∉ T → w'.terms[t]? = w.terms[t]?
  dist : ∀ d, d < w.dists.length → d ∉ D → w'.dists[d]? = w.dists[d]?
  log : ∀ l, l < w.logs.length → l ∉ L → w'.logs[l]? = w.logs[l]?

theorem Frame.refl (w : World) (T D L : List Nat) : Frame w w T D L :=
  ⟨Nat.le_refl _, Nat.le_refl _, Nat.le_refl _, fun _ _ _ => rfl, fun _ _ _ => rfl, fun _ _ _ => rfl⟩

/-- pure allocation -/
theorem Frame.of_append {w w' : World} {a : List TermObj} {b : List DistObj} {c : List (List Data)}
    (ht : w'.terms = w.terms ++ a) (hd : w'.dists = w.dists ++ b) (hl : w'.logs = w.logs ++ c) :
    Frame w w' [] [] [] := by
  refine ⟨by simp [ht], by simp [hd], by simp [hl], fun t h _ => ?_, fun d h _ => ?_, fun l h _ => ?_⟩
  · rw [ht, List.getElem?_append_left h]
  · rw [hd, List.getElem?_append_left h]
  · rw [hl, List.getElem?_append_left h]

theorem Frame.trans {w w' w'' : World} {T D L T' D' L' : List Nat}
    (h1 : Frame w w' T D L) (h2 : Frame w' w'' T' D' L')
    (hT : ∀ t ∈ T', t < w.terms.length → t ∈ T) (hD : ∀ d ∈ D', d < w.dists.length → d ∈ D)
    (hL : ∀ l ∈ L', l < w.logs.length → l ∈ L) : Frame w w'' T D L := by
  refine ⟨Nat.le_trans h1.tlen h2.tlen, Nat.le_trans h1.dlen h2.dlen, Nat.le_trans h1.llen h2.llen,
    fun t h hn => ?_, fun d h hn => ?_, fun l h hn => ?_⟩
  · rw [h2.term t (Nat.lt_of_lt_of_le h h1.tlen) (fun h' => hn (hT t h' h)), h1.term t h hn]
  · rw [h2.dist d (Nat.lt_of_lt_of_le h h1.dlen) (fun h' => hn (hD d h' h)), h1.dist d h hn]
  · rw [h2.log l (Nat.lt_of_lt_of_le h h1.llen) (fun h' => hn (hL l h' h)), h1.log l h hn]

theorem Frame.weaken {w w' : World} {T D L T' D' L' : List Nat} (h : Frame w w' T D L)
    (hT : ∀ t ∈ T, t ∈ T') (hD : ∀ d ∈ D, d ∈ D') (hL : ∀ l ∈ L, l ∈ L') : Frame w w' T' D' L' :=
  ⟨h.tlen, h.dlen, h.llen, fun t ht hn => h.term t ht (fun h' => hn (hT t h')),
    fun d hd hn => h.dist d hd (fun h' => hn (hD d h')), fun l hl hn => h.log l hl (fun h' => hn (hL l h'))⟩

theorem World.term_eq (w : World) (t : Nat) : w.term t = (w.terms[t]?).getD default := by
  simp [World.term, List.getD_eq_getElem?_getD]
theorem World.dist_eq (w : World) (d : Nat) : w.dist d = (w.dists[d]?).getD default := by
  simp [World.dist, List.getD_eq_getElem?_getD]
theorem World.log_eq (w : World) (l : Nat) : w.log l = (w.logs[l]?).getD [] := by
  simp [World.log, List.getD_eq_getElem?_getD]

/-- a model whose objects are not written is seen unchanged -/
theorem viewOf_of_frame {w w' : World} {T D L : List Nat} (hf : Frame w w' T D L) (m : Model)
    (hok : m.okIn w.terms.length w.dists.length w.logs.length)
    (hT : ∀ t ∈ m.terms, t ∉ T) (hD : m.dist ∉ D) (hL : ∀ l, m.logs = some l → l ∉ L) :
    w'.viewOf m = w.viewOf m := by
  obtain ⟨o1, o2, o3⟩ := hok
  have e1 : m.terms.map w'.term = m.terms.map w.term := by
    apply List.map_congr_left
    intro t ht
    rw [World.term_eq, World.term_eq, hf.term t (o1 t ht) (hT t ht)]
  have e2 : w'.dist m.dist = w.dist m.dist := by
    rw [World.dist_eq, World.dist_eq, hf.dist _ o2 hD]
  have e3 : m.logs.map w'.log = m.logs.map w.log := by
    cases hl : m.logs with
    | none => rfl
    | some l => simp only [Option.map_some]; rw [World.log_eq, World.log_eq, hf.log l (o3 l hl) (hL l hl)]
  simp [World.viewOf, e1, e2, e3]

/-- the caller's expressions, by value -/
def World.exprView (w : World) (e : Nat) : Option (List TermObj) := (w.exprs[e]?).map (·.map w.term)

theorem view_of_frame {w w' : World} {T D L : List Nat} {j : Nat} (hinv : Inv w) (hf : Frame w w' T D L)
    (hm : w'.models[j]? = w.models[j]?)
    (hj : ∀ m, w.models[j]? = some m → (∀ t ∈ m.terms, t ∉ T) ∧ m.dist ∉ D ∧ ∀ l, m.logs = some l → l ∉ L) :
    w'.view j = w.view j := by
  unfold World.view
  rw [hm]
  cases h : w.models[j]? with
  | none => rfl
  | some m =>
    obtain ⟨a, b, c⟩ := hj m h
    simp [viewOf_of_frame hf m (hinv.ok j m h) a b c]

/-! ## allocation-only primitives -/

theorem mkExpr_frame (w : World) (specs : List TermSet) : Frame w (mkExpr w specs) [] [] [] :=
  Frame.of_append (a := specs.map TermObj.fresh) (b := []) (c := []) rfl (by simp [mkExpr]) (by simp [mkExpr])

theorem mkExpr_inv {w : World} (specs : List TermSet) (h : Inv w) : Inv (mkExpr w specs) := by
  unfold Inv mkExpr
  simp only [List.length_append, List.length_map]
  refine InvS.pushExpr h (Nat.le_add_right _ _) (fun t ht => Or.inl ?_)
  simpa [mem_freshIds] using ht

theorem joinExpr_frame (w : World) (a b : Nat) : Frame w (joinExpr w a b) [] [] [] :=
  Frame.of_append (a := []) (b := []) (c := []) (by simp [joinExpr]) (by simp [joinExpr]) (by simp [joinExpr])

theorem joinExpr_inv {w : World} (a b : Nat) (h : Inv w) : Inv (joinExpr w a b) := by
  unfold Inv joinExpr
  refine InvS.pushExpr h (Nat.le_refl _) (fun t ht => Or.inr ?_)
  have hmem : ∀ (k : Nat) (t : Nat), t ∈ w.exprs.getD k [] → ∃ e ∈ w.exprs, t ∈ e := by
    intro k t ht
    rw [List.getD_eq_getElem?_getD] at ht
    cases hk : w.exprs[k]? with
    | none => simp [hk] at ht
    | some e => exact ⟨e, List.mem_of_getElem? hk, by simpa [hk] using ht⟩
  rcases List.mem_append.mp ht with h1 | h1
  · exact hmem a t h1
  · exact hmem b t (List.mem_filter.mp h1).1

theorem construct_frame (w : World) (cls : Cls) (mset : Nat) (sk : Bool) (e : Nat) :
    Frame w (construct w cls mset sk e) [] [] [] :=
  Frame.of_append (c := []) rfl rfl (by simp [construct])

theorem construct_inv {w : World} (cls : Cls) (mset : Nat) (sk : Bool) (e : Nat) (h : Inv w) :
    Inv (construct w cls mset sk e) := by
  unfold Inv construct
  simp only [List.length_append, List.length_map, List.length_cons, List.length_nil]
  refine InvS.push h (Nat.le_add_right _ _) (Nat.le_add_right _ _) (Nat.le_refl _) ⟨fun t ht => ?_, ?_, ?_⟩
  · simpa [mem_freshIds] using ht
  · simp
  · simp

theorem copyModel_frame (w : World) (i : Nat) : Frame w (copyModel w i) [] [] [] := by
  unfold copyModel
  split
  · exact Frame.refl ..
  · exact Frame.of_append rfl rfl rfl

theorem copyModel_inv {w : World} (i : Nat) (h : Inv w) : Inv (copyModel w i) := by
  unfold copyModel
  split
  · exact h
  · next m hm =>
    unfold Inv
    simp only [List.length_append, List.length_map, List.length_cons, List.length_nil]
    refine InvS.push h (Nat.le_add_right _ _) (Nat.le_add_right _ _) (Nat.le_add_right _ _) ⟨fun t ht => ?_, ?_, ?_⟩
    · simpa [mem_freshIds] using ht
    · simp
    · intro l hl
      cases hml : m.logs with
      | none => simp [hml] at hl
      | some l0 => simp [hml] at hl; subst hl; simp

theorem copyModel_models (w : World) (i j : Nat) (hj : j < w.models.length) :
    (copyModel w i).models[j]? = w.models[j]? := by
  unfold copyModel
  split
  · rfl
  · exact List.getElem?_append_left hj

theorem adopt_frame (w : World) (i b : Nat) : Frame w (adopt w i b) [] [] [] := by
  unfold adopt
  split
  · exact Frame.refl ..
  · split
    · exact Frame.of_append rfl rfl rfl
    · exact Frame.refl ..

theorem adopt_models (w : World) (i b j : Nat) (hj : j ≠ i) : (adopt w i b).models[j]? = w.models[j]? := by
  unfold adopt
  split
  · rfl
  · split
    · exact List.getElem?_set_ne (Ne.symm hj)
    · rfl

theorem adopt_inv {w : World} (i b : Nat) (h : Inv w) : Inv (adopt w i b) := by
  unfold adopt
  split
  · exact h
  · next mb hmb =>
    split
    · next hi =>
      obtain ⟨m, hm⟩ : ∃ m, w.models[i]? = some m := ⟨w.models[i], List.getElem?_eq_getElem hi⟩
      unfold Inv
      simp only [List.length_append, List.length_map]
      refine InvS.set h (Nat.le_add_right _ _) (Nat.le_add_right _ _) (Nat.le_add_right _ _) hm
        ⟨fun t ht => Or.inr ?_, Or.inr ?_, fun l hl => Or.inr ?_⟩
      · simpa [mem_freshIds] using ht
      · simp
      · cases hml : mb.logs with
        | none => simp [hml] at hl
        | some l0 => simp [hml] at hl; subst hl; simp
    · exact h

/-! ## `set_params` -/

theorem setTerms_frame (w : World) (i : Nat) (f : Nat → TermObj → TermObj) (m : Model) (hm : w.models[i]? = some m) :
    Frame w (setTerms w i f) m.terms [] [] := by
  unfold setTerms
  rw [hm]
  exact ⟨by simp, Nat.le_refl _, Nat.le_refl _, fun t _ hn => getElem?_updMany_of_not_mem _ _ _ hn,
    fun _ _ _ => rfl, fun _ _ _ => rfl⟩

theorem setTerms_models (w : World) (i : Nat) (f : Nat → TermObj → TermObj) : (setTerms w i f).models = w.models := by
  unfold setTerms; split <;> rfl

theorem setTerms_inv {w : World} (i : Nat) (f : Nat → TermObj → TermObj) (h : Inv w) : Inv (setTerms w i f) := by
  unfold setTerms
  split
  · exact h
  · show InvS _ _ _ _ _
    simpa [Inv] using h

theorem setModel_frame (w : World) (i c : Nat) : Frame w (setModel w i c) [] [] [] := by
  unfold setModel
  split
  · exact Frame.refl ..
  · exact Frame.of_append (a := []) (b := []) (c := []) (by simp) (by simp) (by simp)

theorem setModel_models (w : World) (i c j : Nat) (hj : j ≠ i) : (setModel w i c).models[j]? = w.models[j]? := by
  unfold setModel
  split
  · rfl
  · exact List.getElem?_set_ne (Ne.symm hj)

theorem setModel_inv {w : World} (i c : Nat) (h : Inv w) : Inv (setModel w i c) := by
  unfold setModel
  split
  · exact h
  · next m hm =>
    unfold Inv
    exact InvS.set h (Nat.le_refl _) (Nat.le_refl _) (Nat.le_refl _) hm
      ⟨fun t ht => Or.inl ht, Or.inl rfl, fun l hl => Or.inl hl⟩

/-! ## `gam.terms = e` -/

theorem assignTerms_frame (w : World) (i e : Nat) : Frame w (assignTerms w i e) [] [] [] := by
  unfold assignTerms
  split
  · exact Frame.of_append (b := []) (c := []) rfl (by simp) (by simp)
  · exact Frame.refl ..

theorem assignTerms_models (w : World) (i e j : Nat) (hj : j ≠ i) : (assignTerms w i e).models[j]? = w.models[j]? := by
  unfold assignTerms
  split
  · exact List.getElem?_set_ne (Ne.symm hj)
  · rfl

theorem assignTerms_exprs (w : World) (i e : Nat) : (assignTerms w i e).exprs = w.exprs := by
  unfold assignTerms; split <;> rfl

theorem assignTerms_length (w : World) (i e : Nat) : (assignTerms w i e).models.length = w.models.length := by
  unfold assignTerms; split <;> simp

theorem assignTerms_inv {w : World} (i e : Nat) (h : Inv w) : Inv (assignTerms w i e) := by
  unfold assignTerms
  split
  · next m ex hm hex =>
    unfold Inv
    simp only [List.length_append, List.length_map]
    refine InvS.set h (Nat.le_add_right _ _) (Nat.le_refl _) (Nat.le_refl _) hm
      ⟨fun t ht => Or.inr ?_, Or.inl rfl, fun l hl => Or.inl hl⟩
    simpa [mem_freshIds] using ht
  · exact h

/-! ## `prepare`, `fit` -/

/-- the record of model `i` after `_validate_params(); _validate_data_dep_params(X_d)` -/
def preparedRec (w : World) (m : Model) : Model :=
  { m with terms := freshIds w.terms.length m.terms.length,
           dist := if m.cls.recreatesDist then w.dists.length else m.dist }

theorem prepare_model (env : Env) (w : World) (i : Nat) (d : Data) (m : Model) (hm : w.models[i]? = some m) :
    (prepare env w i d).models[i]? = some (preparedRec w m) := by
  have hi : i < w.models.length := (List.getElem?_eq_some_iff.mp hm).1
  unfold prepare
  rw [hm]
  simp [preparedRec, hi]

theorem prepare_models (env : Env) (w : World) (i : Nat) (d : Data) (j : Nat) (hj : j ≠ i) :
    (prepare env w i d).models[j]? = w.models[j]? := by
  unfold prepare
  split
  · rfl
  · exact List.getElem?_set_ne (Ne.symm hj)

theorem prepare_frame (env : Env) (w : World) (i : Nat) (d : Data) : Frame w (prepare env w i d) [] [] [] := by
  unfold prepare
  split
  · exact Frame.refl ..
  · next m hm =>
    refine Frame.of_append (b := if m.cls.recreatesDist then [⟨m.scaleKnown, none⟩] else []) (c := []) rfl ?_ (by simp)
    show (if m.cls.recreatesDist = true then _ else _) = _
    split <;> simp

theorem prepare_inv {env : Env} {w : World} (i : Nat) (d : Data) (h : Inv w) : Inv (prepare env w i d) := by
  unfold prepare
  split
  · exact h
  · next m hm =>
    unfold Inv
    simp only [List.length_append, List.length_map]
    refine InvS.set (m' := preparedRec w m)
      (nd' := (if m.cls.recreatesDist = true then w.dists ++ [⟨m.scaleKnown, none⟩] else w.dists).length)
      h (Nat.le_add_right _ _) ?_ (Nat.le_refl _) hm ⟨fun t ht => Or.inr ?_, ?_, fun l hl => Or.inl hl⟩
    · split <;> simp
    · simpa [mem_freshIds, preparedRec] using ht
    · show (if m.cls.recreatesDist = true then w.dists.length else m.dist) = m.dist ∨ _
      split
      · next hr => right; simp [preparedRec, hr]
      · left; rfl

theorem pirls_models (w : World) (i : Nat) (d : Data) (k : Nat) (j : Nat) (hj : j ≠ i) :
    (pirls w i d k).models[j]? = w.models[j]? := by
  unfold pirls
  split
  · rfl
  · exact List.getElem?_set_ne (Ne.symm hj)

theorem pirls_frame (w : World) (i : Nat) (d : Data) (k : Nat) (m : Model) (hm : w.models[i]? = some m) :
    Frame w (pirls w i d k) [] [m.dist] m.logs.toList := by
  unfold pirls
  rw [hm]
  cases hml : m.logs with
  | none =>
    refine ⟨Nat.le_refl _, by simp, by simp, fun _ _ _ => rfl, fun d' _ hn => ?_, fun l hl _ => ?_⟩
    · exact getElem?_upd_ne _ _ (by simpa using hn)
    · simp only [hml, Option.getD_none]
      rw [getElem?_upd_ne _ _ (Nat.ne_of_lt hl), List.getElem?_append_left hl]
  | some l0 =>
    refine ⟨Nat.le_refl _, by simp, by simp, fun _ _ _ => rfl, fun d' _ hn => ?_, fun l hl hn => ?_⟩
    · exact getElem?_upd_ne _ _ (by simpa using hn)
    · simp only [hml, Option.getD_some, List.append_nil]
      exact getElem?_upd_ne _ _ (by simpa using hn)

theorem pirls_inv {w : World} (i : Nat) (d : Data) (k : Nat) (h : Inv w) : Inv (pirls w i d k) := by
  unfold pirls
  split
  · exact h
  · next m hm =>
    unfold Inv
    simp only [length_upd]
    cases hml : m.logs with
    | none =>
      refine InvS.set (m' := { m with logs := some w.logs.length, fitted := _ }) h (Nat.le_refl _) (Nat.le_refl _) (by simp) hm
        ⟨fun t ht => Or.inl ht, Or.inl rfl, fun l hl => Or.inr ?_⟩
      simp at hl; subst hl; simp
    | some l0 =>
      refine InvS.set (m' := { m with logs := some l0, fitted := _ }) h (Nat.le_refl _) (Nat.le_refl _) (by simp) hm
        ⟨fun t ht => Or.inl ht, Or.inl rfl, fun l hl => Or.inl ?_⟩
      simp at hl; subst hl; exact hml

theorem fitModel_models (env : Env) (w : World) (i : Nat) (d : Data) (k : Nat) (j : Nat) (hj : j ≠ i) :
    (fitModel env w i d k).models[j]? = w.models[j]? := by
  unfold fitModel
  rw [pirls_models _ _ _ _ _ hj, prepare_models _ _ _ _ _ hj]

/-- `fit` writes no existing term object at all; of the existing distribution objects and log dictionaries it
writes at most the model's own -/
theorem fitModel_frame (env : Env) (w : World) (i : Nat) (d : Data) (k : Nat) (m : Model) (hm : w.models[i]? = some m) :
    Frame w (fitModel env w i d k) [] [m.dist] m.logs.toList := by
  unfold fitModel
  have h1 := prepare_frame env w i d
  have h2 := pirls_frame (prepare env w i d) i d k _ (prepare_model env w i d m hm)
  refine Frame.trans (h1.weaken (fun _ h => nomatch h) (fun _ h => nomatch h) (fun _ h => nomatch h)) h2
    (fun _ h => nomatch h) (fun d' hd hlt => ?_) (fun l hl _ => by simpa [preparedRec] using hl)
  simp only [preparedRec, List.mem_singleton] at hd ⊢
  split at hd
  · omega
  · exact hd

theorem fitModel_inv {env : Env} {w : World} (i : Nat) (d : Data) (k : Nat) (h : Inv w) : Inv (fitModel env w i d k) :=
  pirls_inv i d k (prepare_inv i d h)

theorem fitModel_length (env : Env) (w : World) (i : Nat) (d : Data) (k : Nat) :
    (fitModel env w i d k).models.length = w.models.length := by
  unfold fitModel pirls prepare
  repeat' split
  all_goals simp_all

end PyGam.Heap
