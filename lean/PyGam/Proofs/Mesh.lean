import PyGam.Model.Predict
import Mathlib.Data.List.Nodup
import Mathlib.Algebra.BigOperators.Group.Finset.Basic
import Mathlib.Algebra.BigOperators.Intervals
import Mathlib.Algebra.Order.BigOperators.Group.Finset
import Mathlib.Algebra.Order.Field.Basic
import Mathlib.Tactic.Ring
/-!
# PyGam.Proofs.Mesh — the `n^k` default mesh of a k-way tensor term

`gridRowTensor` (Model/Predict.lean) mirrors `np.meshgrid(*Xs, indexing='ij')` + `_flatten_mesh` (row-major ravel):
marginal `j` reads mesh digit `(r / n^(k-1-j)) % n` of row `r`, later marginals overwrite earlier ones on a shared
feature.  Here: the value written into the column of a marginal whose feature no later marginal shares, and the
mixed-radix facts that make the rows of the mesh the full Cartesian product, each combination exactly once.
-/
open Finset
namespace PyGam
variable {α : Type} [Field α]

theorem go_not_mem (n r f k : Nat) (ms : List (Marg α)) (j : Nat) (acc : α)
    (h : f ∉ ms.map (·.feature)) : gridRowTensor.go n r f k ms j acc = acc := by
  induction ms generalizing j acc with
  | nil => simp [gridRowTensor.go]
  | cons m rest ih =>
    have hm : f ≠ m.feature := by intro e; apply h; simp [e]
    have hr : f ∉ rest.map (·.feature) := by intro e; apply h; simp at e ⊢; right; exact e
    simp [gridRowTensor.go, hm, ih _ _ hr]

theorem go_at (n r k : Nat) (pre : List (Marg α)) (m : Marg α) (post : List (Marg α)) (j : Nat) (acc : α)
    (h : m.feature ∉ post.map (·.feature)) :
    gridRowTensor.go n r m.feature k (pre ++ m :: post) j acc
      = linspacePt m.e0 m.e1 n ((r / n ^ (k - 1 - (j + pre.length))) % n) := by
  induction pre generalizing j acc with
  | nil => simp [gridRowTensor.go, go_not_mem _ _ _ _ _ _ _ h]
  | cons p pre ih =>
    simp only [List.cons_append, gridRowTensor.go, List.length_cons]
    rw [ih]
    have e : j + 1 + pre.length = j + (pre.length + 1) := by omega
    rw [e]

theorem grid_tensor_split [LinearOrder α] [HasFract α] (pre : List (Marg α)) (m : Marg α) (post : List (Marg α))
    (by_ : Option Nat) (n r : Nat)
    (hnd : ((pre ++ m :: post).map (·.feature)).Nodup) (hby : by_ ≠ some m.feature) :
    gridRow (Term.tensor (pre ++ m :: post) by_) n r m.feature
      = linspacePt m.e0 m.e1 n ((r / n ^ ((pre ++ m :: post).length - 1 - pre.length)) % n) := by
  have hpost : m.feature ∉ post.map (·.feature) := by
    intro hmem
    rw [List.map_append, List.map_cons] at hnd
    have := (List.nodup_append.mp hnd).2.1
    exact (List.nodup_cons.mp this).1 hmem
  simp only [gridRow, gridRowTensor, hby, if_false]
  rw [go_at _ _ _ _ _ _ _ _ hpost]
  simp

/-- mesh digit `j` of row `r` -/
def meshDigit (n k j r : Nat) : Nat := (r / n ^ (k - 1 - j)) % n

theorem meshDigit_lt (n k j r : Nat) (hn : 0 < n) : meshDigit n k j r < n := Nat.mod_lt _ hn

/-- row-major reconstruction: a row index below `n^k` is determined by its `k` mesh digits -/
theorem mesh_recon (n : Nat) (hn : 0 < n) : ∀ (k r : Nat), r < n ^ k →
    r = ∑ j ∈ range k, meshDigit n k j r * n ^ (k - 1 - j) := by
  intro k
  induction k with
  | zero => intro r hr; simp at hr; simp [hr]
  | succ k ih =>
    intro r hr
    rw [Finset.sum_range_succ']
    have hlow : r % n ^ k < n ^ k := Nat.mod_lt _ (Nat.pow_pos hn)
    have h0 : meshDigit n (k+1) 0 r = r / n ^ k := by
      unfold meshDigit
      simp only [Nat.add_sub_cancel, Nat.sub_zero]
      apply Nat.mod_eq_of_lt
      rw [Nat.div_lt_iff_lt_mul (Nat.pow_pos hn)]
      calc r < n ^ (k+1) := hr
        _ = n * n ^ k := by ring
    have hrest : ∀ j ∈ range k, meshDigit n (k+1) (j+1) r * n ^ (k + 1 - 1 - (j+1))
        = meshDigit n k j (r % n ^ k) * n ^ (k - 1 - j) := by
      intro j hj
      have hjk : j < k := mem_range.mp hj
      have e1 : k + 1 - 1 - (j+1) = k - 1 - j := by omega
      rw [e1]
      congr 1
      unfold meshDigit
      rw [e1]
      -- (r % n^k) / n^(k-1-j) = (r / n^(k-1-j)) % n^(j+1)
      have hk : n ^ k = n ^ (k - 1 - j) * n ^ (j+1) := by rw [← pow_add]; congr 1; omega
      rw [hk, Nat.mod_mul_right_div_self]
      rw [Nat.mod_mod_of_dvd]
      exact dvd_pow_self n (by omega)
    rw [Finset.sum_congr rfl hrest, ← ih (r % n ^ k) hlow, h0]
    simp only [Nat.add_sub_cancel, Nat.sub_zero]
    rw [Nat.add_comm]; exact (Nat.div_add_mod' r (n ^ k)).symm

/-- two rows of the mesh with the same digits are the same row -/
theorem mesh_digits_inj (n k r r' : Nat) (hn : 0 < n) (hr : r < n ^ k) (hr' : r' < n ^ k)
    (h : ∀ j, j < k → meshDigit n k j r = meshDigit n k j r') : r = r' := by
  rw [mesh_recon n hn k r hr, mesh_recon n hn k r' hr']
  apply Finset.sum_congr rfl
  intro j hj
  rw [h j (mem_range.mp hj)]

/-- every combination of grid points occurs: the row built from digits `d` has exactly these digits -/
theorem mesh_digits_surj (n k : Nat) (hn : 0 < n) (d : Nat → Nat) (hd : ∀ j, j < k → d j < n) :
    ∃ r, r < n ^ k ∧ ∀ j, j < k → meshDigit n k j r = d j := by
  induction k generalizing d with
  | zero => exact ⟨0, by simp, by intro j hj; omega⟩
  | succ k ih =>
    obtain ⟨r', hr', hdig⟩ := ih (fun j => d (j+1)) (fun j hj => hd (j+1) (by omega))
    refine ⟨d 0 * n ^ k + r', ?_, ?_⟩
    · calc d 0 * n ^ k + r' < d 0 * n ^ k + n ^ k := by omega
        _ = (d 0 + 1) * n ^ k := by ring
        _ ≤ n * n ^ k := Nat.mul_le_mul_right _ (hd 0 (by omega))
        _ = n ^ (k+1) := by ring
    · intro j hj
      have hpk : 0 < n ^ k := Nat.pow_pos hn
      rcases j with _ | j
      · unfold meshDigit
        simp only [Nat.add_sub_cancel, Nat.sub_zero]
        rw [Nat.add_comm, Nat.add_mul_div_right _ _ hpk, Nat.div_eq_of_lt hr', Nat.zero_add]
        exact Nat.mod_eq_of_lt (hd 0 (by omega))
      · have hjk : j < k := by omega
        rw [← hdig j hjk]
        unfold meshDigit
        have e1 : k + 1 - 1 - (j+1) = k - 1 - j := by omega
        rw [e1]
        have hk : n ^ k = n ^ (k - 1 - j) * n ^ (j+1) := by rw [← pow_add]; congr 1; omega
        have hp : 0 < n ^ (k - 1 - j) := Nat.pow_pos hn
        rw [hk, ← Nat.mul_assoc, Nat.mul_comm (d 0), Nat.mul_assoc, Nat.add_comm,
          Nat.add_mul_div_left _ _ hp, Nat.add_mod]
        have : (d 0 * n ^ (j + 1)) % n = 0 := by
          rw [pow_succ, ← Nat.mul_assoc]; exact Nat.mul_mod_left _ _
        rw [this, Nat.add_zero, Nat.mod_mod]

end PyGam
