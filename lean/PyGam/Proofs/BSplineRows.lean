import PyGam.Proofs.BSpline
/-!
Row-level lemmas for `b_spline_basis`: the augmented uniform knots, interior rows, the two boundary rows,
the linear continuation and the periodic folding.
-/
open Finset
namespace PyGam
variable {α : Type} [Field α] [LinearOrder α] [IsStrictOrderedRing α]

section knots
variable (N p : Nat) (ε : α)

theorem augKnot_h_pos (hNp : p < N) : (0:α) < 1 / ((N : α) - (p : α)) := by
  have : (p : α) < (N : α) := by exact_mod_cast hNp
  apply one_div_pos.mpr; linarith

theorem augKnot_strictMono (hNp : p < N) (hε : 0 ≤ ε) : StrictMono (augKnot N p ε) := by
  apply strictMono_nat_of_lt_succ
  intro j
  have h := augKnot_h_pos (α := α) N p hNp
  simp only [augKnot]
  have hd : (if N + p ≤ j then ε else 0) ≤ (if N + p ≤ j + 1 then ε else 0) := by
    by_cases a : N + p ≤ j
    · have b : N + p ≤ j + 1 := by omega
      simp [a, b]
    · by_cases b : N + p ≤ j + 1
      · simp [a, b, hε]
      · simp [a, b]
  have : (((j+1 : Nat) : α) - (p:α)) * (1 / ((N : α) - (p : α)))
       = ((j : α) - (p:α)) * (1 / ((N : α) - (p : α))) + 1 / ((N : α) - (p : α)) := by
    push_cast; ring
  rw [this]; linarith

theorem augKnot_at_p (hN : 0 < N) : augKnot N p ε p = 0 := by
  simp only [augKnot]
  have : ¬ (N + p ≤ p) := by omega
  simp [this]

theorem augKnot_at_N (hNp : p < N) (hp : 0 < p) : augKnot N p ε N = 1 := by
  simp only [augKnot]
  have h1 : ¬ (N + p ≤ N) := by omega
  have : (p : α) < (N : α) := by exact_mod_cast hNp
  have hne : (N : α) - (p : α) ≠ 0 := by linarith [sub_pos.mpr this] |> ne_of_gt
  simp [h1]; field_simp

theorem augKnot_at_N_zero (hN : 0 < N) : augKnot N 0 ε N = 1 + ε := by
  simp only [augKnot]
  have : (0:α) < (N : α) := by exact_mod_cast hN
  have hne : (N : α) ≠ 0 := ne_of_gt this
  simp; field_simp
end knots

section rows
variable (N p : Nat) (ε : α)

theorem innerRow_nonneg (hNp : p < N) (hε : 0 ≤ ε) (x : α) (j : Nat) : 0 ≤ innerRow N p ε x j :=
  bspl_nonneg _ (augKnot_strictMono N p ε hNp hε) p j x

/-- interior rows (both edges included) sum to one; order 0 needs the `ε > 0` that makes the last knot inclusive -/
theorem innerRow_sum (hNp : p < N) (hε : 0 ≤ ε) (hε0 : p = 0 → 0 < ε) (x : α) (h0 : 0 ≤ x) (h1 : x ≤ 1) :
    ∑ j ∈ range N, innerRow N p ε x j = 1 := by
  have ht := augKnot_strictMono N p ε hNp hε
  simp only [innerRow]
  cases p with
  | zero =>
    apply bspl_partition _ ht 0 N x
    · rw [augKnot_at_p N 0 ε (by omega)]; exact h0
    · rw [augKnot_at_N_zero N ε (by omega)]; linarith [hε0 rfl]
  | succ q =>
    apply bspl_partition_closed _ ht q N x
    · rw [augKnot_at_p N (q+1) ε (by omega)]; exact h0
    · rw [augKnot_at_N N (q+1) ε hNp (by omega)]; exact h1

theorem innerRow_band (hNp : p < N) (hε : 0 ≤ ε) (x : α) (i j : Nat)
    (hi : innerRow N p ε x i ≠ 0) (hj : innerRow N p ε x j ≠ 0) : j ≤ i + p :=
  bspl_band _ (augKnot_strictMono N p ε hNp hε) p i j x hi hj

theorem haar_zero_eq (hNp : p < N) (hε : 0 ≤ ε) : haar (augKnot N p ε) (0:α) = indRow p := by
  have ht := augKnot_strictMono N p ε hNp hε
  apply haar_eq_ind _ ht p 0
  · rw [augKnot_at_p N p ε (by omega)]
  · have := ht (show p < p + 1 by omega)
    rw [augKnot_at_p N p ε (by omega)] at this; exact this

theorem haarMirror_eq (hNp : p < N) (hε : 0 ≤ ε) :
    haarMirror (augKnot N p ε) N p = indRow (α := α) (N - 1) := by
  funext j
  simp only [haarMirror, haar_zero_eq N p ε hNp hε, indRow]
  by_cases hj : j = N - 1
  · subst hj
    have a : N - 1 < N + p := by omega
    have b : N + p - 1 - (N - 1) = p := by omega
    simp [a, b]
  · by_cases a : j < N + p
    · have b : ¬ (N + p - 1 - j = p) := by omega
      simp [a, b, hj]
    · simp [a, hj]

theorem row0_sum (hNp : p < N) (hε : 0 ≤ ε) (hε0 : p = 0 → 0 < ε) :
    ∑ j ∈ range N, row0 N p ε j = 1 := by
  have := innerRow_sum N p ε hNp hε hε0 0 le_rfl zero_le_one
  simpa [innerRow, row0] using this

theorem row1_sum (hNp : p < N) (hε : 0 ≤ ε) : ∑ j ∈ range N, row1 N p ε j = 1 := by
  simp only [row1, haarMirror_eq N p ε hNp hε]
  exact deBoorH_sum _ (augKnot_strictMono N p ε hNp hε) (N-1) 1 p N (by omega) (by omega)

theorem gradOf_sum (prev : Nat → α) (h0 : prev 0 = 0) (hN : prev N = 0) :
    ∑ j ∈ range N, gradOf N p ε prev j = 0 := by
  simp only [gradOf]
  rw [← mul_sum]
  have : ∑ j ∈ range N, (prev j / (augKnot N p ε (j+p) - augKnot N p ε j)
        - prev (j+1) / (augKnot N p ε (j+p+1) - augKnot N p ε (j+1)))
      = prev 0 / (augKnot N p ε (0+p) - augKnot N p ε 0)
        - prev N / (augKnot N p ε (N+p) - augKnot N p ε N) := by
    have e : ∀ j, j + p + 1 = j + 1 + p := by intro j; omega
    simp only [e]
    exact sum_range_sub' (fun j => prev j / (augKnot N p ε (j+p) - augKnot N p ε j)) N
  rw [this, h0, hN]; simp

theorem prev0_zero (hNp : p < N) (hp : 0 < p) (hε : 0 ≤ ε) : prev0 N p ε 0 = 0 := by
  have ht := augKnot_strictMono N p ε hNp hε
  simp only [prev0]
  apply bspl_zero_of_ge _ ht
  have e : 0 + (p - 1) + 1 = p := by omega
  rw [e, augKnot_at_p N p ε (by omega)]

theorem prev0_N (hNp : p < N) (hp : 0 < p) (hε : 0 ≤ ε) : prev0 N p ε N = 0 := by
  have ht := augKnot_strictMono N p ε hNp hε
  simp only [prev0]
  apply bspl_zero_of_lt _ ht
  rw [augKnot_at_N N p ε hNp hp]; exact zero_lt_one

theorem prev1_zero (hNp : p < N) (hp : 0 < p) (hε : 0 ≤ ε) : prev1 N p ε 0 = 0 := by
  simp only [prev1, haarMirror_eq N p ε hNp hε]
  by_contra hne
  have := deBoorH_band (augKnot N p ε) (N-1) 1 (p-1) 0 hne
  omega

theorem prev1_N (hNp : p < N) (hε : 0 ≤ ε) : prev1 N p ε N = 0 := by
  simp only [prev1, haarMirror_eq N p ε hNp hε]
  by_contra hne
  have := deBoorH_band (augKnot N p ε) (N-1) 1 (p-1) N hne
  omega

/-- every row of the non-periodic basis sums to one: inside by partition of unity, outside (order ≥ 1)
because the boundary gradients telescope to zero -/
theorem openRow_sum (hNp : p < N) (hε : 0 ≤ ε) (hε0 : p = 0 → 0 < ε) (x : α)
    (hx : 0 < p ∨ (0 ≤ x ∧ x ≤ 1)) : ∑ j ∈ range N, openRow N p ε x j = 1 := by
  unfold openRow
  by_cases hl : x < 0 ∧ 0 < p
  · rw [if_pos hl]
    rw [sum_add_distrib, ← sum_mul,
      gradOf_sum N p ε _ (prev0_zero N p ε hNp hl.2 hε) (prev0_N N p ε hNp hl.2 hε),
      row0_sum N p ε hNp hε hε0]
    ring
  · rw [if_neg hl]
    by_cases hr : 1 < x ∧ 0 < p
    · rw [if_pos hr]
      rw [sum_add_distrib, ← sum_mul,
        gradOf_sum N p ε _ (prev1_zero N p ε hNp hr.2 hε) (prev1_N N p ε hNp hε),
        row1_sum N p ε hNp hε]
      ring
    · rw [if_neg hr]
      have h0 : 0 ≤ x := by
        rcases hx with hp | ⟨a, _⟩
        · by_contra h; exact hl ⟨not_le.mp h, hp⟩
        · exact a
      have h1 : x ≤ 1 := by
        rcases hx with hp | ⟨_, b⟩
        · by_contra h; exact hr ⟨not_le.mp h, hp⟩
        · exact b
      exact innerRow_sum N p ε hNp hε hε0 x h0 h1

end rows

section cyclic
variable (n p : Nat) (ε : α)

theorem max_eq_add_of_disjoint (a b : α) (ha : 0 ≤ a) (hb : 0 ≤ b) (h : a = 0 ∨ b = 0) :
    max a b = a + b := by
  rcases h with h | h
  · subst h; simp [hb]
  · subst h; simp [ha]

/-- folded (periodic) rows are non-negative and sum to one on the wrapped point `y ∈ [0,1]` -/
theorem cyclic_fold_sum (hnp : p < n) (hε : 0 ≤ ε) (hε0 : p = 0 → 0 < ε) (y : α) (h0 : 0 ≤ y) (h1 : y ≤ 1) :
    ∑ j ∈ range n, (if j < p then max (innerRow (n+p) p ε y j) (innerRow (n+p) p ε y (n+j))
                    else innerRow (n+p) p ε y j) = 1 := by
  have hNp : p < n + p := by omega
  have hs := innerRow_sum (n+p) p ε hNp hε hε0 y h0 h1
  have hnn := innerRow_nonneg (n+p) p ε hNp hε y
  have hfold : ∀ j, j < p → max (innerRow (n+p) p ε y j) (innerRow (n+p) p ε y (n+j))
      = innerRow (n+p) p ε y j + innerRow (n+p) p ε y (n+j) := by
    intro j hj
    apply max_eq_add_of_disjoint _ _ (hnn j) (hnn (n+j))
    by_contra h
    push Not at h
    have := innerRow_band (n+p) p ε hNp hε y j (n+j) h.1 h.2
    omega
  have e1 : ∑ j ∈ range n, (if j < p then max (innerRow (n+p) p ε y j) (innerRow (n+p) p ε y (n+j))
                    else innerRow (n+p) p ε y j)
      = ∑ j ∈ range n, (innerRow (n+p) p ε y j + (if j < p then innerRow (n+p) p ε y (n+j) else 0)) := by
    apply sum_congr rfl; intro j _
    by_cases hj : j < p
    · simp [hj, hfold j hj]
    · simp [hj]
  rw [e1, sum_add_distrib]
  have e2 : ∑ j ∈ range n, (if j < p then innerRow (n+p) p ε y (n+j) else 0)
      = ∑ j ∈ range p, innerRow (n+p) p ε y (n+j) := by
    have hsub : range p ⊆ range n := range_subset_range.mpr (le_of_lt hnp)
    rw [← sum_subset hsub (f := fun j => if j < p then innerRow (n+p) p ε y (n+j) else 0)]
    · apply sum_congr rfl; intro j hj; simp [mem_range.mp hj]
    · intro j _ hj; simp [mem_range] at hj; simp [not_lt.mpr hj]
  rw [e2, ← sum_range_add (fun j => innerRow (n+p) p ε y j) n p]
  exact hs

end cyclic
end PyGam
