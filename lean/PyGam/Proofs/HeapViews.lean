import PyGam.Proofs.HeapKeeps
/-!
# What the calls of the heap model produce, by value

`compile` overwrites all data-dependent state; the binding produced by `fit`; the views of a copy, of the model
after `keep_best`; sizes of the model list; the invariant along histories.
-/
namespace PyGam.Heap

/-- **`compile` overwrites all data-dependent term state**: compiling a term object gives the same result as
compiling a brand-new term object with the same settings -/
theorem compile_fresh_settings (env : Env) (d : Data) (t : TermObj) :
    compile env d (TermObj.fresh t.settings) = compile env d t := by
  obtain ⟨⟨kind, feature, nSplines, order, lam, userKnots⟩, knots⟩ := t
  cases kind <;> simp [compile, TermObj.fresh, TermObj.settings]

/-- `compile` does not change the settings -/
theorem compile_settings (env : Env) (d : Data) (t : TermObj) : (compile env d t).settings = t.settings := by
  obtain ⟨⟨kind, feature, nSplines, order, lam, userKnots⟩, knots⟩ := t
  cases kind <;> simp [compile, TermObj.settings]

theorem fresh_settings_of_valid (s : TermSet) (h : s.kind = .factor → s.nSplines = 0) : (TermObj.fresh s).settings = s := by
  obtain ⟨kind, feature, nSplines, order, lam, userKnots⟩ := s
  cases kind <;> simp_all [TermObj.fresh, TermObj.settings]

theorem map_getD_freshIds {α : Type} (l a : List α) (dflt : α) :
    (freshIds l.length a.length).map (fun t => (l ++ a).getD t dflt) = a := by
  apply List.ext_getElem
  · simp
  · intro n h1 h2
    simp [freshIds, List.getD_eq_getElem?_getD, List.getElem?_append_right, List.getElem?_eq_getElem h2]

theorem getD_append_length {α : Type} (l : List α) (x : α) (dflt : α) : (l ++ [x]).getD l.length dflt = x := by
  simp [List.getD_eq_getElem?_getD]

/-- the newly allocated term objects, read back -/
theorem term_map_of_terms (w2 : World) (l a : List TermObj) (h : w2.terms = l ++ a) :
    (freshIds l.length a.length).map w2.term = a := by
  have := map_getD_freshIds l a default
  unfold World.term
  rw [h]
  exact this

/-- a record pointing to fresh copies of everything `m` holds is seen like `m` -/
theorem viewOf_alloc (w w' : World) (m : Model)
    (ht : w'.terms = w.terms ++ m.terms.map w.term) (hd : w'.dists = w.dists ++ [w.dist m.dist])
    (hl : w'.logs = w.logs ++ (m.logs.map w.log).toList) :
    w'.viewOf { m with terms := freshIds w.terms.length (m.terms.map w.term).length, dist := w.dists.length,
                       logs := m.logs.map (fun _ => w.logs.length) } = w.viewOf m := by
  have e1 := term_map_of_terms w' _ _ ht
  have e2 : w'.dist w.dists.length = w.dist m.dist := by
    unfold World.dist; rw [hd]; exact getD_append_length ..
  have e3 : (m.logs.map (fun _ => w.logs.length)).map w'.log = m.logs.map w.log := by
    cases hml : m.logs with
    | none => rfl
    | some l =>
      simp only [Option.map_some, Option.some.injEq]
      unfold World.log
      rw [hl, hml]
      exact getD_append_length ..
  simp only [World.viewOf, e1, e2, e3]

/-! ## `fit` -/

theorem pirls_rec (w : World) (i : Nat) (d : Data) (k : Nat) (m : Model) (hm : w.models[i]? = some m) :
    (pirls w i d k).models[i]? = some { m with logs := some (m.logs.getD w.logs.length),
                                               fitted := some ⟨m.cls, m.mset, m.scaleKnown, m.terms.map w.term, d⟩ } := by
  have hi : i < w.models.length := (List.getElem?_eq_some_iff.mp hm).1
  unfold pirls; rw [hm]; simp [hi]

theorem pirls_terms (w : World) (i : Nat) (d : Data) (k : Nat) : (pirls w i d k).terms = w.terms := by
  unfold pirls; split <;> rfl

theorem prepare_terms (env : Env) (w : World) (i : Nat) (d : Data) (m : Model) (hm : w.models[i]? = some m) :
    (prepare env w i d).terms = w.terms ++ m.terms.map (fun t => compile env d (w.term t)) := by
  unfold prepare; rw [hm]

/-- the compiled term objects a fit of `m` on `d` works with are those of a brand-new model with `m`'s settings -/
theorem compiled_eq_fresh (env : Env) (w : World) (d : Data) (m : Model) :
    m.terms.map (fun t => compile env d (w.term t)) = ((w.viewOf m).settings.fitIn env d).terms := by
  simp [Settings.fitIn, World.viewOf, ModelView.settings, List.map_map, Function.comp_def, compile_fresh_settings]

/-- the record of model `i` after `fit` -/
theorem fitModel_rec (env : Env) (w : World) (i : Nat) (d : Data) (k : Nat) (m : Model) (hm : w.models[i]? = some m) :
    ∃ l, (fitModel env w i d k).models[i]? =
      some { preparedRec w m with logs := some l, fitted := some ((w.viewOf m).settings.fitIn env d) } := by
  have hp := prepare_model env w i d m hm
  have hr := pirls_rec (prepare env w i d) i d k _ hp
  have ht : (preparedRec w m).terms.map (prepare env w i d).term = m.terms.map (fun t => compile env d (w.term t)) := by
    have := term_map_of_terms (prepare env w i d) _ _ (prepare_terms env w i d m hm)
    simpa [preparedRec] using this
  refine ⟨(preparedRec w m).logs.getD (prepare env w i d).logs.length, ?_⟩
  unfold fitModel
  rw [hr, ht, compiled_eq_fresh]
  simp [preparedRec, Settings.fitIn, World.viewOf, ModelView.settings]

/-- the term objects of model `i` after `fit`, by value -/
theorem fitModel_terms (env : Env) (w : World) (i : Nat) (d : Data) (k : Nat) (m : Model) (hm : w.models[i]? = some m) :
    ((fitModel env w i d k).view i).map (·.terms) = some ((w.viewOf m).settings.fitIn env d).terms := by
  obtain ⟨l, hl⟩ := fitModel_rec env w i d k m hm
  unfold World.view
  rw [hl]
  simp only [Option.map_some, Option.some.injEq]
  have := term_map_of_terms (fitModel env w i d k) _ _
    (by unfold fitModel; rw [pirls_terms, prepare_terms env w i d m hm])
  rw [← compiled_eq_fresh]
  simpa [World.viewOf, preparedRec] using this

/-! ## `gam.terms = e` -/

theorem assignTerms_rec (w : World) (i e : Nat) (m : Model) (ex : List Nat) (hm : w.models[i]? = some m)
    (he : w.exprs[e]? = some ex) :
    (assignTerms w i e).models[i]? = some { m with terms := freshIds w.terms.length (ex.map w.term).length } := by
  have hi : i < w.models.length := (List.getElem?_eq_some_iff.mp hm).1
  unfold assignTerms
  rw [hm, he]
  simp [hi]

/-- after `gam.terms = e` the model holds copies of the expression's term objects and keeps everything else -/
theorem assignTerms_view {w : World} (h : Inv w) (i e : Nat) (m : Model) (ex : List Nat) (hm : w.models[i]? = some m)
    (he : w.exprs[e]? = some ex) :
    (assignTerms w i e).view i = some { w.viewOf m with terms := ex.map w.term } := by
  have hr := assignTerms_rec w i e m ex hm he
  have ht : (assignTerms w i e).terms = w.terms ++ ex.map w.term := by unfold assignTerms; rw [hm, he]
  have hd : (assignTerms w i e).dists = w.dists := by unfold assignTerms; rw [hm, he]
  have hl : (assignTerms w i e).logs = w.logs := by unfold assignTerms; rw [hm, he]
  have e1 := term_map_of_terms (assignTerms w i e) _ _ ht
  have hdist : (assignTerms w i e).dist = w.dist := by funext x; simp [World.dist, hd]
  have hlog : (assignTerms w i e).log = w.log := by funext x; simp [World.log, hl]
  unfold World.view
  rw [hr]
  simp only [Option.map_some, World.viewOf, e1, hdist, hlog]

/-! ## copies -/

theorem copyModel_view {w : World} (i : Nat) (m : Model) (hm : w.models[i]? = some m) :
    (copyModel w i).view w.models.length = w.view i := by
  unfold copyModel World.view
  rw [hm]
  simp only [List.getElem?_append_right (Nat.le_refl _), Nat.sub_self, List.getElem?_cons_zero, Option.map_some,
    Option.some.injEq]
  exact viewOf_alloc w _ m rfl rfl rfl

theorem adopt_view {w : World} (i b : Nat) (mb : Model) (hb : w.models[b]? = some mb) (hi : i < w.models.length) :
    (adopt w i b).view i = w.view b := by
  unfold adopt World.view
  rw [hb]
  simp only [hi, if_true, List.getElem?_set, Option.map_some, Option.some.injEq]
  exact viewOf_alloc w _ mb rfl rfl rfl

/-! ## sizes -/

theorem copyModel_length (w : World) (i : Nat) (hi : i < w.models.length) :
    (copyModel w i).models.length = w.models.length + 1 := by
  unfold copyModel
  rw [List.getElem?_eq_getElem hi]
  simp

theorem candidate_length (env : Env) (w : World) (i : Nat) (d : Data) (c : Nat × Nat) (hi : i < w.models.length) :
    (candidate env i d w c).models.length = w.models.length + 1 := by
  unfold candidate setLam
  rw [fitModel_length, setTerms_models, copyModel_length w i hi]

theorem candidates_length (env : Env) (i : Nat) (d : Data) (grid : List (Nat × Nat)) :
    ∀ (w : World), i < w.models.length → (grid.foldl (candidate env i d) w).models.length = w.models.length + grid.length := by
  induction grid with
  | nil => intro w _; rfl
  | cons c cs ih =>
    intro w hi
    have h1 := candidate_length env w i d c hi
    simp only [List.foldl_cons, List.length_cons]
    rw [ih _ (by omega), h1]; omega

/-! ## the invariant along histories -/

theorem inv_empty : Inv World.empty :=
  ⟨fun i m h => by simp [World.empty] at h, fun i j a b h => by simp [World.empty] at h,
    fun e h => by simp [World.empty] at h, fun e h => by simp [World.empty] at h⟩

/-- every call on model `i` (resp. every call that is not made on a model) leaves all other models and all
expressions as they were, and keeps the separation invariant -/
theorem step_keeps (env : Env) {w : World} (o : Op) (h : Inv w) : Keeps o.target.toList w (step env w o).1 := by
  cases o with
  | mkExpr specs => exact mkExpr_keeps specs h
  | joinExpr a b =>
    simp only [step]; split
    · exact joinExpr_keeps a b h
    · exact Keeps.refl h _
  | construct cls mset sk e =>
    simp only [step]; split
    · exact construct_keeps cls mset sk e h
    · exact Keeps.refl h _
  | fit i d k =>
    simp only [step]; split
    · exact fitModel_keeps i d k h
    · exact Keeps.refl h _
  | query q i d =>
    simp only [step]; split <;> exact Keeps.refl h _
  | sample i d boots =>
    simp only [step]; split
    · exact (sample_keeps i d boots h).1.weaken (fun _ hj => nomatch hj)
    · exact Keeps.refl h _
  | gridsearch i d keep grid win =>
    simp only [step]; split
    · exact gridsearch_keeps i d keep grid win h
    · exact Keeps.refl h _
  | setLam i c =>
    simp only [step]; split
    · exact setTerms_keeps i _ h
    · exact Keeps.refl h _
  | setOrder i c =>
    simp only [step]; split
    · exact setTerms_keeps i _ h
    · exact Keeps.refl h _
  | setModel i c =>
    simp only [step]; split
    · exact setModel_keeps i c h
    · exact Keeps.refl h _
  | copy i =>
    simp only [step]; split
    · exact copyModel_keeps i h
    · exact Keeps.refl h _
  | assignTerms i e =>
    simp only [step]; split
    · exact assignTerms_keeps i e h
    · exact Keeps.refl h _

theorem inv_step (env : Env) {w : World} (o : Op) (h : Inv w) : Inv (step env w o).1 := (step_keeps env o h).inv

theorem inv_run (env : Env) (hs : List Op) : ∀ {w : World}, Inv w → Inv (run env w hs) := by
  induction hs with
  | nil => intro w h; exact h
  | cons o os ih => intro w h; exact ih (inv_step env o h)

theorem run_append (env : Env) (w : World) (a b : List Op) : run env w (a ++ b) = run env (run env w a) b := by
  simp [run, List.foldl_append]

end PyGam.Heap
