import PyGam.Proofs.SplineShapeRows
import PyGam.Proofs.BSplineRows
/-!
# Quantitative monotonicity (C05): small coefficient violations give small function violations

If every first difference of the coefficients is at least `-δ` (`δ ≥ 0`), the spline inside its knot range is
non-decreasing up to `(N-1)·δ`:  `f(y) - (N-1) δ ≤ f(y')` for `0 ≤ y ≤ y' ≤ 1`.

Proof: split `c = c⁺ + e` with `e_j = Σ_{i<j} min (Δc_i) 0` (the accumulated violations, `-(N-1)δ ≤ e_j ≤ 0` for
`j < N`) and `c⁺` non-decreasing; `f_{c⁺}` is non-decreasing (`splineVal_mono_inside`) and `f_e`, a convex
combination of the `e_j` inside the range (rows are non-negative and sum to one), lies in `[-(N-1)δ, 0]`.
-/
open Finset
namespace PyGam
variable {α : Type} [Field α] [LinearOrder α] [IsStrictOrderedRing α]

/-- accumulated violations `e_j = Σ_{i<j} min (c_{i+1} - c_i) 0` -/
def accViol (c : Nat → α) (j : Nat) : α := ∑ i ∈ range j, min (c (i+1) - c i) 0

theorem accViol_nonpos (c : Nat → α) (j : Nat) : accViol c j ≤ 0 :=
  sum_nonpos (fun _ _ => min_le_right _ _)

theorem accViol_lower (c : Nat → α) (δ : α) (N : Nat) (hδ : ∀ i, i + 1 < N → -δ ≤ c (i+1) - c i) (hδ0 : 0 ≤ δ)
    (j : Nat) (hj : j < N) : -((N - 1 : Nat) : α) * δ ≤ accViol c j := by
  have h1 : ∀ i ∈ range j, -δ ≤ min (c (i+1) - c i) 0 := by
    intro i hi; have := mem_range.mp hi
    exact le_min (hδ i (by omega)) (by linarith)
  have h2 : ∑ _i ∈ range j, (-δ) ≤ accViol c j := sum_le_sum h1
  rw [sum_const, card_range, nsmul_eq_mul] at h2
  have h3 : ((j : Nat) : α) ≤ ((N - 1 : Nat) : α) := by exact_mod_cast (by omega : j ≤ N - 1)
  have : -((N - 1 : Nat) : α) * δ ≤ (j : α) * -δ := by nlinarith
  linarith

theorem sub_accViol_mono (c : Nat → α) (j : Nat) :
    c j - accViol c j ≤ c (j+1) - accViol c (j+1) := by
  simp only [accViol, sum_range_succ]
  have := min_le_left (c (j+1) - c j) 0
  linarith

section
variable (N p : Nat) (ε : α)

theorem splineVal_add (c d : Nat → α) (y : α) :
    splineVal N p ε (fun j => c j + d j) y = splineVal N p ε c y + splineVal N p ε d y := by
  simp [splineVal, add_mul, sum_add_distrib]

/-- inside the knot range the spline value lies between any bounds of its coefficients -/
theorem splineVal_between (hNp : p < N) (hε : 0 ≤ ε) (hε0 : p = 0 → 0 < ε) (e : Nat → α) (lo hi : α)
    (hlo : ∀ j < N, lo ≤ e j) (hhi : ∀ j < N, e j ≤ hi) (y : α) (h0 : 0 ≤ y) (h1 : y ≤ 1) :
    lo ≤ splineVal N p ε e y ∧ splineVal N p ε e y ≤ hi := by
  have hs := openRow_sum N p ε hNp hε hε0 y (Or.inr ⟨h0, h1⟩)
  have hnn : ∀ j, 0 ≤ openRow N p ε y j := by
    intro j; rw [openRow_inner N p ε y h0 h1]; exact innerRow_nonneg N p ε hNp hε y j
  constructor
  · calc lo = ∑ j ∈ range N, lo * openRow N p ε y j := by rw [← mul_sum, hs, mul_one]
      _ ≤ _ := sum_le_sum (fun j hj => mul_le_mul_of_nonneg_right (hlo j (mem_range.mp hj)) (hnn j))
  · calc splineVal N p ε e y ≤ ∑ j ∈ range N, hi * openRow N p ε y j :=
          sum_le_sum (fun j hj => mul_le_mul_of_nonneg_right (hhi j (mem_range.mp hj)) (hnn j))
      _ = hi := by rw [← mul_sum, hs, mul_one]

/-- **almost monotone**: first differences `≥ -δ` give `f(y) - (N-1) δ ≤ f(y')` inside the knot range -/
theorem splineVal_almost_mono (hNp : p < N) (hε : 0 ≤ ε) (hε0 : p = 0 → 0 < ε) (c : Nat → α) (δ : α)
    (hδ0 : 0 ≤ δ) (hδ : ∀ i, i + 1 < N → -δ ≤ c (i+1) - c i)
    (y y' : α) (h0 : 0 ≤ y) (hyy : y ≤ y') (h1 : y' ≤ 1) :
    splineVal N p ε c y - ((N - 1 : Nat) : α) * δ ≤ splineVal N p ε c y' := by
  have hsplit : ∀ z, splineVal N p ε c z
      = splineVal N p ε (fun j => c j - accViol c j) z + splineVal N p ε (accViol c) z := by
    intro z; rw [← splineVal_add]; congr 1; funext j; ring
  have hmono := splineVal_mono_inside N p ε hNp hε hε0 (fun j => c j - accViol c j)
    (fun j _ => sub_accViol_mono c j) y y' h0 hyy h1
  have hy := (splineVal_between N p ε hNp hε hε0 (accViol c) (-((N - 1 : Nat) : α) * δ) 0
    (fun j hj => accViol_lower c δ N hδ hδ0 j hj) (fun j _ => accViol_nonpos c j) y h0 (le_trans hyy h1)).2
  have hy' := (splineVal_between N p ε hNp hε hε0 (accViol c) (-((N - 1 : Nat) : α) * δ) 0
    (fun j hj => accViol_lower c δ N hδ hδ0 j hj) (fun j _ => accViol_nonpos c j) y' (le_trans h0 hyy) h1).1
  rw [hsplit y, hsplit y']; linarith

end
end PyGam
