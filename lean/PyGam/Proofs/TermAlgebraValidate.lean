import PyGam.Proofs.TermAlgebra
/-!
# `_validate_arguments` of the structural term model: what success means, idempotence
-/
namespace PyGam.TA

/-- what a successful `Term._validate_arguments` did -/
theorem validateBase_ok (d d' : Dict) (h : validateBase d = .ok d') :
    ∃ dt fl fs p l c,
      dget d "dtype" = some dt ∧ (dt = vstr "numerical" ∨ dt = vstr "categorical") ∧
      dget d "fit_linear" = some fl ∧ dget d "fit_splines" = some fs ∧ fl.pyEq fs = false ∧
      dget d "penalties" = some p ∧ p.wrap.all (okName penaltyNames) = true ∧
      dget d "lam" = some l ∧ checkAll l.wrap = .ok () ∧
      (broadcastLam l.wrap p.wrap.length).length = p.wrap.length ∧
      dget d "constraints" = some c ∧ c.wrap.all (okName constraintNames) = true ∧
      d' = dset (dset (dset d "penalties" (.list p.wrap)) "lam" (.list (broadcastLam l.wrap p.wrap.length)))
             "constraints" (.list c.wrap) := by
  unfold validateBase at h
  simp only [bind, Except.bind] at h
  cases h1 : attr d "dtype" with
  | error e => simp [h1] at h
  | ok dt =>
    simp only [h1] at h
    split at h
    · simp at h
    · rename_i hdt
      cases h2 : attr d "fit_linear" with
      | error e => simp [h2] at h
      | ok fl =>
        simp only [h2] at h
        cases h3 : attr d "fit_splines" with
        | error e => simp [h3] at h
        | ok fs =>
          simp only [h3] at h
          split at h
          · simp at h
          · rename_i hpe
            cases h4 : attr d "penalties" with
            | error e => simp [h4] at h
            | ok p =>
              simp only [h4] at h
              split at h
              · simp at h
              · rename_i hp
                rw [attr_dset_ne _ _ _ _ (by decide)] at h
                cases h5 : attr d "lam" with
                | error e => simp [h5] at h
                | ok l =>
                  simp only [h5] at h
                  cases h6 : checkAll l.wrap with
                  | error e => simp [h6] at h
                  | ok u =>
                    simp only [h6] at h
                    split at h
                    · simp at h
                    · rename_i hlen
                      rw [attr_dset_ne _ _ _ _ (by decide), attr_dset_ne _ _ _ _ (by decide),
                        attr_dset_ne _ _ _ _ (by decide)] at h
                      cases h7 : attr d "constraints" with
                      | error e => simp [h7] at h
                      | ok c =>
                        simp only [h7] at h
                        split at h
                        · simp at h
                        · rename_i hc
                          refine ⟨dt, fl, fs, p, l, c, (attr_ok _ _ _).mp h1, ?_, (attr_ok _ _ _).mp h2,
                            (attr_ok _ _ _).mp h3, by simpa using hpe, (attr_ok _ _ _).mp h4, by simpa using hp,
                            (attr_ok _ _ _).mp h5, h6, by simpa using hlen, (attr_ok _ _ _).mp h7, by simpa using hc, ?_⟩
                          · have hdt' : ¬dt = vstr "numerical" → dt = vstr "categorical" := by simpa using hdt
                            by_cases hn : dt = vstr "numerical"
                            · exact Or.inl hn
                            · exact Or.inr (hdt' hn)
                          · rw [dset_dset] at h
                            simpa using h.symm
theorem attr_of_dget {d : Dict} {k : String} {v : Val} (h : dget d k = some v) : attr d k = .ok v :=
  (attr_ok d k v).mpr h

/-- the conditions under which `Term._validate_arguments` succeeds, and its result -/
theorem validateBase_of (d : Dict) (dt fl fs p l c : Val)
    (h1 : dget d "dtype" = some dt) (h1' : dt = vstr "numerical" ∨ dt = vstr "categorical")
    (h2 : dget d "fit_linear" = some fl) (h3 : dget d "fit_splines" = some fs) (h3' : fl.pyEq fs = false)
    (h4 : dget d "penalties" = some p) (h4' : p.wrap.all (okName penaltyNames) = true)
    (h5 : dget d "lam" = some l) (h5' : checkAll l.wrap = .ok ())
    (h5'' : (broadcastLam l.wrap p.wrap.length).length = p.wrap.length)
    (h6 : dget d "constraints" = some c) (h6' : c.wrap.all (okName constraintNames) = true) :
    validateBase d = .ok (dset (dset (dset d "penalties" (.list p.wrap)) "lam"
      (.list (broadcastLam l.wrap p.wrap.length))) "constraints" (.list c.wrap)) := by
  unfold validateBase
  simp only [bind, Except.bind]
  rw [attr_of_dget h1]
  have hdt : (!(dt == vstr "numerical" || dt == vstr "categorical")) = false := by
    rcases h1' with h | h <;> simp [h]
  simp only [hdt, Bool.false_eq_true, if_false]
  rw [attr_of_dget h2, attr_of_dget h3]
  simp only [h3', Bool.false_eq_true, if_false]
  rw [attr_of_dget h4]
  simp only [h4', Bool.not_true, Bool.false_eq_true, if_false]
  rw [attr_dset_ne _ _ _ _ (by decide), attr_of_dget h5]
  simp only [h5', h5'', ne_eq, not_true_eq_false, if_false]
  rw [attr_dset_ne _ _ _ _ (by decide), attr_dset_ne _ _ _ _ (by decide), attr_dset_ne _ _ _ _ (by decide),
    attr_of_dget h6]
  simp only [h6', Bool.not_true, Bool.false_eq_true, if_false, dset_dset]

theorem checkAll_replicate (x : Sc) (n : Nat) (h : checkSc x = .ok ()) : checkAll (List.replicate n x) = .ok () := by
  induction n with
  | zero => simp [checkAll]
  | succ n ih => simp [List.replicate_succ, checkAll, h, ih, bind, Except.bind]

theorem checkAll_broadcast (l : List Sc) (n : Nat) (h : checkAll l = .ok ()) : checkAll (broadcastLam l n) = .ok () := by
  unfold broadcastLam
  split
  · rename_i x
    apply checkAll_replicate
    simp only [checkAll, bind, Except.bind] at h
    split at h
    · simp at h
    · rename_i u hu; cases u; exact hu
  · exact h

theorem broadcastLam_of_length (l : List Sc) (n : Nat) (h : l.length = n) : broadcastLam l n = l := by
  unfold broadcastLam
  split
  · simp at h; subst h; simp
  · rfl

theorem wrap_list (l : List Sc) : (Val.list l).wrap = l := rfl

/-- validation is idempotent: a validated dictionary is a fixed point -/
theorem validateBase_idem (d d' : Dict) (h : validateBase d = .ok d') : validateBase d' = .ok d' := by
  obtain ⟨dt, fl, fs, p, l, c, h1, h1', h2, h3, h3', h4, h4', h5, h5', h5'', h6, h6', rfl⟩ := validateBase_ok d d' h
  have e := validateBase_of
    (dset (dset (dset d "penalties" (.list p.wrap)) "lam" (.list (broadcastLam l.wrap p.wrap.length))) "constraints" (.list c.wrap))
    dt fl fs (.list p.wrap) (.list (broadcastLam l.wrap p.wrap.length)) (.list c.wrap)
    (by rw [dget_dset_ne _ _ _ _ (by decide), dget_dset_ne _ _ _ _ (by decide), dget_dset_ne _ _ _ _ (by decide)]; exact h1) h1'
    (by rw [dget_dset_ne _ _ _ _ (by decide), dget_dset_ne _ _ _ _ (by decide), dget_dset_ne _ _ _ _ (by decide)]; exact h2)
    (by rw [dget_dset_ne _ _ _ _ (by decide), dget_dset_ne _ _ _ _ (by decide), dget_dset_ne _ _ _ _ (by decide)]; exact h3) h3'
    (by rw [dget_dset_ne _ _ _ _ (by decide), dget_dset_ne _ _ _ _ (by decide), dget_dset_eq]) (by simpa [wrap_list] using h4')
    (by rw [dget_dset_ne _ _ _ _ (by decide), dget_dset_eq]) (by rw [wrap_list]; exact checkAll_broadcast _ _ h5')
    (by rw [wrap_list, wrap_list, broadcastLam_of_length _ _ h5'']; exact h5'')
    (by rw [dget_dset_eq]) (by simpa [wrap_list] using h6')
  rw [e]
  simp only [wrap_list, broadcastLam_of_length _ _ h5'']
  congr 1
  rw [dset_same _ "constraints", dset_same _ "lam", dset_same _ "penalties"]
  · rw [dget_dset_ne _ _ _ _ (by decide), dget_dset_ne _ _ _ _ (by decide), dget_dset_eq]
  · rw [dset_same _ "penalties"]
    · rw [dget_dset_ne _ _ _ _ (by decide), dget_dset_eq]
    · rw [dget_dset_ne _ _ _ _ (by decide), dget_dset_ne _ _ _ _ (by decide), dget_dset_eq]
  · rw [dset_same _ "lam", dset_same _ "penalties"]
    · rw [dget_dset_eq]
    · rw [dget_dset_ne _ _ _ _ (by decide), dget_dset_ne _ _ _ _ (by decide), dget_dset_eq]
    · rw [dset_same _ "penalties"]
      · rw [dget_dset_ne _ _ _ _ (by decide), dget_dset_eq]
      · rw [dget_dset_ne _ _ _ _ (by decide), dget_dset_ne _ _ _ _ (by decide), dget_dset_eq]
theorem validateSpline_eq (d d' : Dict) (h : validateSpline d = .ok d') : d' = d := by
  unfold validateSpline at h
  simp only [bind, Except.bind] at h
  repeat' (split at h)
  all_goals (first | (cases h; rfl) | (simp at h))

theorem validateFactor_eq (d d' : Dict) (h : validateFactor d = .ok d') : d' = d := by
  unfold validateFactor at h
  simp only [bind, Except.bind] at h
  repeat' (split at h)
  all_goals (first | (cases h; rfl) | (simp at h))

theorem validateK_idem (k : Kind) (d d' : Dict) (h : validateK k d = .ok d') : validateK k d' = .ok d' := by
  cases k with
  | intercept => simp [validateK]
  | linear => exact validateBase_idem d d' h
  | spline =>
    simp only [validateK, bind, Except.bind] at h ⊢
    cases hb : validateBase d with
    | error e => simp [hb] at h
    | ok d1 =>
      simp only [hb] at h
      have := validateSpline_eq d1 d' h
      subst this
      rw [validateBase_idem d _ hb]
      exact h
  | factor =>
    simp only [validateK, bind, Except.bind] at h ⊢
    cases hb : validateBase d with
    | error e => simp [hb] at h
    | ok d1 =>
      simp only [hb] at h
      cases hs : validateSpline d1 with
      | error e => simp [hs] at h
      | ok d2 =>
        simp only [hs] at h
        have e2 := validateSpline_eq d1 d2 hs
        subst e2
        have e3 := validateFactor_eq _ d' h
        subst e3
        rw [validateBase_idem d _ hb]
        simp only [hs]
        exact h
/-- the attribute value handed to a term by the plural setter -/
def valOf (v : List Sc) : Val :=
  match v with
  | [x] => .sc x
  | l => .list l

theorem mapM_leaf (l : List Sc) : (l.map Tree.leaf).mapM Tree.leaf? = some l := by
  induction l with
  | nil => rfl
  | cons x r ih => simp [List.mapM_cons, Tree.leaf?, ih]

theorem packVals_toVal (v : List Sc) : (packVals v).toVal? = some (valOf v) := by
  unfold packVals valOf
  split
  · rfl
  · rename_i h
    simp only [Tree.toVal?, mapM_leaf, Option.map_some]

theorem flatL_leaf (l : List Sc) : flatL (l.map Tree.leaf) = l := by
  induction l with
  | nil => rfl
  | cons x r ih => simp [flatL, Tree.flat, ih]

theorem val_flat (x : Val) : x.toTree.flat = x.wrap := by
  cases x with
  | sc s => rfl
  | list l => simp [Val.toTree, Tree.flat, flatL_leaf, Val.wrap]

theorem valOf_wrap (v : List Sc) : (valOf v).wrap = v := by
  unfold valOf; split <;> rfl

theorem val_flatSize (x : Val) : x.toTree.flatSize = x.wrap.length := by
  rw [Tree.flatSize, val_flat]

def AtomValid (a : Atom) : Prop := validateK a.kind a.d = .ok a.d

theorem validateK_base (k : Kind) (hk : k ≠ .intercept) (d d' : Dict) (h : validateK k d = .ok d') :
    validateBase d = .ok d' := by
  cases k with
  | intercept => exact absurd rfl hk
  | linear => exact h
  | spline =>
    simp only [validateK, bind, Except.bind] at h
    cases hb : validateBase d with
    | error e => simp [hb] at h
    | ok d1 =>
      simp only [hb] at h
      rw [validateSpline_eq d1 d' h]
  | factor =>
    simp only [validateK, bind, Except.bind] at h
    cases hb : validateBase d with
    | error e => simp [hb] at h
    | ok d1 =>
      simp only [hb] at h
      cases hs : validateSpline d1 with
      | error e => simp [hs] at h
      | ok d2 =>
        simp only [hs] at h
        rw [validateFactor_eq d2 d' h, validateSpline_eq d1 d2 hs]

/-- a valid non-intercept atom holds as many `lam` values as penalties -/
theorem valid_lam_len (a : Atom) (hv : AtomValid a) (hk : a.kind ≠ .intercept) :
    ∃ p l, dget a.d "penalties" = some p ∧ dget a.d "lam" = some l ∧ l.wrap.length = p.wrap.length := by
  have hb := validateK_base a.kind hk a.d a.d hv
  obtain ⟨dt, fl, fs, p, l, c, h1, h1', h2, h3, h3', h4, h4', h5, h5', h5'', h6, h6', he⟩ := validateBase_ok _ _ hb
  refine ⟨p, .list (broadcastLam l.wrap p.wrap.length), h4, ?_, by simpa [wrap_list] using h5''⟩
  rw [he, dget_dset_ne _ _ _ _ (by decide), dget_dset_eq]

theorem atom_setOne_spec (name : String) (a : Atom) (hv : AtomValid a) (hk : a.kind ≠ .intercept)
    (v : List Sc) (a' : Atom) (har : a.arity name = .ok v.length)
    (hset : a.setOne name (packVals v) = .ok a') :
    (a'.getD name).flat = v ∧ a'.kind = a.kind ∧ AtomValid a' := by
  unfold Atom.setOne at hset
  simp only [dsetTree, packVals_toVal, bind, Except.bind, Atom.validate, Except.map] at hset
  cases hd : validateK a.kind (dset a.d name (valOf v)) with
  | error e => simp [hd] at hset
  | ok d2 =>
    simp only [hd, Except.ok.injEq] at hset
    subst hset
    refine ⟨?_, rfl, validateK_idem _ _ _ hd⟩
    have hb := validateK_base a.kind hk _ _ hd
    obtain ⟨dt, fl, fs, p, l, c, h1, h1', h2, h3, h3', h4, h4', h5, h5', h5'', h6, h6', he⟩ := validateBase_ok _ _ hb
    simp only [Atom.getD]
    by_cases hn1 : name = "constraints"
    · subst hn1
      rw [dget_dset_eq] at h6
      cases h6
      rw [he, dget_dset_eq]
      simp [val_flat, wrap_list, valOf_wrap]
    · by_cases hn2 : name = "lam"
      · subst hn2
        rw [dget_dset_eq] at h5
        cases h5
        rw [dget_dset_ne _ _ _ _ (by decide)] at h4
        rw [he, dget_dset_ne _ _ _ _ (by decide), dget_dset_eq]
        obtain ⟨p', l', hp', hl', hlen⟩ := valid_lam_len a hv hk
        rw [h4] at hp'; cases hp'
        have : v.length = p.wrap.length := by
          simp only [Atom.arity, attr, hl', bind, Except.bind, val_flatSize, Except.ok.injEq] at har
          omega
        simp [val_flat, wrap_list, valOf_wrap, broadcastLam_of_length _ _ this]
      · by_cases hn3 : name = "penalties"
        · subst hn3
          rw [dget_dset_eq] at h4
          cases h4
          rw [he, dget_dset_ne _ _ _ _ (by decide), dget_dset_ne _ _ _ _ (by decide), dget_dset_eq]
          simp [val_flat, wrap_list, valOf_wrap]
        · rw [he, dget_dset_ne _ _ _ _ hn1, dget_dset_ne _ _ _ _ hn2, dget_dset_ne _ _ _ _ hn3, dget_dset_eq]
          simp [val_flat, valOf_wrap]

end PyGam.TA
