import PyGam.Proofs.TermAlgebraPlural
/-!
# `info` / `build_from_info` round trips of the structural term model
-/
namespace PyGam.TA

@[simp] theorem isPub_basis : isPub "basis" = true := by decide
@[simp] theorem isPub_n_splines : isPub "n_splines" = true := by decide
@[simp] theorem isPub_spline_order : isPub "spline_order" = true := by decide
@[simp] theorem isPub_by : isPub "by" = true := by decide
@[simp] theorem isPub__name : isPub "_name" = false := by decide
@[simp] theorem isPub__minimal_name : isPub "_minimal_name" = false := by decide
@[simp] theorem isPub_edge_knots : isPub "edge_knots" = true := by decide
@[simp] theorem isPub_edge_knots_ : isPub "edge_knots_" = false := by decide
@[simp] theorem isPub_feature : isPub "feature" = true := by decide
@[simp] theorem isPub_lam : isPub "lam" = true := by decide
@[simp] theorem isPub_dtype : isPub "dtype" = true := by decide
@[simp] theorem isPub_fit_linear : isPub "fit_linear" = true := by decide
@[simp] theorem isPub_fit_splines : isPub "fit_splines" = true := by decide
@[simp] theorem isPub_penalties : isPub "penalties" = true := by decide
@[simp] theorem isPub_constraints : isPub "constraints" = true := by decide
@[simp] theorem isPub_verbose : isPub "verbose" = true := by decide
@[simp] theorem isPub__line_width : isPub "_line_width" = false := by decide
@[simp] theorem isPub__line_offset : isPub "_line_offset" = false := by decide
@[simp] theorem isPub__exclude : isPub "_exclude" = false := by decide
@[simp] theorem isPub__include : isPub "_include" = false := by decide
@[simp] theorem isPub__args : isPub "_args" = false := by decide
@[simp] theorem isPub_coding : isPub "coding" = true := by decide
@[simp] theorem isPub_term_type : isPub "term_type" = true := by decide

/-- re-validating a validated dictionary whose `constraints` entry was reset to the constructor's constant
`None` gives the validated dictionary back -/
theorem validateBase_reset_constraints (d d2 : Dict) (h : validateBase d = .ok d2)
    (hc : dget d "constraints" = some vnone) :
    validateBase (dset d2 "constraints" vnone) = .ok d2 := by
  obtain ⟨dt, fl, fs, p, l, c, g1, g1', g2, g3, g3', g4, g4', g5, g5', g5'', g6, g6', he⟩ := validateBase_ok _ _ h
  rw [hc] at g6; cases g6
  have e := validateBase_of (dset d2 "constraints" vnone) dt fl fs (.list p.wrap)
    (.list (broadcastLam l.wrap p.wrap.length)) vnone
    (by rw [he, dget_dset_ne _ _ _ _ (by decide), dget_dset_ne _ _ _ _ (by decide), dget_dset_ne _ _ _ _ (by decide),
          dget_dset_ne _ _ _ _ (by decide)]; exact g1) g1'
    (by rw [he, dget_dset_ne _ _ _ _ (by decide), dget_dset_ne _ _ _ _ (by decide), dget_dset_ne _ _ _ _ (by decide),
          dget_dset_ne _ _ _ _ (by decide)]; exact g2)
    (by rw [he, dget_dset_ne _ _ _ _ (by decide), dget_dset_ne _ _ _ _ (by decide), dget_dset_ne _ _ _ _ (by decide),
          dget_dset_ne _ _ _ _ (by decide)]; exact g3) g3'
    (by rw [he, dget_dset_ne _ _ _ _ (by decide), dget_dset_ne _ _ _ _ (by decide), dget_dset_ne _ _ _ _ (by decide),
          dget_dset_eq]) (by simpa [wrap_list] using g4')
    (by rw [he, dget_dset_ne _ _ _ _ (by decide), dget_dset_ne _ _ _ _ (by decide), dget_dset_eq])
    (by rw [wrap_list]; exact checkAll_broadcast _ _ g5')
    (by rw [wrap_list, wrap_list, broadcastLam_of_length _ _ g5'']; exact g5'')
    (by rw [dget_dset_eq]) (by decide)
  rw [e]
  simp only [wrap_list, broadcastLam_of_length _ _ g5'']
  congr 1
  have e1 : dget d2 "penalties" = some (.list p.wrap) := by
    rw [he, dget_dset_ne _ _ _ _ (by decide), dget_dset_ne _ _ _ _ (by decide), dget_dset_eq]
  have e2 : dget d2 "lam" = some (.list (broadcastLam l.wrap p.wrap.length)) := by
    rw [he, dget_dset_ne _ _ _ _ (by decide), dget_dset_eq]
  have e3 : dget d2 "constraints" = some (.list vnone.wrap) := by
    rw [he, dget_dset_eq]
  -- the three writes put back what is already there
  have s1 : dset (dset d2 "constraints" vnone) "penalties" (.list p.wrap) = dset d2 "constraints" vnone :=
    dset_same _ _ _ (by rw [dget_dset_ne _ _ _ _ (by decide)]; exact e1)
  rw [s1]
  have s2 : dset (dset d2 "constraints" vnone) "lam" (.list (broadcastLam l.wrap p.wrap.length))
      = dset d2 "constraints" vnone :=
    dset_same _ _ _ (by rw [dget_dset_ne _ _ _ _ (by decide)]; exact e2)
  rw [s2, dset_dset]
  exact dset_same _ _ _ e3

theorem validateK_reset_constraints (k : Kind) (hk : k ≠ .intercept) (d d2 : Dict) (h : validateK k d = .ok d2)
    (hc : dget d "constraints" = some vnone) :
    validateK k (dset d2 "constraints" vnone) = .ok d2 := by
  have hb := validateK_base k hk d d2 h
  have hr := validateBase_reset_constraints d d2 hb hc
  have hi := validateK_idem k d d2 h
  cases k with
  | intercept => exact absurd rfl hk
  | linear => exact hr
  | spline =>
    simp only [validateK, bind, Except.bind] at hi ⊢
    rw [hr]
    rw [validateBase_idem d d2 hb] at hi
    exact hi
  | factor =>
    simp only [validateK, bind, Except.bind] at hi ⊢
    rw [hr]
    rw [validateBase_idem d d2 hb] at hi
    exact hi

/-- the validated dictionary as a function of the raw one and the three normalised values -/
def chain (d1 : Dict) (P L C : Val) : Dict := dset (dset (dset d1 "penalties" P) "lam" L) "constraints" C

theorem raw_pub_spline (kw d1 : Dict) (h : rawAtom .spline kw = .ok d1) (P L C : Val) :
    rawAtom .spline (getParams (chain d1 P L C) false) = .ok (chain d1 P L C) := by
  unfold rawAtom at h
  split at h
  · simp at h
  · cases hf : dget kw "feature" with
    | none => simp [hf] at h
    | some f =>
      simp only [hf, Except.ok.injEq] at h
      subst h
      generalize kwGet kw "edge_knots" vnone = ek
      generalize kwGet kw "basis" (vstr "ps") = vB
      generalize kwGet kw "n_splines" (vint 20) = vN
      generalize kwGet kw "spline_order" (vint 3) = vO
      generalize kwGet kw "by" vnone = vBy
      generalize kwGet kw "lam" lamDefault = vL
      generalize kwGet kw "dtype" (vstr "numerical") = vD
      generalize kwGet kw "penalties" (vstr "auto") = vP
      generalize kwGet kw "constraints" vnone = vC
      generalize kwGet kw "verbose" (vbool false) = vV
      by_cases hek : ek = vnone
      · subst hek
        simp +decide [chain, coreTail, dset, getParams, excludeOf, strList, dget, List.lookup, vstrs, rawAtom, kwNames, kwGet]
      · have hek' : (ek == vnone) = false := by simpa using hek
        simp +decide [chain, hek', coreTail, dset, getParams, excludeOf, strList, dget, List.lookup, vstrs, rawAtom, kwNames, kwGet]

theorem raw_pub_linear (kw d1 : Dict) (h : rawAtom .linear kw = .ok d1) (P L C : Val) :
    rawAtom .linear (getParams (chain d1 P L C) false) = .ok (dset (chain d1 P L C) "constraints" vnone) := by
  unfold rawAtom at h
  split at h
  · simp at h
  · cases hf : dget kw "feature" with
    | none => simp [hf] at h
    | some f =>
      simp only [hf, Except.ok.injEq] at h
      subst h
      simp +decide [chain, coreTail, dset, getParams, excludeOf, strList, dget, List.lookup, vstrs, rawAtom, kwNames, kwGet]

theorem raw_pub_factor (kw d1 : Dict) (h : rawAtom .factor kw = .ok d1) (P L C : Val) :
    rawAtom .factor (getParams (chain d1 P L C) false) = .ok (dset (chain d1 P L C) "constraints" vnone) := by
  unfold rawAtom at h
  split at h
  · simp at h
  · cases hf : dget kw "feature" with
    | none => simp [hf] at h
    | some f =>
      simp only [hf, Except.ok.injEq] at h
      subst h
      simp +decide [chain, coreTail, dset, getParams, excludeOf, strList, dget, List.lookup, vstrs, rawAtom, kwNames, kwGet]

theorem raw_pub_intercept (kw d1 : Dict) (h : rawAtom .intercept kw = .ok d1) :
    rawAtom .intercept (getParams d1 false) = .ok d1 := by
  unfold rawAtom at h
  split at h
  · simp at h
  · simp only [Except.ok.injEq] at h
    subst h
    simp +decide [coreTail, getParams, excludeOf, strList, dget, List.lookup, vstrs, rawAtom, kwNames, kwGet]

theorem validateK_chain (k : Kind) (hk : k ≠ .intercept) (d1 d2 : Dict) (h : validateK k d1 = .ok d2) :
    ∃ P L C, d2 = chain d1 P L C ∧ (dget d1 "constraints" = some vnone → C = .list vnone.wrap) := by
  have hb := validateK_base k hk d1 d2 h
  obtain ⟨dt, fl, fs, p, l, c, g1, g1', g2, g3, g3', g4, g4', g5, g5', g5'', g6, g6', he⟩ := validateBase_ok _ _ hb
  refine ⟨_, _, _, he, ?_⟩
  intro hc
  rw [hc] at g6; cases g6; rfl

theorem raw_constraints_none (k : Kind) (hk : k = .linear ∨ k = .factor) (kw d1 : Dict) (h : rawAtom k kw = .ok d1) :
    dget d1 "constraints" = some vnone := by
  unfold rawAtom at h
  split at h
  · simp at h
  · rcases hk with rfl | rfl
    · cases hf : dget kw "feature" with
      | none => simp [hf] at h
      | some f =>
        simp only [hf, Except.ok.injEq] at h
        subst h
        simp +decide [coreTail, dget, List.lookup]
    · cases hf : dget kw "feature" with
      | none => simp [hf] at h
      | some f =>
        simp only [hf, Except.ok.injEq] at h
        subst h
        simp +decide [coreTail, dget, List.lookup]

/-- a term rebuilt from the public parameters of a constructed term is that term -/
theorem construct_roundtrip (k : Kind) (kw : Dict) (a : Atom) (h : construct k kw = .ok a) :
    construct k (getParams a.d false) = .ok a := by
  unfold construct at h
  simp only [bind, Except.bind] at h
  cases h1 : rawAtom k kw with
  | error e => simp [h1] at h
  | ok d1 =>
    simp only [h1] at h
    cases h2 : validateK k d1 with
    | error e => simp [h2] at h
    | ok d2 =>
      simp only [h2, Except.ok.injEq] at h
      subst h
      simp only [construct, bind, Except.bind]
      cases k with
      | intercept =>
        simp only [validateK, Except.ok.injEq] at h2
        subst h2
        rw [raw_pub_intercept kw d1 h1]
        simp [validateK]
      | spline =>
        obtain ⟨P, L, C, he, _⟩ := validateK_chain .spline (by decide) d1 d2 h2
        subst he
        rw [raw_pub_spline kw d1 h1]
        simp only [validateK_idem _ _ _ h2]
      | linear =>
        obtain ⟨P, L, C, he, hc⟩ := validateK_chain .linear (by decide) d1 d2 h2
        subst he
        rw [raw_pub_linear kw d1 h1]
        simp only [validateK_reset_constraints .linear (by decide) d1 _ h2 (raw_constraints_none .linear (Or.inl rfl) kw d1 h1)]
      | factor =>
        obtain ⟨P, L, C, he, hc⟩ := validateK_chain .factor (by decide) d1 d2 h2
        subst he
        rw [raw_pub_factor kw d1 h1]
        simp only [validateK_reset_constraints .factor (by decide) d1 _ h2 (raw_constraints_none .factor (Or.inr rfl) kw d1 h1)]

theorem raw_name (k : Kind) (kw d1 : Dict) (h : rawAtom k kw = .ok d1) :
    dget d1 "_name" = some (vstr k.typeName) ∧ dget d1 "term_type" = none := by
  unfold rawAtom at h
  split at h
  · simp at h
  · cases k with
    | intercept =>
      simp only [Except.ok.injEq] at h
      subst h
      simp +decide [coreTail, dget, List.lookup, Kind.typeName]
    | linear =>
      cases hf : dget kw "feature" with
      | none => simp [hf] at h
      | some f =>
        simp only [hf, Except.ok.injEq] at h
        subst h
        simp +decide [coreTail, dget, List.lookup, Kind.typeName]
    | spline =>
      cases hf : dget kw "feature" with
      | none => simp [hf] at h
      | some f =>
        simp only [hf, Except.ok.injEq] at h
        subst h
        by_cases hek : kwGet kw "edge_knots" vnone = vnone
        · simp +decide [hek, coreTail, dget, List.lookup, Kind.typeName]
        · have hek' : (kwGet kw "edge_knots" vnone == vnone) = false := by simpa using hek
          simp +decide [hek', coreTail, dget, List.lookup, Kind.typeName]
    | factor =>
      cases hf : dget kw "feature" with
      | none => simp [hf] at h
      | some f =>
        simp only [hf, Except.ok.injEq] at h
        subst h
        simp +decide [coreTail, dget, List.lookup, Kind.typeName]

theorem dget_filter_none (d : Dict) (k : String) (p : String × Val → Bool) (h : dget d k = none) :
    dget (d.filter p) k = none := by
  induction d with
  | nil => rfl
  | cons x r ih =>
    obtain ⟨a, b⟩ := x
    by_cases ha : k = a
    · subst ha; simp [dget] at h
    · simp only [dget, lookup_cons_ne _ _ _ _ ha] at h
      simp only [List.filter_cons]
      split
      · simp only [dget, lookup_cons_ne _ _ _ _ ha]; exact ih h
      · exact ih h

theorem kindOfType_typeName (k : Kind) : kindOfType k.typeName = some k := by cases k <;> rfl

/-- `Term.build_from_info(term.info) == term` for every term made by a constructor
(any class `dflt` on which the class method is called) -/
theorem atomFromInfo_info (dflt k : Kind) (kw : Dict) (a : Atom) (h : construct k kw = .ok a) :
    atomFromInfo dflt a.info = .ok a := by
  have hrt := construct_roundtrip k kw a h
  unfold construct at h
  simp only [bind, Except.bind] at h
  cases h1 : rawAtom k kw with
  | error e => simp [h1] at h
  | ok d1 =>
    simp only [h1] at h
    cases h2 : validateK k d1 with
    | error e => simp [h2] at h
    | ok d2 =>
      simp only [h2, Except.ok.injEq] at h
      subst h
      obtain ⟨hn1, hn2⟩ := raw_name k kw d1 h1
      have hname : dget d2 "_name" = some (vstr k.typeName) ∧ dget d2 "term_type" = none := by
        cases k with
        | intercept => simp only [validateK, Except.ok.injEq] at h2; subst h2; exact ⟨hn1, hn2⟩
        | linear =>
          obtain ⟨P, L, C, he, _⟩ := validateK_chain .linear (by decide) d1 d2 h2
          subst he
          simp only [chain]
          rw [dget_dset_ne _ _ _ _ (by decide), dget_dset_ne _ _ _ _ (by decide), dget_dset_ne _ _ _ _ (by decide),
            dget_dset_ne _ _ _ _ (by decide), dget_dset_ne _ _ _ _ (by decide), dget_dset_ne _ _ _ _ (by decide)]
          exact ⟨hn1, hn2⟩
        | spline =>
          obtain ⟨P, L, C, he, _⟩ := validateK_chain .spline (by decide) d1 d2 h2
          subst he
          simp only [chain]
          rw [dget_dset_ne _ _ _ _ (by decide), dget_dset_ne _ _ _ _ (by decide), dget_dset_ne _ _ _ _ (by decide),
            dget_dset_ne _ _ _ _ (by decide), dget_dset_ne _ _ _ _ (by decide), dget_dset_ne _ _ _ _ (by decide)]
          exact ⟨hn1, hn2⟩
        | factor =>
          obtain ⟨P, L, C, he, _⟩ := validateK_chain .factor (by decide) d1 d2 h2
          subst he
          simp only [chain]
          rw [dget_dset_ne _ _ _ _ (by decide), dget_dset_ne _ _ _ _ (by decide), dget_dset_ne _ _ _ _ (by decide),
            dget_dset_ne _ _ _ _ (by decide), dget_dset_ne _ _ _ _ (by decide), dget_dset_ne _ _ _ _ (by decide)]
          exact ⟨hn1, hn2⟩
      simp only [atomFromInfo, Atom.info, hname.1, Option.getD_some, dget_dset_eq, vstr, kindOfType_typeName]
      rw [ddel_dset, ddel_of_none _ _ (by
        unfold getParams
        simp only [Bool.false_eq_true, if_false]
        exact dget_filter_none _ _ _ hname.2)]
      exact hrt

/-- `Term.build_from_info(a.info)` gives `a` back -/
def RoundTrips (a : Atom) : Prop := atomFromInfo .spline a.info = .ok a

theorem atomsFromInfo_map (ms : List Atom) (h : ∀ m ∈ ms, RoundTrips m) :
    atomsFromInfo (ms.map Atom.info) = .ok ms := by
  induction ms with
  | nil => rfl
  | cons a r ih =>
    have ha : atomFromInfo .spline a.info = .ok a := h a List.mem_cons_self
    simp [atomsFromInfo, ha, ih (fun m hm => h m (List.mem_cons_of_mem _ hm)), bind, Except.bind]

theorem parseTerms_terms (kw : List (String × List Tree)) (i : Nat) (ms : List Atom) :
    parseTerms kw i (ms.map .term) = .ok ms := by
  induction ms generalizing i with
  | nil => rfl
  | cons a r ih => simp [parseTerms, ih, bind, Except.bind]

theorem parseTerms_length (kw : List (String × List Tree)) (args : List TeArg) :
    ∀ (i : Nat) (ms : List Atom), parseTerms kw i args = .ok ms → ms.length = args.length := by
  induction args with
  | nil => intro i ms h; simp [parseTerms] at h; subst h; rfl
  | cons x r ih =>
    intro i ms h
    cases x with
    | tensor => simp [parseTerms] at h
    | term a =>
      simp only [parseTerms, bind, Except.bind] at h
      cases hr : parseTerms kw (i + 1) r with
      | error e => simp [hr] at h
      | ok r' =>
        simp only [hr, Except.ok.injEq] at h
        subst h
        simp [ih (i + 1) r' hr]
    | feat f =>
      simp only [parseTerms, bind, Except.bind] at h
      cases hk : kwAt kw i with
      | error e => simp [hk] at h
      | ok kwi =>
        simp only [hk] at h
        split at h
        · simp at h
        · cases hc : construct .spline (dset (List.foldl (fun acc p => dset acc p.fst p.snd) [("n_splines", vint 10)] kwi) "feature" (Val.sc f)) with
          | error e => simp [hc] at h
          | ok a =>
            simp only [hc] at h
            cases hr : parseTerms kw (i + 1) r with
            | error e => simp [hr] at h
            | ok r' =>
              simp only [hr, Except.ok.injEq] at h
              subst h
              simp [ih (i + 1) r' hr]

/-- a tensor term rebuilt from its info is the same term, *including its by-variable and `verbose`*,
provided its marginals round-trip -/
theorem tensor_roundtrip (args : List TeArg) (by_ vb : Val) (kw : List (String × Tree)) (d : Dict) (ms : List Atom)
    (h : mkTensor args by_ vb kw = .ok (.tensor d ms)) (hrt : ∀ m ∈ ms, RoundTrips m) :
    Term.fromInfo (Term.tensor d ms).info = .ok (.tensor d ms) := by
  unfold mkTensor at h
  simp only [bind, Except.bind] at h
  split at h
  · simp at h
  · rename_i hlen
    cases hk : nthKw args.length kw with
    | error e => simp [hk] at h
    | ok kws =>
      simp only [hk] at h
      cases hp : parseTerms kws 0 args with
      | error e => simp [hp] at h
      | ok ms0 =>
        simp only [hp] at h
        have hlen2 : ms0.length = args.length := parseTerms_length kws args 0 ms0 hp
        have hby : (if (by_ == vnone) = true then (pure () : Except Err Unit) else checkParam by_) = .ok () := by
          by_cases hbn : by_ = vnone
          · simp [hbn, pure, Except.pure]
          · have hbn' : (by_ == vnone) = false := by simpa using hbn
            simp only [hbn', Bool.false_eq_true, if_false] at h ⊢
            cases hc : checkParam by_ with
            | error e => simp [hc] at h
            | ok u => rfl
        have h' : (Except.ok (Term.tensor ([("verbose", vb), ("by", by_), ("_name", vstr "tensor_term"),
            ("_minimal_name", vstr "te")] ++ coreTail tensorExclude) ms0) : Except Err Term) = .ok (Term.tensor d ms) := by
          by_cases hbn : by_ = vnone
          · simpa [hbn] using h
          · have hbn' : (by_ == vnone) = false := by simpa using hbn
            simp only [hbn', Bool.false_eq_true, if_false] at h
            cases hc : checkParam by_ with
            | error e => simp [hc] at h
            | ok u => simpa [hc] using h
        clear h
        have h := h'
        simp only [Except.ok.injEq, Term.tensor.injEq] at h
        obtain ⟨hd, hms⟩ := h
        subst hd; subst hms
        have hinfo : (Term.tensor ([("verbose", vb), ("by", by_), ("_name", vstr "tensor_term"), ("_minimal_name", vstr "te")] ++ coreTail tensorExclude) ms0).info
            = { d := [("verbose", vb), ("by", by_), ("term_type", vstr "tensor_term")], sub := some (ms0.map Atom.info) } := by
          simp +decide [Term.info, coreTail, getParams, excludeOf, strList, dget, List.lookup, vstrs, tensorExclude, dset]
        rw [hinfo]
        have e1 : dget [("verbose", vb), ("by", by_), ("term_type", vstr "tensor_term")] "term_type"
            = some (.sc (.str "tensor_term")) := by simp +decide [dget, List.lookup, vstr]
        have e2 : kwGet [("verbose", vb), ("by", by_), ("term_type", vstr "tensor_term")] "by" vnone = by_ := by
          simp +decide [kwGet, dget, List.lookup]
        have e3 : kwGet [("verbose", vb), ("by", by_), ("term_type", vstr "tensor_term")] "verbose" (vbool false) = vb := by
          simp +decide [kwGet, dget, List.lookup]
        have hl : ¬ (List.map TeArg.term ms0).length < 2 := by simp; omega
        simp only [Term.fromInfo, e1, atomsFromInfo_map ms0 hrt, bind, Except.bind, e2, e3]
        simp only [mkTensor, hl, if_false, nthKw, parseTerms_terms, bind, Except.bind]
        by_cases hbn : by_ = vnone
        · simp [hbn]
        · have hbn' : (by_ == vnone) = false := by simpa using hbn
          simp only [hbn', Bool.false_eq_true, if_false] at hby ⊢
          simp [hby]

theorem termsFromInfo_map (ts : List Term) (h : ∀ t ∈ ts, Term.fromInfo t.info = .ok t) :
    termsFromInfo (ts.map Term.info) = .ok ts := by
  induction ts with
  | nil => rfl
  | cons a r ih =>
    simp [termsFromInfo, h a List.mem_cons_self, ih (fun m hm => h m (List.mem_cons_of_mem _ hm)), bind, Except.bind]

theorem flattenArgs_inl {τ : Type} (l : List τ) : flattenArgs (l.map (Sum.inl : τ → τ ⊕ List τ)) = l := by
  induction l with
  | nil => rfl
  | cons a r ih => simp [flattenArgs, ih]

/-- a term list rebuilt from its info has the same terms, provided its terms round-trip and carry distinct keys -/
theorem termList_roundtrip (l : TermList) (h : ∀ t ∈ l.terms, Term.fromInfo t.info = .ok t)
    (hn : (l.terms.map Term.key).Nodup) :
    (TermList.fromInfo l.info).map (·.terms) = .ok l.terms := by
  simp only [TermList.fromInfo, TermList.info, termsFromInfo_map l.terms h, bind, Except.bind, Except.map,
    TermList.mk', mkList, flattenArgs_inl, dedup_eq_keepNew]
  rw [keepNew_of_nodup Term.key [] l.terms hn (by simp)]

/-! ### compile does not change the info -/

theorem excludeOf_dset (d : Dict) (k : String) (v : Val) (hk : k ≠ "_exclude") :
    excludeOf (dset d k v) = excludeOf d := by
  simp [excludeOf, dget_dset_ne _ _ _ _ (fun e => hk e.symm)]

theorem filter_dset_drop (d : Dict) (k : String) (v : Val) (p : String × Val → Bool)
    (hp : ∀ x, p (k, x) = false) : (dset d k v).filter p = d.filter p := by
  induction d with
  | nil => simp [dset, hp]
  | cons x r ih =>
    obtain ⟨a, b⟩ := x
    by_cases ha : a = k
    · subst ha; simp [dset, hp]
    · simp [dset, ha, List.filter_cons, ih]

/-- writing a non-public or excluded attribute does not change `get_params()` -/
theorem getParams_dset_hidden (d : Dict) (k : String) (v : Val) (hk : k ≠ "_exclude")
    (hh : isPub k = false ∨ (excludeOf d).contains k = true) :
    getParams (dset d k v) false = getParams d false := by
  unfold getParams
  simp only [Bool.false_eq_true, if_false, excludeOf_dset d k v hk]
  apply filter_dset_drop
  intro x
  rcases hh with h | h
  · simp [h]
  · have : k ∈ excludeOf d := by simpa using h
    simp [this]

theorem info_dset_hidden (a : Atom) (k : String) (v : Val) (hk : k ≠ "_exclude") (hk2 : k ≠ "_name")
    (hh : isPub k = false ∨ (excludeOf a.d).contains k = true) :
    Atom.info { a with d := dset a.d k v } = a.info := by
  simp only [Atom.info, getParams_dset_hidden a.d k v hk hh, dget_dset_ne _ _ _ _ (fun e => hk2 e.symm)]


/-- `compile` only writes `edge_knots_` and (factor terms) `n_splines` -/
theorem compileAtom_shape (data : List FeatData) (a c : Atom) (h : compileAtom data a = .ok c) :
    c = a ∨ (∃ e, c = { a with d := dset a.d "edge_knots_" e }) ∨
      (a.kind = .factor ∧ ∃ e n g, c = { a with d := dset (dset (dset a.d "edge_knots_" e) "n_splines" n) "edge_knots_" g }) := by
  unfold compileAtom at h
  cases hk : a.kind with
  | intercept => simp only [hk, Except.ok.injEq] at h; exact Or.inl h.symm
  | linear =>
    simp only [hk, bind, Except.bind] at h
    cases h1 : attr a.d "feature" with
    | error e => simp [h1] at h
    | ok f =>
      simp only [h1] at h
      cases h2 : featData data f with
      | error e => simp [h2] at h
      | ok fd =>
        simp only [h2] at h
        cases h3 : attr a.d "dtype" with
        | error e => simp [h3] at h
        | ok dt =>
          simp only [h3] at h
          cases h4 : genEdgeKnots fd dt with
          | error e => simp [h4] at h
          | ok ek =>
            simp only [h4, Except.ok.injEq] at h
            exact Or.inr (Or.inl ⟨ek, h.symm⟩)
  | spline =>
    simp only [hk, bind, Except.bind] at h
    cases h1 : attr a.d "feature" with
    | error e => simp [h1] at h
    | ok f =>
      simp only [h1] at h
      cases h2 : featData data f with
      | error e => simp [h2] at h
      | ok fd =>
        simp only [h2] at h
        cases h3 : attr a.d "by" with
        | error e => simp [h3] at h
        | ok b =>
          simp only [h3] at h
          cases h4 : checkBy data b with
          | error e => simp [h4] at h
          | ok u =>
            simp only [h4] at h
            cases h5 : splineKnots a.d fd with
            | error e => simp [h5] at h
            | ok ek =>
              simp only [h5, Except.ok.injEq] at h
              exact Or.inr (Or.inl ⟨ek, h.symm⟩)
  | factor =>
    simp only [hk, bind, Except.bind] at h
    cases h1 : attr a.d "feature" with
    | error e => simp [h1] at h
    | ok f =>
      simp only [h1] at h
      cases h2 : featData data f with
      | error e => simp [h2] at h
      | ok fd =>
        simp only [h2] at h
        cases h3 : attr a.d "by" with
        | error e => simp [h3] at h
        | ok b =>
          simp only [h3] at h
          cases h4 : checkBy data b with
          | error e => simp [h4] at h
          | ok u =>
            simp only [h4] at h
            cases h5 : splineKnots a.d fd with
            | error e => simp [h5] at h
            | ok ek =>
              simp only [h5] at h
              cases h6 : attr (dset (dset a.d "edge_knots_" ek) "n_splines" (vint fd.nuniq)) "dtype" with
              | error e => simp [h6] at h
              | ok dt =>
                simp only [h6] at h
                cases h7 : genEdgeKnots fd dt with
                | error e => simp [h7] at h
                | ok g =>
                  simp only [h7, Except.ok.injEq] at h
                  exact Or.inr (Or.inr ⟨rfl, ek, _, g, h.symm⟩)

/-- the data-dependent state written by `compile` is invisible in `info` -/
theorem compileAtom_info (data : List FeatData) (a c : Atom)
    (hf : a.kind = .factor → (excludeOf a.d).contains "n_splines" = true)
    (h : compileAtom data a = .ok c) : c.info = a.info ∧ c.kind = a.kind := by
  rcases compileAtom_shape data a c h with rfl | ⟨e, rfl⟩ | ⟨hk, e, n, g, rfl⟩
  · exact ⟨rfl, rfl⟩
  · exact ⟨info_dset_hidden a _ _ (by decide) (by decide) (Or.inl (by decide)), rfl⟩
  · refine ⟨?_, rfl⟩
    have e1 := info_dset_hidden a "edge_knots_" e (by decide) (by decide) (Or.inl (by decide))
    have e2 := info_dset_hidden { a with d := dset a.d "edge_knots_" e } "n_splines" n (by decide) (by decide)
      (Or.inr (by simp only [excludeOf_dset a.d "edge_knots_" e (by decide)]; exact hf hk))
    have e3 := info_dset_hidden { a with d := dset (dset a.d "edge_knots_" e) "n_splines" n } "edge_knots_" g
      (by decide) (by decide) (Or.inl (by decide))
    simp only at e2 e3
    rw [e3, e2, e1]

theorem construct_factor_exclude (kw : Dict) (a : Atom) (h : construct .factor kw = .ok a) :
    (excludeOf a.d).contains "n_splines" = true := by
  unfold construct at h
  simp only [bind, Except.bind] at h
  cases h1 : rawAtom .factor kw with
  | error e => simp [h1] at h
  | ok d1 =>
    simp only [h1] at h
    cases h2 : validateK .factor d1 with
    | error e => simp [h2] at h
    | ok d2 =>
      simp only [h2, Except.ok.injEq] at h
      subst h
      obtain ⟨P, L, C, he, _⟩ := validateK_chain .factor (by decide) d1 d2 h2
      subst he
      simp only [chain, excludeOf_dset _ _ _ (by decide : "constraints" ≠ "_exclude"),
        excludeOf_dset _ _ _ (by decide : "lam" ≠ "_exclude"), excludeOf_dset _ _ _ (by decide : "penalties" ≠ "_exclude")]
      unfold rawAtom at h1
      split at h1
      · simp at h1
      · cases hf : dget kw "feature" with
        | none => simp [hf] at h1
        | some f =>
          simp only [hf, Except.ok.injEq] at h1
          subst h1
          simp +decide [coreTail, excludeOf, strList, dget, List.lookup, vstrs]

theorem construct_kind (k : Kind) (kw : Dict) (a : Atom) (h : construct k kw = .ok a) : a.kind = k := by
  unfold construct at h
  simp only [bind, Except.bind] at h
  cases h1 : rawAtom k kw with
  | error e => simp [h1] at h
  | ok d1 =>
    simp only [h1] at h
    cases h2 : validateK k d1 with
    | error e => simp [h2] at h
    | ok d2 =>
      simp only [h2, Except.ok.injEq] at h
      subst h; rfl

/-- a term rebuilt from the info of a *compiled* (fitted) term and compiled on the same data is identical to
the compiled term: same edge knots, same number of categories, hence the same columns, penalties and
constraints whatever they are computed from -/
theorem rebuild_compiled (dflt k : Kind) (kw : Dict) (a c : Atom) (data : List FeatData)
    (h : construct k kw = .ok a) (hc : compileAtom data a = .ok c) :
    ∃ a', atomFromInfo dflt c.info = .ok a' ∧ compileAtom data a' = .ok c := by
  refine ⟨a, ?_, hc⟩
  have hk := construct_kind k kw a h
  have := compileAtom_info data a c (by
    intro hf
    rw [hk] at hf; subst hf
    exact construct_factor_exclude kw a h) hc
  rw [this.1]
  exact atomFromInfo_info dflt k kw a h

end PyGam.TA
