import PyGam.Proofs.HeapOps
/-!
# Isolation of the public calls of the heap model

`Keeps X w w'` — going from `w` to `w'`, every model of `w` outside `X` keeps its record and everything reachable
from it (`view`), every expression of `w` keeps its term objects by value, and the separation invariant holds
in `w'`.  Every primitive call on model `i` satisfies `Keeps [i]`, allocation-only calls satisfy `Keeps []`,
and so do the composite calls `gridsearch` (`Keeps [i]`, and `Keeps []` for a fitted model without `keep_best`) and
`sample` (`Keeps []`).
-/
namespace PyGam.Heap

structure Keeps (X : List Nat) (w w' : World) : Prop where
  len : w.models.length ≤ w'.models.length
  recs : ∀ j, j < w.models.length → j ∉ X → w'.models[j]? = w.models[j]?
  view : ∀ j, j < w.models.length → j ∉ X → w'.view j = w.view j
  elen : w.exprs.length ≤ w'.exprs.length
  expr : ∀ e, e < w.exprs.length → w'.exprView e = w.exprView e
  inv : Inv w'

theorem Keeps.refl {w : World} (h : Inv w) (X : List Nat) : Keeps X w w :=
  ⟨Nat.le_refl _, fun _ _ _ => rfl, fun _ _ _ => rfl, Nat.le_refl _, fun _ _ => rfl, h⟩

theorem Keeps.trans {X X' : List Nat} {w w' w'' : World} (h1 : Keeps X w w') (h2 : Keeps X' w' w'')
    (hX : ∀ j ∈ X', j < w.models.length → j ∈ X) : Keeps X w w'' := by
  refine ⟨Nat.le_trans h1.len h2.len, fun j hj hn => ?_, fun j hj hn => ?_, Nat.le_trans h1.elen h2.elen,
    fun e he => ?_, h2.inv⟩
  · rw [h2.recs j (Nat.lt_of_lt_of_le hj h1.len) (fun h => hn (hX j h hj)), h1.recs j hj hn]
  · rw [h2.view j (Nat.lt_of_lt_of_le hj h1.len) (fun h => hn (hX j h hj)), h1.view j hj hn]
  · rw [h2.expr e (Nat.lt_of_lt_of_le he h1.elen), h1.expr e he]

theorem Keeps.weaken {X X' : List Nat} {w w' : World} (h : Keeps X w w') (hX : ∀ j ∈ X, j ∈ X') : Keeps X' w w' :=
  ⟨h.len, fun j hj hn => h.recs j hj (fun h' => hn (hX j h')), fun j hj hn => h.view j hj (fun h' => hn (hX j h')),
    h.elen, h.expr, h.inv⟩

/-- the generic frame rule: a call that writes only objects of model `i` and changes only record `i` -/
theorem Keeps.of_frame {w w' : World} {T D L : List Nat} {i : Nat} (hinv : Inv w) (hinv' : Inv w')
    (hf : Frame w w' T D L) (hm : ∀ j, j < w.models.length → j ≠ i → w'.models[j]? = w.models[j]?)
    (hlen : w.models.length ≤ w'.models.length)
    (helen : w.exprs.length ≤ w'.exprs.length)
    (he : ∀ e, e < w.exprs.length → w'.exprs[e]? = w.exprs[e]?)
    (hT : ∀ t ∈ T, ∃ m, w.models[i]? = some m ∧ t ∈ m.terms)
    (hD : ∀ d ∈ D, ∃ m, w.models[i]? = some m ∧ d = m.dist)
    (hL : ∀ l ∈ L, ∃ m, w.models[i]? = some m ∧ m.logs = some l) : Keeps [i] w w' := by
  refine ⟨hlen, fun j hj hn => hm j hj (by simpa using hn), fun j hj hn => ?_, helen, fun e hlt => ?_, hinv'⟩
  · have hji : j ≠ i := by simpa using hn
    refine view_of_frame hinv hf (hm j hj hji) (fun m hmj => ⟨fun t ht htT => ?_, fun hdD => ?_, fun l hl hlL => ?_⟩)
    · obtain ⟨mi, hmi, hti⟩ := hT t htT
      exact (hinv.sep j i m mi hmj hmi hji).1 t ht hti
    · obtain ⟨mi, hmi, hdi⟩ := hD _ hdD
      exact (hinv.sep j i m mi hmj hmi hji).2.1 hdi
    · obtain ⟨mi, hmi, hli⟩ := hL l hlL
      exact (hinv.sep j i m mi hmj hmi hji).2.2 l hl hli
  · unfold World.exprView
    rw [he e hlt]
    cases hx : w.exprs[e]? with
    | none => rfl
    | some ex =>
      simp only [Option.map_some, Option.some.injEq]
      apply List.map_congr_left
      intro t ht
      have hmem : ex ∈ w.exprs := List.mem_of_getElem? hx
      rw [World.term_eq, World.term_eq, hf.term t (hinv.exprOk ex hmem t ht)]
      intro htT
      obtain ⟨mi, hmi, hti⟩ := hT t htT
      exact hinv.exprSep ex hmem t ht i mi hmi hti

/-- allocation-only calls that change no record -/
theorem Keeps.of_alloc {w w' : World} (hinv : Inv w) (hinv' : Inv w') (hf : Frame w w' [] [] [])
    (hm : ∀ j, j < w.models.length → w'.models[j]? = w.models[j]?)
    (hlen : w.models.length ≤ w'.models.length) (helen : w.exprs.length ≤ w'.exprs.length)
    (he : ∀ e, e < w.exprs.length → w'.exprs[e]? = w.exprs[e]?) : Keeps [] w w' := by
  have h := Keeps.of_frame (i := w.models.length) hinv hinv' hf (fun j hj _ => hm j hj) hlen helen he
    (fun _ h => nomatch h) (fun _ h => nomatch h) (fun _ h => nomatch h)
  exact ⟨h.len, fun j hj _ => h.recs j hj (by simp; omega), fun j hj _ => h.view j hj (by simp; omega),
    h.elen, h.expr, h.inv⟩

/-! ## the primitives -/

theorem mkExpr_keeps {w : World} (specs : List TermSet) (h : Inv w) : Keeps [] w (mkExpr w specs) :=
  Keeps.of_alloc h (mkExpr_inv specs h) (mkExpr_frame w specs) (fun _ _ => rfl) (Nat.le_refl _)
    (by simp [mkExpr]) (fun e he => by simp [mkExpr, List.getElem?_append_left he])

theorem joinExpr_keeps {w : World} (a b : Nat) (h : Inv w) : Keeps [] w (joinExpr w a b) :=
  Keeps.of_alloc h (joinExpr_inv a b h) (joinExpr_frame w a b) (fun _ _ => rfl) (Nat.le_refl _)
    (by simp [joinExpr]) (fun e he => by simp [joinExpr, List.getElem?_append_left he])

theorem construct_keeps {w : World} (cls : Cls) (mset : Nat) (sk : Bool) (e : Nat) (h : Inv w) :
    Keeps [] w (construct w cls mset sk e) :=
  Keeps.of_alloc h (construct_inv cls mset sk e h) (construct_frame w cls mset sk e)
    (fun j hj => by simp [construct, List.getElem?_append_left hj]) (by simp [construct]) (Nat.le_refl _) (fun _ _ => rfl)

theorem copyModel_exprs (w : World) (i : Nat) : (copyModel w i).exprs = w.exprs := by
  unfold copyModel; split <;> rfl

theorem copyModel_length_le (w : World) (i : Nat) : w.models.length ≤ (copyModel w i).models.length := by
  unfold copyModel; split <;> simp

theorem copyModel_keeps {w : World} (i : Nat) (h : Inv w) : Keeps [] w (copyModel w i) :=
  Keeps.of_alloc h (copyModel_inv i h) (copyModel_frame w i) (fun j hj => copyModel_models w i j hj)
    (copyModel_length_le w i) (by rw [copyModel_exprs]; exact Nat.le_refl _) (fun _ _ => by rw [copyModel_exprs])

theorem setTerms_keeps {w : World} (i : Nat) (f : Nat → TermObj → TermObj) (h : Inv w) : Keeps [i] w (setTerms w i f) := by
  cases hm : w.models[i]? with
  | none =>
    have : setTerms w i f = w := by unfold setTerms; rw [hm]
    rw [this]; exact Keeps.refl h _
  | some m =>
    refine Keeps.of_frame h (setTerms_inv i f h) (setTerms_frame w i f m hm) (fun j _ _ => by rw [setTerms_models])
      (by rw [setTerms_models]; exact Nat.le_refl _) ?_ ?_ (fun t ht => ⟨m, hm, ht⟩) (fun _ h => nomatch h) (fun _ h => nomatch h)
    all_goals (unfold setTerms; rw [hm])
    · exact Nat.le_refl _
    · exact fun _ _ => rfl

theorem assignTerms_keeps {w : World} (i e : Nat) (h : Inv w) : Keeps [i] w (assignTerms w i e) :=
  Keeps.of_frame h (assignTerms_inv i e h) (assignTerms_frame w i e) (fun j _ hj => assignTerms_models w i e j hj)
    (by rw [assignTerms_length]; exact Nat.le_refl _) (by rw [assignTerms_exprs]; exact Nat.le_refl _)
    (fun _ _ => by rw [assignTerms_exprs]) (fun _ h => nomatch h) (fun _ h => nomatch h) (fun _ h => nomatch h)

theorem setModel_exprs (w : World) (i c : Nat) : (setModel w i c).exprs = w.exprs := by
  unfold setModel; split <;> rfl

theorem setModel_length (w : World) (i c : Nat) : (setModel w i c).models.length = w.models.length := by
  unfold setModel; split <;> simp

theorem setModel_keeps {w : World} (i c : Nat) (h : Inv w) : Keeps [i] w (setModel w i c) :=
  Keeps.of_frame h (setModel_inv i c h) (setModel_frame w i c) (fun j _ hj => setModel_models w i c j hj)
    (by rw [setModel_length]; exact Nat.le_refl _) (by rw [setModel_exprs]; exact Nat.le_refl _)
    (fun _ _ => by rw [setModel_exprs]) (fun _ h => nomatch h) (fun _ h => nomatch h) (fun _ h => nomatch h)

theorem prepare_exprs (env : Env) (w : World) (i : Nat) (d : Data) : (prepare env w i d).exprs = w.exprs := by
  unfold prepare; split <;> rfl

theorem prepare_length (env : Env) (w : World) (i : Nat) (d : Data) :
    (prepare env w i d).models.length = w.models.length := by
  unfold prepare; split <;> simp

theorem prepare_keeps {env : Env} {w : World} (i : Nat) (d : Data) (h : Inv w) : Keeps [i] w (prepare env w i d) :=
  Keeps.of_frame h (prepare_inv i d h) (prepare_frame env w i d) (fun j _ hj => prepare_models env w i d j hj)
    (by rw [prepare_length]; exact Nat.le_refl _) (by rw [prepare_exprs]; exact Nat.le_refl _)
    (fun _ _ => by rw [prepare_exprs]) (fun _ h => nomatch h) (fun _ h => nomatch h) (fun _ h => nomatch h)

theorem pirls_exprs (w : World) (i : Nat) (d : Data) (k : Nat) : (pirls w i d k).exprs = w.exprs := by
  unfold pirls; split <;> rfl

theorem fitModel_exprs (env : Env) (w : World) (i : Nat) (d : Data) (k : Nat) :
    (fitModel env w i d k).exprs = w.exprs := by
  unfold fitModel; rw [pirls_exprs, prepare_exprs]

theorem fitModel_keeps {env : Env} {w : World} (i : Nat) (d : Data) (k : Nat) (h : Inv w) :
    Keeps [i] w (fitModel env w i d k) := by
  cases hm : w.models[i]? with
  | none =>
    have : fitModel env w i d k = w := by
      unfold fitModel prepare; rw [hm]; unfold pirls; rw [hm]
    rw [this]; exact Keeps.refl h _
  | some m =>
    exact Keeps.of_frame h (fitModel_inv i d k h) (fitModel_frame env w i d k m hm)
      (fun j _ hj => fitModel_models env w i d k j hj) (by rw [fitModel_length]; exact Nat.le_refl _)
      (by rw [fitModel_exprs]; exact Nat.le_refl _) (fun _ _ => by rw [fitModel_exprs])
      (fun _ h => nomatch h) (fun d' hd => ⟨m, hm, by simpa using hd⟩)
      (fun l hl => ⟨m, hm, by simpa using hl⟩)

theorem adopt_exprs (w : World) (i b : Nat) : (adopt w i b).exprs = w.exprs := by
  unfold adopt; repeat' split
  all_goals rfl

theorem adopt_length (w : World) (i b : Nat) : (adopt w i b).models.length = w.models.length := by
  unfold adopt; repeat' split
  all_goals simp

theorem adopt_keeps {w : World} (i b : Nat) (h : Inv w) : Keeps [i] w (adopt w i b) :=
  Keeps.of_frame h (adopt_inv i b h) (adopt_frame w i b) (fun j _ hj => adopt_models w i b j hj)
    (by rw [adopt_length]; exact Nat.le_refl _) (by rw [adopt_exprs]; exact Nat.le_refl _)
    (fun _ _ => by rw [adopt_exprs]) (fun _ h => nomatch h) (fun _ h => nomatch h) (fun _ h => nomatch h)

/-! ## the composite calls -/

theorem candidate_keeps {env : Env} {w : World} (i : Nat) (d : Data) (c : Nat × Nat) (h : Inv w) :
    Keeps [] w (candidate env i d w c) := by
  unfold candidate
  have h1 := copyModel_keeps i h
  have h2 := setTerms_keeps (w.models.length) (fun _ t => { t with set := { t.set with lam := c.1 } }) h1.inv
  have h3 := fitModel_keeps (env := env) (w.models.length) d c.2 h2.inv
  refine (h1.trans h2 (fun j hj hlt => ?_)).trans h3 (fun j hj hlt => ?_)
  · simp at hj; omega
  · simp at hj; omega

theorem candidates_keeps {env : Env} (i : Nat) (d : Data) (grid : List (Nat × Nat)) :
    ∀ {w : World}, Inv w → Keeps [] w (grid.foldl (candidate env i d) w) := by
  induction grid with
  | nil => intro w h; exact Keeps.refl h _
  | cons c cs ih =>
    intro w h
    have h1 := candidate_keeps (env := env) i d c h
    exact h1.trans (ih h1.inv) (fun _ hj _ => hj)

/-- `gridsearch` on model `i` leaves every other model (and every expression) as it was -/
theorem gridsearch_keeps {env : Env} {w : World} (i : Nat) (d : Data) (keep : Bool) (grid : List (Nat × Nat))
    (win : Nat) (h : Inv w) : Keeps [i] w (gridsearch env w i d keep grid win) := by
  unfold gridsearch
  split
  · exact Keeps.refl h _
  · next m0 hm0 =>
    cases hfit : m0.fitted.isSome with
    | true =>
      simp only [if_true]
      have h2 := candidates_keeps (env := env) i d grid h
      split
      · exact (h2.weaken (X' := [i]) (fun _ hj => nomatch hj)).trans (adopt_keeps i _ h2.inv) (fun _ hj _ => hj)
      · exact h2.weaken (fun _ hj => nomatch hj)
    | false =>
      simp only [Bool.false_eq_true, if_false]
      have h1 := prepare_keeps (env := env) i d h
      have h2 := candidates_keeps (env := env) i d grid h1.inv
      have h12 := h1.trans h2 (fun _ hj _ => nomatch hj)
      split
      · exact h12.trans (adopt_keeps i _ h12.inv) (fun _ hj _ => hj)
      · exact h12

/-- `gridsearch(keep_best=False)` on a *fitted* model leaves every model, itself included, as it was -/
theorem gridsearch_nokeep_keeps {env : Env} {w : World} (i : Nat) (d : Data) (grid : List (Nat × Nat))
    (win : Nat) (h : Inv w) (hfit : ((w.models[i]?).bind (·.fitted)).isSome) :
    Keeps [] w (gridsearch env w i d false grid win) := by
  unfold gridsearch
  split
  · exact Keeps.refl h _
  · next m0 hm0 =>
    have hf : m0.fitted.isSome = true := by simpa [hm0] using hfit
    simp only [hf, if_true, Bool.false_eq_true, false_and, if_false]
    exact candidates_keeps i d grid h

theorem bootstrap_keeps {env : Env} {w : World} (i : Nat) (d : Data) (b : List (Nat × Nat) × Nat) (h : Inv w) :
    Keeps [] w (bootstrap env i d w b) := by
  unfold bootstrap
  have h1 := copyModel_keeps i h
  have h2 := gridsearch_keeps (env := env) w.models.length d true b.1 b.2 h1.inv
  have h12 := h1.trans h2 (fun j hj hlt => by simp at hj; omega)
  have h3 := copyModel_keeps i h12.inv
  have h123 := h12.trans h3 (fun _ hj _ => nomatch hj)
  simp only
  generalize hg2 : (gridsearch env (copyModel w i) w.models.length d true b.1 b.2).models.length = g2 at *
  have hg2le : w.models.length ≤ g2 := by rw [← hg2]; exact h12.len
  generalize hl : ((World.view (gridsearch env (copyModel w i) w.models.length d true b.1 b.2) w.models.length).map
    (fun v => v.terms.map (·.set.lam))).getD [] = lams
  have h4 := setTerms_keeps g2 (fun k t => { t with set := { t.set with lam := lams.getD k t.set.lam } }) h123.inv
  have h5 := fitModel_keeps (env := env) g2 d 1 h4.inv
  refine (h123.trans h4 (fun j hj hlt => ?_)).trans h5 (fun j hj hlt => ?_)
  · simp at hj; omega
  · simp at hj; omega

theorem bootstraps_keeps {env : Env} (i : Nat) (d : Data) (boots : List (List (Nat × Nat) × Nat)) :
    ∀ {w : World}, Inv w → Keeps [] w (boots.foldl (bootstrap env i d) w) := by
  induction boots with
  | nil => intro w h; exact Keeps.refl h _
  | cons c cs ih =>
    intro w h
    have h1 := bootstrap_keeps (env := env) i d c h
    exact h1.trans (ih h1.inv) (fun _ hj _ => hj)

theorem view_take (w : World) (n j : Nat) (hj : j < n) : World.view { w with models := w.models.take n } j = w.view j := by
  unfold World.view
  simp only [List.getElem?_take, hj, if_true]
  rfl

/-- `sample` leaves the list of models exactly as it was, and every model and expression unchanged by value -/
theorem sample_keeps {env : Env} {w : World} (i : Nat) (d : Data) (boots : List (List (Nat × Nat) × Nat)) (h : Inv w) :
    Keeps [] w (sample env w i d boots) ∧ (sample env w i d boots).models = w.models := by
  have hk := bootstraps_keeps (env := env) i d boots h
  have hmodels : ((boots.foldl (bootstrap env i d) w).models.take w.models.length) = w.models := by
    apply List.ext_getElem?
    intro j
    rw [List.getElem?_take]
    split
    · next hj => exact hk.recs j hj (fun h => nomatch h)
    · next hj => rw [List.getElem?_eq_none (by omega)]
  refine ⟨⟨?_, fun j hj _ => ?_, fun j hj _ => ?_, hk.elen, fun e he => ?_, ?_⟩, hmodels⟩
  · simp [sample, hmodels]
  · simp [sample, hmodels]
  · unfold sample
    rw [view_take _ _ _ hj]
    exact hk.view j hj (fun h => nomatch h)
  · exact hk.expr e he
  · unfold sample Inv
    exact InvS.take hk.inv _

end PyGam.Heap
