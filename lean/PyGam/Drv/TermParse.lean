import PyGam.Model.Terms
import PyGam.Drv.Common
/-!
Token grammar for term lists (shared by the C02/C04/C05/C16 drivers)

```
terms   := <k> term^k
term    := "I" | marg | "T" <k> <by|-1> marg^k
marg    := "L" <feat> <e0> <e1> lamspec
         | "S" <feat> <n> <p> <flag: 0 ps | 1 cp | 2 ps categorical | 3 cp categorical> <by|-1> <e0> <e1> lamspec conspec
         | "F" <feat> <ncat> <dummy:0|1> <e0> <e1> lamspec
lamspec := <m> (<penalty-kind> <lam>)^m      penalty-kind ∈ auto derivative l2 none periodic
conspec := <m> <constraint-kind>^m           constraint-kind ∈ none convex concave monotonic_inc monotonic_dec
```
-/
namespace PyGam.Drv
open PyGam

abbrev P (β : Type) := List String → Option (β × List String)

def pNat : P Nat
  | s :: r => s.toNat?.map (·, r)
  | [] => none

def pRat : P Rat
  | s :: r => (parseRat? s).map (·, r)
  | [] => none

def pBool : P Bool
  | "1" :: r => some (true, r)
  | "0" :: r => some (false, r)
  | _ => none

def pOptNat : P (Option Nat)
  | "-1" :: r => some (none, r)
  | s :: r => s.toNat?.map (fun n => (some n, r))
  | [] => none

def pPenKind : P PenKind
  | "auto" :: r => some (.auto, r)
  | "derivative" :: r => some (.derivative, r)
  | "l2" :: r => some (.l2, r)
  | "none" :: r => some (.none, r)
  | "periodic" :: r => some (.periodic, r)
  | _ => none

def pConKind : P ConKind
  | "none" :: r => some (.none, r)
  | "convex" :: r => some (.convex, r)
  | "concave" :: r => some (.concave, r)
  | "monotonic_inc" :: r => some (.monoInc, r)
  | "monotonic_dec" :: r => some (.monoDec, r)
  | _ => none

def pRepeat {β : Type} (p : P β) : Nat → P (List β)
  | 0, r => some ([], r)
  | k+1, r => do
      let (x, r) ← p r
      let (xs, r) ← pRepeat p k r
      some (x :: xs, r)

def pCounted {β : Type} (p : P β) : P (List β) := fun r => do
  let (k, r) ← pNat r
  pRepeat p k r

def pLamItem : P (PenKind × Rat) := fun r => do
  let (k, r) ← pPenKind r
  let (l, r) ← pRat r
  some ((k, l), r)

def pMarg : P (Marg Rat)
  | "L" :: r => do
      let (f, r) ← pNat r
      let (e0, r) ← pRat r
      let (e1, r) ← pRat r
      let (ls, r) ← pCounted pLamItem r
      some ({ kind := .linear, feature := f, nSplines := 1, order := 0, cyclic := false, byVar := none,
              dummy := false, lam := ls.map (·.2), penalties := ls.map (·.1), constraints := [.none],
              e0 := e0, e1 := e1 }, r)
  | "S" :: r => do
      let (f, r) ← pNat r
      let (n, r) ← pNat r
      let (p, r) ← pNat r
      -- basis / dtype flag: 0 = ps numerical, 1 = cp numerical, 2 = ps categorical, 3 = cp categorical
      let (flag, r) ← pNat r
      let (b, r) ← pOptNat r
      let (e0, r) ← pRat r
      let (e1, r) ← pRat r
      let (ls, r) ← pCounted pLamItem r
      let (cs, r) ← pCounted pConKind r
      if n < p + 1 ∨ 3 < flag then none else
      some ({ kind := .spline, feature := f, nSplines := n, order := p, cyclic := (flag % 2 == 1), byVar := b,
              dummy := false, lam := ls.map (·.2), penalties := ls.map (·.1), constraints := cs,
              e0 := e0, e1 := e1, catDtype := (2 ≤ flag) }, r)
  | "F" :: r => do
      let (f, r) ← pNat r
      let (n, r) ← pNat r
      let (d, r) ← pBool r
      let (e0, r) ← pRat r
      let (e1, r) ← pRat r
      let (ls, r) ← pCounted pLamItem r
      if n < 1 then none else
      some ({ kind := .factor, feature := f, nSplines := n, order := 0, cyclic := false, byVar := none,
              dummy := d, lam := ls.map (·.2), penalties := ls.map (·.1), constraints := [.none],
              e0 := e0, e1 := e1 }, r)
  | _ => none

def pTerm : P (Term Rat)
  | "I" :: r => some (.intercept, r)
  | "T" :: r => do
      let (k, r) ← pNat r
      let (b, r) ← pOptNat r
      let (ms, r) ← pRepeat pMarg k r
      if k < 2 then none else some (.tensor ms b, r)
  | r => do
      let (m, r) ← pMarg r
      some (.single m, r)

def pTerms : P (List (Term Rat)) := pCounted pTerm

/-- `"|"`-separated sections -/
def splitBar (l : List String) : List (List String) :=
  l.foldr (fun s acc => if s = "|" then [] :: acc else match acc with
    | [] => [[s]]
    | a :: rest => (s :: a) :: rest) [[]]

def epsRat : Rat := mkRat 1 1000000000

end PyGam.Drv
