import PyGam.Model.Pirls
import PyGam.Model.Solve
import PyGam.Drv.Common
namespace PyGam.Drv.C01
open PyGam PyGam.Drv

def famOf : String → Option Family
  | "normal" => some .normal | "binomial" => some .binomial | "poisson" => some .poisson
  | "gamma" => some .gamma | "inv_gauss" => some .invGauss | _ => none

def splitBar (l : List String) : List (List String) :=
  l.foldr (fun s acc => if s = "|" then [] :: acc else match acc with
    | [] => [[s]]
    | a :: rest => (s :: a) :: rest) [[]]

def toMat (rows cols : Nat) (l : List Float) : Array (Array Float) :=
  let a := l.toArray
  (Array.range rows).map (fun i => (Array.range cols).map (fun j => a[i * cols + j]!))

def norm2 (n : Nat) (v : Nat → Float) : Float := Float.sqrt (sumTo n (fun i => v i * v i))

/-- `step <fam> <link> <levels> <expectile|-> <n> <m> | B (n*m) | A (m*m) | y | w | keep(0/1) | beta`
→ `<rel score residual> <rel lp change of one model step> <beta' …>`:
the model PIRLS step evaluated at the implementation's coefficients (all floats as bit patterns) -/
def handle (toks : List String) : Option String :=
  match toks with
  | "step" :: fam :: link :: levels :: tau :: n :: m :: rest =>
    match splitBar rest with
    | [[], bs, as, ys, ws, ks, betas] => do
        let fam ← famOf fam
        let link ← LinkKind.ofName? link
        let levels ← parseFloat? levels
        let tau ← (if tau = "-" then some none else (parseFloat? tau).map some)
        let n ← n.toNat?; let m ← m.toNat?
        let bl ← parseFloats? bs; let al ← parseFloats? as
        let y ← parseFloats? ys; let w ← parseFloats? ws; let β ← parseFloats? betas
        if bl.length ≠ n * m ∨ al.length ≠ m * m ∨ y.length ≠ n ∨ w.length ≠ n ∨ ks.length ≠ n ∨ β.length ≠ m then none else
        let Bm := toMat n m bl
        let Am := toMat m m al
        let ya := y.toArray; let wa := w.toArray; let βa := β.toArray
        let ka : Array Bool := (ks.map (fun s => s == "1")).toArray
        let B : Nat → Nat → Float := fun i j => Bm[i]![j]!
        let A : Nat → Nat → Float := fun i j => Am[i]![j]!
        let cfg : GlmCfg Float := { fam := fam, link := link, levels := levels, expectile := tau }
        let d := stepData cfg m B (fun i => ya[i]!) (fun i => wa[i]!) (fun i => ka[i]!) (fun j => βa[j]!)
        let N := normalMat n B d.keep d.W2 A
        let rhs := normalRhs n B d.keep d.W2 d.z
        let res := scoreResidual n m B A d (fun j => βa[j]!)
        let Nm := (Array.range m).map (fun i => (Array.range m).map (fun j => N i j))
        let rv := (Array.range m).map rhs
        let β' ← gaussSolve m Nm rv
        let relRes := norm2 m res / (norm2 m rhs + 1e-300)
        let lpNew := linearPredictor m B (fun j => β'[j]!)
        let relLp := norm2 n (fun r => lpNew r - d.lp r) / (norm2 n d.lp + 1e-300)   -- all rows, as predictions are
        some (showFloatList (relRes :: relLp :: β'.toList))
    | _ => none
  | _ => none
end PyGam.Drv.C01
