import PyGam.Drv.Common
namespace PyGam.Drv.C01
open PyGam PyGam.Drv

/-- operations of the C01 model driver (`C01 <op> <args…>`); `none` ↦ `bad-op` -/
def handle : List String → Option String
  | _ => none
end PyGam.Drv.C01
