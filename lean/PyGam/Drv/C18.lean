import PyGam.Drv.Common
namespace PyGam.Drv.C18
open PyGam PyGam.Drv

/-- operations of the C18 model driver (`C18 <op> <args…>`); `none` ↦ `bad-op` -/
def handle : List String → Option String
  | _ => none
end PyGam.Drv.C18
