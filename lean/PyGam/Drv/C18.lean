import PyGam.Model.Expectile
import PyGam.Drv.Common
namespace PyGam.Drv.C18
open PyGam PyGam.Drv PyGam.Expectile

/-- split a token list at the separator `|` -/
def splitBar (l : List String) : List (List String) :=
  let rec go : List String → List String → List (List String) → List (List String)
    | [], cur, acc => (cur.reverse :: acc).reverse
    | t :: ts, cur, acc => if t = "|" then go ts [] (cur.reverse :: acc) else go ts (t :: cur) acc
  go l [] []

def ratVec? (n : Nat) (l : List String) : Option (Nat → Rat) := do
  let v ← parseRats? l
  if v.length = n then some (listToVec v) else none

def showBool (b : Bool) : String := if b then "1" else "0"

/-- result line of a bisection run: `e1 e2 … | lo hi e nIter conv`; `short-ratios` when the
model asked for more ratios than were supplied (it then disagrees with the trace it was given) -/
def showBisect {α : Type} (sh : α → String) (nr : Nat) (trace : List α) (res : BState α × Bool) : String :=
  let used := res.1.nIter + (if res.2 then 1 else 0)
  if used > nr then "short-ratios"
  else joinWith " " (trace.map sh) ++ " | " ++ sh res.1.lo ++ " " ++ sh res.1.hi ++ " " ++ sh res.1.e
    ++ " " ++ toString res.1.nIter ++ " " ++ showBool res.2

/-- operations of the C18 model driver (`C18 <op> <args…>`); `none` ↦ `bad-op`

* `valid e`                                   → `ok` | `ValueError`        (`validExpectile`)
* `asym tau n | y… | mu…`                     → `asym τ yᵢ μᵢ …`
* `balance tau n | w… | y… | mu…`             → `τ Σ_{r>0} w r − (1−τ) Σ_{r≤0} w|r|`  (exact)
* `intercept tau s00 n fuel | w… | y… | b0`   → `β conv` : `interceptFit` from `b0`
* `bisect q tol maxIter e0 | r0 r1 …`         → `ValueError` | `e1 e2 … | lo hi e nIter conv`   (exact rationals)
* `bisectf q tol maxIter e0 | r0 r1 …`        → the same over IEEE doubles (bit patterns)
* `searchi q tol maxIter e0 s00 n fuel pre | w… | y… | cold`
                                              → `ValueError` | `e1 β1 c1 e2 β2 c2 … | lo hi e nIter conv | β c`
      `fitQuantileW` on the intercept-only model (`interceptModelFit`, `interceptRatio`) with the sample weights `w` as the
      forwarded keyword: expectile / coefficient / converged flag of every re-fit, the final bracket state, the returned
      coefficient.  `pre` = `-` (not fitted: the first fit is `fit w e0`) or the coefficient of an already fitted model.
-/
def handle : List String → Option String
  | ["valid", e] => do
      let e ← parseRat? e
      some (if validExpectile e then "ok" else "ValueError")
  | "asym" :: tau :: n :: "|" :: rest => do
      let tau ← parseRat? tau; let n ← n.toNat?
      match splitBar rest with
      | [ys, ms] =>
          let y ← ratVec? n ys; let mu ← ratVec? n ms
          some (showRatList (vecToList n (fun i => asym tau (y i) (mu i))))
      | _ => none
  | "balance" :: tau :: n :: "|" :: rest => do
      let tau ← parseRat? tau; let n ← n.toNat?
      match splitBar rest with
      | [ws, ys, ms] =>
          let w ← ratVec? n ws; let y ← ratVec? n ys; let mu ← ratVec? n ms
          some (showRat (balance tau n w y mu))
      | _ => none
  | "intercept" :: tau :: s00 :: n :: fuel :: "|" :: rest => do
      let tau ← parseRat? tau; let s00 ← parseRat? s00; let n ← n.toNat?; let fuel ← fuel.toNat?
      match splitBar rest with
      | [ws, ys, [b0]] =>
          let w ← ratVec? n ws; let y ← ratVec? n ys; let b0 ← parseRat? b0
          let r := interceptFit tau s00 n w y fuel b0
          some (showRat r.1 ++ " " ++ showBool r.2)
      | _ => none
  | "bisect" :: q :: tol :: maxIter :: e0 :: "|" :: rs => do
      let q ← parseRat? q; let tol ← parseRat? tol; let maxIter ← parseInt? maxIter; let e0 ← parseRat? e0
      let rs ← parseRats? rs
      let ratio : Nat → Rat → Rat := fun k _ => rs.getD k 0
      match fitQuantile ratio q tol maxIter e0 with
      | none => some "ValueError"
      | some res =>
          let tr := bisectTrace ratio q tol maxIter.toNat { lo := 0, hi := 1, e := e0, nIter := 0 }
          some (showBisect showRat rs.length tr res)
  | "bisectf" :: q :: tol :: maxIter :: e0 :: "|" :: rs => do
      let q ← parseFloat? q; let tol ← parseFloat? tol; let maxIter ← parseInt? maxIter; let e0 ← parseFloat? e0
      let rs ← parseFloats? rs
      let ratio : Nat → Float → Float := fun k _ => rs.getD k 0
      match fitQuantile ratio q tol maxIter e0 with
      | none => some "ValueError"
      | some res =>
          let tr := bisectTrace ratio q tol maxIter.toNat { lo := 0, hi := 1, e := e0, nIter := 0 }
          some (showBisect showFloat rs.length tr res)
  | "searchi" :: q :: tol :: maxIter :: e0 :: s00 :: n :: fuel :: pre :: "|" :: rest => do
      let q ← parseRat? q; let tol ← parseRat? tol; let maxIter ← parseInt? maxIter; let e0 ← parseRat? e0
      let s00 ← parseRat? s00; let n ← n.toNat?; let fuel ← fuel.toNat?
      let pre : Option (Rat × Bool) ← (if pre = "-" then some none else (parseRat? pre).map (fun b => some (b, true)))
      match splitBar rest with
      | [ws, ys, [cold]] =>
          let w ← ratVec? n ws; let y ← ratVec? n ys; let cold ← parseRat? cold
          let fit := interceptModelFit s00 n y fuel cold
          let ratio := interceptRatio n y
          match fitQuantileW fit ratio w q tol maxIter e0 pre with
          | none => some "ValueError"
          | some res =>
              let tr := searchTrace fit ratio w q tol maxIter.toNat
                { b := { lo := 0, hi := 1, e := e0, nIter := 0 }, model := searchStart fit w e0 pre }
              some (joinWith " " (tr.map (fun em => showRat em.1 ++ " " ++ showRat em.2.1 ++ " " ++ showBool em.2.2))
                ++ " | " ++ showRat res.1.b.lo ++ " " ++ showRat res.1.b.hi ++ " " ++ showRat res.1.b.e
                ++ " " ++ toString res.1.b.nIter ++ " " ++ showBool res.2
                ++ " | " ++ showRat res.1.model.1 ++ " " ++ showBool res.1.model.2)
      | _ => none
  | _ => none
end PyGam.Drv.C18
