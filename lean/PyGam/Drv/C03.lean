import PyGam.Drv.Common
namespace PyGam.Drv.C03
open PyGam PyGam.Drv

/-- operations of the C03 model driver (`C03 <op> <args…>`); `none` ↦ `bad-op` -/
def handle : List String → Option String
  | _ => none
end PyGam.Drv.C03
