import PyGam.Model.BSpline
import PyGam.Drv.Common
namespace PyGam.Drv.C03
open PyGam PyGam.Drv

def eps : Rat := mkRat 1 1000000000

/-- operations of the C03 model driver:
* `row <n> <p> <periodic:0|1> <e0> <e1> <x>`  → the exact basis row (rationals)
* `knots <categorical:0|1> <min> <max>`       → edge knots -/
def handle : List String → Option String
  | ["row", n, p, per, e0, e1, x] => do
      let n ← n.toNat?; let p ← p.toNat?
      let per ← (if per = "1" then some true else if per = "0" then some false else none)
      let e0 ← parseRat? e0; let e1 ← parseRat? e1; let x ← parseRat? x
      if n < p + 1 then none else
      let c : BasisCfg Rat := { nSplines := n, order := p, periodic := per, e0 := e0, e1 := e1 }
      some (showRatList (vecToList n (basisRow eps c x)))
  | ["knots", cat, a, b] => do
      let cat ← (if cat = "1" then some true else if cat = "0" then some false else none)
      let a ← parseRat? a; let b ← parseRat? b
      let k := edgeKnots cat a b (mkRat 1 2)
      some (showRat k.1 ++ " " ++ showRat k.2)
  | _ => none
end PyGam.Drv.C03
