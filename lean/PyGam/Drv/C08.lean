import PyGam.Model.Stats
import PyGam.Model.SolveMany
import PyGam.Model.Exposure
import PyGam.Drv.Common
namespace PyGam.Drv.C08
open PyGam PyGam.Drv PyGam.Stats

def famOf : String → Option Family
  | "normal" => some .normal | "binomial" => some .binomial | "poisson" => some .poisson
  | "gamma" => some .gamma | "inv_gauss" => some .invGauss | _ => none

def splitBar (l : List String) : List (List String) :=
  l.foldr (fun s acc => if s = "|" then [] :: acc else match acc with
    | [] => [[s]]
    | a :: rest => (s :: a) :: rest) [[]]

def toMat (rows cols : Nat) (l : List Float) : Array (Array Float) :=
  let a := l.toArray
  (Array.range rows).map (fun i => (Array.range cols).map (fun j => a[i * cols + j]!))

def showOpt : Option Float → String
  | some x => showFloat x
  | none => "none"

def optFloat? (s : String) : Option (Option Float) :=
  if s = "-" then some none else (parseFloat? s).map some

def absF (x : Float) : Float := if x < 0 then 0 - x else x

/-- `fit <fam> <link> <levels> <tau|-> <known scale|-> <n> <m> <loglik> <null loglik> <edof of the implementation>
     | B (n*m) | A (m*m) | y | w | keep(0/1) | coef | mu`
→ `<edof> | <scale> <AIC> <AICc> <GCV|none> <UBRE|none> <explained deviance> <McFadden> <McFadden_adj> <deviance>
     | se (m) | cov (m*m)`
`edof`, `se`, `cov` are `Stats.edofOf / seOf / covOf` on the solution `Bm` of `(WBᵀWB + A) Bm = WBᵀ` with the model
PIRLS weights at the coefficients handed in; the scalar statistics are `Stats.scalars` at the handed-in
`(y, mu, w, edof, ℓ, ℓ₀)`. -/
def fitOp (fam link levels tau known n m ll ll0 edofI : String) (rest : List String) : Option String :=
  match splitBar rest with
  | [[], bs, as, ys, ws, ks, betas, mus] => do
      let fam ← famOf fam
      let link ← LinkKind.ofName? link
      let levels ← parseFloat? levels
      let tau ← optFloat? tau
      let known ← optFloat? known
      let n ← n.toNat?; let m ← m.toNat?
      let ll ← parseFloat? ll; let ll0 ← parseFloat? ll0; let edofI ← parseFloat? edofI
      let bl ← parseFloats? bs; let al ← parseFloats? as
      let y ← parseFloats? ys; let w ← parseFloats? ws; let β ← parseFloats? betas; let mu ← parseFloats? mus
      if bl.length ≠ n * m ∨ al.length ≠ m * m ∨ y.length ≠ n ∨ w.length ≠ n ∨ ks.length ≠ n ∨ β.length ≠ m
          ∨ mu.length ≠ n then none else
      let Bm := toMat n m bl
      let Am := toMat m m al
      let ya := y.toArray; let wa := w.toArray; let βa := β.toArray; let mua := mu.toArray
      let ka : Array Bool := (ks.map (fun s => s == "1")).toArray
      let B : Nat → Nat → Float := fun i j => Bm[i]![j]!
      let A : Nat → Nat → Float := fun i j => Am[i]![j]!
      let yf : Nat → Float := fun i => ya[i]!
      let wf : Nat → Float := fun i => wa[i]!
      let cfg : GlmCfg Float := { fam := fam, link := link, levels := levels, expectile := tau }
      -- working weights at the handed-in coefficients (model PIRLS step)
      let d := stepData cfg m B yf wf (fun i => ka[i]!) (fun j => βa[j]!)
      let W2a := (Array.range n).map d.W2
      let Wa := (Array.range n).map (fun r => workW cfg (wf r) (yf r) (d.mu r))
      let N := normalMat n B d.keep (fun r => W2a[r]!) A
      let WBf := weightedB B d.keep (fun r => Wa[r]!)
      let WBa := (Array.range n).map (fun r => (Array.range m).map (fun j => WBf r j))
      let Nm := (Array.range m).map (fun i => (Array.range m).map (fun j => N i j))
      let rhs := (Array.range m).map (fun j => (Array.range n).map (fun r => WBa[r]![j]!))   -- WBᵀ
      let X ← gaussSolveMany m n Nm rhs
      let Xf : Nat → Nat → Float := fun j r => X[j]![r]!
      let edofM := edofOf n m (fun r j => WBa[r]![j]!) Xf
      let sc := scalars known fam levels n edofI wf yf (fun i => mua[i]!) (fun _ => ll) (fun _ => ll0)
      let cov := covOf n sc.scale Xf
      let cova := (Array.range m).map (fun i => (Array.range m).map (fun j => cov i j))
      let se := (Array.range m).map (fun i => seOf (fun a b => cova[a]![b]!) i)
      some (showFloat edofM ++ " | " ++
        joinWith " " [showFloat sc.scale, showFloat sc.aic, showFloat sc.aicc, showOpt sc.gcv, showOpt sc.ubre,
          showFloat sc.explained, showFloat sc.mcFadden, showFloat sc.mcFaddenAdj, showFloat sc.deviance]
        ++ " | " ++ showFloatList se.toList ++ " | " ++ showFloatList (cova.toList.map Array.toList).flatten)
  | _ => none

/-- `eval <fam> <levels> <scale> <poissonGAM 0/1> <nq> | y | w | mu | mu0`
→ `<score> <accuracy> <kernel(mu) - kernel(mu0)> | deviance residuals (unscaled) | deviance residuals (scaled)` -/
def evalOp (fam levels scale pg nq : String) (rest : List String) : Option String :=
  match splitBar rest with
  | [[], ys, ws, mus, mu0s] => do
      let fam ← famOf fam
      let levels ← parseFloat? levels
      let scale ← parseFloat? scale
      let nq ← nq.toNat?
      let pg ← (if pg = "1" then some true else if pg = "0" then some false else none)
      let y ← parseFloats? ys; let w ← parseFloats? ws; let mu ← parseFloats? mus; let mu0 ← parseFloats? mu0s
      if y.length ≠ nq ∨ w.length ≠ nq ∨ mu.length ≠ nq ∨ mu0.length ≠ nq then none else
      let ya := y.toArray; let wa := w.toArray; let mua := mu.toArray; let mu0a := mu0.toArray
      let yf : Nat → Float := fun i => ya[i]!
      let wf : Nat → Float := fun i => wa[i]!
      let muf : Nat → Float := fun i => mua[i]!
      let score := r2Explained fam levels scale nq wf yf muf
      let acc := accuracy nq yf muf
      let yk : Nat → Float := if pg then rescaleY Exposure.roundHalfEvenF wf yf else yf
      let kd := logKernelSum fam levels scale nq wf yk muf - logKernelSum fam levels scale nq wf yk (fun i => mu0a[i]!)
      let r0 := (List.range nq).map (fun i => devResid fam levels scale false (wf i) (yf i) (muf i))
      let r1 := (List.range nq).map (fun i => devResid fam levels scale true (wf i) (yf i) (muf i))
      some (showFloatList [score, acc, kd] ++ " | " ++ showFloatList r0 ++ " | " ++ showFloatList r1)
  | _ => none

/-- `wald <spline 0/1> <known 0/1> <k> <rank> <n> <edof> | P (k*k) | c (k)`
→ `<score> <first cdf argument> <second cdf argument> <Σ|c_i||P_ij||c_j|>` -/
def waldOp (sp known k rank n edof : String) (rest : List String) : Option String :=
  match splitBar rest with
  | [[], ps, cs] => do
      let sp ← (if sp = "1" then some true else if sp = "0" then some false else none)
      let known ← (if known = "1" then some true else if known = "0" then some false else none)
      let k ← k.toNat?; let rank ← rank.toNat?; let n ← n.toNat?
      let edof ← parseFloat? edof
      let pl ← parseFloats? ps; let c ← parseFloats? cs
      if pl.length ≠ k * k ∨ c.length ≠ k then none else
      let Pm := toMat k k pl
      let ca := c.toArray
      let cc := waldCoef sp k (fun i => ca[i]!)
      let cca := (Array.range k).map cc
      let score := waldStat k (fun i j => Pm[i]![j]!) (fun i => cca[i]!)
      let mag := waldStat k (fun i j => absF (Pm[i]![j]!)) (fun i => absF (cca[i]!))
      let a := cdfArgs known score rank n edof
      some (showFloatList [score, a.1, a.2, mag])
  | _ => none

/-- `acc <n> | y | mu` → `LogisticGAM.accuracy(y=…, mu=…)` -/
def accOp (n : String) (rest : List String) : Option String :=
  match splitBar rest with
  | [[], ys, mus] => do
      let n ← n.toNat?
      let y ← parseFloats? ys; let mu ← parseFloats? mus
      if y.length ≠ n ∨ mu.length ≠ n then none else
      let ya := y.toArray; let mua := mu.toArray
      some (showFloat (accuracy n (fun i => ya[i]!) (fun i => mua[i]!)))
  | _ => none

/-- operations of the C08 model driver (`C08 <op> <args…>`); `none` ↦ `bad-op` -/
def handle : List String → Option String
  | "fit" :: fam :: link :: levels :: tau :: known :: n :: m :: ll :: ll0 :: edofI :: rest =>
      fitOp fam link levels tau known n m ll ll0 edofI rest
  | "eval" :: fam :: levels :: scale :: pg :: nq :: rest => evalOp fam levels scale pg nq rest
  | "wald" :: sp :: known :: k :: rank :: n :: edof :: rest => waldOp sp known k rank n edof rest
  | "acc" :: n :: rest => accOp n rest
  | _ => none
end PyGam.Drv.C08
