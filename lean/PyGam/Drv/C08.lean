import PyGam.Drv.Common
namespace PyGam.Drv.C08
open PyGam PyGam.Drv

/-- operations of the C08 model driver (`C08 <op> <args…>`); `none` ↦ `bad-op` -/
def handle : List String → Option String
  | _ => none
end PyGam.Drv.C08
