import PyGam.Model.Intervals
import PyGam.Drv.Common
/-!
Driver operations of C09 (`C09 <op> <args…>`), executing the definitions of `Model/Intervals.lean` at `Float`.
All numbers are IEEE doubles as bit patterns `b<uint64>`.

* `qw <w>`                         → the two quantiles `quantilesOfWidth w`
* `chk w <w>` | `chk q <q>…`       → `ValueError` | `ok`      (`quantilesRejected (resolveQuantiles …)`)
* `ref <known:0|1> <n> <edof>`     → `norm` | `t <df>`        (`refDistOf`)
* `iv <ci|pi|pd> <link> <levels> <scale> <known> <n> <edof> <m> <start> <len>
      (w <w> | q <k> <q>×k)  <nn> (<q> <z>)×nn  <nt> (<df> <q> <z>)×nt
      <coef>×m <cov>×m² <nrows> <row>×(nrows·len)`
  → `ValueError` | `missing-z` | `<b…>… ; <b…>… ; …` one group per row (for `pd` preceded by the point values and ` | `).
  The two tables are the SciPy quantile functions restricted to the points the harness evaluated
  (`norm.ppf(q) = z`, `t.ppf(q, df) = z`); a quantile the model asks for that is not in the table prints `missing-z`.
-/
namespace PyGam.Drv.C09
open PyGam PyGam.Drv

def parseBool? : String → Option Bool
  | "1" => some true
  | "0" => some false
  | _ => none

def vecOf (a : Array Float) : Nat → Float := fun i => a.getD i 0
def matOf (m : Nat) (a : Array Float) : Nat → Nat → Float := fun i j => a.getD (i * m + j) 0

/-- bit-pattern equality (so that a table keyed by the harness's floats is looked up exactly) -/
def sameBits (a b : Float) : Bool := a.toBits == b.toBits

def lookup1 (tab : List (Float × Float)) (q : Float) : Option Float :=
  (tab.find? (fun p => sameBits p.1 q)).map (·.2)

def lookup2 (tab : List (Float × Float × Float)) (df q : Float) : Option Float :=
  (tab.find? (fun p => sameBits p.1 df && sameBits p.2.1 q)).map (·.2.2)

def nanF : Float := 0.0 / 0.0

def pairs : List Float → List (Float × Float)
  | a :: b :: rest => (a, b) :: pairs rest
  | _ => []

def triples : List Float → List (Float × Float × Float)
  | a :: b :: c :: rest => (a, b, c) :: triples rest
  | _ => []

def showRows (rows : List (List Float)) : String := joinWith " ; " (rows.map showFloatList)

/-- parse `(w <w> | q <k> <q>×k)`; returns (width, quantiles, rest) -/
def parseQSpec? : List String → Option (Float × Option (List Float) × List String)
  | "w" :: w :: rest => do
      let w ← parseFloat? w
      some (w, none, rest)
  | "q" :: k :: rest => do
      let k ← k.toNat?
      if rest.length < k then none else
      let qs ← parseFloats? (rest.take k)
      some (0.0, some qs, rest.drop k)
  | _ => none

def handle : List String → Option String
  | ["qw", w] => do
      let w ← parseFloat? w
      some (showFloatList (quantilesOfWidth w))
  | ["chk", "w", w] => do
      let w ← parseFloat? w
      some (if quantilesRejected (resolveQuantiles w none) then "ValueError" else "ok")
  | "chk" :: "q" :: qs => do
      let qs ← parseFloats? qs
      some (if quantilesRejected (resolveQuantiles (0.0 : Float) (some qs)) then "ValueError" else "ok")
  | ["ref", known, n, edof] => do
      let known ← parseBool? known; let n ← parseFloat? n; let edof ← parseFloat? edof
      some (match refDistOf known n edof with
        | .normal => "norm"
        | .studentT df => "t " ++ showFloat df)
  | "iv" :: mode :: link :: levels :: scale :: known :: n :: edof :: m :: start :: len :: rest => do
      let link ← LinkKind.ofName? link
      let levels ← parseFloat? levels; let scale ← parseFloat? scale
      let known ← parseBool? known; let n ← parseFloat? n; let edof ← parseFloat? edof
      let m ← m.toNat?; let start ← start.toNat?; let len ← len.toNat?
      let (width, quantiles, rest) ← parseQSpec? rest
      -- the two quantile tables
      let nn ← rest.head?.bind String.toNat?
      let rest := rest.drop 1
      if rest.length < 2 * nn then none else
      let ntab := pairs (← parseFloats? (rest.take (2 * nn)))
      let rest := rest.drop (2 * nn)
      let nt ← rest.head?.bind String.toNat?
      let rest := rest.drop 1
      if rest.length < 3 * nt then none else
      let ttab := triples (← parseFloats? (rest.take (3 * nt)))
      let rest := rest.drop (3 * nt)
      -- coefficients, covariance, rows
      if rest.length < m + m * m + 1 then none else
      let coef := (← parseFloats? (rest.take m)).toArray
      let cov := (← parseFloats? ((rest.drop m).take (m * m))).toArray
      let rest := rest.drop (m + m * m)
      let nrows ← rest.head?.bind String.toNat?
      let rowToks := rest.drop 1
      let width_ := if mode == "pd" then len else m
      if rowToks.length ≠ nrows * width_ then none else
      let rowArr := (← parseFloats? rowToks).toArray
      let rows : List (Nat → Float) :=
        (List.range nrows).map (fun r => fun j => if j < width_ then rowArr.getD (r * width_ + j) 0 else 0)
      let fit : FitStats Float :=
        { m := m, coef := vecOf coef, cov := matOf m cov, scale := scale, knownScale := known,
          nSamples := n, edof := edof, link := link, levels := levels }
      let normPpf : Float → Float := fun q => (lookup1 ntab q).getD nanF
      let tPpf : Float → Float → Float := fun df q => (lookup2 ttab df q).getD nanF
      -- diagnostics only: every quantile the model is going to ask for must be in the supplied table
      let qs := resolveQuantiles width quantiles
      let have_ := match refDistOf known n edof with
        | .normal => qs.all (fun q => (lookup1 ntab q).isSome)
        | .studentT df => qs.all (fun q => (lookup2 ttab df q).isSome)
      let out ← match mode with
        | "ci" => some (confidenceIntervals normPpf tPpf fit width quantiles rows)
        | "pi" => some (predictionIntervals normPpf tPpf fit width quantiles rows)
        | "pd" => some (partialDependenceIntervals normPpf tPpf fit start len width quantiles rows)
        | _ => none
      match out with
      | .valueError => some "ValueError"
      | .ok v =>
          if !have_ then some "missing-z" else
          if mode == "pd" then
            some (showFloatList (rows.map (partialDependencePoint fit start len)) ++ " | " ++ showRows v)
          else some (showRows v)
  | _ => none
end PyGam.Drv.C09
