import PyGam.Drv.Common
namespace PyGam.Drv.C09
open PyGam PyGam.Drv

/-- operations of the C09 model driver (`C09 <op> <args…>`); `none` ↦ `bad-op` -/
def handle : List String → Option String
  | _ => none
end PyGam.Drv.C09
