/-! stdin/stdout loop shared by the compiled driver and the per-property development drivers -/
namespace PyGam.Drv

partial def loopLines (h : IO.FS.Stream) (out : IO.FS.Stream) (f : List String → String) : IO Unit := do
  let line ← h.getLine
  if line.isEmpty then return ()
  let toks := (line.trimAscii.toString.splitOn " ").filter (· ≠ "")
  out.putStrLn (f toks)
  loopLines h out f

def runLoop (f : List String → String) : IO Unit := do
  let out ← IO.getStdout
  loopLines (← IO.getStdin) out f
  out.flush

end PyGam.Drv
