import PyGam.Model.Links
import PyGam.Model.XR
import PyGam.Drv.Common
/-!
Driver operations of C07 (`C07 <op> <args…>`), executing the definitions of `Model/Links.lean` and
`Model/XR.lean` that `Props/C07.lean` is about.

* `val <link|mu|grad> <kind> <levels:bits> <x:bits>…`      → `b… b… …`   (`linkFn/linkInv/linkGrad` at `Float`)
* `xval <link|mu|grad> <kind> <levels:rat> <x:xr>…`        → one class per x: `nan | inf | -inf | fin | fin:<rat>`
  (`linkFn/…` at `XR Rat`; the exact value is printed where no transcendental function is involved)
* `checky <kind> <levels:rat> <y:xr>…`                     → `accept | reject`   (`checkY`)
* `domain <kind> <levels:rat>`                             → `<lo:xr> <hi:xr>` | `none`   (`getLinkDomain`)

`xr` tokens: `nan`, `inf`, `-inf` or a rational `num/den`.
-/
namespace PyGam.Drv.C07
open PyGam PyGam.Drv

def parseXR? (s : String) : Option (XR Rat) :=
  if s = "nan" then some XR.nan
  else if s = "inf" then some XR.posInf
  else if s = "-inf" then some XR.negInf
  else (parseRat? s).map XR.fin

def showXR (withValue : Bool) : XR Rat → String
  | XR.nan => "nan"
  | XR.posInf => "inf"
  | XR.negInf => "-inf"
  | XR.fin a => if withValue then "fin:" ++ showRat a else "fin"

def showXRplain : XR Rat → String
  | XR.fin a => showRat a
  | x => showXR false x

/-- which of `link | mu | grad` -/
inductive Fn | link | mu | grad

def parseFn? : String → Option Fn
  | "link" => some Fn.link | "mu" => some Fn.mu | "grad" => some Fn.grad | _ => none

def evalFloat (f : Fn) (k : LinkKind) (levels x : Float) : Float :=
  match f with
  | Fn.link => linkFn k levels x
  | Fn.mu => linkInv k levels x
  | Fn.grad => linkGrad k levels x

section
-- finite values of exp/log/sqrt are abstracted (see `ExpLog.classOnlyRat`): classes only
attribute [local instance] ExpLog.classOnlyRat

def evalXR (f : Fn) (k : LinkKind) (levels : Rat) (x : XR Rat) : XR Rat :=
  match f with
  | Fn.link => linkFn k (XR.fin levels) x
  | Fn.mu => linkInv k (XR.fin levels) x
  | Fn.grad => linkGrad k (XR.fin levels) x

def checkYRat (k : LinkKind) (levels : Rat) (ys : List (XR Rat)) : Verdict := checkY k levels ys
def domainRat (k : LinkKind) (levels : Rat) : Option (XR Rat × XR Rat) := getLinkDomain k levels
end

/-- the (function, link) pairs whose model value involves no `exp/log/sqrt`: the value is exact -/
def isRational : Fn → LinkKind → Bool
  | Fn.grad, _ => true
  | Fn.link, LinkKind.identity => true
  | Fn.link, LinkKind.inverse => true
  | Fn.link, LinkKind.invSquared => true
  | Fn.mu, LinkKind.identity => true
  | Fn.mu, LinkKind.inverse => true
  | _, _ => false

def handle : List String → Option String
  | "val" :: f :: k :: levels :: xs => do
      let f ← parseFn? f; let k ← LinkKind.ofName? k
      let levels ← parseFloat? levels; let xs ← parseFloats? xs
      some (showFloatList (xs.map (evalFloat f k levels)))
  | "xval" :: f :: k :: levels :: xs => do
      let f ← parseFn? f; let k ← LinkKind.ofName? k
      let levels ← parseRat? levels; let xs ← xs.mapM parseXR?
      some (joinWith " " (xs.map (fun x => showXR (isRational f k) (evalXR f k levels x))))
  | "checky" :: k :: levels :: ys => do
      let k ← LinkKind.ofName? k
      let levels ← parseRat? levels; let ys ← ys.mapM parseXR?
      some (match checkYRat k levels ys with
            | Verdict.accept => "accept" | Verdict.reject => "reject")
  | ["domain", k, levels] => do
      let k ← LinkKind.ofName? k
      let levels ← parseRat? levels
      some (match domainRat k levels with
            | some (lo, hi) => showXRplain lo ++ " " ++ showXRplain hi
            | none => "none")
  | _ => none
end PyGam.Drv.C07
