import PyGam.Drv.Common
namespace PyGam.Drv.C07
open PyGam PyGam.Drv

/-- operations of the C07 model driver (`C07 <op> <args…>`); `none` ↦ `bad-op` -/
def handle : List String → Option String
  | _ => none
end PyGam.Drv.C07
