import PyGam.Drv.Common
namespace PyGam.Drv.C20
open PyGam PyGam.Drv

/-- operations of the C20 model driver (`C20 <op> <args…>`); `none` ↦ `bad-op` -/
def handle : List String → Option String
  | _ => none
end PyGam.Drv.C20
