import PyGam.Model.Loop
import PyGam.Drv.Common
/-!
# C20 driver: runs `PyGam.Loop.fit` (the definition the theorems of `Props/C20.lean` are about)

The abstract parts are instantiated so that the recorded run of the implementation can be
replayed: coefficients `C := Nat` (index on the trajectory, `step = (· + 1)`, `init = 0`), diffs
`D := Float` (the recorded IEEE doubles, `+inf` beyond the recording), entries `V := String`
(symbolic: which observable of which trajectory point was logged).

```
fit <cls> <maxIter:int> <tol:bits> <hasC:0|1> <cbs> <old> <diff bits …>
    cbs : `-` (argument not given: class default) | `=item,item,…` (`=` alone: empty list)
    item: deviance | diffs | accuracy | coef | u/<name>/<start>/<end>[/<ret>]
          ret: `v` hooks return a value (default) | `n` always None | `e` None in even iterations
          start/end: `-` no such hook | `<args>` | `<args>~<locals>`; args/locals: `.` none | names joined by `+`
    old : `-` | key*count,key*count      (entries already in logs_ before this fit)
  → ValueError | AssertionError | short | ok iters=k coef=k printed=b stats=b logs key=e|e|… key=…
    entries: none (a hook returned None)  old<i>  dev@k  acc@k  coef@k  diff:<bits>  us:<name>@k  ue:<name>@k>k':<bits>
ctor <cls> <arg>            → <accepts 0|1> <forwards 0|1>
defaults <cls>              → names
effective <cls> <cbs>       → names of the callbacks the optimiser will see
bind <start|end> <hasC> <args> <locals> → ok | missing <names …>      (args/locals as above)
```
-/
namespace PyGam.Drv.C20
open PyGam PyGam.Drv PyGam.Loop

abbrev CB := Callback Nat Float String

def obs : Obs Nat Float String :=
  { dev := fun c => "dev@" ++ toString c
    acc := fun c => "acc@" ++ toString c
    coefV := fun c => "coef@" ++ toString c
    diffV := fun d => "diff:" ++ showFloat d }

def parseList? (s : String) : Option (List String) :=
  if s == "." then some []
  else
    let parts := s.splitOn "+"
    if parts.any (· == "") then none else some parts

/-- `-` ↦ no hook; `args` or `args~locals` ↦ (argument names, local-variable names) -/
def parseNames? (s : String) : Option (Option (List String × List String)) :=
  if s == "-" then some none
  else
    match s.splitOn "~" with
    | [a] => (parseList? a).map (fun a => some (a, []))
    | [a, l] => do
        let a ← parseList? a
        let l ← parseList? l
        some (some (a, l))
    | _ => none

/-- what a user hook returns in iteration `k`: `v` a value, `n` always `None`, `e` `None` on even `k`.
A `None` return is a log entry like any other (`logs_[key].append(None)`). -/
def retVal (ret : String) (k : Nat) (v : String) : String :=
  if ret == "n" then "none" else if ret == "e" && k % 2 == 0 then "none" else v

def mkUser (name st en ret : String) : Option CB := do
  if name == "" then none
  if !(ret == "v" || ret == "n" || ret == "e") then none
  let st ← parseNames? st
  let en ← parseNames? en
  some { name := name
         onStart := st.map (fun ex =>
           ⟨ex.1, fun k c => retVal ret k (s!"us:{name}@{k}" ++ (if k == c then "" else "!")), ex.2⟩)
         onEnd := en.map (fun ex =>
           ⟨ex.1, fun k c c' d => retVal ret k
              (s!"ue:{name}@{c}>{c'}:" ++ showFloat d ++ (if k == c then "" else "!")), ex.2⟩) }

def parseItem? (s : String) : Option CB :=
  match s.splitOn "/" with
  | [b] => (Builtin.ofName? b).map (builtin obs)
  | ["u", name, st, en] => mkUser name st en "v"
  | ["u", name, st, en, ret] => mkUser name st en ret
  | _ => none

/-- `-` ↦ none (argument not given) ; `=a,b` ↦ some [a, b] -/
def parseCbs? (s : String) : Option (Option (List CB)) :=
  if s == "-" then some none
  else if s.startsWith "=" then
    let body := (s.drop 1).toString
    if body == "" then some (some [])
    else (body.splitOn ",").mapM parseItem? |>.map some
  else none

def parseOld? (s : String) : Option (List (String × String)) :=
  if s == "-" then some []
  else do
    let groups ← (s.splitOn ",").mapM (fun g =>
      match g.splitOn "*" with
      | [k, n] => do
          let n ← n.toNat?
          if k == "" then none else some (k, n)
      | _ => none)
    some (groups.flatMap (fun (k, n) => (List.range n).map (fun i => (k, s!"old{i}"))))

def parseBool? : String → Option Bool
  | "0" => some false
  | "1" => some true
  | _ => none

def b2s (b : Bool) : String := if b then "1" else "0"

def posInf : Float := 1.0 / 0.0

def keysOf (ev : List (String × String)) : List String :=
  ev.foldl (fun acc e => if acc.contains e.1 then acc else acc ++ [e.1]) []

def showLogs (ev : List (String × String)) : String :=
  joinWith " " ((keysOf ev).map (fun k => k ++ "=" ++ joinWith "|" (logsOf k ev)))

def handle : List String → Option String
  | "fit" :: cls :: maxIter :: tol :: hasC :: cbs :: old :: diffs => do
      let cls ← ModelClass.ofName? cls
      let maxIter ← parseInt? maxIter
      let tol ← parseFloat? tol
      let hasC ← parseBool? hasC
      let user ← parseCbs? cbs
      let old ← parseOld? old
      let ds ← parseFloats? diffs
      let cbl := effectiveCallbacks (builtin obs) cls user
      let diff : Nat → Nat → Float := fun k _ => (ds[k]?).getD posInf
      match fit (· + 1) diff tol cbl hasC maxIter 0 old with
      | .valueError => some "ValueError"
      | .assertionError => some "AssertionError"
      | .ok r =>
          if r.iters > ds.length then some "short"
          else some (s!"ok iters={r.iters} coef={r.coef} printed={b2s r.printed} stats={b2s r.stats} logs "
                     ++ showLogs r.events)
  | ["ctor", cls, arg] => do
      let cls ← ModelClass.ofName? cls
      let arg ← CtorArg.ofName? arg
      some (b2s (accepts cls arg) ++ " " ++ b2s (forwards cls arg))
  | ["defaults", cls] => do
      let cls ← ModelClass.ofName? cls
      some (joinWith " " ((defaultCallbacks cls).map Builtin.name))
  | ["effective", cls, cbs] => do
      let cls ← ModelClass.ofName? cls
      let user ← parseCbs? cbs
      some (joinWith " " ((effectiveCallbacks (builtin obs) cls user).map (·.name)))
  | ["bind", hook, hasC, args, locals] => do
      let hasC ← parseBool? hasC
      let avail ← match hook with
        | "start" => some (startVars hasC)
        | "end" => some (endVars hasC)
        | _ => none
      let args ← parseList? args
      let locals ← parseList? locals
      let h : Hook Unit := ⟨args, (), locals⟩
      let m := missing avail h.bound
      some (if m.isEmpty then "ok" else "missing " ++ joinWith " " m)
  | _ => none
end PyGam.Drv.C20
