import PyGam.Drv.Common
import PyGam.Model.Validate
namespace PyGam.Drv.C11
open PyGam PyGam.Drv PyGam.Validate

/-! value / array transport: `nan`, `inf`, `-inf`, `num/den`; vectors `n|a,b,c`; matrices `n|a,b;c,d`; `-` = None -/

def parseVal? (s : String) : Option Val :=
  if s = "nan" then some .nan
  else if s = "inf" then some .posInf
  else if s = "-inf" then some .negInf
  else (parseRat? s).map .fin

def showVal : Val → String
  | .nan => "nan"
  | .posInf => "inf"
  | .negInf => "-inf"
  | .fin r => showRat r

def splitCount? (s : String) : Option (Nat × String) :=
  match s.splitOn "|" with
  | [n, body] => do let n ← n.toNat?; some (n, body)
  | _ => none

def parseRow? (s : String) : Option (List Val) :=
  if s = "" then some [] else (s.splitOn ",").mapM parseVal?

def parseVec? (s : String) : Option (List Val) := do
  let (n, body) ← splitCount? s
  let v ← parseRow? body
  if v.length = n then some v else none

def parseMat? (s : String) : Option (List (List Val)) := do
  let (n, body) ← splitCount? s
  if n = 0 then (if body = "" then some [] else none)
  else
    let rows ← (body.splitOn ";").mapM parseRow?
    if rows.length = n then some rows else none

def parseOpt? {α : Type} (p : String → Option α) (s : String) : Option (Option α) :=
  if s = "-" then some none else (p s).map some

def parseBool? (s : String) : Option Bool :=
  if s = "1" then some true else if s = "0" then some false else none

def parseLink? : String → Option Link
  | "identity" => some .identity
  | "logit" => some .logit
  | "log" => some .log
  | "inverse" => some .inverse
  | "inv_squared" => some .invSquared
  | _ => none

def parseEntry? : String → Option Entry
  | "fit" => some .fit
  | "predict" => some .predict
  | "predict_mu" => some .predictMu
  | "predict_proba" => some .predictProba
  | "confidence_intervals" => some .confidenceIntervals
  | "prediction_intervals" => some .predictionIntervals
  | "partial_dependence" => some .partialDependence
  | "deviance_residuals" => some .devianceResiduals
  | "loglikelihood" => some .loglikelihood
  | "score" => some .score
  | "accuracy" => some .accuracy
  | "logistic_score" => some .logisticScore
  | "gridsearch" => some .gridsearch
  | "sample" => some .sample
  | "fit_quantile" => some .fitQuantile
  | "poisson_fit" => some .poissonFit
  | "poisson_predict" => some .poissonPredict
  | "poisson_loglikelihood" => some .poissonLoglikelihood
  | "poisson_gridsearch" => some .poissonGridsearch
  | _ => none

def parseNatList? (s : String) : Option (List Nat) :=
  if s = "" then some [] else (s.splitOn ",").mapM String.toNat?

/-- `f~lo~hi` -/
def parseCat? (s : String) : Option Cat :=
  match s.splitOn "~" with
  | [f, lo, hi] => do
      let f ← f.toNat?; let lo ← parseRat? lo; let hi ← parseRat? hi
      some ⟨f, lo, hi⟩
  | _ => none

def parseCats? (cs : String) : Option (List Cat) :=
  if cs = "" then some [] else (cs.splitOn ";").mapM parseCat?

/-- `-` (unfitted) or `mFeatures:f0,f1,…:c0;c1;…[:cats of term 0|cats of term 1|…]` -/
def parseFit? (s : String) : Option (Option Fit) :=
  if s = "-" then some none
  else match s.splitOn ":" with
    | [m, fs, cs] => do
        let m ← m.toNat?
        let fs ← parseNatList? fs
        let cs ← parseCats? cs
        some (some ⟨m, fs, cs, []⟩)
    | [m, fs, cs, tcs] => do
        let m ← m.toNat?
        let fs ← parseNatList? fs
        let cs ← parseCats? cs
        let tcs ← (tcs.splitOn "|").mapM parseCats?
        some (some ⟨m, fs, cs, tcs⟩)
    | _ => none

def showOutcome : Outcome → String
  | .ok => "ok"
  | .valueError => "ValueError"
  | .attributeError => "AttributeError"
  | .other => "other"

def showStep : Step → String
  | .fitted => "fitted"
  | .linkResolved => "linkResolved"
  | .yFinite _ => "yFinite"
  | .yDomain _ => "yDomain"
  | .xFresh => "xFresh"
  | .xFitted => "xFitted"
  | .xFittedTerm => "xFittedTerm"
  | .xFittedWidth => "xFittedWidth"
  | .sampleAtXFitted => "sampleAtXFitted"
  | .compile => "compile"
  | .lenXY => "lenXY"
  | .vecFinite .weights => "weightsFinite"
  | .vecFinite .exposure => "exposureFinite"
  | .lenEq _ _ => "lenEq"
  | .prodFinite => "prodFinite"

/-- label of the first failing step (evidence only; the verdict uses `outcome`) -/
def firstFail (m : Model) (a : Args) (l : List Step) : String :=
  match l.find? (fun s => !s.passes m a) with
  | some s => showStep s
  | none => "-"

def stripKey? (key : String) (s : String) : Option String :=
  if s.startsWith (key ++ "=") then some ((s.drop (key.length + 1)).toString) else none

/-- operations of the C11 model driver (`C11 <op> <args…>`); `none` ↦ `bad-op` -/
def handle : List String → Option String
  | ["call", e, link, levels, tf, validated, fit, x, y, w, ex, sx, conv, coef, term] => do
      let term ← (stripKey? "term" term) >>= String.toNat?
      let e ← parseEntry? e
      let link ← parseLink? link
      let levels ← parseRat? levels
      let tf ← if tf = "auto" then some none else (parseNatList? tf).map some
      let validated ← parseBool? validated
      let fit ← parseFit? fit
      let X ← (stripKey? "X" x) >>= parseMat?
      let y ← (stripKey? "y" y) >>= parseVec?
      let w ← (stripKey? "w" w) >>= parseOpt? parseVec?
      let ex ← (stripKey? "e" ex) >>= parseOpt? parseVec?
      let sx ← (stripKey? "sx" sx) >>= parseOpt? parseMat?
      let conv ← (stripKey? "conv" conv) >>= parseBool?
      let coef ← (stripKey? "coef" coef) >>= parseBool?
      let m : Model := ⟨link, levels, tf, validated, fit⟩
      let a : Args := { X := X, y := y, weights := w, exposure := ex, sampleAtX := sx,
                        converged := conv, coefOnly := coef, term := term }
      some (showOutcome (outcome e m a) ++ " " ++ firstFail m a (table e m.isFitted a.converged))
  | ["args", e] => do
      let e ← parseEntry? e
      let nm : DataArg → String
        | .X => "X" | .y => "y" | .weights => "weights" | .exposure => "exposure" | .sampleAtX => "sample_at_X"
      some (joinWith "," (e.args.map nm) ++ " needsFit=" ++ (if e.needsFit then "1" else "0"))
  | ["isnan", link, levels, v] => do
      let link ← parseLink? link; let levels ← parseRat? levels; let v ← parseVal? v
      some (if linkIsNaN link levels v then "1" else "0")
  | ["domain", link, levels] => do
      let link ← parseLink? link; let levels ← parseRat? levels
      match linkDomain link levels with
      | some (a, b) => some (showVal a ++ " " ++ showVal b)
      | none => some "empty"
  | ["cast32", v] => do
      let v ← parseVal? v
      some (showVal (match castF32 v with | .fin _ => .fin 0 | s => s))
  | ["adjust", link, levels, y] => do
      let link ← parseLink? link; let levels ← parseRat? levels; let y ← parseRat? y
      let y' := initialAdjust levels y
      some (showRat y' ++ " " ++ (if linkFiniteAt link levels y' then "1" else "0"))
  | ["check_array1", mn, v] => do
      let mn ← mn.toNat?; let v ← parseVec? v
      some (if checkArray1 v mn then "ok" else "ValueError")
  | ["check_array2", nf, mn, x] => do
      let nf ← parseOpt? String.toNat? nf; let mn ← mn.toNat?; let x ← parseMat? x
      some (if checkArray2 x nf mn then "ok" else "ValueError")
  | ["check_lengths", ls] => do
      let ls ← parseNatList? ls
      some (if checkLengths ls then "ok" else "ValueError")
  | ["check_y", link, levels, mn, v] => do
      let link ← parseLink? link; let levels ← parseRat? levels; let mn ← mn.toNat?; let v ← parseVec? v
      some (if checkArray1 v mn && checkYDomain link levels v then "ok" else "ValueError")
  | ["check_X", fit, mn, x] => do
      let fit ← parseFit? fit; let mn ← mn.toNat?; let x ← parseMat? x
      match fit with
      | none => some (if checkArray2 x none mn then "ok" else "ValueError")
      | some f => some (if checkArray2 x (some f.nFeats) mn && f.cats.all (catOk x) then "ok" else "ValueError")
  | _ => none
end PyGam.Drv.C11
