import PyGam.Drv.Common
namespace PyGam.Drv.C11
open PyGam PyGam.Drv

/-- operations of the C11 model driver (`C11 <op> <args…>`); `none` ↦ `bad-op` -/
def handle : List String → Option String
  | _ => none
end PyGam.Drv.C11
