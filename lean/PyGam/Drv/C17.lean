import PyGam.Drv.Common
namespace PyGam.Drv.C17
open PyGam PyGam.Drv

/-- operations of the C17 model driver (`C17 <op> <args…>`); `none` ↦ `bad-op` -/
def handle : List String → Option String
  | _ => none
end PyGam.Drv.C17
