import PyGam.Model.Sampling
import PyGam.Drv.Common
/-!
Driver operations of C17 (`C17 <op> <args…>`), executing `Model/Sampling.lean` at `Float` with *supplied* generator
results.  Numbers are IEEE doubles as bit patterns `b<uint64>`, counts are decimal integers.

* `load <m> <cov>×m²`            → `loadedCov cov` = `cov + √ε·diag(cov)` (m² floats)
* `validate <quantity> <fitted:0|1> <nBoot:int> <nDraws:int> <dataOk:0|1>` → `ok | ValueError | AttributeError`
* `sample <quantity> <fitted> <nBoot> <nDraws> <dataOk> <fam> <link> <levels> <scale|none>
          <m> <nX> <nAt|-1> <nextra> <k> <idx>×k
          <coef>×m <cov>×m² (<coef>×m <cov>×m²)×nextra <rowsX>×(nX·m) <rowsAt>×(nAt·m)
          <ncalls> (<size_c> <u>×(size_c·m))×ncalls <nu> <uy>×nu`
  → `ValueError | AttributeError | TypeError` or
    `choice <k> <n> | calls (<b> <size>)… | args (<mean>×m <cov>×m²)… | <row> ; <row> ; …`

  Supplied generators (the harness patches `numpy.random.*` with the same closed forms):
  `choice k n = idx`;  `mvn` call `c`, entry `(p, j)` = `mean_j + cov_jj * u[c][p][j]`;
  response entry `(d, i)`, `t = uy[d·rows + i]`: normal `loc + sd·t`, binomial `n·t + p`, poisson `lam·t`,
  gamma `shape·t + scale`, wald `mean·t + scale`.
-/
namespace PyGam.Drv.C17
open PyGam PyGam.Drv

def parseBool? : String → Option Bool
  | "1" => some true
  | "0" => some false
  | _ => none

def parseFam? : String → Option Family
  | "normal" => some .normal
  | "binomial" => some .binomial
  | "poisson" => some .poisson
  | "gamma" => some .gamma
  | "inv_gauss" => some .invGauss
  | _ => none

def parseOptFloat? (s : String) : Option (Option Float) :=
  if s == "none" then some none else (parseFloat? s).map some

def nanF : Float := 0.0 / 0.0

def vecOf (a : Array Float) (off : Nat) : Nat → Float := fun i => a.getD (off + i) 0
def matOf (m : Nat) (a : Array Float) (off : Nat) : Nat → Nat → Float := fun i j => a.getD (off + i * m + j) 0

def showErr : SampleErr → String
  | .valueError => "ValueError"
  | .attributeError => "AttributeError"
  | .typeError => "TypeError"

def respFake (t : Float) : SamplerCall Float → Float
  | .normal loc sd => loc + sd * t
  | .binomial n p => n * t + p
  | .poisson lam => lam * t
  | .gamma k th => k * t + th
  | .wald mean sc => mean * t + sc

/-- take `n` float tokens -/
def takeFloats? (n : Nat) (l : List String) : Option (Array Float × List String) :=
  if l.length < n then none else do
    let xs ← parseFloats? (l.take n)
    some (xs.toArray, l.drop n)

/-- parse `<ncalls> (<size> <u>×(size·m))×ncalls` -/
def parseCalls? (m : Nat) : Nat → List String → Option (List (Nat × Array Float) × List String)
  | 0, l => some ([], l)
  | n+1, l => do
      let size ← l.head?.bind String.toNat?
      let (u, rest) ← takeFloats? (size * m) (l.drop 1)
      let (more, rest) ← parseCalls? m n rest
      some ((size, u) :: more, rest)

def parseExtras? (m : Nat) : Nat → List String → Option (List (Boot Float) × List String)
  | 0, l => some ([], l)
  | n+1, l => do
      let (c, rest) ← takeFloats? m l
      let (v, rest) ← takeFloats? (m * m) rest
      let (more, rest) ← parseExtras? m n rest
      some (⟨vecOf c 0, matOf m v 0⟩ :: more, rest)

def rowsOf (m n : Nat) (a : Array Float) : List (Nat → Float) :=
  (List.range n).map (fun r => vecOf a (r * m))

def handle : List String → Option String
  | "load" :: m :: rest => do
      let m ← m.toNat?
      if rest.length ≠ m * m then none else
      let cov := (← parseFloats? rest).toArray
      some (showFloatList ((matToLists m m (loadedCov (matOf m cov 0))).flatten))
  | ["validate", quantity, fitted, nBoot, nDraws, dataOk] => do
      let fitted ← parseBool? fitted; let dataOk ← parseBool? dataOk
      let nBoot ← nBoot.toInt?; let nDraws ← nDraws.toInt?
      some (match validateSample (Quantity.ofName? quantity) fitted nBoot nDraws dataOk with
        | none => "ok"
        | some e => showErr e)
  | "sample" :: quantity :: fitted :: nBoot :: nDraws :: dataOk :: fam :: link :: levels :: scale
      :: m :: nX :: nAt :: nextra :: k :: rest => do
      let fitted ← parseBool? fitted; let dataOk ← parseBool? dataOk
      let nBoot ← nBoot.toInt?; let nDraws ← nDraws.toInt?
      let fam ← parseFam? fam; let link ← LinkKind.ofName? link
      let levels ← parseFloat? levels; let scale ← parseOptFloat? scale
      let m ← m.toNat?; let nX ← nX.toNat?; let nAt ← nAt.toInt?
      let nextra ← nextra.toNat?; let k ← k.toNat?
      if rest.length < k then none else
      let idx ← parseNats? (rest.take k)
      let rest := rest.drop k
      let (coef, rest) ← takeFloats? m rest
      let (cov, rest) ← takeFloats? (m * m) rest
      let (extra, rest) ← parseExtras? m nextra rest
      let (rx, rest) ← takeFloats? (nX * m) rest
      let (ra, rest) ← takeFloats? (nAt.toNat * m) rest
      let ncalls ← rest.head?.bind String.toNat?
      let (calls, rest) ← parseCalls? m ncalls (rest.drop 1)
      let nu ← rest.head?.bind String.toNat?
      let (uy, rest) ← takeFloats? nu (rest.drop 1)
      if rest ≠ [] then none else
      let s : SampleIn Float :=
        { m := m, coef := vecOf coef 0, cov := matOf m cov 0, link := link, fam := fam, levels := levels,
          scale := scale, rowsX := rowsOf m nX rx,
          rowsAt := if nAt < 0 then none else some (rowsOf m nAt.toNat ra), extra := extra }
      let nrows := s.rows.length
      let callArr := calls.toArray
      let g : Gens Float :=
        { choice := fun _ _ => idx,
          mvn := fun c bt _ p j =>
            match callArr[c]? with
            | some (_, u) => bt.coef j + bt.cov j j * (match u[p * m + j]? with | some t => t | none => nanF)
            | none => nanF,
          resp := fun d i call => respFake (match uy[d * nrows + i]? with | some t => t | none => nanF) call }
      match sample g s (Quantity.ofName? quantity) fitted nBoot nDraws dataOk with
      | .error e => some (showErr e)
      | .ok v =>
          let boots := bootstraps s.coef s.cov s.extra
          let cl := mvnCalls idx
          let args := cl.map (fun (b, _) => match boots[b]? with
            | some bt => showFloatList (vecToList m bt.coef ++ (matToLists m m bt.cov).flatten)
            | none => "index-error")
          some (s!"choice {boots.length} {nDraws.toNat} | calls "
            ++ joinWith " " (cl.map (fun (b, sz) => s!"{b} {sz}"))
            ++ " | args " ++ joinWith " " args
            ++ " | " ++ joinWith " ; " (v.map showFloatList))
  | _ => none
end PyGam.Drv.C17
