import PyGam.Drv.Common
import PyGam.Model.Search
namespace PyGam.Drv.C10
open PyGam PyGam.Drv PyGam.Search

/-!
Operations of the C10 model driver (`C10 <op> <args…>`); `none` ↦ `bad-op`.

Encodings: a grid entry / candidate value is `s:<rat>` (scalar) or `v:<rat>,<rat>,…` (iterable, `v:` = empty);
a keyword block is `<name> <targetLen> <nd2> <k> <entry>×k` with `nd2 ∈ {0, 1, x}` (`x` = not iterable, then `k = 0`);
scores are IEEE bit patterns `b<uint64>`; a skipped (ValueError) candidate is `skip`; no self score is `-`.

* `combine <k> (<n> <rat>×n)×k`                       → `ok <rows> : r00 r01 ; r10 r11 …` | `IndexError`
* `grid <targetLen> <nd2> <k> <entry>×k`              → `ok <entry>…` | `ValueError:<tag>`
* `data <fitted> <m_features> <columns of X>`         → `ok` | `ValueError:badData`
* `objective <known> <name>`                          → `ok <NAME>` | `ValueError:<tag>`
* `plan <known> <objective> <adm,adm,…> <dflt block> <p> <block>×p`
                                                      → `ok <OBJ> <name,name…> <ncand> | <entry>… | <entry>… …`
* `search <known> <objective> <adm…> <dflt block> <p> <block>×p <keepBest> <returnScores> <selfScore> <n> <out>×n`
      → `ok obj=<OBJ> ncand=<n> nmodels=<k> best=<ref> self=<label> ret=<self|scores> models=<ref>:<bits>,…`
        (`bad-op` when `n` is not the number of candidates of the plan)
-/

def parseEntry? (s : String) : Option (GVal Rat) :=
  if s.startsWith "s:" then (parseRat? ((s.drop 2).toString)).map GVal.scalar
  else if s.startsWith "v:" then
    let body := (s.drop 2).toString
    if body = "" then some (.vec [])
    else ((body.splitOn ",").mapM parseRat?).map GVal.vec
  else none

def showEntry : GVal Rat → String
  | .scalar a => "s:" ++ showRat a
  | .vec l => "v:" ++ joinWith "," (l.map showRat)

def parseBool? : String → Option Bool
  | "0" => some false
  | "1" => some true
  | _ => none

def parseObjective (s : String) : Objective :=
  match s with
  | "auto" => .auto | "GCV" => .GCV | "UBRE" => .UBRE | "AIC" => .AIC | "AICc" => .AICc
  | _ => .other

def showObjective : Objective → String
  | .auto => "auto" | .GCV => "GCV" | .UBRE => "UBRE" | .AIC => "AIC" | .AICc => "AICc" | .other => "other"

def showErrTag : SearchErr → String
  | .badObjective => "badObjective" | .gcvKnownScale => "gcvKnownScale" | .ubreUnknownScale => "ubreUnknownScale"
  | .unknownParam => "unknownParam" | .gridTooShort => "gridTooShort" | .gridColumns => "gridColumns"
  | .badData => "badData"

def showErr (e : SearchErr) : String := e.pyClass ++ ":" ++ showErrTag e

/-- take `n` tokens -/
def takeN? (n : Nat) (toks : List String) : Option (List String × List String) :=
  if toks.length < n then none else some (toks.take n, toks.drop n)

/-- `<nd2> <k> <entry>×k` -/
def parseSpec? : List String → Option (GridSpec Rat × List String)
  | nd2 :: k :: rest => do
      let k ← k.toNat?
      let (es, rest) ← takeN? k rest
      let es ← es.mapM parseEntry?
      match nd2 with
      | "x" => if k = 0 then some (.notIterable, rest) else none
      | _ => do
        let b ← parseBool? nd2
        some (.seq b es, rest)
  | _ => none

/-- `<name> <targetLen> <nd2> <k> <entry>×k` -/
def parseBlock? : List String → Option (ParamGrid Rat × List String)
  | name :: t :: rest => do
      let t ← t.toNat?
      let (spec, rest) ← parseSpec? rest
      some ({ name := name, targetLen := t, spec := spec }, rest)
  | _ => none

def parseBlocks? : Nat → List String → Option (List (ParamGrid Rat) × List String)
  | 0, toks => some ([], toks)
  | n+1, toks => do
      let (b, rest) ← parseBlock? toks
      let (bs, rest) ← parseBlocks? n rest
      some (b :: bs, rest)

def parseGrids? : Nat → List String → Option (List (List Rat) × List String)
  | 0, toks => some ([], toks)
  | n+1, toks =>
    match toks with
    | k :: rest => do
      let k ← k.toNat?
      let (es, rest) ← takeN? k rest
      let es ← es.mapM parseRat?
      let (gs, rest) ← parseGrids? n rest
      some (es :: gs, rest)
    | [] => none

def parseAdm (s : String) : List String := if s = "-" then [] else s.splitOn ","

structure Head where
  known : Bool
  obj : Objective
  adm : List String
  dflt : ParamGrid Rat
  pgs : List (ParamGrid Rat)

def parseHead? : List String → Option (Head × List String)
  | known :: obj :: adm :: rest => do
      let known ← parseBool? known
      let (dflt, rest) ← parseBlock? rest
      match rest with
      | p :: rest => do
        let p ← p.toNat?
        let (pgs, rest) ← parseBlocks? p rest
        some ({ known := known, obj := parseObjective obj, adm := parseAdm adm, dflt := dflt, pgs := pgs }, rest)
      | [] => none
  | _ => none

def showRef : Ref → String
  | .self => "self"
  | .cand i => "c" ++ toString i

def parseOut? (s : String) : Option (Option Float) :=
  if s = "skip" then some none else (parseFloat? s).map some

def parseSelfScore? (s : String) : Option (Option Float) :=
  if s = "-" then some none else (parseFloat? s).map some

def floatInf : Float := 1.0 / 0.0

def showPlan (p : Plan Rat) : String :=
  "ok " ++ showObjective p.objective ++ " " ++ joinWith "," p.params ++ " " ++ toString p.candidates.length
    ++ String.join (p.candidates.map (fun c => " | " ++ joinWith " " (c.map showEntry)))

def handle : List String → Option String
  | "combine" :: k :: rest => do
      let k ← k.toNat?
      let (gs, rest) ← parseGrids? k rest
      if !rest.isEmpty then none
      else if gs.isEmpty then some "IndexError"
      else
        let rows := combine gs
        some ("ok " ++ toString rows.length ++ " : " ++ showMatRat rows)
  | "grid" :: t :: rest => do
      let t ← t.toNat?
      let (spec, rest) ← parseSpec? rest
      if !rest.isEmpty then none
      else match normaliseGrid t spec with
        | .error e => some (showErr e)
        | .ok g => some ("ok " ++ joinWith " " (g.map showEntry))
  | ["data", fitted, m, n] => do
      let fitted ← parseBool? fitted
      let m ← m.toNat?
      let n ← n.toNat?
      match dataCheck fitted m n with
      | .error e => some (showErr e)
      | .ok () => some "ok"
  | ["objective", known, name] => do
      let known ← parseBool? known
      match resolveObjective known (parseObjective name) with
      | .error e => some (showErr e)
      | .ok o => some ("ok " ++ showObjective o)
  | "plan" :: rest => do
      let (h, rest) ← parseHead? rest
      if !rest.isEmpty then none
      else match plan h.known h.obj h.adm h.dflt h.pgs with
        | .error e => some (showErr e)
        | .ok p => some (showPlan p)
  | "search" :: rest => do
      let (h, rest) ← parseHead? rest
      match rest with
      | kb :: rs :: ss :: n :: outs => do
        let kb ← parseBool? kb
        let rs ← parseBool? rs
        let ss ← parseSelfScore? ss
        let n ← n.toNat?
        if outs.length != n then none
        else do
          let outs ← outs.mapM parseOut?
          -- the number of outcomes must be the number of candidates of the plan
          match plan h.known h.obj h.adm h.dflt h.pgs with
          | .error e => some (showErr e)
          | .ok p0 =>
            if p0.candidates.length != n then none
            else
              let fit : Objective → Nat → List (GVal Rat) → Option (String × Float) :=
                fun _ i _ => (outs.getD i none).map (fun s => ("c" ++ toString i, s))
              match gridsearch floatInf h.known h.obj h.adm h.dflt h.pgs kb rs "self" (fun _ => ss) fit with
              | .error e => some (showErr e)
              | .ok (p, o) =>
                let ret := match o.returned with
                  | .self => "ret=self models="
                  | .scores l => "ret=scores models=" ++ joinWith "," (l.map (fun (r, s) => showRef r ++ ":" ++ showFloat s))
                some ("ok obj=" ++ showObjective p.objective ++ " ncand=" ++ toString p.candidates.length
                  ++ " nmodels=" ++ toString o.nModels
                  ++ " best=" ++ (match o.best with | none => "none" | some r => showRef r)
                  ++ " self=" ++ o.selfAfter ++ " " ++ ret)
      | _ => none
  | _ => none
end PyGam.Drv.C10
