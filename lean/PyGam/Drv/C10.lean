import PyGam.Drv.Common
namespace PyGam.Drv.C10
open PyGam PyGam.Drv

/-- operations of the C10 model driver (`C10 <op> <args…>`); `none` ↦ `bad-op` -/
def handle : List String → Option String
  | _ => none
end PyGam.Drv.C10
