import PyGam.Drv.Common
namespace PyGam.Drv.C15
open PyGam PyGam.Drv

/-- operations of the C15 model driver (`C15 <op> <args…>`); `none` ↦ `bad-op` -/
def handle : List String → Option String
  | _ => none
end PyGam.Drv.C15
