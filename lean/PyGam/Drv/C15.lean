import PyGam.Model.Heap
import PyGam.Drv.TermParse
/-!
Driver of the C15 heap model.

```
C15 hist <nd> <nf> (<knots numeric> <knots categorical> <ncat>)^(nd*nf) | op ; op ; …
op := E k (S|L|F feature nSplines order lam userKnots|-1)^k     s(..)+l(..)+f(..) with new term objects
    | J a b                                                       e_a + e_b
    | C cls mset scaleKnown e                                     Cls(terms=e_e)
    | F i d iters                                                 gam_i.fit(data d)  (iters = PIRLS iterations observed)
    | Q q i d                                                     q ∈ predict intervals pdep loglik devres summary
    | S i d nb (glen (lam iters)^glen winner)^nb                  gam_i.sample(.., n_bootstraps = nb+1)
    | G i d keep glen (lam iters)^glen winner                     gam_i.gridsearch(.., lam=grid, keep_best=keep)
    | SL i c | SO i c | SM i c                                    set_params(lam=c) / (spline_order=c) / (tol…=c)
    | CP i                                                        deepcopy / pickle round trip
    | AT i e                                                      gam_i.terms = e_e / gam_i.set_params(terms=e_e)
```
Output: one block per op, blocks separated by ` ; `:
`<out> | m <fitted> <mset> <nCoefs> <logLen|-1> <distKnown> <scaleId|-1> <fitId|-1> <predId|-1> <k> (<kind> <lam> <order> <nSplines> <knots|-1>)^k | m …`
where `out` is `unit`, `created <n>`, `result <queryId>`, `error`, and for `F` ops ` fresh <0|1>` is appended
(1 iff the binding of `coef_` equals that of a fresh model with the same settings fitted in an empty world).
The ids number the distinct `FitIn` / `PredKey` / `QueryKey` values in order of first appearance in the history.
-/
namespace PyGam.Drv.C15
open PyGam PyGam.Drv PyGam.Heap

def pKind : P Kind
  | "S" :: r => some (.spline, r)
  | "L" :: r => some (.linear, r)
  | "F" :: r => some (.factor, r)
  | _ => none

def pCls : P Cls
  | "linear" :: r => some (.linear, r)
  | "gamma" :: r => some (.gamma, r)
  | "invgauss" :: r => some (.invGauss, r)
  | "expectile" :: r => some (.expectile, r)
  | "logistic" :: r => some (.logistic, r)
  | "poisson" :: r => some (.poisson, r)
  | "generic" :: r => some (.generic, r)
  | _ => none

def pQuery : P Query
  | "predict" :: r => some (.predict, r)
  | "intervals" :: r => some (.intervals, r)
  | "pdep" :: r => some (.partialDependence, r)
  | "loglik" :: r => some (.loglikelihood, r)
  | "devres" :: r => some (.devianceResiduals, r)
  | "summary" :: r => some (.summary, r)
  | _ => none

def pTermSet : P TermSet := fun r => do
  let (k, r) ← pKind r
  let (f, r) ← pNat r
  let (n, r) ← pNat r
  let (o, r) ← pNat r
  let (l, r) ← pNat r
  let (u, r) ← pOptNat r
  some (⟨k, f, n, o, l, u⟩, r)

def pPair : P (Nat × Nat) := fun r => do
  let (a, r) ← pNat r
  let (b, r) ← pNat r
  some ((a, b), r)

def pGrid : P (List (Nat × Nat) × Nat) := fun r => do
  let (g, r) ← pCounted pPair r
  let (w, r) ← pNat r
  some ((g, w), r)

def pOp : P Op
  | "E" :: r => do let (s, r) ← pCounted pTermSet r; some (.mkExpr s, r)
  | "J" :: r => do let (a, r) ← pNat r; let (b, r) ← pNat r; some (.joinExpr a b, r)
  | "C" :: r => do
      let (c, r) ← pCls r; let (m, r) ← pNat r; let (k, r) ← pBool r; let (e, r) ← pNat r
      some (.construct c m k e, r)
  | "F" :: r => do let (i, r) ← pNat r; let (d, r) ← pNat r; let (k, r) ← pNat r; some (.fit i d k, r)
  | "Q" :: r => do let (q, r) ← pQuery r; let (i, r) ← pNat r; let (d, r) ← pNat r; some (.query q i d, r)
  | "S" :: r => do
      let (i, r) ← pNat r; let (d, r) ← pNat r; let (b, r) ← pCounted pGrid r
      some (.sample i d b, r)
  | "G" :: r => do
      let (i, r) ← pNat r; let (d, r) ← pNat r; let (k, r) ← pBool r; let (g, r) ← pGrid r
      some (.gridsearch i d k g.1 g.2, r)
  | "SL" :: r => do let (i, r) ← pNat r; let (c, r) ← pNat r; some (.setLam i c, r)
  | "SO" :: r => do let (i, r) ← pNat r; let (c, r) ← pNat r; some (.setOrder i c, r)
  | "SM" :: r => do let (i, r) ← pNat r; let (c, r) ← pNat r; some (.setModel i c, r)
  | "CP" :: r => do let (i, r) ← pNat r; some (.copy i, r)
  | "AT" :: r => do let (i, r) ← pNat r; let (e, r) ← pNat r; some (.assignTerms i e, r)
  | _ => none

/-- `;`-separated sections -/
def splitSemi (l : List String) : List (List String) :=
  l.foldr (fun s acc => if s = ";" then [] :: acc else match acc with
    | [] => [[s]]
    | a :: rest => (s :: a) :: rest) [[]]

def pEnv (toks : List String) : Option Env := do
  let nums ← parseNats? toks
  match nums with
  | nd :: nf :: tbl =>
    if tbl.length ≠ nd * nf * 3 then none else
    some { knots := fun d f cat => tbl.getD ((d * nf + f) * 3 + (if cat then 1 else 0)) 0,
           ncat := fun d f => tbl.getD ((d * nf + f) * 3 + 2) 0 }
  | _ => none

/-- interning tables: distinct values numbered in order of first appearance -/
structure Tables where
  fits : List FitIn := []
  preds : List PredKey := []
  queries : List QueryKey := []

def intern {α : Type} [DecidableEq α] (tbl : List α) (x : α) : List α × Nat :=
  match tbl.idxOf? x with
  | some i => (tbl, i)
  | none => (tbl ++ [x], tbl.length)

def showOptNat : Option Nat → String
  | some n => toString n
  | none => "-1"

def kindTag : Kind → String
  | .spline => "S" | .linear => "L" | .factor => "F"

def showTerm (t : TermObj) : String :=
  joinWith " " [kindTag t.set.kind, toString t.set.lam, toString t.set.order, toString t.set.nSplines, showOptNat t.knots]

def showModel (tb : Tables) (v : ModelView) : Tables × String :=
  let (fits, sid) := match v.dist.scale with
    | some s => let (t, i) := intern tb.fits s; (t, some i)
    | none => (tb.fits, none)
  let (fits, fid) := match v.fitted with
    | some s => let (t, i) := intern fits s; (t, some i)
    | none => (fits, none)
  let (preds, pid) := match v.predKey with
    | some s => let (t, i) := intern tb.preds s; (t, some i)
    | none => (tb.preds, none)
  ({ tb with fits := fits, preds := preds },
   joinWith " " (["m", if v.fitted.isSome then "1" else "0", toString v.mset, toString v.nCoefs,
                  showOptNat (v.logs.map List.length), if v.dist.known then "1" else "0",
                  showOptNat sid, showOptNat fid, showOptNat pid, toString v.terms.length]
                 ++ v.terms.map showTerm))

def showWorld (tb : Tables) (w : World) : Tables × List String :=
  (List.range w.models.length).foldl (fun (acc : Tables × List String) j =>
    match w.view j with
    | some v => let (tb', s) := showModel acc.1 v; (tb', acc.2 ++ [s])
    | none => acc) (tb, [])

/-- the fresh-fit oracle inside the model: a new model with the same settings, fitted in an empty world -/
def freshFit (env : Env) (s : Settings) (d : Data) (iters : Nat) : Option FitIn :=
  let w := run env World.empty [.mkExpr s.terms, .construct s.cls s.mset s.scaleKnown 0, .fit 0 d iters]
  (w.models[0]?).bind (·.fitted)

def showOut (tb : Tables) : Out → Tables × String
  | .unit => (tb, "unit")
  | .created n => (tb, "created " ++ toString n)
  | .error => (tb, "error")
  | .result k => let (q, i) := intern tb.queries k; ({ tb with queries := q }, "result " ++ toString i)

def runHist (env : Env) (ops : List Op) : String :=
  let res := ops.foldl (fun (acc : World × Tables × List String) o =>
    let (w, tb, outs) := acc
    let (w', out) := step env w o
    let (tb, so) := showOut tb out
    let extra := match o with
      | .fit i d k =>
        match (w.view i).map ModelView.settings with
        | some s => if freshFit env s d k = (w'.models[i]?).bind (·.fitted) ∧ (freshFit env s d k).isSome then " fresh 1" else " fresh 0"
        | none => ""
      | _ => ""
    let (tb, ms) := showWorld tb w'
    (w', tb, outs ++ [joinWith " | " ((so ++ extra) :: ms)])) (World.empty, ({} : Tables), [])
  joinWith " ; " res.2.2

/-- operations of the C15 model driver (`C15 <op> <args…>`); `none` ↦ `bad-op` -/
def handle : List String → Option String
  | "hist" :: rest =>
    match splitBar rest with
    | [envToks, opToks] => do
        let env ← pEnv envToks
        let ops ← (splitSemi opToks).mapM (fun ts => do
          let (o, r) ← pOp ts
          if r ≠ [] then none else some o)
        some (runHist env ops)
    | _ => none
  | _ => none
end PyGam.Drv.C15
