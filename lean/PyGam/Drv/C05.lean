import PyGam.Model.Penalty
import PyGam.Drv.TermParse
namespace PyGam.Drv.C05
open PyGam PyGam.Drv

def conOf : String → Option ConKind
  | "none" => some .none
  | "convex" => some .convex
  | "concave" => some .concave
  | "monotonic_inc" => some .monoInc
  | "monotonic_dec" => some .monoDec
  | _ => none

/-- operations of the C05 model driver
* `con <kind> <n> | <coef…>`                     → `penalties.<kind>(n, coef)` (exact rationals)
* `tcon <terms> | <coef…> | <clam> <cl2>`        → `TermList.build_constraints(coef, clam, cl2)`
* `termcon <i> <terms> | <coef of term i…> | <clam> <cl2>` → `terms[i].build_constraints(…)` -/
def handle (toks : List String) : Option String :=
  match toks with
  | "con" :: kind :: n :: rest =>
    match splitBar rest with
    | [[], cs] => do
        let k ← conOf kind
        let n ← n.toNat?
        let c ← parseRats? cs
        if c.length ≠ n then none else
        some (showMatRat (matToLists n n (conMatrix n (listToVec c) k)))
    | _ => none
  | "tcon" :: rest =>
    match splitBar rest with
    | [ts, cs, [clam, cl2]] => do
        let (terms, r) ← pTerms ts
        if r ≠ [] then none else
        let c ← parseRats? cs
        let clam ← parseRat? clam; let cl2 ← parseRat? cl2
        let n := nCoefsAll terms
        if c.length ≠ n then none else
        some (showMatRat (matToLists n n (constraintAll terms (listToVec c) clam cl2)))
    | _ => none
  | "termcon" :: i :: rest =>
    match splitBar rest with
    | [ts, cs, [clam, cl2]] => do
        let i ← i.toNat?
        let (terms, r) ← pTerms ts
        if r ≠ [] then none else
        let t ← terms[i]?
        let c ← parseRats? cs
        let clam ← parseRat? clam; let cl2 ← parseRat? cl2
        if c.length ≠ t.nCoefs then none else
        some (showMatRat (matToLists t.nCoefs t.nCoefs (t.constraint (listToVec c) clam cl2)))
    | _ => none
  | _ => none
end PyGam.Drv.C05
