import PyGam.Drv.Common
namespace PyGam.Drv.C05
open PyGam PyGam.Drv

/-- operations of the C05 model driver (`C05 <op> <args…>`); `none` ↦ `bad-op` -/
def handle : List String → Option String
  | _ => none
end PyGam.Drv.C05
