import PyGam.Drv.Common
namespace PyGam.Drv.C12
open PyGam PyGam.Drv

/-- operations of the C12 model driver (`C12 <op> <args…>`); `none` ↦ `bad-op` -/
def handle : List String → Option String
  | _ => none
end PyGam.Drv.C12
