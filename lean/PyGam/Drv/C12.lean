import PyGam.Model.Invariance
import PyGam.Model.Solve
import PyGam.Drv.TermParse
namespace PyGam.Drv.C12
open PyGam PyGam.Drv PyGam.Inv

/-! Tables are built as arrays *first* and only then wrapped (`ofMat a`, `ofVec a` are partial applications holding the
finished array): a definition `def f … : Nat → α := let a := …; fun i => a[i]!` would be compiled with the index as an
extra argument and rebuild the array on every access. -/

def mkMat (rows cols : Nat) (l : List Rat) : Array (Array Rat) :=
  let a := l.toArray
  (Array.range rows).map (fun i => (Array.range cols).map (fun j => a[i * cols + j]!))

def ofMat (a : Array (Array Rat)) (i j : Nat) : Rat := a[i]![j]!
def ofVec (a : Array Rat) (i : Nat) : Rat := a[i]!
def ofVecN (a : Array Nat) (i : Nat) : Nat := a[i]!
def ofFlags (a : Array Bool) (i : Nat) : Bool := a[i]!

def mkFlags (l : List String) : Array Bool := (l.map (fun s => s == "1")).toArray

def ratAbs (x : Rat) : Rat := if x < 0 then 0 - x else x

def maxAbsDiff (n : Nat) (u v : Nat → Rat) : Rat :=
  (List.range n).foldl (fun acc j => let d := ratAbs (u j - v j); if acc < d then d else acc) 0

def matEq (n m : Nat) (X Y : Nat → Nat → Rat) : Bool :=
  (List.range n).all (fun i => (List.range m).all (fun j => X i j == Y i j))

def vecEq (n : Nat) (u v : Nat → Rat) : Bool := (List.range n).all (fun i => u i == v i)

def zeroMat : Nat → Nat → Rat := fun _ _ => 0

/-- tabulate a function once (the model definitions are re-evaluated on every access otherwise) -/
def tabMat (n m : Nat) (X : Nat → Nat → Rat) : Array (Array Rat) :=
  (Array.range n).map (fun i => (Array.range m).map (fun j => X i j))

def tabVec (n : Nat) (v : Nat → Rat) : Array Rat := (Array.range n).map v

def solveRat (m : Nat) (N : Array (Array Rat)) (rhs : Array Rat) : Option (Array Rat) := gaussSolve m N rhs

/-- operations of the C12 model driver (`C12 <op> <args…>`); `none` ↦ `bad-op`.  All numbers are exact rationals.

* `colsaff <terms> | <x…> | <a…> | <b…>` → `<max |row' - row|> | <row'>` where `row = columnsAll x terms` and
  `row' = columnsAll (mapRow a b x) (terms.map (affineKnots a b))` (C12 `affine_feature_invariance`: the difference is 0)
* `normperm <n> <m> | B | W2 | z | keep | σ` → `eq|ne | <N row-major> | <rhs>`: `normalMat`/`normalRhs` (with `A = 0`) of
  the rows permuted by `σ` against the original (`normal_matrix_perm`, `normal_rhs_perm`)
* `normrepl <n> <m> | B | u | z | keep | w` → `eq|ne <n'> | <N> | <rhs>`: rows replicated `w_i` times with unit weights `u`
  against the original rows with weights `w_i u_i` (`weights_eq_replication`)
* `lin <n> <m> | B | A | w | y1 | y2 | c` → `<res0> <add> <hom> | <β(y1)>`: exact solutions of the normal equations for
  `y1`, `y2`, `y1 + y2`, `c·y1` (`solution_add`, `solution_smul`) -/
def handle (toks : List String) : Option String :=
  match toks with
  | "colsaff" :: rest =>
    match splitBar rest with
    | [ts, xs, as, bs] => do
        let (terms, r) ← pTerms ts
        if r ≠ [] then none else
        let x ← parseRats? xs; let a ← parseRats? as; let b ← parseRats? bs
        if a.length ≠ x.length ∨ b.length ≠ x.length then none else
        let av : Nat → Rat := fun f => a.getD f 1
        let bv : Nat → Rat := fun f => b.getD f 0
        let xv := listToVec x
        let k := nCoefsAll terms
        let terms' := terms.map (Term.affineKnots av bv)
        if nCoefsAll terms' ≠ k then none else
        let row := tabVec k (columnsAll epsRat xv terms)
        let row' := tabVec k (columnsAll epsRat (mapRow av bv xv) terms')
        some (showRat (maxAbsDiff k (ofVec row) (ofVec row')) ++ " | " ++ showRatList row'.toList)
    | _ => none
  | "normperm" :: n :: m :: rest =>
    match splitBar rest with
    | [[], bs, ws, zs, ks, ss] => do
        let n ← n.toNat?; let m ← m.toNat?
        let bl ← parseRats? bs; let wl ← parseRats? ws; let zl ← parseRats? zs; let sl ← parseNats? ss
        if bl.length ≠ n * m ∨ wl.length ≠ n ∨ zl.length ≠ n ∨ ks.length ≠ n ∨ sl.length ≠ n then none else
        -- σ must be a permutation of range n
        if !((List.range n).all (fun i => sl.contains i)) then none else
        let B := ofMat (mkMat n m bl); let W2 := ofVec wl.toArray; let z := ofVec zl.toArray
        let keep := ofFlags (mkFlags ks); let σ := ofVecN sl.toArray
        let N := tabMat m m (normalMat n B keep W2 zeroMat)
        let rhs := tabVec m (normalRhs n B keep W2 z)
        let N' := tabMat m m (normalMat n (permRows σ B) (permVecB σ keep) (permVec σ W2) zeroMat)
        let rhs' := tabVec m (normalRhs n (permRows σ B) (permVecB σ keep) (permVec σ W2) (permVec σ z))
        let ok := matEq m m (ofMat N) (ofMat N') && vecEq m (ofVec rhs) (ofVec rhs')
        some ((if ok then "eq" else "ne") ++ " | " ++ showRatList (N'.toList.map Array.toList).flatten ++ " | "
              ++ showRatList rhs'.toList)
    | _ => none
  | "normrepl" :: n :: m :: rest =>
    match splitBar rest with
    | [[], bs, us, zs, ks, ws] => do
        let n ← n.toNat?; let m ← m.toNat?
        let bl ← parseRats? bs; let ul ← parseRats? us; let zl ← parseRats? zs; let wl ← parseNats? ws
        if bl.length ≠ n * m ∨ ul.length ≠ n ∨ zl.length ≠ n ∨ ks.length ≠ n ∨ wl.length ≠ n then none else
        let B := ofMat (mkMat n m bl); let u := ofVec ul.toArray; let z := ofVec zl.toArray
        let keep := ofFlags (mkFlags ks); let w := ofVecN wl.toArray
        let idx := replIdx n w
        -- `replSrc idx` (the model's list lookup), tabulated
        let src := ofVecN ((Array.range idx.length).map (replSrc idx))
        let wu := ofVec (tabVec n (fun r => (w r : Rat) * u r))
        let N := tabMat m m (normalMat n B keep wu zeroMat)
        let rhs := tabVec m (normalRhs n B keep wu z)
        let N' := tabMat m m (normalMat idx.length (permRows src B) (permVecB src keep) (permVec src u) zeroMat)
        let rhs' := tabVec m (normalRhs idx.length (permRows src B) (permVecB src keep) (permVec src u) (permVec src z))
        let ok := matEq m m (ofMat N) (ofMat N') && vecEq m (ofVec rhs) (ofVec rhs')
        some ((if ok then "eq " else "ne ") ++ toString idx.length ++ " | " ++ showRatList (N'.toList.map Array.toList).flatten
              ++ " | " ++ showRatList rhs'.toList)
    | _ => none
  | "lin" :: n :: m :: rest =>
    match splitBar rest with
    | [[], bs, as, ws, y1s, y2s, [cs]] => do
        let n ← n.toNat?; let m ← m.toNat?
        let bl ← parseRats? bs; let al ← parseRats? as; let wl ← parseRats? ws
        let y1l ← parseRats? y1s; let y2l ← parseRats? y2s; let c ← parseRat? cs
        if bl.length ≠ n * m ∨ al.length ≠ m * m ∨ wl.length ≠ n ∨ y1l.length ≠ n ∨ y2l.length ≠ n then none else
        let B := ofMat (mkMat n m bl); let A := ofMat (mkMat m m al); let w := ofVec wl.toArray
        let y1 := ofVec y1l.toArray; let y2 := ofVec y2l.toArray
        let keep : Nat → Bool := fun _ => true
        let N := tabMat m m (normalMat n B keep w A)
        let rhsOf := fun (y : Nat → Rat) => tabVec m (normalRhs n B keep w y)
        let r1 := rhsOf y1
        let β1 ← solveRat m N r1
        let β2 ← solveRat m N (rhsOf y2)
        let β12 ← solveRat m N (rhsOf (ofVec (tabVec n (fun r => y1 r + y2 r))))
        let βc ← solveRat m N (rhsOf (ofVec (tabVec n (fun r => c * y1 r))))
        let res0 := vecEq m (mulVec m (ofMat N) (ofVec β1)) (ofVec r1)
        let add := vecEq m (ofVec β12) (fun j => ofVec β1 j + ofVec β2 j)
        let hom := vecEq m (ofVec βc) (fun j => c * ofVec β1 j)
        let f := fun (b : Bool) => if b then "1" else "0"
        some (f res0 ++ " " ++ f add ++ " " ++ f hom ++ " | " ++ showRatList β1.toList)
    | _ => none
  | _ => none
end PyGam.Drv.C12
