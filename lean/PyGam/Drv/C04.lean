import PyGam.Model.Penalty
import PyGam.Drv.Common
namespace PyGam.Drv.C04
open PyGam PyGam.Drv

def handle : List String → Option String
  | ["pen", "derivative", n, d] => do
      let n ← n.toNat?; let d ← d.toNat?
      some (showMatInt (matToLists n n (derivPen (α := Int) n d)))
  | ["pen", "periodic", n, d] => do
      let n ← n.toNat?; let d ← d.toNat?
      some (showMatInt (matToLists n n (cycPen (α := Int) n d)))
  | ["pen", "l2", n] => do
      let n ← n.toNat?
      some (showMatInt (matToLists n n (l2Pen (α := Int))))
  | ["pen", "none", n] => do
      let n ← n.toNat?
      some (showMatInt (matToLists n n (nonePen (α := Int))))
  | _ => none
end PyGam.Drv.C04
