import PyGam.Model.Penalty
import PyGam.Drv.TermParse
namespace PyGam.Drv.C04
open PyGam PyGam.Drv

/-- the specification-level periodic family: cyclic second differences -/
def perPen : Nat → Nat → Nat → Rat := fun n => cycPen n 2

/-- operations of the C04 model driver
* `pen derivative|periodic <n> <d>`, `pen l2|none <n>` → integer penalty matrix
* `tpen <terms>`          → `TermList.build_penalties()` (exact rationals)
* `termpen <i> <terms>`   → `terms[i].build_penalties()` -/
def handle : List String → Option String
  | ["pen", "derivative", n, d] => do
      let n ← n.toNat?; let d ← d.toNat?
      some (showMatInt (matToLists n n (derivPen (α := Int) n d)))
  | ["pen", "periodic", n, d] => do
      let n ← n.toNat?; let d ← d.toNat?
      some (showMatInt (matToLists n n (cycPen (α := Int) n d)))
  | ["pen", "l2", n] => do
      let n ← n.toNat?
      some (showMatInt (matToLists n n (l2Pen (α := Int))))
  | ["pen", "none", n] => do
      let n ← n.toNat?
      some (showMatInt (matToLists n n (nonePen (α := Int))))
  | "tpen" :: rest => do
      let (terms, r) ← pTerms rest
      if r ≠ [] then none else
      let n := nCoefsAll terms
      some (showMatRat (matToLists n n (penaltyAll perPen terms)))
  | "termpen" :: i :: rest => do
      let i ← i.toNat?
      let (terms, r) ← pTerms rest
      if r ≠ [] then none else
      let t ← terms[i]?
      some (showMatRat (matToLists t.nCoefs t.nCoefs (t.penalty perPen)))
  | _ => none
end PyGam.Drv.C04
