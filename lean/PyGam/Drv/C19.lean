import PyGam.Model.Exposure
import PyGam.Model.ExposureStats
import PyGam.Drv.Common
namespace PyGam.Drv.C19
open PyGam PyGam.Drv PyGam.Exposure

/-- split a token list at the separator `|` -/
def splitBar (l : List String) : List (List String) :=
  let rec go : List String → List String → List (List String) → List (List String)
    | [], cur, acc => (cur.reverse :: acc).reverse
    | t :: ts, cur, acc => if t = "|" then go ts [] (cur.reverse :: acc) else go ts (t :: cur) acc
  go l [] []

/-- `none` (the token) ↦ Python `None`; otherwise a vector of exactly `n` rationals -/
def optRats? (n : Nat) : List String → Option (Option (Nat → Rat))
  | ["none"] => some none
  | l => do
      let v ← parseRats? l
      if v.length = n then some (some (listToVec v)) else none

def optFloats? (n : Nat) : List String → Option (Option (Nat → Float))
  | ["none"] => some none
  | l => do
      let v ← parseFloats? l
      if v.length = n then some (some (listToVec v)) else none

def ratVec? (n : Nat) (l : List String) : Option (Nat → Rat) := do
  let v ← parseRats? l
  if v.length = n then some (listToVec v) else none

def floatVec? (n : Nat) (l : List String) : Option (Nat → Float) := do
  let v ← parseFloats? l
  if v.length = n then some (listToVec v) else none

def roundQ (q : Rat) : Rat := ((roundHalfEven q : Int) : Rat)

/-- the normaliser `gammaln(k + 1)` of the Poisson log-pmf as a table `k ↦ norm k` handed in by the harness (SciPy's
values; it is a parameter of the model); NaN for a count that is not in the table -/
def tableNorm (ks ns : List Float) (k : Float) : Float :=
  match (ks.zip ns).find? (fun p => p.1 == k) with
  | some p => p.2
  | none => 0.0 / 0.0

/-- operations of the C19 model driver (`C19 <op> <args…>`); `none` ↦ `bad-op`

* `etw n | y… | e…/none | w…/none`      → `rates… | weights…`  (exact rationals, cast = `castF32`)
* `fit n | y… | e…/none | w…/none`      → the arguments `poissonFit` hands to the base fit (same format)
* `predict n | rate… | e…/none`         → `rate_i * castF32 e_i …`
* `counts n | y… | e…/none | w…/none`   → `np.round(y/e * (w*e))…` (exact)
* `cast32 q`                            → `castF32 q`
* `round q`                             → `roundHalfEven q`
* `loglik n | mu… | y… | e…/none | w…/none` (doubles as bit patterns) → kernel sum (double) `|` counts…
* `dev y mu` (doubles) → `poissonDev y mu`;  `wdev e y r` → `e * poissonDev (y/e) r` and `poissonDev y (e*r)`
* `stats n | mu… | y… | e…/none | w…/none | edof | k… | norm…` (doubles) → the statistics of a fit with exposure at
  fitted rates `mu`: `fitLoglik fitAIC fitAICc fitUBRE fitMcFadden fitMcFaddenAdj fitExplained fitDeviance`
-/
def handle : List String → Option String
  | "etw" :: n :: "|" :: rest => do
      let n ← n.toNat?
      match splitBar rest with
      | [ys, es, ws] =>
          let y ← ratVec? n ys; let e ← optRats? n es; let w ← optRats? n ws
          let r := exposureToWeights castF32 y e w
          some (showRatList (vecToList n r.1) ++ " | " ++ showRatList (vecToList n r.2))
      | _ => none
  | "fit" :: n :: "|" :: rest => do
      let n ← n.toNat?
      match splitBar rest with
      | [ys, es, ws] =>
          let y ← ratVec? n ys; let e ← optRats? n es; let w ← optRats? n ws
          some (poissonFit (fun r ww => showRatList (vecToList n r) ++ " | " ++ showRatList (vecToList n ww))
                  castF32 y e w)
      | _ => none
  | "predict" :: n :: "|" :: rest => do
      let n ← n.toNat?
      match splitBar rest with
      | [rs, es] =>
          let r ← ratVec? n rs; let e ← optRats? n es
          some (showRatList (vecToList n (predictExposure castF32 r e)))
      | _ => none
  | "counts" :: n :: "|" :: rest => do
      let n ← n.toNat?
      match splitBar rest with
      | [ys, es, ws] =>
          let y ← ratVec? n ys; let e ← optRats? n es; let w ← optRats? n ws
          some (showRatList (vecToList n (loglikCounts castF32 roundQ y e w)))
      | _ => none
  | ["cast32", q] => do
      let q ← parseRat? q
      some (showRat (castF32 q))
  | ["round", q] => do
      let q ← parseRat? q
      some (toString (roundHalfEven q))
  | "loglik" :: n :: "|" :: rest => do
      let n ← n.toNat?
      match splitBar rest with
      | [ms, ys, es, ws] =>
          let mu ← floatVec? n ms; let y ← floatVec? n ys
          let e ← optFloats? n es; let w ← optFloats? n ws
          let k := loglikKernel castF32F roundHalfEvenF n mu y e w
          let c := loglikCounts castF32F roundHalfEvenF y e w
          some (showFloat k ++ " | " ++ showFloatList (vecToList n c))
      | _ => none
  | "stats" :: n :: "|" :: rest => do
      let n ← n.toNat?
      match splitBar rest with
      | [ms, ys, es, ws, [ed], ks, ns] =>
          let mu ← floatVec? n ms; let y ← floatVec? n ys
          let e ← optFloats? n es; let w ← optFloats? n ws
          let edof ← parseFloat? ed
          let ks ← parseFloats? ks; let ns ← parseFloats? ns
          if ks.length ≠ ns.length then none else
          let norm := tableNorm ks ns
          let c := castF32F; let r := roundHalfEvenF
          some (showFloatList [fitLoglik c r norm n mu y e w, fitAIC c r norm n mu y e w edof,
            fitAICc c r norm n mu y e w edof, fitUBRE c n mu y e w edof, fitMcFadden c r norm n mu y e w,
            fitMcFaddenAdj c r norm n mu y e w edof, fitExplained c n mu y e w, fitDeviance c n mu y e w])
      | _ => none
  | ["dev", y, mu] => do
      let y ← parseFloat? y; let mu ← parseFloat? mu
      some (showFloat (poissonDev y mu))
  | ["wdev", e, y, r] => do
      let e ← parseFloat? e; let y ← parseFloat? y; let r ← parseFloat? r
      some (showFloat (e * poissonDev (y / e) r) ++ " " ++ showFloat (poissonDev y (e * r)))
  | _ => none
end PyGam.Drv.C19
