import PyGam.Drv.Common
namespace PyGam.Drv.C19
open PyGam PyGam.Drv

/-- operations of the C19 model driver (`C19 <op> <args…>`); `none` ↦ `bad-op` -/
def handle : List String → Option String
  | _ => none
end PyGam.Drv.C19
