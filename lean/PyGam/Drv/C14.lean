import PyGam.Model.TermAlgebra
import PyGam.Drv.Common
/-!
# C14 driver: a small register machine over the structural model `PyGam.TA`

`C14 run <instr> ; <instr> ; …` executes a *history* on an environment of objects (terms, term lists,
GAMs; value semantics) and prints one observation per instruction, separated by ` ; `.  Execution stops after the
first instruction that raises (its observation is `err:<Class>`).

```
sc     := N | T | F | i<int> | q<num>[/<den>] | s:<text>
tree   := sc | "[" tree* "]"
kw     := <n> (<name> tree)^n
arg    := r<idx> | f<sc> | x            (register, feature index, a non-term object)
instr  := atom <I|L|S|F> kw                        push Intercept/LinearTerm/SplineTerm/FactorTerm(**kw)
        | te <n> arg^n <by:tree> <verbose:tree> kw push TensorTerm(*args, by=, verbose=, **kw)
        | tl <T|F> <n> arg^n                       push TermList(*args, verbose=)
        | add arg arg                              push a + b
        | gam <r<idx>|auto|none> <T|F> <T|F> kw    push GAM(terms, fit_intercept, verbose, **kw)
        | get r<idx> <name> | set r<idx> <name> tree
        | getp r<idx> <T|F> | setp r<idx> <deep> <force> kw
        | info r<idx> | rebuild r<idx> | copy r<idx> | validate r<idx>
        | fit r<idx> <m> (<lo> <hi> <nuniq>)^m | compile r<idx> <m> (…)^m
```
Other operations (`C14 dedup …`, `C14 size …`) expose single model functions.
-/
namespace PyGam.Drv.C14
open PyGam PyGam.Drv PyGam.TA

abbrev P (β : Type) := List String → Option (β × List String)

def pNat : P Nat
  | s :: r => s.toNat?.map (·, r)
  | [] => none

def pBool : P Bool
  | "T" :: r => some (true, r)
  | "F" :: r => some (false, r)
  | _ => none

def pName : P String
  | s :: r => some (s, r)
  | [] => none

def pRepeat {β : Type} (p : P β) : Nat → P (List β)
  | 0, r => some ([], r)
  | k+1, r => do
      let (x, r) ← p r
      let (xs, r) ← pRepeat p k r
      some (x :: xs, r)

def pCounted {β : Type} (p : P β) : P (List β) := fun r => do
  let (k, r) ← pNat r
  pRepeat p k r

def parseSc (s : String) : Option Sc :=
  if s = "N" then some .none
  else if s = "T" then some (.bool true)
  else if s = "F" then some (.bool false)
  else if s.startsWith "i" then (s.drop 1).toInt?.map .int
  else if s.startsWith "q" then (parseRat? (s.drop 1).toString).map .flt
  else if s.startsWith "s:" then some (.str (s.drop 2).toString)
  else none

mutual
def pTreeF : Nat → P Tree
  | 0, _ => none
  | _, [] => none
  | fuel + 1, tok :: r =>
    if tok = "[" then pItemsF fuel r
    else if tok = "]" then none
    else (parseSc tok).map (fun s => (.leaf s, r))
def pItemsF : Nat → P Tree
  | 0, _ => none
  | _, [] => none
  | fuel + 1, tok :: r =>
    if tok = "]" then some (.node [], r)
    else do
      let (t, r) ← pTreeF fuel (tok :: r)
      let (rest, r) ← pItemsF fuel r
      match rest with
      | .node l => some (.node (t :: l), r)
      | .leaf _ => none
end

def pTree : P Tree := fun r => pTreeF (r.length + 1) r

def pKwItem : P (String × Tree) := fun r => do
  let (k, r) ← pName r
  let (v, r) ← pTree r
  some ((k, v), r)

def pKw : P (List (String × Tree)) := pCounted pKwItem

inductive Arg | reg (i : Nat) | feat (s : Sc) | junk

def pArg : P Arg
  | "x" :: r => some (.junk, r)
  | s :: r =>
    if s.startsWith "r" then (s.drop 1).toNat?.map (fun i => (.reg i, r))
    else if s.startsWith "f" then (parseSc (s.drop 1).toString).map (fun v => (.feat v, r))
    else none
  | [] => none

def pReg : P Nat
  | s :: r => if s.startsWith "r" then (s.drop 1).toNat?.map (·, r) else none
  | [] => none

def pFeat : P FeatData := fun r => do
  let (lo, r) ← (match r with | s :: r => (parseRat? s).map (·, r) | [] => none)
  let (hi, r) ← (match r with | s :: r => (parseRat? s).map (·, r) | [] => none)
  let (n, r) ← pNat r
  some ({ lo := lo, hi := hi, nuniq := n }, r)

inductive GTerms | reg (i : Nat) | auto | none

inductive Instr
  | atom (k : Kind) (kw : List (String × Tree))
  | te (args : List Arg) (by_ verbose : Tree) (kw : List (String × Tree))
  | tl (verbose : Bool) (args : List Arg)
  | add (a b : Arg)
  | gam (t : GTerms) (fi verbose : Bool) (kw : List (String × Tree))
  | get (r : Nat) (name : String)
  | set (r : Nat) (name : String) (v : Tree)
  | getp (r : Nat) (deep : Bool)
  | setp (r : Nat) (deep force : Bool) (kw : List (String × Tree))
  | info (r : Nat)
  | rebuild (r : Nat)
  | copy (r : Nat)
  | validate (r : Nat)
  | fit (r : Nat) (data : List FeatData)
  | compile (r : Nat) (data : List FeatData)

def pKind : P Kind
  | "I" :: r => some (.intercept, r)
  | "L" :: r => some (.linear, r)
  | "S" :: r => some (.spline, r)
  | "F" :: r => some (.factor, r)
  | _ => none

def pInstr : P Instr
  | "atom" :: r => do
      let (k, r) ← pKind r
      let (kw, r) ← pKw r
      some (.atom k kw, r)
  | "te" :: r => do
      let (args, r) ← pCounted pArg r
      let (b, r) ← pTree r
      let (v, r) ← pTree r
      let (kw, r) ← pKw r
      some (.te args b v kw, r)
  | "tl" :: r => do
      let (v, r) ← pBool r
      let (args, r) ← pCounted pArg r
      some (.tl v args, r)
  | "add" :: r => do
      let (a, r) ← pArg r
      let (b, r) ← pArg r
      some (.add a b, r)
  | "gam" :: r => do
      let (t, r) ← (match r with
        | "auto" :: r => some (GTerms.auto, r)
        | "none" :: r => some (GTerms.none, r)
        | r => (pReg r).map (fun p => (GTerms.reg p.1, p.2)))
      let (fi, r) ← pBool r
      let (v, r) ← pBool r
      let (kw, r) ← pKw r
      some (.gam t fi v kw, r)
  | "get" :: r => do
      let (i, r) ← pReg r
      let (n, r) ← pName r
      some (.get i n, r)
  | "set" :: r => do
      let (i, r) ← pReg r
      let (n, r) ← pName r
      let (v, r) ← pTree r
      some (.set i n v, r)
  | "getp" :: r => do
      let (i, r) ← pReg r
      let (d, r) ← pBool r
      some (.getp i d, r)
  | "setp" :: r => do
      let (i, r) ← pReg r
      let (d, r) ← pBool r
      let (f, r) ← pBool r
      let (kw, r) ← pKw r
      some (.setp i d f kw, r)
  | "info" :: r => do let (i, r) ← pReg r; some (.info i, r)
  | "rebuild" :: r => do let (i, r) ← pReg r; some (.rebuild i, r)
  | "copy" :: r => do let (i, r) ← pReg r; some (.copy i, r)
  | "validate" :: r => do let (i, r) ← pReg r; some (.validate i, r)
  | "fit" :: r => do
      let (i, r) ← pReg r
      let (d, r) ← pCounted pFeat r
      some (.fit i d, r)
  | "compile" :: r => do
      let (i, r) ← pReg r
      let (d, r) ← pCounted pFeat r
      some (.compile i d, r)
  | _ => none

/-- `instr ; instr ; …` -/
def pProgram : Nat → List String → Option (List Instr)
  | _, [] => some []
  | 0, _ => none
  | fuel + 1, r => do
      let (i, r) ← pInstr r
      match r with
      | [] => some [i]
      | ";" :: r => do
          let rest ← pProgram fuel r
          some (i :: rest)
      | _ => none

/-! ## canonical printing -/

def showSc : Sc → String
  | .none => "N"
  | .bool true => "T"
  | .bool false => "F"
  | .int i => "i" ++ toString i
  | .flt q => "q" ++ showRat q
  | .str s => "s:" ++ s

mutual
def showTree : Tree → String
  | .leaf s => showSc s
  | .node l => "[ " ++ showTrees l ++ "]"
def showTrees : List Tree → String
  | [] => ""
  | t :: ts => showTree t ++ " " ++ showTrees ts
end

def showVal (v : Val) : String := showTree v.toTree

def showErr : Err → String
  | .value => "err:ValueError"
  | .type => "err:TypeError"
  | .attribute => "err:AttributeError"
  | .index => "err:IndexError"
  | .key => "err:KeyError"
  | .name => "err:NameError"
  | .unsupported => "err:unsupported"

/-- entries sorted by name -/
def showEntries (l : List (String × String)) : String :=
  let s := l.mergeSort (fun a b => a.1 ≤ b.1)
  "{ " ++ joinWith " , " (s.map (fun p => p.1 ++ "=" ++ p.2)) ++ " }"

def showDict (d : Dict) (extra : List (String × String) := []) : String :=
  showEntries (d.map (fun p => (p.1, showVal p.2)) ++ extra)

def showTermInfo (i : TermInfo) : String :=
  match i.sub with
  | none => showDict i.d
  | some subs => showDict i.d [("terms", "< " ++ joinWith " " (subs.map (fun d => showDict d)) ++ " >")]

def showListInfo (i : ListInfo) : String :=
  showEntries [("term_type", "s:term_list"), ("verbose", showVal i.verbose),
               ("terms", "< " ++ joinWith " " (i.terms.map showTermInfo) ++ " >")]

/-! ## the machine -/

inductive Objct
  | term (t : Term)
  | tlist (l : TermList)
  | gam (g : Gam)

structure St where
  env : Array Objct
  out : List String     -- reversed

def argToList (env : Array Objct) : Arg → Except Err (Term ⊕ List Term)
  | .reg i =>
    match env[i]? with
    | some (.term t) => .ok (.inl t)
    | some (.tlist l) => .ok (.inr l.terms)
    | some (.gam _) => .error .value
    | none => .error .unsupported
  | .feat _ => .error .value
  | .junk => .error .value

def argsToList (env : Array Objct) : List Arg → Except Err (List (Term ⊕ List Term))
  | [] => .ok []
  | a :: r => do
      let x ← argToList env a
      let xs ← argsToList env r
      .ok (x :: xs)

def argToTe (env : Array Objct) : Arg → Except Err TeArg
  | .reg i =>
    match env[i]? with
    | some (.term (.atom a)) => .ok (.term a)
    | some (.term (.tensor _ _)) => .ok .tensor
    | _ => .error .unsupported
  | .feat s => .ok (.feat s)
  | .junk => .error .unsupported

def argsToTe (env : Array Objct) : List Arg → Except Err (List TeArg)
  | [] => .ok []
  | a :: r => do
      let x ← argToTe env a
      let xs ← argsToTe env r
      .ok (x :: xs)

def kwToDict : List (String × Tree) → Except Err Dict
  | [] => .ok []
  | (k, v) :: r =>
    match v.toVal? with
    | some x => do let r' ← kwToDict r; .ok ((k, x) :: r')
    | none => .error .unsupported

def treeToVal (t : Tree) : Except Err Val :=
  match t.toVal? with
  | some v => .ok v
  | none => .error .unsupported

/-- result of one instruction: the new environment and the observation -/
def exec (env : Array Objct) : Instr → Except Err (Array Objct × String)
  | .atom k kw => do
      let d ← kwToDict kw
      let a ← construct k d
      .ok (env.push (.term (.atom a)), "ok")
  | .te args b v kw => do
      let tas ← argsToTe env args
      let b ← treeToVal b
      let v ← treeToVal v
      let t ← mkTensor tas b v kw
      .ok (env.push (.term t), "ok")
  | .tl v args => do
      let xs ← argsToList env args
      .ok (env.push (.tlist (TermList.mk' xs v)), "ok")
  | .add a b => do
      let x ← argToList env a
      let y ← argToList env b
      .ok (env.push (.tlist (TermList.add x y)), "ok")
  | .gam t fi v kw => do
      let spec ← match t with
        | .auto => pure TermsSpec.auto
        | .none => pure TermsSpec.none
        | .reg i =>
          match env[i]? with
          | some (.term t) => pure (TermsSpec.list (TermList.mk' [.inl t] false))
          | some (.tlist l) => pure (TermsSpec.list l)
          | _ => .error .unsupported
      let g ← Gam.init spec fi v kw
      .ok (env.push (.gam g), "ok")
  | .get r name =>
    match env[r]? with
    | some (.term t) => do let x ← t.getattr name; .ok (env, "ok " ++ showTree x)
    | some (.tlist l) => do let x ← l.getattr name; .ok (env, "ok " ++ showTree x)
    | some (.gam g) => do let x ← g.getattr name; .ok (env, "ok " ++ showTree x)
    | none => .error .unsupported
  | .set r name v =>
    match env[r]? with
    | some (.term t) => do let t' ← t.setattr name v; .ok (env.set! r (.term t'), "ok")
    | some (.tlist l) => do let l' ← l.setattr name v; .ok (env.set! r (.tlist l'), "ok")
    | some (.gam g) => do let g' ← g.setattr name v; .ok (env.set! r (.gam g'), "ok")
    | none => .error .unsupported
  | .getp r deep =>
    match env[r]? with
    | some (.term (.atom a)) => .ok (env, "ok " ++ showDict (getParams a.d deep))
    | some (.term (.tensor d _)) =>
      .ok (env, "ok " ++ showDict (getParams d deep) (if deep then [("_terms", "<obj>")] else []))
    | some (.tlist l) => .ok (env, "ok " ++ showDict (getParams l.d deep) (if deep then [("_terms", "<obj>")] else []))
    | some (.gam g) => .ok (env, "ok " ++ showEntries (g.own.map (fun p => (p.1, showTree p.2))))
    | none => .error .unsupported
  | .setp r deep force kw =>
    match env[r]? with
    | some (.term t) => do let t' ← t.setParams deep force kw; .ok (env.set! r (.term t'), "ok")
    | some (.tlist l) => do let l' ← l.setParams deep force kw; .ok (env.set! r (.tlist l'), "ok")
    | _ => .error .unsupported
  | .info r =>
    match env[r]? with
    | some (.term t) => .ok (env, "ok " ++ showTermInfo t.info)
    | some (.tlist l) => .ok (env, "ok " ++ showListInfo l.info)
    | _ => .error .unsupported
  | .rebuild r =>
    match env[r]? with
    | some (.term t) => do let t' ← Term.fromInfo t.info; .ok (env.set! r (.term t'), "ok")
    | some (.tlist l) => do let l' ← TermList.fromInfo l.info; .ok (env.set! r (.tlist l'), "ok")
    | _ => .error .unsupported
  | .copy r =>
    match env[r]? with
    | some _ => .ok (env, "ok")
    | none => .error .unsupported
  | .validate r =>
    match env[r]? with
    | some (.term t) => do let t' ← t.validate; .ok (env.set! r (.term t'), "ok")
    | some (.tlist l) => do
        let ts ← l.terms.mapM Term.validate
        .ok (env.set! r (.tlist { l with terms := ts }), "ok")
    | _ => .error .unsupported
  | .fit r data =>
    match env[r]? with
    | some (.gam g) => do let g' ← g.fit data; .ok (env.set! r (.gam g'), "ok")
    | _ => .error .unsupported
  | .compile r data =>
    match env[r]? with
    | some (.term t) => do let t' ← compileTerm data t; .ok (env.set! r (.term t'), "ok")
    | some (.tlist l) => do let l' ← l.compile data; .ok (env.set! r (.tlist l'), "ok")
    | _ => .error .unsupported

def runProgram : Array Objct → List Instr → List String → List String
  | _, [], out => out.reverse
  | env, i :: r, out =>
    match exec env i with
    | .ok (env', obs) => runProgram env' r (obs :: out)
    | .error e => (showErr e :: out).reverse

/-- operations of the C14 model driver -/
def handle : List String → Option String
  | "run" :: rest => do
      let prog ← pProgram (rest.length + 1) rest
      some (joinWith " ; " (runProgram #[] prog []))
  -- `dedup <k> <key_1> … <key_k>` : positions kept by `dedup` on integer keys
  | "dedup" :: rest => do
      let ks ← parseInts? rest
      let idx := (List.range ks.length).zip ks
      some (joinWith " " ((dedup (fun (p : Nat × Int) => p.2) idx).map (fun p => toString p.1)))
  -- `size <tree>` : `np.atleast_1d(flatten(x)).size`
  | "size" :: rest => do
      let (t, r) ← pTree rest
      if r ≠ [] then none else
      some (toString t.flatSize)
  | _ => none
end PyGam.Drv.C14
