import PyGam.Drv.Common
namespace PyGam.Drv.C14
open PyGam PyGam.Drv

/-- operations of the C14 model driver (`C14 <op> <args…>`); `none` ↦ `bad-op` -/
def handle : List String → Option String
  | _ => none
end PyGam.Drv.C14
