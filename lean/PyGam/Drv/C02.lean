import PyGam.Model.Predict
import PyGam.Drv.TermParse
namespace PyGam.Drv.C02
open PyGam PyGam.Drv

/-- operations of the C02 model driver
* `lp <terms> | <coef…> | <x…>`      → `lp pdep_0 … pdep_{k-1}` (exact rationals)
* `grid <i> <n> <m_features> <terms>` → rows of `generate_X_grid(term=i, n=n)`, `;`-separated -/
def handle (toks : List String) : Option String :=
  match toks with
  | "lp" :: rest =>
    match splitBar rest with
    | [ts, cs, xs] => do
        let (terms, r) ← pTerms ts
        if r ≠ [] then none else
        let c ← parseRats? cs
        let x ← parseRats? xs
        if c.length ≠ nCoefsAll terms then none else
        let lp := linPred epsRat terms (listToVec c) (listToVec x)
        let pds := (List.range terms.length).map (fun i => partialDep epsRat terms i (listToVec c) (listToVec x))
        some (showRatList (lp :: pds))
    | _ => none
  | "grid" :: i :: n :: m :: rest => do
      let i ← i.toNat?; let n ← n.toNat?; let m ← m.toNat?
      let (terms, r) ← pTerms rest
      if r ≠ [] then none else
      let t ← terms[i]?
      let rows := (List.range (gridSize t n)).map (fun r => vecToList m (gridRow t n r))
      some (showMatRat rows)
  | _ => none
end PyGam.Drv.C02
