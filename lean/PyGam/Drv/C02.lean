import PyGam.Drv.Common
namespace PyGam.Drv.C02
open PyGam PyGam.Drv

/-- operations of the C02 model driver (`C02 <op> <args…>`); `none` ↦ `bad-op` -/
def handle : List String → Option String
  | _ => none
end PyGam.Drv.C02
