import PyGam.Drv.TermParse
namespace PyGam.Drv.C16
open PyGam PyGam.Drv

/-- operations of the C16 model driver
* `cols <terms> | <x_0 … x_{m-1}>` → one exact row of the model matrix
* `termcols <i> <terms> | <x…>`    → the columns of term `i` only
* `idx <terms>`                    → `start:stop` of every term's coefficient indices, and the total -/
def handle (toks : List String) : Option String :=
  match toks with
  | "cols" :: rest =>
    match splitBar rest with
    | [ts, xs] => do
        let (terms, r) ← pTerms ts
        if r ≠ [] then none else
        let x ← parseRats? xs
        let row := columnsAll epsRat (listToVec x) terms
        some (showRatList (vecToList (nCoefsAll terms) row))
    | _ => none
  | "termcols" :: i :: rest =>
    match splitBar rest with
    | [ts, xs] => do
        let i ← i.toNat?
        let (terms, r) ← pTerms ts
        if r ≠ [] then none else
        let x ← parseRats? xs
        let t ← terms[i]?
        some (showRatList (vecToList t.nCoefs (t.columns epsRat (listToVec x))))
    | _ => none
  | "idx" :: rest => do
      let (terms, r) ← pTerms rest
      if r ≠ [] then none else
      let parts := (List.range terms.length).map (fun i =>
        toString (coefStart terms i) ++ ":" ++ toString (coefStart terms i + (terms[i]?.map Term.nCoefs).getD 0))
      some (joinWith " " parts ++ " total " ++ toString (nCoefsAll terms))
  | _ => none
end PyGam.Drv.C16
