import PyGam.Drv.Common
namespace PyGam.Drv.C16
open PyGam PyGam.Drv

/-- operations of the C16 model driver (`C16 <op> <args…>`); `none` ↦ `bad-op` -/
def handle : List String → Option String
  | _ => none
end PyGam.Drv.C16
