import PyGam.Drv.Common
namespace PyGam.Drv.C13
open PyGam PyGam.Drv

/-- operations of the C13 model driver (`C13 <op> <args…>`); `none` ↦ `bad-op` -/
def handle : List String → Option String
  | _ => none
end PyGam.Drv.C13
