import PyGam.Model.Invariance
import PyGam.Model.Penalty
import PyGam.Drv.TermParse
namespace PyGam.Drv.C13
open PyGam PyGam.Drv PyGam.Inv

def mkMat (rows cols : Nat) (l : List Rat) : Array (Array Rat) :=
  let a := l.toArray
  (Array.range rows).map (fun i => (Array.range cols).map (fun j => a[i * cols + j]!))

def ofMat (a : Array (Array Rat)) (i j : Nat) : Rat := a[i]![j]!
def ofVec (a : Array Rat) (i : Nat) : Rat := a[i]!

def ratAbs (x : Rat) : Rat := if x < 0 then 0 - x else x
def maxAbs (n : Nat) (u : Nat → Rat) : Rat :=
  (List.range n).foldl (fun acc j => let d := ratAbs (u j); if acc < d then d else acc) 0

/-- specification-level periodic family (not used by the C13 generators, which avoid the periodic penalty) -/
def perPen : Nat → Nat → Nat → Rat := fun n => cycPen n 2

/-- operations of the C13 model driver (`C13 <op> <args…>`); `none` ↦ `bad-op`.  Exact rationals throughout.

* `quad <terms> | <coef…>` → `βᵀ P β` with `P = penaltyAll terms` (the Penalty / Terms model: lam-weighted sums,
  Kronecker lifting, block-diagonal assembly) — with the lams in the tokens set to 1 on the varied penalty and 0
  elsewhere this is the `J` of the theorems
* `neq <n> <m> | B | A | w | y | β` → `<RSS> | <βᵀAβ> | <max |Nβ - rhs|> | <max |rhs|>` : weighted RSS (`Inv.rss`), penalty
  value and the residual of the penalised normal equations `normalMat … β = normalRhs …` at the real coefficients -/
def handle (toks : List String) : Option String :=
  match toks with
  | "quad" :: rest =>
    match splitBar rest with
    | [ts, cs] => do
        let (terms, r) ← pTerms ts
        if r ≠ [] then none else
        let c ← parseRats? cs
        let k := nCoefsAll terms
        if c.length ≠ k then none else
        let P := (Array.range k).map (fun i => (Array.range k).map (fun j => penaltyAll perPen terms i j))
        some (showRat (quadForm k (ofMat P) (ofVec c.toArray)))
    | _ => none
  | "neq" :: n :: m :: rest =>
    match splitBar rest with
    | [[], bs, as, ws, ys, βs] => do
        let n ← n.toNat?; let m ← m.toNat?
        let bl ← parseRats? bs; let al ← parseRats? as; let wl ← parseRats? ws
        let yl ← parseRats? ys; let βl ← parseRats? βs
        if bl.length ≠ n * m ∨ al.length ≠ m * m ∨ wl.length ≠ n ∨ yl.length ≠ n ∨ βl.length ≠ m then none else
        let B := ofMat (mkMat n m bl); let A := ofMat (mkMat m m al); let w := ofVec wl.toArray
        let y := ofVec yl.toArray; let β := ofVec βl.toArray
        let keep : Nat → Bool := fun _ => true
        let mu := ofVec ((Array.range n).map (linearPredictor m B β))
        let N := ofMat ((Array.range m).map (fun i => (Array.range m).map (fun j => normalMat n B keep w A i j)))
        let rhs := ofVec ((Array.range m).map (normalRhs n B keep w y))
        let res := maxAbs m (fun i => mulVec m N β i - rhs i)
        some (showRat (rss n w y mu) ++ " | " ++ showRat (quadForm m A β) ++ " | " ++ showRat res ++ " | "
              ++ showRat (maxAbs m rhs))
    | _ => none
  | _ => none
end PyGam.Drv.C13
