import PyGam.Drv.Common
namespace PyGam.Drv.C06
open PyGam PyGam.Drv

/-- operations of the C06 model driver (`C06 <op> <args…>`); `none` ↦ `bad-op` -/
def handle : List String → Option String
  | _ => none
end PyGam.Drv.C06
