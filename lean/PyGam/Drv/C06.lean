import PyGam.Model.Dists
import PyGam.Model.DistState
import PyGam.Model.GamScale
import PyGam.Drv.Common
namespace PyGam.Drv.C06
open PyGam PyGam.Drv

def parseFam? : String → Option Family
  | "normal" => some .normal
  | "binomial" => some .binomial
  | "poisson" => some .poisson
  | "gamma" => some .gamma
  | "inv_gauss" => some .invGauss
  | _ => none

def parseBool? : String → Option Bool
  | "1" => some true
  | "0" => some false
  | _ => none

/-- `none` ↦ `some none`, `b…` ↦ `some (some x)` -/
def parseOptFloat? (s : String) : Option (Option Float) :=
  if s == "none" then some none else (parseFloat? s).map some

def showCall : SamplerCall Float → String
  | .normal a b => s!"normal {showFloat a} {showFloat b}"
  | .binomial a b => s!"binomial {showFloat a} {showFloat b}"
  | .poisson a => s!"poisson {showFloat a}"
  | .gamma a b => s!"gamma {showFloat a} {showFloat b}"
  | .wald a b => s!"wald {showFloat a} {showFloat b}"

def showOptFloat : Option Float → String
  | none => "none"
  | some x => showFloat x

/-- the data blocks of `phih`: `k` times `n edof w₁…wₙ y₁…yₙ mu₁…muₙ` -/
def parsePhiBlocks? : Nat → List String → Option (List (PhiData Float))
  | 0, [] => some []
  | 0, _ :: _ => none
  | k+1, n :: edof :: rest => do
      let n ← n.toNat?; let edof ← parseFloat? edof
      if rest.length < 3 * n then none else
      let xs ← parseFloats? (rest.take (3 * n))
      let blk : PhiData Float :=
        ⟨n, edof, listToVec (xs.take n), listToVec ((xs.drop n).take n), listToVec (xs.drop (2 * n))⟩
      let tl ← parsePhiBlocks? k (rest.drop (3 * n))
      some (blk :: tl)
  | _+1, _ => none

/-- run `estimateStep` over the blocks; per step: what `phi` returned on the object as it was, and the `scale`
attribute after `GAM._estimate_model_statistics`' assignment -/
def runHistory (fam : Family) (levels : Float) : DistState Float → List (PhiData Float) → List String
  | _, [] => []
  | d, x :: xs =>
      let d' := estimateStep d fam levels x
      (showOptFloat (phiAt d fam levels x) ++ " " ++ showOptFloat d'.scale) :: runHistory fam levels d' xs

def parseCls? : String → Option Heap.Cls
  | "LinearGAM" => some .linear
  | "GammaGAM" => some .gamma
  | "InvGaussGAM" => some .invGauss
  | "ExpectileGAM" => some .expectile
  | "LogisticGAM" => some .logistic
  | "PoissonGAM" => some .poisson
  | "GAM" => some .generic
  | _ => none

/-- the events of `gamscale`: `set <scale|none>`, `dist <scale|none>`, `fit n edof w₁…wₙ y₁…yₙ mu₁…muₙ`
(`fuel` bounds the recursion: one token is consumed per step at least) -/
def parseScaleEvents? : Nat → List String → Option (List (ScaleEvent Float))
  | _, [] => some []
  | 0, _ :: _ => none
  | fuel+1, "set" :: v :: rest => do
      let v ← parseOptFloat? v
      let tl ← parseScaleEvents? fuel rest
      some (.setScale v :: tl)
  | fuel+1, "dist" :: v :: rest => do
      let v ← parseOptFloat? v
      let tl ← parseScaleEvents? fuel rest
      some (.setDist v :: tl)
  | fuel+1, "fit" :: n :: edof :: rest => do
      let n ← n.toNat?; let edof ← parseFloat? edof
      if rest.length < 3 * n then none else
      let xs ← parseFloats? (rest.take (3 * n))
      let blk : PhiData Float :=
        ⟨n, edof, listToVec (xs.take n), listToVec ((xs.drop n).take n), listToVec (xs.drop (2 * n))⟩
      let tl ← parseScaleEvents? fuel (rest.drop (3 * n))
      some (.fit blk :: tl)
  | _+1, _ => none

/-- run `scaleStep` over the events; one entry per fit: the `scale` of the model's distribution after it
(`statistics_['scale']`) -/
def runScaleEvents (fam : Family) (levels : Float) : GamScale Float → List (ScaleEvent Float) → List String
  | _, [] => []
  | g, e :: es =>
      let g' := scaleStep g fam levels e
      match e with
      | .fit _ => showOptFloat g'.dist.scale :: runScaleEvents fam levels g' es
      | _ => runScaleEvents fam levels g' es

/-- operations of the C06 model driver (`C06 <op> <args…>`); `none` ↦ `bad-op`.
All numbers are IEEE doubles as bit patterns.
* `V fam levels w mu`                         → `varFnW`
* `dev fam levels scale scaled w y mu`        → `deviance`
* `kern fam levels scale w y mu`              → `logKernel … y y`, `logKernel … y mu`
* `all fam levels scale w y mu`               → `varFnW`, `deviance` unscaled, scaled, `logKernel` at `y`, at `mu`
* `phi fam levels known n edof w… y… mu…`     → `phi`
* `phih fam levels init k (n edof w… y… mu…)×k` → per fit of the same object (`mkDist fam init`, `estimateStep`):
                                                `phiAt` before the store and the stored `scale` after it
* `gamscale cls fam levels init events…`      → per fit of the model (`GamScale.new cls fam init`, `scaleStep`): its scale;
                                                events `set s` | `dist s` | `fit n edof w… y… mu…`
* `sampler fam scale levels mu`               → the sampler call and its documented `(mean, variance)` / `TypeError` -/
def handle : List String → Option String
  | ["V", fam, levels, w, mu] => do
      let fam ← parseFam? fam; let levels ← parseFloat? levels; let w ← parseFloat? w; let mu ← parseFloat? mu
      some (showFloat (varFnW fam levels w mu))
  | ["dev", fam, levels, scale, scaled, w, y, mu] => do
      let fam ← parseFam? fam; let levels ← parseFloat? levels; let scale ← parseFloat? scale
      let scaled ← parseBool? scaled
      let w ← parseFloat? w; let y ← parseFloat? y; let mu ← parseFloat? mu
      some (showFloat (deviance fam levels scale scaled w y mu))
  | ["kern", fam, levels, scale, w, y, mu] => do
      let fam ← parseFam? fam; let levels ← parseFloat? levels; let scale ← parseFloat? scale
      let w ← parseFloat? w; let y ← parseFloat? y; let mu ← parseFloat? mu
      some (showFloatList [logKernel fam levels scale w y y, logKernel fam levels scale w y mu])
  | ["all", fam, levels, scale, w, y, mu] => do
      let fam ← parseFam? fam; let levels ← parseFloat? levels; let scale ← parseFloat? scale
      let w ← parseFloat? w; let y ← parseFloat? y; let mu ← parseFloat? mu
      some (showFloatList [varFnW fam levels w mu,
        deviance fam levels scale false w y mu, deviance fam levels scale true w y mu,
        logKernel fam levels scale w y y, logKernel fam levels scale w y mu])
  | "phi" :: fam :: levels :: known :: n :: edof :: rest => do
      let fam ← parseFam? fam; let levels ← parseFloat? levels; let known ← parseOptFloat? known
      let n ← n.toNat?; let edof ← parseFloat? edof
      let xs ← parseFloats? rest
      if xs.length ≠ 3 * n then none else
      let w := listToVec (xs.take n)
      let y := listToVec ((xs.drop n).take n)
      let mu := listToVec (xs.drop (2 * n))
      some (showFloat (phi known fam levels n edof w y mu))
  | "phih" :: fam :: levels :: init :: k :: rest => do
      let fam ← parseFam? fam; let levels ← parseFloat? levels; let init ← parseOptFloat? init
      let k ← k.toNat?
      let blocks ← parsePhiBlocks? k rest
      some (joinWith " | " (runHistory fam levels (mkDist fam init) blocks))
  | "gamscale" :: cls :: fam :: levels :: init :: rest => do
      let cls ← parseCls? cls; let fam ← parseFam? fam; let levels ← parseFloat? levels
      let init ← parseOptFloat? init
      let evs ← parseScaleEvents? rest.length rest
      some (joinWith " | " (runScaleEvents fam levels (GamScale.new cls fam init) evs))
  | ["sampler", fam, scale, levels, mu] => do
      let fam ← parseFam? fam; let scale ← parseOptFloat? scale
      let levels ← parseFloat? levels; let mu ← parseFloat? mu
      match samplerParams fam scale levels mu with
      | none => some "TypeError"
      | some c =>
          let m := moments c
          some (showCall c ++ " | " ++ showFloatList [m.1, m.2])
  | _ => none
end PyGam.Drv.C06
