/-!
# Driver plumbing shared by all property drivers (Mathlib-free)
Exact rationals travel as `num/den` (or a bare integer); IEEE doubles as decimal `UInt64`
bit patterns prefixed with `b`.
-/
namespace PyGam.Drv

def parseInt? (s : String) : Option Int := s.toInt?

/-- `"3"`, `"-3/4"` -/
def parseRat? (s : String) : Option Rat :=
  match s.splitOn "/" with
  | [a] => (a.toInt?).map (fun (n : Int) => (n : Rat))
  | [a, b] => do
      let n ← a.toInt?
      let d ← b.toNat?
      if d = 0 then none else some (mkRat n d)
  | _ => none

def showRat (r : Rat) : String :=
  if r.den = 1 then toString r.num else toString r.num ++ "/" ++ toString r.den

def parseRats? (l : List String) : Option (List Rat) := l.mapM parseRat?
def parseInts? (l : List String) : Option (List Int) := l.mapM parseInt?
def parseNats? (l : List String) : Option (List Nat) := l.mapM String.toNat?

/-- float from `b<uint64 bits>` -/
def parseFloat? (s : String) : Option Float :=
  if s.startsWith "b" then (s.drop 1).toNat?.map (fun n => Float.ofBits n.toUInt64) else none

def showFloat (f : Float) : String := "b" ++ toString f.toBits.toNat
def parseFloats? (l : List String) : Option (List Float) := l.mapM parseFloat?

def joinWith (sep : String) (l : List String) : String := sep.intercalate l

def showRatList (l : List Rat) : String := joinWith " " (l.map showRat)
def showIntList (l : List Int) : String := joinWith " " (l.map toString)
def showFloatList (l : List Float) : String := joinWith " " (l.map showFloat)
def showMatInt (rows : List (List Int)) : String := joinWith " ; " (rows.map showIntList)
def showMatRat (rows : List (List Rat)) : String := joinWith " ; " (rows.map showRatList)

end PyGam.Drv
