/-!
# PyGam.Model.Validate — data validation of pyGAM as it is coded now (Mathlib-free)

Mirrors `pygam/utils.py` (`check_array`, `check_X`, `check_y`, `check_X_y`, `check_lengths`,
`get_link_domain`) and the validation calls made, in call order, by every public entry point of
`pygam/pygam.py` that accepts `X`, `y`, sample weights or exposure.

* 1-D arrays are `List Val`, 2-D arrays are `List (List Val)` (list of rows), where `Val` is an exact
  rational or one of the IEEE special values `+Inf`, `-Inf`, `NaN`.
* The outcome of a call is the *class* of what happens: `ok | valueError | attributeError | other`.
  `ok` means "every validation step passed" (the numerical work that follows is not modelled here).
* The table `table : Entry → fitted? → converged? → List Step` lists the validation steps of every entry point in
  the order in which the code executes them; `outcome` runs them and reports the first failure.

(`Val` duplicates the special-value type of `Model/XR.lean` on purpose: the two files were written
concurrently; only `isFinite` and a few sign decisions are needed here.)
-/
namespace PyGam.Validate

/-! ## values -/

/-- a float as far as validation can tell: an exact finite value or an IEEE special value -/
inductive Val where
  | fin (r : Rat)
  | posInf
  | negInf
  | nan
  deriving Repr, DecidableEq, Inhabited

/-- `np.isfinite` -/
def Val.isFinite : Val → Bool
  | .fin _ => true
  | _ => false

/-- `np.isnan` -/
def Val.isNaN : Val → Bool
  | .nan => true
  | _ => false

/-- the class of what a call does -/
inductive Outcome where
  | ok
  | valueError
  | attributeError
  | other
  deriving Repr, DecidableEq, Inhabited

/-- smallest magnitude that `astype('float32')` rounds to infinity: `2^128 - 2^103`
(half an ulp above the largest float32, ties go to the even neighbour `2^128 = inf`) -/
def f32Bound : Rat := (2 : Rat) ^ 128 - (2 : Rat) ^ 103

/-- smallest magnitude that rounds to infinity in float64: `2^1024 - 2^970` -/
def f64Bound : Rat := (2 : Rat) ^ 1024 - (2 : Rat) ^ 970

/-- overflow behaviour of a rounding to a binary format with overflow threshold `b`
(the rounding of the finite values themselves does not matter for validation) -/
def castBound (b : Rat) : Val → Val
  | .fin r => if b ≤ r then .posInf else if r ≤ -b then .negInf else .fin r
  | v => v

/-- `np.array(w).astype('f')` : weights and exposure are cast to float32 before they are checked -/
def castF32 : Val → Val := castBound f32Bound

/-- result of a float64 operation whose exact value is known -/
def castF64 : Val → Val := castBound f64Bound

/-- IEEE division (the divisor is a non-negative-zero float; only the class of the result matters) -/
def Val.div : Val → Val → Val
  | .nan, _ => .nan
  | _, .nan => .nan
  | .fin a, .fin b =>
      if b = 0 then (if 0 < a then .posInf else if a < 0 then .negInf else .nan)
      else castF64 (.fin (a / b))
  | .fin _, _ => .fin 0
  | .posInf, .fin b => if b < 0 then .negInf else .posInf
  | .negInf, .fin b => if b < 0 then .posInf else .negInf
  | _, _ => .nan

/-- IEEE multiplication, needed only for finite operands (weights × exposure) -/
def Val.mul : Val → Val → Val
  | .fin a, .fin b => .fin (a * b)
  | _, _ => .nan

/-! ## links: where `link.link(y)` is NaN (utils.check_y, utils.get_link_domain) -/

inductive Link where
  | identity | logit | log | inverse | invSquared
  deriving Repr, DecidableEq, Inhabited

/-- `np.isnan(link.link(y, dist))` evaluated with IEEE rules (`levels` is finite and positive):
* identity: `y`
* logit: `log(y) - log(levels - y)` — NaN for `y < 0`, `y > levels`, `±Inf`, NaN; `-Inf`/`+Inf` at `0`/`levels`
* log: `log(y)` — NaN for `y < 0`, `-Inf`, NaN
* inverse / inv_squared: `y**-1`, `y**-2` — NaN only for NaN (`0 ↦ Inf`, `±Inf ↦ 0`) -/
def linkIsNaN (l : Link) (levels : Rat) : Val → Bool
  | .nan => true
  | .fin r =>
      match l with
      | .logit => r < 0 || levels < r
      | .log => r < 0
      | _ => false
  | .posInf =>
      match l with
      | .logit => true
      | _ => false
  | .negInf =>
      match l with
      | .logit => true
      | .log => true
      | _ => false

/-- the targets accepted by `check_y` once they are known to be finite -/
def inDomain (l : Link) (levels : Rat) (r : Rat) : Bool := !linkIsNaN l levels (.fin r)

/-- `get_link_domain`: first and last of `[-inf, -1, 0, 1, inf]` at which the link is not NaN -/
def linkDomain (l : Link) (levels : Rat) : Option (Val × Val) :=
  let pts : List Val := [.negInf, .fin (-1), .fin 0, .fin 1, .posInf]
  let good := pts.filter (fun v => !linkIsNaN l levels v)
  match good.head?, good.getLast? with
  | some a, some b => some (a, b)
  | _, _ => none

/-- `_initial_estimate` moves boundary targets before applying the link:
`y[y == 0] += 0.01; y[y == 1] -= 0.01; if levels != 1: y[y == levels] -= 0.01` (in this order) -/
def initialAdjust (levels : Rat) (y : Rat) : Rat :=
  let y1 := if y = 0 then y + 1 / 100 else y
  let y2 := if y1 = 1 then y1 - 1 / 100 else y1
  if levels ≠ 1 ∧ y2 = levels then y2 - 1 / 100 else y2

/-- `link.link(y)` is finite in exact arithmetic (no `log 0`, no division by zero) -/
def linkFiniteAt (l : Link) (levels : Rat) (r : Rat) : Bool :=
  match l with
  | .identity => true
  | .logit => 0 < r && r < levels
  | .log => 0 < r
  | .inverse => r ≠ 0
  | .invSquared => r ≠ 0

/-! ## array checks (utils.py) -/

/-- `np.isfinite(array).all()` for a 1-D array -/
def allFinite (a : List Val) : Bool := a.all Val.isFinite

/-- `np.isfinite(array).all()` for a 2-D array -/
def allFinite2 (a : List (List Val)) : Bool := a.all allFinite

/-- number of columns of a list of rows (first row; `0` when there are no rows) -/
def width (a : List (List Val)) : Nat :=
  match a with
  | [] => 0
  | r :: _ => r.length

/-- every row has the same length (NumPy refuses ragged nested lists with a `ValueError`) -/
def rect (a : List (List Val)) : Bool := a.all (fun r => r.length = width a)

/-- `check_array` of a 1-D array (`ndim=1` after `ravel`): finite, then `min_samples`.
`true` = passes; a failure is a `ValueError`. -/
def checkArray1 (a : List Val) (minSamples : Nat := 1) : Bool :=
  allFinite a && decide (minSamples ≤ a.length)

/-- `check_array(force_2d=True, n_feats, min_samples)`: conversion, finite, `n_feats`, `min_samples` -/
def checkArray2 (a : List (List Val)) (nFeats : Option Nat) (minSamples : Nat := 1) : Bool :=
  rect a && allFinite2 a
    && (match nFeats with
        | none => true
        | some k => a.isEmpty || width a = k)
    && decide (minSamples ≤ a.length)

/-- `check_lengths` / `check_X_y` -/
def checkLengths (ls : List Nat) : Bool :=
  match ls with
  | [] => true
  | n :: rest => rest.all (· = n)

/-- value of column `j` in a row (rows are rectangular when this is used) -/
def cell (row : List Val) (j : Nat) : Val := row.getD j .nan

/-- one categorical term: feature index and its edge knots `[min - 0.5, max + 0.5]` -/
structure Cat where
  feature : Nat
  lo : Rat
  hi : Rat
  deriving Repr, DecidableEq

/-- `(np.unique(x) < min_).any() or (np.unique(x) > max_).any()` is false (comparisons with NaN are false) -/
def valInRange (lo hi : Rat) : Val → Bool
  | .fin r => !(r < lo) && !(hi < r)
  | .posInf => false
  | .negInf => false
  | .nan => true

def catOk (X : List (List Val)) (c : Cat) : Bool :=
  X.all (fun row => valInRange c.lo c.hi (cell row c.feature))

/-- the state a fit leaves behind, as far as `check_X` reads it -/
structure Fit where
  /-- `statistics_['m_features']` -/
  mFeatures : Nat
  /-- flattened `gam.feature` (term features, intercept excluded) -/
  features : List Nat
  /-- categorical terms with their edge knots -/
  cats : List Cat
  /-- the same per term index (a tensor term lists its categorical marginals; the intercept has none):
  `partial_dependence(term=i, X)` only checks the domain of term `i` -/
  termCats : List (List Cat) := []
  deriving Repr

/-- `n_feats` as `check_X` computes it: `max(n_feats, max(features))` when there are features -/
def Fit.nFeats (f : Fit) : Nat :=
  match f.features with
  | [] => f.mFeatures
  | fs => max f.mFeatures (fs.foldl max 0)

/-- `check_X(X)` as called by `fit` / `gridsearch`: no width, no categories -/
def checkXFresh (X : List (List Val)) : Bool := checkArray2 X none

/-- `check_X(X, n_feats, edge_knots, dtypes, features)` as called on a fitted model -/
def checkXFitted (f : Fit) (X : List (List Val)) : Bool :=
  checkArray2 X (some f.nFeats) && f.cats.all (catOk X)

/-- `check_X` as called by `_modelmat(X, term=i)` for one term (`partial_dependence`): all of `X` must be finite and
have the fitted width, but only the categorical domain of term `i` is checked.
(`n_feats = max(m_features, max(term.feature))`, which is `m_features` like `Fit.nFeats` as every term feature is a
column of the training data.) -/
def checkXFittedTerm (f : Fit) (term : Nat) (X : List (List Val)) : Bool :=
  checkArray2 X (some f.nFeats) && (f.termCats.getD term []).all (catOk X)

/-- `check_y(y, link, dist)` : ravel, `check_array`, then the link-domain test -/
def checkYFinite (y : List Val) : Bool := checkArray1 y

def checkYDomain (l : Link) (levels : Rat) (y : List Val) : Bool :=
  y.all (fun v => !linkIsNaN l levels v)

/-! ## models, arguments, steps -/

structure Model where
  link : Link
  /-- `distribution.levels` (1 unless binomial with several levels) -/
  levels : Rat
  /-- features (and by-variables) the term list needs; `none` for `terms='auto'` before the first fit -/
  termFeats : Option (List Nat)
  /-- `_validate_params` has run: `self.link` / `self.distribution` are objects, not strings -/
  validated : Bool
  fit : Option Fit
  deriving Repr

def Model.isFitted (m : Model) : Bool := m.fit.isSome

structure Args where
  X : List (List Val)
  y : List Val := []
  weights : Option (List Val) := none
  exposure : Option (List Val) := none
  sampleAtX : Option (List (List Val)) := none
  /-- `fit_quantile`: the quantile ratio of the current fit is already within `tol` (data dependent, supplied) -/
  converged : Bool := false
  /-- `sample(quantity='coef')`: `sample_at_X` is never looked at -/
  coefOnly : Bool := false
  /-- `partial_dependence(term=…)` -/
  term : Nat := 0
  deriving Repr

inductive VecArg where
  | weights | exposure
  deriving Repr, DecidableEq

inductive LenArg where
  | X | y | weights | exposure
  deriving Repr, DecidableEq

/-- one validation step as it appears in the code -/
inductive Step where
  /-- `if not self._is_fitted: raise AttributeError` -/
  | fitted
  /-- `self.link.link(...)` while `self.link` is still the string given to `__init__` (AttributeError) -/
  | linkResolved
  /-- `check_array` inside `check_y`; `scaled`: PoissonGAM has already divided `y` by the exposure -/
  | yFinite (scaled : Bool)
  /-- link-domain test inside `check_y` -/
  | yDomain (scaled : Bool)
  /-- `check_X(X)` without fitted state -/
  | xFresh
  /-- `check_X(X, n_feats=…, edge_knots=…, dtypes=…, features=…)` -/
  | xFitted
  /-- `check_X(X, n_feats=statistics_['m_features'])` of `gridsearch` on a fitted model: finite, fitted width,
  no categories (the candidates are refitted) -/
  | xFittedWidth
  /-- `_modelmat(X, term=i)`: the same, but only the categorical domain of the requested term -/
  | xFittedTerm
  /-- the same for `sample_at_X` (skipped when absent or `quantity='coef'`) -/
  | sampleAtXFitted
  /-- `terms.compile(X)`: every term feature / by-variable must be a column of X -/
  | compile
  /-- `check_X_y(X, y)` -/
  | lenXY
  /-- float32 cast + `check_array` of weights / exposure (skipped when `None`) -/
  | vecFinite (a : VecArg)
  /-- `check_lengths(a, b)`; an argument that is `None` has been replaced by ones of the right length -/
  | lenEq (a b : LenArg)
  /-- PoissonGAM: `weights * exposure` is cast to float32 and checked again by `GAM.fit` / `gridsearch` -/
  | prodFinite
  deriving Repr, DecidableEq

/-- the exception class a failing step raises -/
def Step.exc : Step → Outcome
  | .fitted => .attributeError
  | .linkResolved => .attributeError
  | _ => .valueError

def castVec (v : List Val) : List Val := v.map castF32

/-- `y / exposure` of `PoissonGAM._exposure_to_weights` -/
def scaledY (a : Args) : List Val :=
  match a.exposure with
  | none => a.y
  | some e => List.zipWith Val.div a.y (castVec e)

def effY (a : Args) (scaled : Bool) : List Val := if scaled then scaledY a else a.y

/-- `weights * exposure`, cast to float32 -/
def prodWE (a : Args) : Option (List Val) :=
  match a.weights, a.exposure with
  | none, none => none
  | some w, none => some (castVec w)
  | none, some e => some (castVec e)
  | some w, some e => some ((List.zipWith Val.mul (castVec w) (castVec e)).map castF32)

def optLen (a : Args) : LenArg → Option Nat
  | .X => some a.X.length
  | .y => some a.y.length
  | .weights => a.weights.map List.length
  | .exposure => a.exposure.map List.length

/-- does the step pass? -/
def Step.passes (m : Model) (a : Args) : Step → Bool
  | .fitted => m.isFitted
  | .linkResolved => m.validated
  | .yFinite sc => checkYFinite (effY a sc)
  | .yDomain sc => checkYDomain m.link m.levels (effY a sc)
  | .xFresh => checkXFresh a.X
  | .xFitted =>
      match m.fit with
      | some f => checkXFitted f a.X
      | none => false
  | .xFittedWidth =>
      match m.fit with
      | some f => checkArray2 a.X (some f.mFeatures)
      | none => false
  | .xFittedTerm =>
      match m.fit with
      | some f => checkXFittedTerm f a.term a.X
      | none => false
  | .sampleAtXFitted =>
      match a.coefOnly, a.sampleAtX, m.fit with
      | true, _, _ => true
      | false, none, _ => true
      | false, some sx, some f => checkXFitted f sx
      | false, some _, none => false
  | .compile =>
      match m.termFeats with
      | none => true
      | some fs => fs.all (fun j => decide (j < width a.X))
  | .lenXY => decide (a.X.length = a.y.length)
  | .vecFinite .weights =>
      match a.weights with
      | none => true
      | some w => checkArray1 (castVec w)
  | .vecFinite .exposure =>
      match a.exposure with
      | none => true
      | some e => checkArray1 (castVec e)
  | .lenEq p q =>
      match optLen a p, optLen a q with
      | some n, some k => decide (n = k)
      | _, _ => true
  | .prodFinite =>
      match prodWE a with
      | none => true
      | some v => checkArray1 v

/-- run the steps in order; the first failing step decides -/
def runSteps (m : Model) (a : Args) : List Step → Outcome
  | [] => .ok
  | s :: rest => if s.passes m a then runSteps m a rest else s.exc

/-! ## the table of entry points -/

inductive Entry where
  | fit | predict | predictMu | predictProba | confidenceIntervals | predictionIntervals
  | partialDependence | devianceResiduals | loglikelihood | score | accuracy | logisticScore
  | gridsearch | sample | fitQuantile
  | poissonFit | poissonPredict | poissonLoglikelihood | poissonGridsearch
  deriving Repr, DecidableEq

def Entry.all : List Entry :=
  [.fit, .predict, .predictMu, .predictProba, .confidenceIntervals, .predictionIntervals,
   .partialDependence, .devianceResiduals, .loglikelihood, .score, .accuracy, .logisticScore,
   .gridsearch, .sample, .fitQuantile,
   .poissonFit, .poissonPredict, .poissonLoglikelihood, .poissonGridsearch]

/-- `GAM.fit(X, y, weights)` after `_validate_params` -/
def fitSteps (scaled : Bool) : List Step :=
  [.yFinite scaled, .yDomain scaled, .xFresh, .lenXY,
   (if scaled then .prodFinite else .vecFinite .weights), .lenEq .y .weights, .compile]

/-- `PoissonGAM._exposure_to_weights(y, exposure, weights)` -/
def exposureSteps : List Step :=
  -- `y = check_array(np.ravel(y), ndim=1)` comes first: the raw targets are cast and must be finite before the division
  [.yFinite false, .vecFinite .exposure, .lenEq .y .exposure, .vecFinite .weights, .lenEq .weights .exposure]

/-- `y`, `X`, lengths, weights — the common prefix of score / deviance_residuals / _sample_coef -/
def scoreSteps : List Step :=
  [.fitted, .yFinite false, .yDomain false, .xFitted, .lenXY, .vecFinite .weights, .lenEq .y .weights]

/-- validation steps in call order.  `fitted` / `converged` select the branch for the two entry points whose
code path depends on them (`gridsearch`, `fit_quantile`). -/
def table (e : Entry) (fitted converged : Bool) : List Step :=
  match e with
  | .fit => fitSteps false
  | .predict | .predictMu | .predictProba | .confidenceIntervals | .predictionIntervals => [.fitted, .xFitted]
  | .partialDependence => [.fitted, .xFittedTerm]
  | .devianceResiduals | .score => scoreSteps
  | .loglikelihood =>
      [.yFinite false, .linkResolved, .yDomain false, .fitted, .xFitted, .lenXY,
       .vecFinite .weights, .lenEq .y .weights]
  | .accuracy | .logisticScore => [.fitted, .yFinite false, .yDomain false, .xFitted, .lenXY]
  | .gridsearch =>
      if fitted then
        -- the width of X is checked against the fit up front; every candidate `fit` then runs inside
        -- `try … except ValueError: continue`
        [.yFinite false, .yDomain false, .xFittedWidth, .lenXY, .vecFinite .weights, .lenEq .y .weights]
      else
        [.yFinite false, .yDomain false, .xFresh, .lenXY, .compile, .vecFinite .weights, .lenEq .y .weights]
  | .sample => scoreSteps ++ [.sampleAtXFitted]
  | .fitQuantile =>
      if fitted then
        -- y, lengths and weights are validated up front; `predict(X)` inside the search checks X against the fit
        [.yFinite false, .yDomain false, .lenXY, .vecFinite .weights, .lenEq .y .weights, .xFitted]
          ++ (if converged then [] else fitSteps false)
      else fitSteps false
  | .poissonFit => exposureSteps ++ fitSteps true
  | .poissonPredict => [.fitted, .xFitted, .vecFinite .exposure, .lenEq .X .exposure]
  | .poissonLoglikelihood =>
      [.yFinite false, .linkResolved, .yDomain false, .fitted, .xFitted, .lenXY,
       .vecFinite .weights, .lenEq .y .weights] ++ exposureSteps
  | .poissonGridsearch =>
      exposureSteps ++
      (if fitted then
        [.yFinite true, .yDomain true, .xFittedWidth, .lenXY, .prodFinite, .lenEq .y .weights]
      else
        [.yFinite true, .yDomain true, .xFresh, .lenXY, .compile, .prodFinite, .lenEq .y .weights])

/-- what the call does, as far as validation decides it -/
def outcome (e : Entry) (m : Model) (a : Args) : Outcome :=
  runSteps m a (table e m.isFitted a.converged)

/-- entry points that need a fitted model -/
def Entry.needsFit : Entry → Bool
  | .fit | .gridsearch | .fitQuantile | .poissonFit | .poissonGridsearch => false
  | _ => true

/-- the data arguments of an entry point (as in its Python signature) -/
inductive DataArg where
  | X | y | weights | exposure | sampleAtX
  deriving Repr, DecidableEq

def Entry.args : Entry → List DataArg
  | .predict | .predictMu | .predictProba | .confidenceIntervals | .predictionIntervals
  | .partialDependence => [.X]
  | .fit | .devianceResiduals | .loglikelihood | .score | .gridsearch | .fitQuantile => [.X, .y, .weights]
  | .accuracy | .logisticScore => [.X, .y]
  | .sample => [.X, .y, .sampleAtX, .weights]
  | .poissonFit | .poissonLoglikelihood | .poissonGridsearch => [.X, .y, .exposure, .weights]
  | .poissonPredict => [.X, .exposure]

/-- the model can serve the entry point: it is fitted (hence its parameters validated) when the entry point needs a fit -/
def Ready (e : Entry) (m : Model) : Prop :=
  e.needsFit = true → (m.isFitted = true ∧ m.validated = true)

end PyGam.Validate
