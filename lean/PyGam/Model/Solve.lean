/-!
# Gaussian elimination with partial pivoting on arrays (driver-side linear solver)

Used by the drivers to evaluate "the solution of the normal equations" at `Float` (or exactly at `Rat`).
The theorems never refer to this algorithm: they are stated for *any* solution of the linear system, and the
driver checks the residual of what it computed.
-/
namespace PyGam

variable {α : Type} [Zero α] [One α] [Add α] [Sub α] [Mul α] [Div α] [LT α] [DecidableLT α] [Inhabited α]

def absVal (x : α) : α := if x < 0 then 0 - x else x

/-- solve `M x = b` for an `m × m` system; returns `none` when a pivot is exactly zero -/
def gaussSolve (m : Nat) (M : Array (Array α)) (b : Array α) : Option (Array α) := Id.run do
  let mut A := M
  let mut rhs := b
  let mut ok := true
  for k in [0:m] do
    -- partial pivoting
    let mut piv := k
    let mut best := absVal (A[k]![k]!)
    for i in [k+1:m] do
      let v := absVal (A[i]![k]!)
      if best < v then
        piv := i
        best := v
    if piv != k then
      let rk := A[k]!
      A := A.set! k (A[piv]!)
      A := A.set! piv rk
      let bk := rhs[k]!
      rhs := rhs.set! k (rhs[piv]!)
      rhs := rhs.set! piv bk
    let p := A[k]![k]!
    if ¬ (0 < absVal p) then
      ok := false
    else
      for i in [k+1:m] do
        let f := A[i]![k]! / p
        let rowk := A[k]!
        let mut rowi := A[i]!
        for j in [k:m] do
          rowi := rowi.set! j (rowi[j]! - f * rowk[j]!)
        A := A.set! i rowi
        rhs := rhs.set! i (rhs[i]! - f * rhs[k]!)
  if !ok then return none
  -- back substitution
  let mut x : Array α := Array.replicate m 0
  for kk in [0:m] do
    let k := m - 1 - kk
    let mut s := rhs[k]!
    for j in [k+1:m] do
      s := s - A[k]![j]! * x[j]!
    x := x.set! k (s / A[k]![k]!)
  return some x

end PyGam
