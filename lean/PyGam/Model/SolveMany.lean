/-!
# Gaussian elimination with partial pivoting, several right-hand sides (driver-side linear solver)

`gaussSolveMany m M R` solves `M X = R` for an `m × m` matrix `M` and an `m × p` right-hand side `R` in one
elimination (`Model/Solve.lean: gaussSolve` repeated `p` times would cost `p·m³`).  As with `gaussSolve`, the
theorems never refer to this algorithm: they are stated for *any* solution of the linear system.
-/
namespace PyGam

variable {α : Type} [Zero α] [One α] [Add α] [Sub α] [Mul α] [Div α] [LT α] [DecidableLT α] [Inhabited α]

private def absV (x : α) : α := if x < 0 then 0 - x else x

/-- rows of `X` with `M X = R`; `none` when a pivot is exactly zero -/
def gaussSolveMany (m p : Nat) (M : Array (Array α)) (R : Array (Array α)) : Option (Array (Array α)) := Id.run do
  -- augmented rows [M | R]
  let mut A : Array (Array α) := (Array.range m).map (fun i => M[i]! ++ R[i]!)
  let w := m + p
  let mut ok := true
  for k in [0:m] do
    let mut piv := k
    let mut best := absV (A[k]![k]!)
    for i in [k+1:m] do
      let v := absV (A[i]![k]!)
      if best < v then
        piv := i
        best := v
    if piv != k then
      let rk := A[k]!
      A := A.set! k (A[piv]!)
      A := A.set! piv rk
    let pv := A[k]![k]!
    if ¬ (0 < absV pv) then
      ok := false
    else
      let rowk := A[k]!
      for i in [k+1:m] do
        let rowi0 := A[i]!
        let f := rowi0[k]! / pv
        if 0 < absV f then
          let mut rowi := rowi0
          A := A.set! i #[]          -- release the shared reference so that `set!` is in place
          for j in [k:w] do
            rowi := rowi.set! j (rowi[j]! - f * rowk[j]!)
          A := A.set! i rowi
  if !ok then return none
  -- back substitution, all right-hand sides at once
  let mut X : Array (Array α) := Array.replicate m (Array.replicate p 0)
  for kk in [0:m] do
    let k := m - 1 - kk
    let rowk := A[k]!
    let mut s : Array α := (Array.range p).map (fun c => rowk[m + c]!)
    for j in [k+1:m] do
      let a := rowk[j]!
      let xj := X[j]!
      for c in [0:p] do
        s := s.set! c (s[c]! - a * xj[c]!)
    let d := rowk[k]!
    X := X.set! k (s.map (fun v => v / d))
  return some X

end PyGam
