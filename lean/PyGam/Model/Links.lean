/-!
# PyGam.Model.Links — mirrors `pygam/links.py` (Mathlib-free)

The five link objects of pyGAM (`LINKS` in `links.py`), each a triple

* `linkFn   k levels mu` : `Link.link(mu, dist)`      (mean ↦ linear predictor)
* `linkInv  k levels lp` : `Link.mu(lp, dist)`        (linear predictor ↦ mean)
* `linkGrad k levels mu` : `Link.gradient(mu, dist)`  (derivative of the link wrt the mean)

`levels` is `dist.levels` (only the logit link reads it).  The definitions are written over
notation classes only, so that the *same* definition is executed at `Float` by the driver
(`Drv/C07.lean`), at the IEEE special-value algebra `XR Rat` (`Model/XR.lean`, domain decisions) and
reasoned about over `ℝ` (`Proofs/Links.lean`, `Props/C07.lean`).

Transcendental functions come from the small class `ExpLog` (`exp`, `log`, and `sqrt` for the one
fractional power `lp ** -0.5`).

Powers.  NumPy's `x ** -1.0`, `x ** -2.0`, `x ** -3.0`, `x ** -0.5` are modelled as
`1 / x`, `1 / (x*x)`, `1 / (x*x*x)`, `1 / sqrt x`.  Over `ℝ` these are the same functions on the domain
where the power is defined; over IEEE doubles they have the same special values (`0 ↦ +inf`,
`±inf ↦ 0`, `x < 0 ↦ nan` for the fractional power; signed zeros are not modelled) and agree to the last
1–2 ulp away from overflow/underflow of the intermediate product (the correspondence stream measures it).
-/
namespace PyGam

/-- transcendental operations used by links and distributions -/
class ExpLog (α : Type) where
  exp : α → α
  log : α → α
  sqrt : α → α

/-- IEEE doubles with the C library functions (what the compiled driver executes) -/
instance : ExpLog Float := ⟨Float.exp, Float.log, Float.sqrt⟩

/-- the keys of `pygam.links.LINKS` -/
inductive LinkKind
  | identity | log | logit | inverse | invSquared
  deriving DecidableEq, Repr, Inhabited

namespace LinkKind
/-- the `name` attribute of the link object / key of `LINKS` -/
def name : LinkKind → String
  | identity => "identity" | log => "log" | logit => "logit"
  | inverse => "inverse" | invSquared => "inv_squared"

def ofName? : String → Option LinkKind
  | "identity" => some identity | "log" => some log | "logit" => some logit
  | "inverse" => some inverse | "inv_squared" => some invSquared
  | _ => none

def all : List LinkKind := [identity, log, logit, inverse, invSquared]
end LinkKind

section
variable {α : Type} [One α] [Add α] [Sub α] [Mul α] [Div α] [Neg α] [ExpLog α]
open ExpLog LinkKind

/-- `Link.link(mu, dist)`:
identity `mu`; log `np.log(mu)`; logit `np.log(mu) - np.log(dist.levels - mu)`;
inverse `mu ** -1.0`; inv_squared `mu ** -2.0` -/
def linkFn (k : LinkKind) (levels mu : α) : α :=
  match k with
  | identity => mu
  | LinkKind.log => log mu
  | logit => log mu - log (levels - mu)
  | inverse => 1 / mu
  | invSquared => 1 / (mu * mu)

/-- `Link.mu(lp, dist)`:
identity `lp`; log `np.exp(lp)`; logit `elp = np.exp(lp); dist.levels * elp / (elp + 1)`;
inverse `lp ** -1.0`; inv_squared `lp ** -0.5` -/
def linkInv (k : LinkKind) (levels lp : α) : α :=
  match k with
  | identity => lp
  | LinkKind.log => exp lp
  | logit => levels * exp lp / (exp lp + 1)
  | inverse => 1 / lp
  | invSquared => 1 / sqrt lp

/-- `Link.gradient(mu, dist)`:
identity `np.ones_like(mu)`; log `1.0 / mu`; logit `dist.levels / (mu * (dist.levels - mu))`;
inverse `-1 * mu ** -2.0`; inv_squared `-2 * mu ** -3.0` -/
def linkGrad (k : LinkKind) (levels mu : α) : α :=
  match k with
  | identity => 1
  | LinkKind.log => 1 / mu
  | logit => levels / (mu * (levels - mu))
  | inverse => (-1) * (1 / (mu * mu))
  | invSquared => (-(1 + 1)) * (1 / (mu * mu * mu))

end
end PyGam
