import PyGam.Model.Vec
/-!
# PyGam.Model.Dists — mirrors `pygam/distributions.py` and `pygam/utils.py: ylogydu` (Mathlib-free)

* `ylogydu y u`                       : `utils.ylogydu` (the `y = 0` entries stay `0`)
* `varFn fam levels mu`               : the body of `<Family>Dist.V`
* `varFnW fam levels w mu`            : `V` as decorated by `divide_weights`
* `famScale fam scale`                : the `scale` attribute (fixed to 1 for binomial / poisson)
* `unitDeviance fam levels y mu`      : the body of `<Family>Dist.deviance` before `dev /= self.scale`
* `deviance fam levels scale scaled w y mu` : `deviance` as decorated by `multiply_weights`
* `logKernel fam levels scale w y mu` : the `mu`-dependent terms of `<Family>Dist.log_pdf`, written with the
                                        very parameterisation handed to `scipy.stats.*.logpdf/logpmf`
* `logDensity c …`                    : `c + logKernel …`, `c` the `mu`-free normaliser (lgamma, log y, log 2π terms)
* `pearson`, `phi`                    : `Distribution.phi`
* `SamplerCall`, `samplerParams`, `moments` : the arguments handed to `numpy.random.{normal,binomial,poisson,gamma,wald}`
                                        by `<Family>Dist.sample` and the documented first two moments of those samplers

`scale` is the dispersion (variance) parameter `φ` throughout; `levels` is the binomial number of trials.
All definitions take notation classes only: the driver runs them at `Float`, the theorems are over `ℝ`.
-/
namespace PyGam

/-- natural logarithm and square root: the only non-field operations of `distributions.py`
(kept separate from `ExpLog` of `Model/Links.lean`; to be unified) -/
class HasLogSqrt (α : Type) where
  log : α → α
  sqrt : α → α

instance : HasLogSqrt Float := ⟨Float.log, Float.sqrt⟩

inductive Family | normal | binomial | poisson | gamma | invGauss
  deriving DecidableEq, Repr, Inhabited

variable {α : Type}

section defs
variable [Zero α] [One α] [Add α] [Sub α] [Mul α] [Div α] [LE α] [DecidableLE α] [HasLogSqrt α]
open HasLogSqrt

/-- the literal `2` -/
def two : α := 1 + 1

/-- `x == 0.0` in IEEE arithmetic (true for `-0.0`, false for NaN) -/
def isZero (x : α) : Prop := 0 ≤ x ∧ x ≤ 0
instance (x : α) : Decidable (isZero x) := by unfold isZero; exact inferInstance

/-- `utils.ylogydu`: `y log(y/u)`, and `0` where `y == 0` -/
def ylogydu (y u : α) : α := if isZero y then 0 else y * log (y / u)

/-- `scipy.special.xlogy`: `y log u`, and `0` where `y == 0` (used by `binom.logpmf`, `poisson.logpmf`) -/
def xlogy (y u : α) : α := if isZero y then 0 else y * log u

/-- body of `V` : normal `1`, binomial `mu (1 - mu/levels)`, poisson `mu`, gamma `mu²`, inverse gaussian `mu³` -/
def varFn : Family → α → α → α
  | .normal, _, _ => 1
  | .binomial, n, mu => mu * (1 - mu / n)
  | .poisson, _, mu => mu
  | .gamma, _, mu => mu * mu
  | .invGauss, _, mu => mu * mu * mu

/-- the dispersion a family object carries: `BinomialDist` and `PoissonDist` fix `scale=1.0` in their
constructors, the other three keep the caller's -/
def famScale : Family → α → α
  | .binomial, _ => 1
  | .poisson, _ => 1
  | _, s => s

/-- `divide_weights`: `V(mu) / weights` -/
def varFnW (fam : Family) (levels w mu : α) : α := varFn fam levels mu / w

/-- body of `deviance` before the optional division by the scale -/
def unitDeviance : Family → α → α → α → α
  | .normal, _, y, mu => (y - mu) * (y - mu)
  | .binomial, n, y, mu => two * (ylogydu y mu + ylogydu (n - y) (n - mu))
  | .poisson, _, y, mu => two * (ylogydu y mu - (y - mu))
  | .gamma, _, y, mu => two * ((y - mu) / mu - log (y / mu))
  | .invGauss, _, y, mu => ((y - mu) * (y - mu)) / (mu * mu * y)

/-- `deviance(y, mu, scaled, weights)`: `dev /= scale` if `scaled`, then `multiply_weights` -/
def deviance (fam : Family) (levels scale : α) (scaled : Bool) (w y mu : α) : α :=
  (if scaled then unitDeviance fam levels y mu / scale else unitDeviance fam levels y mu) * w

/-- the `mu`-dependent terms of `log_pdf(y, mu, weights)`:
* normal   : `norm.logpdf(y, loc=mu, scale=sd)`, `sd = (scale/w)**0.5`        ↦ `-z²/2`, `z = (y-mu)/sd`
* binomial : `binom.logpmf(y, n, p)`, `p = mu/n` (weights are ignored)        ↦ `xlogy(y,p) + xlogy(n-y, 1-p)`
* poisson  : `poisson.logpmf(y, mu*w)`                                        ↦ `xlogy(y, mu w) - mu w`
* gamma    : `gamma.logpdf(y, a=nu, scale=th)`, `nu = w/scale`, `th = mu/nu`  ↦ `-y/th - nu log th`
* inv.gauss: `invgauss.logpdf(y, m, scale=g)`, `g = w/scale`, `m = mu/g`      ↦ `-((x-m)/m)²/(2x)`, `x = y/g` -/
def logKernel : Family → α → α → α → α → α → α
  | .normal, _, scale, w, y, mu =>
      let sd := sqrt (scale / w)
      let z := (y - mu) / sd
      0 - z * z / two
  | .binomial, n, _, _, y, mu =>
      let p := mu / n
      xlogy y p + xlogy (n - y) (1 - p)
  | .poisson, _, _, w, y, mu =>
      let m := mu * w
      xlogy y m - m
  | .gamma, _, scale, w, y, mu =>
      let nu := w / scale
      let th := mu / nu
      0 - y / th - nu * log th
  | .invGauss, _, scale, w, y, mu =>
      let g := w / scale
      let m := mu / g
      let x := y / g
      0 - ((x - m) / m) * ((x - m) / m) / (two * x)

/-- log-density = `mu`-free normaliser `c` (`lgamma`, `log y`, `log 2π`, `log scale` terms) + kernel -/
def logDensity (c : α) (fam : Family) (levels scale w y mu : α) : α :=
  c + logKernel fam levels scale w y mu

/-- exact image of a natural number (`len(mu)`) -/
def natTo : Nat → α
  | 0 => 0
  | n+1 => natTo n + 1

/-- `np.sum(weights * self.V(mu) ** -1 * (y - mu) ** 2)` (here `V` is called without weights) -/
def pearson (fam : Family) (levels : α) (n : Nat) (w y mu : Nat → α) : α :=
  sumTo n (fun i => w i * (1 / varFn fam levels (mu i)) * ((y i - mu i) * (y i - mu i)))

/-- `Distribution.phi(y, mu, edof, weights)`: the supplied scale if there is one (`_known_scale`),
else the weighted Pearson statistic over `len(mu) - edof` -/
def phi (known : Option α) (fam : Family) (levels : α) (n : Nat) (edof : α) (w y mu : Nat → α) : α :=
  match known with
  | some s => s
  | none => pearson fam levels n w y mu / (natTo n - edof)

/-- one call of a NumPy sampler with its keyword arguments -/
inductive SamplerCall (α : Type)
  | normal (loc sd : α)          -- `np.random.normal(loc, scale)`
  | binomial (n p : α)           -- `np.random.binomial(n, p)`
  | poisson (lam : α)            -- `np.random.poisson(lam)`
  | gamma (shape scale : α)      -- `np.random.gamma(shape, scale)`
  | wald (mean scale : α)        -- `np.random.wald(mean, scale)`

/-- the arguments `<Family>Dist.sample(mu)` hands to the NumPy sampler; `none` = `TypeError`
(gamma / inverse gaussian with `scale=None`).  Binomial and Poisson have no free scale. -/
def samplerParams : Family → Option α → α → α → Option (SamplerCall α)
  | .normal, s, _, mu =>
      -- `self.scale**0.5 if self.scale else 1.0`
      let sd : α := match s with
        | some s => if isZero s then 1 else sqrt s
        | none => 1
      some (.normal mu sd)
  | .binomial, _, n, mu => some (.binomial n (mu / n))
  | .poisson, _, _, mu => some (.poisson mu)
  | .gamma, some s, _, mu =>
      let shape : α := 1 / s
      some (.gamma shape (mu / shape))
  | .gamma, none, _, _ => none
  | .invGauss, some s, _, mu => some (.wald mu (1 / s))
  | .invGauss, none, _, _ => none

/-- documented (mean, variance) of the NumPy samplers (NumPy reference, `numpy.random.*` notes):
normal `(loc, scale²)`, binomial `(np, np(1-p))`, poisson `(lam, lam)`, gamma `(kθ, kθ²)`,
wald `(mean, mean³/scale)`.  This table is the library contract (trusted, checked by draws in the thorough tier). -/
def moments : SamplerCall α → α × α
  | .normal loc sd => (loc, sd * sd)
  | .binomial n p => (n * p, n * p * (1 - p))
  | .poisson lam => (lam, lam)
  | .gamma k th => (k * th, k * th * th)
  | .wald m lam => (m, m * m * m / lam)

end defs
end PyGam
